#!/bin/sh
# Build the framework from files on disk only (offline): whole Coq development (full .vo),
# extracted model + OCaml driver, Rust harness against /repo with the hooks enabled.
set -e
cd "$(dirname "$0")"
export CARGO_NET_OFFLINE=true
mkdir -p .cache evidence out
python3 tools/gen_enums.py "${VERIF_REPO:-/repo}" coq/theories/Gen/Enums.v || true
( cd coq && coq_makefile -f _CoqProject -o Makefile >/dev/null && timeout 7200 make -j16 >/dev/null )
python3 - <<'PY'
import sys, os
sys.argv = ["check"]
sys.path.insert(0, "tools")
import importlib.machinery, importlib.util
loader = importlib.machinery.SourceFileLoader("check", "./check")
spec = importlib.util.spec_from_loader("check", loader)
m = importlib.util.module_from_spec(spec)
loader.exec_module(m)
ok, out = m.build_driver()
print("driver:", "ok" if ok else out)
ok2, out2 = m.build_harness()
print("harness:", "ok" if ok2 else out2)
sys.exit(0 if ok and ok2 else 1)
PY
