//! Lock-step runner for cfdp_daemon::segments::Segments (hook: cfdp_daemon::verif).
//! ops:  M a b | G s e | C n | L | E
use crate::rng::Rng;
use crate::util::{cases, Stats};
use cfdp_daemon::verif::Segments;
use std::io::Write;
use std::panic::{catch_unwind, AssertUnwindSafe};

fn fmt_list(v: &[(u64, u64)]) -> String {
    if v.is_empty() {
        return "-".to_string();
    }
    v.iter().map(|(a, b)| format!("({a},{b})")).collect::<Vec<_>>().join("")
}

/// reference: sorted disjoint non-adjacent union of all non-empty segments
fn norm(ops: &[(u64, u64)]) -> Vec<(u64, u64)> {
    let mut v: Vec<(u64, u64)> = ops.iter().cloned().filter(|(a, b)| a < b).collect();
    v.sort();
    let mut out: Vec<(u64, u64)> = Vec::new();
    for (a, b) in v {
        if let Some(last) = out.last_mut() {
            if a <= last.1 {
                if b > last.1 {
                    last.1 = b;
                }
                continue;
            }
        }
        out.push((a, b));
    }
    out
}
fn total(v: &[(u64, u64)]) -> u128 {
    v.iter().map(|(a, b)| (*b - *a) as u128).sum()
}
fn ref_gaps(n: &[(u64, u64)], s: u64, e: u64) -> Vec<(u64, u64)> {
    let mut out = Vec::new();
    let mut p = s;
    for (a, b) in n {
        if *b <= p {
            continue;
        }
        if *a >= e {
            break;
        }
        if *a > p {
            out.push((p, *a));
        }
        p = *b;
        if p >= e {
            break;
        }
    }
    if p < e {
        out.push((p, e));
    }
    out
}
fn ref_complete(n: &[(u64, u64)], size: u64) -> bool {
    size == 0 || n.first().map_or(false, |(a, b)| *a == 0 && *b >= size)
}

pub fn run(ops: &str, out: &mut impl Write, orc: &mut impl Write) {
    for (hdr, lines) in cases(ops) {
        let id = &hdr[0];
        writeln!(out, "CASE {id}").unwrap();
        let mut s = Segments::new();
        let mut hist: Vec<(u64, u64)> = Vec::new();
        let mut progress: u128 = 0;
        for (i, l) in lines.iter().enumerate() {
            let t: Vec<&str> = l.split_whitespace().collect();
            let n = |k: usize| -> u64 { t[k].parse().unwrap() };
            match t[0] {
                "M" => {
                    let (a, b) = (n(1), n(2));
                    let before = total(&norm(&hist));
                    match catch_unwind(AssertUnwindSafe(|| s.merge((a, b)))) {
                        Ok(r) => {
                            writeln!(out, "{r}").unwrap();
                            hist.push((a, b));
                            progress += r as u128;
                            let after = total(&norm(&hist));
                            if r as u128 != after - before {
                                writeln!(orc, "FAIL C09 case={id} op={i} merge({a},{b}) returned {r}, new distinct bytes {}", after - before).unwrap();
                                // the receiver's progress figure is the running sum of these return values
                                writeln!(orc, "FAIL C20 case={id} op={i} merge({a},{b}) returned {r} (added to the receiver's progress), new distinct bytes {}", after - before).unwrap();
                            }
                            if progress != after {
                                writeln!(orc, "FAIL C09 case={id} op={i} running progress {progress} but {after} distinct bytes held").unwrap();
                            }
                        }
                        Err(_) => {
                            writeln!(out, "PANIC").unwrap();
                            if a < b {
                                writeln!(orc, "FAIL C09 case={id} op={i} merge({a},{b}) panicked").unwrap();
                            }
                        }
                    }
                }
                "G" => {
                    let (a, b) = (n(1), n(2));
                    match catch_unwind(AssertUnwindSafe(|| s.gaps(a, b))) {
                        Ok(g) => {
                            writeln!(out, "{}", fmt_list(&g)).unwrap();
                            let want = ref_gaps(&norm(&hist), a, b);
                            if g != want {
                                writeln!(orc, "FAIL C09 case={id} op={i} gaps({a},{b}) = {} but the maximal uncovered ranges are {}", fmt_list(&g), fmt_list(&want)).unwrap();
                            }
                        }
                        Err(_) => {
                            writeln!(out, "PANIC").unwrap();
                            writeln!(orc, "FAIL C09 case={id} op={i} gaps({a},{b}) panicked").unwrap();
                        }
                    }
                }
                "C" => {
                    let a = n(1);
                    let r = s.is_complete(a);
                    writeln!(out, "{r}").unwrap();
                    let want = ref_complete(&norm(&hist), a);
                    if r != want {
                        writeln!(orc, "FAIL C09 case={id} op={i} is_complete({a}) = {r} but every byte of [0,{a}) held = {want}").unwrap();
                    }
                }
                "L" => writeln!(out, "{}", s.len()).unwrap(),
                "E" => match s.end() {
                    Some(e) => writeln!(out, "{e} {}", s.end_or_0()).unwrap(),
                    None => writeln!(out, "none {}", s.end_or_0()).unwrap(),
                },
                other => panic!("segments: unknown op {other}"),
            }
        }
    }
}

fn universe_point(rng: &mut Rng, uni: u64) -> u64 {
    match uni {
        0 => rng.below(13),                                  // 12 positions
        1 => rng.below(1 << 16),                             // 2^16
        2 => (1u64 << 32) - 40 + rng.below(80),              // around 2^32
        _ => u64::MAX - rng.below(60),                       // up to 2^64-1
    }
}

fn queries(w: &mut impl Write, rng: &mut Rng, uni: u64, pts: &[u64], stats: &mut Stats) {
    // window and completeness queries over a grid made of the points used so far
    let mut grid: Vec<u64> = pts.to_vec();
    grid.push(0);
    for _ in 0..3 {
        grid.push(universe_point(rng, uni));
    }
    grid.sort();
    grid.dedup();
    let k = grid.len().min(7);
    for _ in 0..k {
        let a = *rng.pick(&grid);
        let b = *rng.pick(&grid);
        // mostly s <= e, sometimes an inverted window
        let (s, e) = if a <= b || rng.chance(1, 10) { (a, b) } else { (b, a) };
        writeln!(w, "G {s} {e}").unwrap();
        stats.inc(if s <= e { "op_gaps" } else { "op_gaps_inverted" });
    }
    for _ in 0..3 {
        writeln!(w, "C {}", rng.pick(&grid)).unwrap();
        stats.inc("op_complete");
    }
    writeln!(w, "L").unwrap();
    writeln!(w, "E").unwrap();
}

pub fn gen(seed: u64, tier: &str, w: &mut impl Write, stats: &mut Stats) {
    let mut rng = Rng::new(seed ^ 0x5E6);
    let n_random = if tier == "thorough" { 100_000 } else { 4_000 };
    let mut case = 0u64;
    // bounded exhaustive (thorough): every sequence of L <= 4 segments over 7 positions
    if tier == "thorough" {
        let mut segs = Vec::new();
        for a in 0..7u64 {
            for b in (a + 1)..8u64 {
                segs.push((a, b));
            }
        }
        let k = segs.len(); // 28
        let mut idx = vec![0usize; 4];
        for len in 1..=4usize {
            let count = k.pow(len as u32);
            for c in 0..count {
                let mut x = c;
                for i in 0..len {
                    idx[i] = x % k;
                    x /= k;
                }
                writeln!(w, "CASE x{case} exhaustive").unwrap();
                case += 1;
                for i in 0..len {
                    writeln!(w, "M {} {}", segs[idx[i]].0, segs[idx[i]].1).unwrap();
                }
                // every window and completeness query on the final state
                for s in 0..8u64 {
                    for e in s..9u64 {
                        writeln!(w, "G {s} {e}").unwrap();
                    }
                }
                for n in 0..9u64 {
                    writeln!(w, "C {n}").unwrap();
                }
                writeln!(w, "L").unwrap();
                writeln!(w, "E").unwrap();
                stats.inc("cases_exhaustive");
            }
        }
    } else {
        // quick: every sequence of L <= 2 segments over 5 positions with every query
        let mut segs = Vec::new();
        for a in 0..5u64 {
            for b in (a + 1)..6u64 {
                segs.push((a, b));
            }
        }
        for x in 0..segs.len() {
            for y in 0..segs.len() {
                for z in 0..segs.len() {
                    writeln!(w, "CASE x{case} exhaustive").unwrap();
                    case += 1;
                    for sg in [segs[x], segs[y], segs[z]] {
                        writeln!(w, "M {} {}", sg.0, sg.1).unwrap();
                    }
                    for s in 0..6u64 {
                        for e in s..7u64 {
                            writeln!(w, "G {s} {e}").unwrap();
                        }
                    }
                    for n in 0..7u64 {
                        writeln!(w, "C {n}").unwrap();
                    }
                    writeln!(w, "L").unwrap();
                    writeln!(w, "E").unwrap();
                    stats.inc("cases_exhaustive");
                }
            }
        }
    }
    for _ in 0..n_random {
        let (sub, mut r) = rng.fork();
        let uni = r.below(4);
        stats.inc(&format!("universe_{uni}"));
        writeln!(w, "CASE r{case} sub={sub} uni={uni}").unwrap();
        case += 1;
        let len = 1 + r.below(40);
        let mut pts: Vec<u64> = Vec::new();
        for _ in 0..len {
            let a = universe_point(&mut r, uni);
            let b = universe_point(&mut r, uni);
            let (a, b) = if r.chance(1, 25) {
                (a.max(b), a.min(b)) // malformed: empty or inverted, the code must panic
            } else if a < b {
                (a, b)
            } else if b < a {
                (b, a)
            } else if a < u64::MAX {
                (a, a + 1)
            } else {
                (a - 1, a)
            };
            writeln!(w, "M {a} {b}").unwrap();
            stats.inc(if a < b { "op_merge" } else { "op_merge_invalid" });
            pts.push(a);
            pts.push(b);
            if r.chance(1, 4) {
                queries(w, &mut r, uni, &pts, stats);
            }
        }
        queries(w, &mut r, uni, &pts, stats);
        stats.inc("cases_random");
    }
}
