//! Lock-step runners for the real RecvTransaction / SendTransaction (components `recv`, `send`).
//!
//! CASE <id> key=value ...   (configuration, see `Cfg::parse`)
//! ops:  ADV <ms> | PDU <pdu text> | SEND | TIMEOUT | CANCEL | SUSPEND | RESUME | REPORT | ABANDON | PROMPT N|K
//! One observation line per op:
//!   <ok|unexpected|err|PANIC> P[<pdu>;..] I[<ind>;..] st=<A|S|T> hp=<0|1> ut=<ms|MAX> pr=<progress> D=<hex|none>
use crate::txgen;
use crate::util::{cases, hex, unhex};
use camino::Utf8PathBuf;
use cfdp_core::{
    daemon::{Indication, NakProcedure},
    filestore::{ChecksumType, NativeFileStore},
    pdu::*,
    transaction::{Metadata, TransactionConfig, TransactionState},
};
use cfdp_daemon::transaction::{RecvTransaction, SendTransaction, TransactionError};
use std::collections::HashMap;
use std::io::Write;
use std::panic::{catch_unwind, AssertUnwindSafe};
use std::sync::Arc;
use std::time::Duration;
use tokio::sync::mpsc;

pub const CONDS: [(u8, Condition); 14] = [
    (0, Condition::NoError),
    (1, Condition::PositiveLimitReached),
    (2, Condition::KeepAliveLimitReached),
    (3, Condition::InvalidTransmissionMode),
    (4, Condition::FileStoreRejection),
    (5, Condition::FileChecksumFailure),
    (6, Condition::FilesizeError),
    (7, Condition::NakLimitReached),
    (8, Condition::InactivityDetected),
    (9, Condition::InvalidFileStructure),
    (10, Condition::CheckLimitReached),
    (11, Condition::UnsupportedChecksumType),
    (14, Condition::SuspendReceived),
    (15, Condition::CancelReceived),
];
pub fn cond_of(c: u8) -> Condition {
    CONDS.iter().find(|x| x.0 == c).expect("condition code").1
}
pub fn action_of(c: &str) -> FaultHandlerAction {
    match c {
        "C" => FaultHandlerAction::Cancel,
        "S" => FaultHandlerAction::Suspend,
        "I" => FaultHandlerAction::Ignore,
        "A" => FaultHandlerAction::Abandon,
        _ => panic!("action {c}"),
    }
}
pub(crate) fn state_ch(s: TransactionState) -> &'static str {
    match s {
        TransactionState::Active => "A",
        TransactionState::Suspended => "S",
        TransactionState::Terminated => "T",
    }
}
fn dir_ch(d: &PDUDirective) -> &'static str {
    match d {
        PDUDirective::EoF => "E",
        PDUDirective::Finished => "F",
        _ => "X",
    }
}
fn id_num(v: &VariableID) -> u64 {
    v.to_u64()
}
fn opt_id(v: &Option<VariableID>) -> String {
    match v {
        Some(x) => id_num(x).to_string(),
        None => "-".to_string(),
    }
}

#[derive(Clone)]
pub struct Cfg {
    pub mode: TransmissionMode,
    pub nak: NakProcedure,
    pub seg: u16,
    pub large: bool,
    pub crc: bool,
    pub maxc: u32,
    pub ti: i64,
    pub ta: i64,
    pub tn: i64,
    pub handlers: HashMap<Condition, FaultHandlerAction>,
    pub closure: bool,
    pub ck: ChecksumType,
    pub src: String,
    pub dst: String,
    pub file: Vec<u8>,
    pub idw: u8,
    pub truth: Option<Vec<u8>>,
    /// names created by the filestore requests of the script's Metadata PDU (C13 oracle)
    pub reqs: Vec<String>,
    /// a file of this many bytes already exists under the destination name (receiver scripts)
    pub pre: Option<usize>,
}
impl Cfg {
    pub fn parse(hdr: &[String]) -> Cfg {
        let mut c = Cfg {
            mode: TransmissionMode::Acknowledged,
            nak: NakProcedure::Deferred(Duration::ZERO),
            seg: 32,
            large: false,
            crc: false,
            maxc: 3,
            ti: 10,
            ta: 3,
            tn: 4,
            handlers: HashMap::new(),
            closure: false,
            ck: ChecksumType::Modular,
            src: "s".into(),
            dst: "d".into(),
            file: vec![],
            idw: 1,
            truth: None,
            reqs: vec![],
            pre: None,
        };
        for kv in &hdr[1..] {
            let Some((k, v)) = kv.split_once('=') else { continue };
            match k {
                "mode" => c.mode = if v == "A" { TransmissionMode::Acknowledged } else { TransmissionMode::Unacknowledged },
                "nak" => {
                    let d = Duration::from_millis(v[1..].parse().unwrap());
                    c.nak = if v.starts_with('I') { NakProcedure::Immediate(d) } else { NakProcedure::Deferred(d) }
                }
                "seg" => c.seg = v.parse().unwrap(),
                "large" => c.large = v == "1",
                "crc" => c.crc = v == "1",
                "maxc" => c.maxc = v.parse().unwrap(),
                "ti" => c.ti = v.parse().unwrap(),
                "ta" => c.ta = v.parse().unwrap(),
                "tn" => c.tn = v.parse().unwrap(),
                "h" => {
                    for item in v.split(',').filter(|x| !x.is_empty()) {
                        let (a, b) = item.split_once(':').unwrap();
                        c.handlers.insert(cond_of(a.parse().unwrap()), action_of(b));
                    }
                }
                "closure" => c.closure = v == "1",
                "ck" => c.ck = if v == "M" { ChecksumType::Modular } else { ChecksumType::Null },
                "src" => c.src = String::from_utf8(unhex(v)).unwrap(),
                "dst" => c.dst = String::from_utf8(unhex(v)).unwrap(),
                "file" => c.file = unhex(v),
                "idw" => c.idw = v.parse().unwrap(),
                "truth" => c.truth = Some(unhex(v)),
                "pre" => c.pre = Some(v.parse().unwrap()),
                "reqs" => c.reqs = v.split(',').filter(|x| !x.is_empty()).map(|x| x.to_string()).collect(),
                _ => {}
            }
        }
        c
    }
    fn id(&self, n: u64) -> VariableID {
        match self.idw {
            1 => VariableID::from(n as u8),
            2 => VariableID::from(n as u16),
            4 => VariableID::from(n as u32),
            _ => VariableID::from(n),
        }
    }
    pub fn tconfig(&self) -> TransactionConfig {
        TransactionConfig {
            source_entity_id: self.id(1),
            destination_entity_id: self.id(2),
            transmission_mode: self.mode,
            sequence_number: self.id(7),
            file_size_flag: if self.large { FileSizeFlag::Large } else { FileSizeFlag::Small },
            fault_handler_override: self.handlers.clone(),
            file_size_segment: self.seg,
            crc_flag: if self.crc { CRCFlag::Present } else { CRCFlag::NotPresent },
            segment_metadata_flag: SegmentedData::NotPresent,
            max_count: self.maxc,
            inactivity_timeout: self.ti,
            ack_timeout: self.ta,
            nak_timeout: self.tn,
        }
    }
    fn header(&self, to_receiver: bool, file_data: bool, len: u16) -> PDUHeader {
        PDUHeader {
            version: U3::One,
            pdu_type: if file_data { PDUType::FileData } else { PDUType::FileDirective },
            direction: if to_receiver { Direction::ToReceiver } else { Direction::ToSender },
            transmission_mode: self.mode,
            crc_flag: if self.crc { CRCFlag::Present } else { CRCFlag::NotPresent },
            large_file_flag: if self.large { FileSizeFlag::Large } else { FileSizeFlag::Small },
            pdu_data_field_length: len,
            segmentation_control: SegmentationControl::NotPreserved,
            segment_metadata_flag: SegmentedData::NotPresent,
            source_entity_id: self.id(1),
            transaction_sequence_number: self.id(7),
            destination_entity_id: self.id(2),
        }
    }
}

// ---------------------------------------------------------------- PDU text

/// A filestore response is printed as the request it answers (action, names): the transaction models
/// decide when and in which order requests run and how responses are reported, not what a request does;
/// status and message are checked by the C13 oracle on the real values.
pub fn resp_canon(r: &FileStoreResponse) -> Vec<u8> {
    let mut b = vec![r.action_and_status.as_u8() & 0xF0];
    let f1 = r.first_filename.as_str().as_bytes();
    b.push(f1.len() as u8);
    b.extend(f1);
    let f2 = r.second_filename.as_str().as_bytes();
    b.push(f2.len() as u8);
    b.extend(f2);
    b
}

pub fn payload_text(p: &PDUPayload) -> String {
    match p {
        PDUPayload::FileData(FileDataPDU::Unsegmented(d)) => format!("FD {} {}", d.offset, hex(&d.file_data)),
        PDUPayload::FileData(FileDataPDU::Segmented(d)) => format!("FDS {} {}", d.offset, hex(&d.file_data)),
        PDUPayload::Directive(op) => match op {
            Operations::EoF(e) => format!("EOF {} {} {} {}", e.condition as u8, e.checksum, e.file_size, opt_id(&e.fault_location)),
            Operations::Finished(f) => {
                let mut s = format!(
                    "FIN {} {} {} {} {}",
                    f.condition as u8,
                    f.delivery_code as u8,
                    f.file_status as u8,
                    opt_id(&f.fault_location),
                    f.filestore_response.len()
                );
                for r in &f.filestore_response {
                    s.push(' ');
                    s.push_str(&hex(&resp_canon(r)));
                }
                s
            }
            Operations::Ack(a) => format!(
                "ACK {} {} {} {}",
                dir_ch(&a.directive),
                if a.directive_subtype_code == ACKSubDirective::Finished { "F" } else { "O" },
                a.condition as u8,
                a.transaction_status as u8
            ),
            Operations::Metadata(m) => {
                let reqs: Vec<String> = m
                    .options
                    .iter()
                    .filter_map(|o| match o {
                        MetadataTLV::FileStoreRequest(r) => Some(hex(&r.clone().encode())),
                        _ => None,
                    })
                    .collect();
                let msgs: Vec<String> = m
                    .options
                    .iter()
                    .filter_map(|o| match o {
                        MetadataTLV::MessageToUser(r) => Some(hex(&r.message_text)),
                        _ => None,
                    })
                    .collect();
                let mut s = format!(
                    "MD {} {} {} {} {} {}",
                    m.closure_requested as u8,
                    if m.checksum_type == ChecksumType::Modular { "M" } else { "N" },
                    m.file_size,
                    hex(m.source_filename.as_str().as_bytes()),
                    hex(m.destination_filename.as_str().as_bytes()),
                    reqs.len()
                );
                for r in &reqs {
                    s.push(' ');
                    s.push_str(r);
                }
                s.push_str(&format!(" {}", msgs.len()));
                for r in &msgs {
                    s.push(' ');
                    s.push_str(r);
                }
                s
            }
            Operations::Nak(n) => {
                let mut s = format!("NAK {} {} {}", n.start_of_scope, n.end_of_scope, n.segment_requests.len());
                for r in &n.segment_requests {
                    s.push_str(&format!(" {}-{}", r.start_offset, r.end_offset));
                }
                s
            }
            Operations::Prompt(p) => format!("PR {}", if p.nak_or_keep_alive == NakOrKeepAlive::Nak { "N" } else { "K" }),
            Operations::KeepAlive(k) => format!("KA {}", k.progress),
        },
    }
}

pub fn parse_payload(t: &[&str]) -> PDUPayload {
    let n = |k: usize| -> u64 { t[k].parse().unwrap() };
    match t[0] {
        "FD" => PDUPayload::FileData(FileDataPDU::Unsegmented(UnsegmentedFileData { offset: n(1), file_data: unhex(t[2]) })),
        "EOF" => PDUPayload::Directive(Operations::EoF(EndOfFile {
            condition: cond_of(n(1) as u8),
            checksum: n(2) as u32,
            file_size: n(3),
            fault_location: if t[4] == "-" { None } else { Some(VariableID::from(n(4) as u8)) },
        })),
        "FIN" => {
            let k = n(5) as usize;
            let mut resps = Vec::new();
            for i in 0..k {
                // a response is written (as it is printed) as the request it answers; status Successful
                let b = unhex(t[6 + i]);
                let rq = FileStoreRequest::decode(&mut b.as_slice()).expect("response (request form) hex");
                resps.push(FileStoreResponse {
                    action_and_status: FileStoreStatus::get_status(&rq.action_code, 0).expect("status 0"),
                    first_filename: rq.first_filename,
                    second_filename: rq.second_filename,
                    filestore_message: vec![],
                });
            }
            PDUPayload::Directive(Operations::Finished(Finished {
                condition: cond_of(n(1) as u8),
                delivery_code: if n(2) == 0 { DeliveryCode::Complete } else { DeliveryCode::Incomplete },
                file_status: match n(3) {
                    0 => FileStatusCode::Discarded,
                    1 => FileStatusCode::FileStoreRejection,
                    2 => FileStatusCode::Retained,
                    _ => FileStatusCode::Unreported,
                },
                filestore_response: resps,
                fault_location: if t[4] == "-" { None } else { Some(VariableID::from(n(4) as u8)) },
            }))
        }
        "ACK" => PDUPayload::Directive(Operations::Ack(PositiveAcknowledgePDU {
            directive: match t[1] {
                "E" => PDUDirective::EoF,
                "F" => PDUDirective::Finished,
                _ => PDUDirective::Metadata,
            },
            directive_subtype_code: if t[2] == "F" { ACKSubDirective::Finished } else { ACKSubDirective::Other },
            condition: cond_of(n(3) as u8),
            transaction_status: match n(4) {
                0 => TransactionStatus::Undefined,
                1 => TransactionStatus::Active,
                2 => TransactionStatus::Terminated,
                _ => TransactionStatus::Unrecognized,
            },
        })),
        "MD" => {
            let nreq = n(6) as usize;
            let mut options = Vec::new();
            for i in 0..nreq {
                let b = unhex(t[7 + i]);
                options.push(MetadataTLV::FileStoreRequest(FileStoreRequest::decode(&mut b.as_slice()).expect("request hex")));
            }
            let nmsg = n(7 + nreq) as usize;
            for i in 0..nmsg {
                options.push(MetadataTLV::MessageToUser(MessageToUser { message_text: unhex(t[8 + nreq + i]) }));
            }
            PDUPayload::Directive(Operations::Metadata(MetadataPDU {
                closure_requested: n(1) == 1,
                checksum_type: if t[2] == "M" { ChecksumType::Modular } else { ChecksumType::Null },
                file_size: n(3),
                source_filename: Utf8PathBuf::from(String::from_utf8(unhex(t[4])).unwrap()),
                destination_filename: Utf8PathBuf::from(String::from_utf8(unhex(t[5])).unwrap()),
                options,
            }))
        }
        "NAK" => {
            let k = n(3) as usize;
            let mut reqs = Vec::new();
            for i in 0..k {
                let (a, b) = t[4 + i].split_once('-').unwrap();
                reqs.push(SegmentRequestForm { start_offset: a.parse().unwrap(), end_offset: b.parse().unwrap() });
            }
            PDUPayload::Directive(Operations::Nak(NegativeAcknowledgmentPDU { start_of_scope: n(1), end_of_scope: n(2), segment_requests: reqs }))
        }
        "PR" => PDUPayload::Directive(Operations::Prompt(PromptPDU {
            nak_or_keep_alive: if t[1] == "N" { NakOrKeepAlive::Nak } else { NakOrKeepAlive::KeepAlive },
        })),
        "KA" => PDUPayload::Directive(Operations::KeepAlive(KeepAlivePDU { progress: n(1) })),
        other => panic!("pdu kind {other}"),
    }
}

pub(crate) fn pdu_out_text(dest: &VariableID, pdu: &PDU) -> String {
    format!(
        "{},{},{},{}",
        if pdu.header.direction == Direction::ToReceiver { "R" } else { "S" },
        pdu.header.pdu_data_field_length,
        id_num(dest),
        payload_text(&pdu.payload)
    )
}

pub(crate) fn ind_text(i: &Indication) -> String {
    match i {
        Indication::Transaction(_) => "TX".into(),
        Indication::EoFSent(_) => "EOFSENT".into(),
        Indication::EoFRecv(_) => "EOFRECV".into(),
        Indication::Finished(f) => {
            let mut s = format!(
                "FIN {} {} {} {} {} {}",
                state_ch(f.report.state),
                f.report.status as u8,
                f.report.condition as u8,
                f.file_status as u8,
                f.delivery_code as u8,
                f.filestore_responses.len()
            );
            for r in &f.filestore_responses {
                s.push(' ');
                s.push_str(&hex(&resp_canon(r)));
            }
            s
        }
        Indication::MetadataRecv(m) => {
            let mut s = format!(
                "MDR {} {} {} {}",
                hex(m.source_filename.as_str().as_bytes()),
                hex(m.destination_filename.as_str().as_bytes()),
                m.file_size,
                m.user_messages.len()
            );
            for r in &m.user_messages {
                s.push(' ');
                s.push_str(&hex(&r.message_text));
            }
            s
        }
        Indication::FileSegmentRecv(f) => format!("SEG {} {}", f.offset, f.length),
        Indication::Suspended(x) => format!("SUSP {}", x.condition as u8),
        Indication::Resumed(x) => format!("RES {}", x.progress),
        Indication::Report(r) => format!("REP {} {} {}", state_ch(r.state), r.status as u8, r.condition as u8),
        Indication::Fault(f) => format!("FAULT {} {}", f.condition as u8, f.progress),
        Indication::Abandon(f) => format!("ABANDON {} {}", f.condition as u8, f.progress),
    }
}

pub(crate) fn ut_text(d: Duration) -> String {
    if d == Duration::MAX {
        "MAX".into()
    } else {
        d.as_millis().to_string()
    }
}

pub struct Obs {
    pub res: String,
    pub pdus: Vec<(VariableID, PDU)>,
    pub inds: Vec<Indication>,
    pub st: TransactionState,
    pub hp: bool,
    pub ut: Duration,
    pub pr: u64,
    pub dest: Option<Vec<u8>>,
    pub idle: Option<(usize, u64)>,
    /// not printed: which of the names of cfg.reqs exist in the filestore (C13 oracle)
    pub req_exists: Vec<bool>,
}
impl Obs {
    pub fn line(&self) -> String {
        let p: Vec<String> = self.pdus.iter().map(|(d, p)| pdu_out_text(d, p)).collect();
        let i: Vec<String> = self.inds.iter().map(ind_text).collect();
        format!(
            "{}{} P[{}] I[{}] st={} hp={} ut={} pr={} D={}",
            self.res,
            match self.idle {
                Some((it, ms)) => format!(" idle={it}/{ms}"),
                None => String::new(),
            },
            p.join(";"),
            i.join(";"),
            state_ch(self.st),
            self.hp as u8,
            ut_text(self.ut),
            self.pr,
            match &self.dest {
                Some(b) => hex(b),
                None => "none".into(),
            }
        )
    }
}

enum Tx {
    R(RecvTransaction<NativeFileStore>),
    S(SendTransaction<NativeFileStore>),
}

pub(crate) fn res_text(r: Result<Result<(), TransactionError>, Box<dyn std::any::Any + Send>>) -> String {
    match r {
        Ok(Ok(())) => "ok".into(),
        Ok(Err(TransactionError::UnexpectedPDU(..))) => "unexpected".into(),
        Ok(Err(_)) => "err".into(),
        Err(_) => "PANIC".into(),
    }
}

pub(crate) async fn drain(ind_rx: &mut mpsc::Receiver<Indication>, inds: &mut Vec<Indication>) {
    let mut idle = 0;
    while idle < 3 {
        tokio::task::yield_now().await;
        let mut got = false;
        while let Ok(i) = ind_rx.try_recv() {
            inds.push(i);
            got = true;
        }
        if got {
            idle = 0
        } else {
            idle += 1
        }
    }
}

/// run all cases of an ops file against the real transaction objects
pub fn run(ops: &str, is_recv: bool, out: &mut impl Write, orc: &mut impl Write) {
    let rt = tokio::runtime::Builder::new_current_thread().enable_time().start_paused(true).build().unwrap();
    rt.block_on(async {
        for (hdr, lines) in cases(ops) {
            let id = hdr[0].clone();
            writeln!(out, "CASE {id}").unwrap();
            let cfg = Cfg::parse(&hdr);
            let dir = tempfile::tempdir().unwrap();
            let root = Utf8PathBuf::from_path_buf(dir.path().to_path_buf()).unwrap();
            let filestore = Arc::new(NativeFileStore::new(&root));
            let (ind_tx, mut ind_rx) = mpsc::channel::<Indication>(4096);
            let (pdu_tx, mut pdu_rx) = mpsc::channel::<(VariableID, PDU)>(64);
            let mut inds0: Vec<Indication> = Vec::new();
            let mut tx = if is_recv {
                if let Some(n) = cfg.pre {
                    // an older, longer file under the destination name: a delivery replaces it entirely
                    let _ = std::fs::write(root.join(&cfg.dst), vec![0xEEu8; n]);
                }
                Tx::R(RecvTransaction::new(cfg.tconfig(), cfg.nak, filestore.clone(), ind_tx))
            } else {
                std::fs::write(root.join(&cfg.src), &cfg.file).unwrap();
                let md = Metadata {
                    source_filename: Utf8PathBuf::from(cfg.src.clone()),
                    destination_filename: Utf8PathBuf::from(cfg.dst.clone()),
                    file_size: cfg.file.len() as u64,
                    filestore_requests: vec![],
                    message_to_user: vec![],
                    closure_requested: cfg.closure,
                    checksum_type: cfg.ck,
                };
                let mut c = cfg.tconfig();
                c.file_size_flag = if cfg.large { FileSizeFlag::Large } else { FileSizeFlag::Small };
                Tx::S(SendTransaction::new(c, md, filestore.clone(), ind_tx).unwrap())
            };
            drain(&mut ind_rx, &mut inds0).await;
            let mut oracle = txgen::Oracle::new(&cfg, is_recv, &id);
            oracle.initial(&inds0);
            let mut stop = false;
            for (k, l) in lines.iter().enumerate() {
                if stop {
                    writeln!(out, "skipped").unwrap();
                    continue;
                }
                let t: Vec<&str> = l.split_whitespace().collect();
                let mut idle_pdus: Vec<(VariableID, PDU)> = Vec::new();
                let mut idle_info: Option<(usize, u64)> = None;
                let res: String = match t[0] {
                    "ADV" => {
                        tokio::time::advance(Duration::from_millis(t[1].parse().unwrap())).await;
                        "ok".into()
                    }
                    "PDU" => {
                        let payload = parse_payload(&t[1..]);
                        let is_fd = matches!(payload, PDUPayload::FileData(_));
                        let len = payload.encoded_len(if cfg.large { FileSizeFlag::Large } else { FileSizeFlag::Small });
                        let pdu = PDU { header: cfg.header(is_recv, is_fd, len), payload };
                        res_text(catch_unwind(AssertUnwindSafe(|| match &mut tx {
                            Tx::R(x) => x.process_pdu(pdu),
                            Tx::S(x) => x.process_pdu(pdu),
                        })))
                    }
                    "SEND" => {
                        let hp = match &tx {
                            Tx::R(x) => x.verif_has_pdu_to_send(),
                            Tx::S(x) => x.verif_has_pdu_to_send(),
                        };
                        if hp {
                            let permit = pdu_tx.reserve().await.unwrap();
                            res_text(catch_unwind(AssertUnwindSafe(|| match &mut tx {
                                Tx::R(x) => x.verif_send_pdu(permit),
                                Tx::S(x) => x.verif_send_pdu(permit),
                            })))
                        } else {
                            "ok".into()
                        }
                    }
                    "TIMEOUT" => {
                        // the timeout arm of the select! loop: enabled once sleep(until_timeout) has elapsed
                        let due = match &tx {
                            Tx::R(x) => x.verif_until_timeout(),
                            Tx::S(x) => x.verif_until_timeout(),
                        } == Duration::ZERO;
                        if due {
                            res_text(catch_unwind(AssertUnwindSafe(|| match &mut tx {
                                Tx::R(x) => x.handle_timeout(),
                                Tx::S(x) => x.handle_timeout(),
                            })))
                        } else {
                            "ok".into()
                        }
                    }
                    "CANCEL" => res_text(catch_unwind(AssertUnwindSafe(|| match &mut tx {
                        Tx::R(x) => x.cancel(),
                        Tx::S(x) => x.cancel(),
                    }))),
                    "SUSPEND" => res_text(catch_unwind(AssertUnwindSafe(|| match &mut tx {
                        Tx::R(x) => x.suspend(),
                        Tx::S(x) => x.suspend(),
                    }))),
                    "RESUME" => res_text(catch_unwind(AssertUnwindSafe(|| match &mut tx {
                        Tx::R(x) => x.resume(),
                        Tx::S(x) => x.resume(),
                    }))),
                    "REPORT" => res_text(catch_unwind(AssertUnwindSafe(|| match &mut tx {
                        Tx::R(x) => x.send_report(None),
                        Tx::S(x) => x.send_report(None),
                    }))),
                    "ABANDON" => {
                        match &mut tx {
                            Tx::R(x) => x.shutdown(),
                            Tx::S(x) => x.shutdown(),
                        };
                        "ok".into()
                    }
                    "PROMPT" => {
                        if let Tx::S(x) = &mut tx {
                            x.verif_prepare_prompt(if t[1] == "N" { NakOrKeepAlive::Nak } else { NakOrKeepAlive::KeepAlive });
                        }
                        "ok".into()
                    }
                    "IDLE" => {
                        // the select! loop left alone (no command arrives): send arm while there is something to
                        // send, else sleep until the next deadline and run the timeout arm; at most k iterations
                        let k: usize = t[1].parse().unwrap();
                        let mut it = 0usize;
                        let mut r = "ok".to_string();
                        let t_begin = tokio::time::Instant::now();
                        while it < k {
                            let (st0, hp0, ut0) = match &tx {
                                Tx::R(x) => (x.verif_get_state(), x.verif_has_pdu_to_send(), x.verif_until_timeout()),
                                Tx::S(x) => (x.verif_get_state(), x.verif_has_pdu_to_send(), x.verif_until_timeout()),
                            };
                            if st0 == TransactionState::Terminated {
                                break;
                            }
                            if hp0 {
                                let permit = pdu_tx.reserve().await.unwrap();
                                r = res_text(catch_unwind(AssertUnwindSafe(|| match &mut tx {
                                    Tx::R(x) => x.verif_send_pdu(permit),
                                    Tx::S(x) => x.verif_send_pdu(permit),
                                })));
                            } else if ut0 != Duration::MAX {
                                tokio::time::advance(ut0).await;
                                r = res_text(catch_unwind(AssertUnwindSafe(|| match &mut tx {
                                    Tx::R(x) => x.handle_timeout(),
                                    Tx::S(x) => x.handle_timeout(),
                                })));
                            } else {
                                break; // nothing to send, no timer: the loop would wait for a command forever
                            }
                            it += 1;
                            if r != "ok" {
                                break;
                            }
                            // keep the PDU channel from filling up
                            while let Ok(p) = pdu_rx.try_recv() {
                                idle_pdus.push(p);
                            }
                        }
                        idle_info = Some((it, t_begin.elapsed().as_millis() as u64));
                        r
                    }
                    other => panic!("tx op {other}"),
                };
                let mut inds = Vec::new();
                drain(&mut ind_rx, &mut inds).await;
                let mut pdus = Vec::new();
                pdus.append(&mut idle_pdus);
                while let Ok(p) = pdu_rx.try_recv() {
                    pdus.push(p);
                }
                let (st, hp, ut, pr) = match &tx {
                    Tx::R(x) => (x.verif_get_state(), x.verif_has_pdu_to_send(), x.verif_until_timeout(), x.verif_progress()),
                    Tx::S(x) => (x.verif_get_state(), x.verif_has_pdu_to_send(), x.verif_until_timeout(), x.verif_progress()),
                };
                let dest = if is_recv { std::fs::read(root.join(&cfg.dst)).ok() } else { None };
                let req_exists: Vec<bool> = cfg.reqs.iter().map(|n| root.join(n).exists()).collect();
                let obs = Obs { res: res.clone(), pdus, inds, st, hp, ut, pr, dest, idle: idle_info, req_exists };
                writeln!(out, "{}", obs.line()).unwrap();
                oracle.step(k, l, &obs, orc);
                // the transaction's select! loop ends on a fatal error and when the state is Terminated
                if res == "err" || res == "PANIC" || st == TransactionState::Terminated {
                    stop = true;
                }
            }
        }
    });
}
