//! Component `link`: a real SendTransaction and a real RecvTransaction joined by a scriptable
//! link (deliver any in-flight PDU, duplicate, drop, cut a direction), on the paused clock.
//! Mirrors Model/Link.v operation by operation.
//!
//! ops:  S <SEND|TIMEOUT|CANCEL|SUSPEND|RESUME|REPORT|PROMPT N|K> | R <same, no PROMPT>
//!       DELIVER <R|S> k | DUP <R|S> k | DROP <R|S> k | CUT <R|S> | ADV ms | RUN fuel
//! (R = the direction towards the receiver). One observation line per op:
//!   <sres>/<rres> it=<n> q=<a>/<b> S[P[..] I[..] st hp ut pr] R[P[..] I[..] st hp ut pr D=..]
use crate::rng::Rng;
use crate::tx::{drain, ind_text, pdu_out_text, res_text, state_ch, ut_text, Cfg};
use crate::util::{cases, hex, Stats};
use camino::Utf8PathBuf;
use cfdp_core::{
    daemon::Indication,
    filestore::NativeFileStore,
    pdu::*,
    transaction::{Metadata, TransactionState},
};
use cfdp_daemon::transaction::{RecvTransaction, SendTransaction};
use std::collections::VecDeque;
use std::io::Write;
use std::panic::{catch_unwind, AssertUnwindSafe};
use std::sync::Arc;
use std::time::Duration;
use tokio::sync::mpsc;

enum Call {
    Send,
    Timeout,
    Cancel,
    Suspend,
    Resume,
    Report,
    Prompt(NakOrKeepAlive),
    Pdu(PDU),
}

struct Side<T> {
    tx: T,
    dead: bool,
    res: String,
    ind_rx: mpsc::Receiver<Indication>,
    pdu_tx: mpsc::Sender<(VariableID, PDU)>,
    pdu_rx: mpsc::Receiver<(VariableID, PDU)>,
    acc_p: Vec<(VariableID, PDU)>,
    acc_i: Vec<Indication>,
}

struct Sys {
    s: Side<SendTransaction<NativeFileStore>>,
    r: Side<RecvTransaction<NativeFileStore>>,
    qsr: VecDeque<PDU>,
    qrs: VecDeque<PDU>,
    cut_sr: bool,
    cut_rs: bool,
    iters: u64,
}

impl Sys {
    fn s_view(&self) -> (TransactionState, bool, Duration, u64) {
        let x = &self.s.tx;
        (x.verif_get_state(), x.verif_has_pdu_to_send(), x.verif_until_timeout(), x.verif_progress())
    }
    fn r_view(&self) -> (TransactionState, bool, Duration, u64) {
        let x = &self.r.tx;
        (x.verif_get_state(), x.verif_has_pdu_to_send(), x.verif_until_timeout(), x.verif_progress())
    }
    async fn s_call(&mut self, c: Call) {
        if self.s.dead {
            return;
        }
        let x = &mut self.s.tx;
        let res = match c {
            Call::Send => {
                if x.verif_has_pdu_to_send() {
                    let permit = self.s.pdu_tx.reserve().await.unwrap();
                    res_text(catch_unwind(AssertUnwindSafe(|| x.verif_send_pdu(permit))))
                } else {
                    "ok".into()
                }
            }
            Call::Timeout => {
                if x.verif_until_timeout() == Duration::ZERO {
                    res_text(catch_unwind(AssertUnwindSafe(|| x.handle_timeout())))
                } else {
                    "ok".into()
                }
            }
            Call::Cancel => res_text(catch_unwind(AssertUnwindSafe(|| x.cancel()))),
            Call::Suspend => res_text(catch_unwind(AssertUnwindSafe(|| x.suspend()))),
            Call::Resume => res_text(catch_unwind(AssertUnwindSafe(|| x.resume()))),
            Call::Report => res_text(catch_unwind(AssertUnwindSafe(|| x.send_report(None)))),
            Call::Prompt(p) => {
                x.verif_prepare_prompt(p);
                "ok".into()
            }
            Call::Pdu(p) => res_text(catch_unwind(AssertUnwindSafe(|| x.process_pdu(p)))),
        };
        drain(&mut self.s.ind_rx, &mut self.s.acc_i).await;
        while let Ok(p) = self.s.pdu_rx.try_recv() {
            if !self.cut_sr {
                self.qsr.push_back(p.1.clone());
            }
            self.s.acc_p.push(p);
        }
        if res == "err" || res == "PANIC" || self.s.tx.verif_get_state() == TransactionState::Terminated {
            self.s.dead = true;
        }
        self.s.res = res;
    }
    async fn r_call(&mut self, c: Call) {
        if self.r.dead {
            return;
        }
        let x = &mut self.r.tx;
        let res = match c {
            Call::Send => {
                if x.verif_has_pdu_to_send() {
                    let permit = self.r.pdu_tx.reserve().await.unwrap();
                    res_text(catch_unwind(AssertUnwindSafe(|| x.verif_send_pdu(permit))))
                } else {
                    "ok".into()
                }
            }
            Call::Timeout => {
                if x.verif_until_timeout() == Duration::ZERO {
                    res_text(catch_unwind(AssertUnwindSafe(|| x.handle_timeout())))
                } else {
                    "ok".into()
                }
            }
            Call::Cancel => res_text(catch_unwind(AssertUnwindSafe(|| x.cancel()))),
            Call::Suspend => res_text(catch_unwind(AssertUnwindSafe(|| x.suspend()))),
            Call::Resume => res_text(catch_unwind(AssertUnwindSafe(|| x.resume()))),
            Call::Report => res_text(catch_unwind(AssertUnwindSafe(|| x.send_report(None)))),
            Call::Prompt(_) => return,
            Call::Pdu(p) => res_text(catch_unwind(AssertUnwindSafe(|| x.process_pdu(p)))),
        };
        drain(&mut self.r.ind_rx, &mut self.r.acc_i).await;
        while let Ok(p) = self.r.pdu_rx.try_recv() {
            if !self.cut_rs {
                self.qrs.push_back(p.1.clone());
            }
            self.r.acc_p.push(p);
        }
        if res == "err" || res == "PANIC" || self.r.tx.verif_get_state() == TransactionState::Terminated {
            self.r.dead = true;
        }
        self.r.res = res;
    }
    async fn deliver(&mut self, to_recv: bool, p: PDU) {
        if to_recv {
            self.r_call(Call::Pdu(p)).await
        } else {
            self.s_call(Call::Pdu(p)).await
        }
    }
    /// one iteration of the two loops left alone on a loss-free link; false = quiescent
    async fn run1(&mut self) -> bool {
        if !self.s.dead && self.s.tx.verif_has_pdu_to_send() {
            self.s_call(Call::Send).await;
        } else if !self.r.dead && self.r.tx.verif_has_pdu_to_send() {
            self.r_call(Call::Send).await;
        } else if let Some(p) = self.qsr.pop_front() {
            self.deliver(true, p).await;
        } else if let Some(p) = self.qrs.pop_front() {
            self.deliver(false, p).await;
        } else {
            let ds = if self.s.dead { Duration::MAX } else { self.s.tx.verif_until_timeout() };
            let dr = if self.r.dead { Duration::MAX } else { self.r.tx.verif_until_timeout() };
            let d = ds.min(dr);
            if d == Duration::MAX {
                return false;
            }
            tokio::time::advance(d).await;
            if !self.s.dead && self.s.tx.verif_until_timeout() == Duration::ZERO {
                self.s_call(Call::Timeout).await;
            }
            if !self.r.dead && self.r.tx.verif_until_timeout() == Duration::ZERO {
                self.r_call(Call::Timeout).await;
            }
        }
        true
    }
}

fn pick(k: u64, len: usize) -> Option<usize> {
    if len == 0 {
        None
    } else {
        Some((k % len as u64) as usize)
    }
}

fn user_call(t: &[&str]) -> Call {
    match t[1] {
        "SEND" => Call::Send,
        "TIMEOUT" => Call::Timeout,
        "CANCEL" => Call::Cancel,
        "SUSPEND" => Call::Suspend,
        "RESUME" => Call::Resume,
        "REPORT" => Call::Report,
        "PROMPT" => Call::Prompt(if t[2] == "N" { NakOrKeepAlive::Nak } else { NakOrKeepAlive::KeepAlive }),
        other => panic!("link user op {other}"),
    }
}

fn side_text(pdus: &[(VariableID, PDU)], inds: &[Indication], v: (TransactionState, bool, Duration, u64)) -> String {
    let p: Vec<String> = pdus.iter().map(|(d, p)| pdu_out_text(d, p)).collect();
    let i: Vec<String> = inds.iter().map(ind_text).collect();
    format!("P[{}] I[{}] st={} hp={} ut={} pr={}", p.join(";"), i.join(";"), state_ch(v.0), v.1 as u8, ut_text(v.2), v.3)
}

fn is_success(i: &Indication) -> bool {
    match i {
        Indication::Finished(f) => {
            f.report.condition == Condition::NoError && f.delivery_code == DeliveryCode::Complete && f.file_status == FileStatusCode::Retained
        }
        _ => false,
    }
}

pub fn run(ops: &str, out: &mut impl Write, orc: &mut impl Write, rstats: &mut Stats) {
    let rt = tokio::runtime::Builder::new_current_thread().enable_time().start_paused(true).build().unwrap();
    rt.block_on(async {
        for (hdr, lines) in cases(ops) {
            let id = hdr[0].clone();
            writeln!(out, "CASE {id}").unwrap();
            let cfg = Cfg::parse(&hdr);
            let flag = |k: &str| hdr.iter().any(|x| x == &format!("{k}=1"));
            let (c02, c03) = (flag("c02"), flag("c03"));
            let sdir = tempfile::tempdir().unwrap();
            let rdir = tempfile::tempdir().unwrap();
            let sroot = Utf8PathBuf::from_path_buf(sdir.path().to_path_buf()).unwrap();
            let rroot = Utf8PathBuf::from_path_buf(rdir.path().to_path_buf()).unwrap();
            std::fs::write(sroot.join(&cfg.src), &cfg.file).unwrap();
            let (s_ind_tx, s_ind_rx) = mpsc::channel::<Indication>(4096);
            let (r_ind_tx, r_ind_rx) = mpsc::channel::<Indication>(4096);
            let (s_pdu_tx, s_pdu_rx) = mpsc::channel::<(VariableID, PDU)>(64);
            let (r_pdu_tx, r_pdu_rx) = mpsc::channel::<(VariableID, PDU)>(64);
            let md = Metadata {
                source_filename: Utf8PathBuf::from(cfg.src.clone()),
                destination_filename: Utf8PathBuf::from(cfg.dst.clone()),
                file_size: cfg.file.len() as u64,
                filestore_requests: vec![],
                message_to_user: vec![],
                closure_requested: cfg.closure,
                checksum_type: cfg.ck,
            };
            let stx = SendTransaction::new(cfg.tconfig(), md, Arc::new(NativeFileStore::new(&sroot)), s_ind_tx).unwrap();
            let rtx = RecvTransaction::new(cfg.tconfig(), cfg.nak, Arc::new(NativeFileStore::new(&rroot)), r_ind_tx);
            let mut sys = Sys {
                s: Side { tx: stx, dead: false, res: "ok".into(), ind_rx: s_ind_rx, pdu_tx: s_pdu_tx, pdu_rx: s_pdu_rx, acc_p: vec![], acc_i: vec![] },
                r: Side { tx: rtx, dead: false, res: "ok".into(), ind_rx: r_ind_rx, pdu_tx: r_pdu_tx, pdu_rx: r_pdu_rx, acc_p: vec![], acc_i: vec![] },
                qsr: VecDeque::new(),
                qrs: VecDeque::new(),
                cut_sr: false,
                cut_rs: false,
                iters: 0,
            };
            {
                let mut tmp = Vec::new();
                drain(&mut sys.s.ind_rx, &mut tmp).await;
            }
            // oracle state
            let mut r_success = 0u32;
            let mut s_success = 0u32;
            let mut last_fuel_left = true;
            let mut user_interfered = false;
            let (mut eof_sent, mut fin_sent, mut nak_sent, mut drops_hit) = (0u64, 0u64, 0u64, 0u64);
            for (k, l) in lines.iter().enumerate() {
                let t: Vec<&str> = l.split_whitespace().collect();
                sys.s.acc_p.clear();
                sys.s.acc_i.clear();
                sys.r.acc_p.clear();
                sys.r.acc_i.clear();
                sys.s.res = "ok".into();
                sys.r.res = "ok".into();
                sys.iters = 0;
                let dir_r = |x: &str| x == "R";
                match t[0] {
                    "S" => {
                        if matches!(t[1], "CANCEL" | "SUSPEND") {
                            user_interfered = true;
                        }
                        sys.s_call(user_call(&t)).await
                    }
                    "R" => {
                        if matches!(t[1], "CANCEL" | "SUSPEND") {
                            user_interfered = true;
                        }
                        sys.r_call(user_call(&t)).await
                    }
                    "DELIVER" => {
                        let to_r = dir_r(t[1]);
                        let kk: u64 = t[2].parse().unwrap();
                        let q = if to_r { &mut sys.qsr } else { &mut sys.qrs };
                        if let Some(i) = pick(kk, q.len()) {
                            let p = q.remove(i).unwrap();
                            sys.deliver(to_r, p).await;
                        }
                    }
                    "DUP" => {
                        let to_r = dir_r(t[1]);
                        let kk: u64 = t[2].parse().unwrap();
                        let q = if to_r { &sys.qsr } else { &sys.qrs };
                        if let Some(i) = pick(kk, q.len()) {
                            let p = q[i].clone();
                            sys.deliver(to_r, p).await;
                        }
                    }
                    "DROP" => {
                        let to_r = dir_r(t[1]);
                        let kk: u64 = t[2].parse().unwrap();
                        let q = if to_r { &mut sys.qsr } else { &mut sys.qrs };
                        if let Some(i) = pick(kk, q.len()) {
                            q.remove(i);
                            drops_hit += 1;
                        }
                    }
                    "CUT" => {
                        if dir_r(t[1]) {
                            sys.cut_sr = true
                        } else {
                            sys.cut_rs = true
                        }
                    }
                    "ADV" => tokio::time::advance(Duration::from_millis(t[1].parse().unwrap())).await,
                    "RUN" => {
                        let fuel: u64 = t[1].parse().unwrap();
                        let mut it = 0;
                        while it < fuel {
                            if !sys.run1().await {
                                break;
                            }
                            it += 1;
                        }
                        sys.iters = it;
                        last_fuel_left = it < fuel;
                    }
                    other => panic!("link op {other}"),
                }
                let dest = std::fs::read(rroot.join(&cfg.dst)).ok();
                let line = format!(
                    "{}/{} it={} q={}/{} S[{}] R[{} D={}]",
                    sys.s.res,
                    sys.r.res,
                    sys.iters,
                    sys.qsr.len(),
                    sys.qrs.len(),
                    side_text(&sys.s.acc_p, &sys.s.acc_i, sys.s_view()),
                    side_text(&sys.r.acc_p, &sys.r.acc_i, sys.r_view()),
                    match &dest {
                        Some(b) => hex(b),
                        None => "none".into(),
                    }
                );
                writeln!(out, "{line}").unwrap();
                // ---- oracles on the real code
                if sys.s.res == "PANIC" || sys.r.res == "PANIC" {
                    for c in ["C01", "C02", "C03"] {
                        writeln!(orc, "FAIL {c} case={id} op={k} a transaction panicked").unwrap();
                    }
                }
                // C01: a success report (either side) means destination == source, length and bytes
                let rs = sys.r.acc_i.iter().filter(|i| is_success(i)).count() as u32;
                let ss = sys.s.acc_i.iter().filter(|i| is_success(i)).count() as u32;
                if (rs > 0 || ss > 0) && !cfg.src.is_empty() && dest.as_deref() != Some(&cfg.file[..]) {
                    writeln!(
                        orc,
                        "FAIL C01 case={id} op={k} {} reported NoError/Complete/Retained but the destination file is {} (source {})",
                        if rs > 0 { "receiver" } else { "sender" },
                        dest.as_ref().map(|b| hex(b)).unwrap_or("absent".into()),
                        hex(&cfg.file)
                    )
                    .unwrap();
                }
                r_success += rs;
                s_success += ss;
                for (_, p) in sys.s.acc_p.iter().chain(sys.r.acc_p.iter()) {
                    match &p.payload {
                        PDUPayload::Directive(Operations::EoF(_)) => eof_sent += 1,
                        PDUPayload::Directive(Operations::Finished(_)) => fin_sent += 1,
                        PDUPayload::Directive(Operations::Nak(_)) => nak_sent += 1,
                        _ => {}
                    }
                }
            }
            // ---- what this case exercised on the real code
            rstats.inc("cases");
            if r_success > 0 {
                rstats.inc("receiver_reported_success");
            }
            if s_success > 0 {
                rstats.inc("sender_reported_success");
            }
            if sys.s.dead && sys.r.dead {
                rstats.inc("both_ended");
            }
            if eof_sent >= 2 {
                rstats.inc("eof_retransmitted");
            }
            if fin_sent >= 2 {
                rstats.inc("finished_retransmitted");
            }
            if nak_sent >= 1 {
                rstats.inc("nak_sent");
            }
            if drops_hit > 0 {
                rstats.inc("cases_with_effective_drop");
            }
            rstats.add("effective_drops", drops_hit);
            // ---- end-of-case oracles (the generator ends these scripts with a long RUN)
            let (s_st, r_st) = (sys.s.tx.verif_get_state(), sys.r.tx.verif_get_state());
            let k = lines.len();
            // both end-of-case oracles presuppose that the script ends with the long loss-free run
            let final_run = lines.last().map_or(false, |l| {
                let t: Vec<&str> = l.split_whitespace().collect();
                t.len() == 2 && t[0] == "RUN" && t[1].parse::<u64>().map_or(false, |n| n >= 1000)
            });
            let (c02, c03) = (c02 && final_run, c03 && final_run);
            if c03 {
                // C03: left alone - whatever was lost, whichever direction went dark - both transactions end
                if !(sys.s.dead && sys.r.dead) {
                    writeln!(
                        orc,
                        "FAIL C03 case={id} op={k} after the final run (fuel {}) sender st={} receiver st={}: not both ended",
                        if last_fuel_left { "left" } else { "exhausted" },
                        state_ch(s_st),
                        state_ch(r_st)
                    )
                    .unwrap();
                }
            }
            if c02 && !user_interfered {
                let dest = std::fs::read(rroot.join(&cfg.dst)).ok();
                let ok = sys.s.dead && sys.r.dead && s_st == TransactionState::Terminated && r_st == TransactionState::Terminated && r_success >= 1 && s_success >= 1 && dest.as_deref() == Some(&cfg.file[..]);
                if !ok {
                    writeln!(
                        orc,
                        "FAIL C02 case={id} op={k} bounded faults but no recovery: sender st={} success={} receiver st={} success={} dest_ok={}",
                        state_ch(s_st),
                        s_success,
                        state_ch(r_st),
                        r_success,
                        dest.as_deref() == Some(&cfg.file[..])
                    )
                    .unwrap();
                }
            }
        }
    });
}

// ------------------------------------------------------------------ generator

fn file_content(r: &mut Rng, n: usize) -> Vec<u8> {
    match r.below(4) {
        0 => vec![0u8; n],
        1 => {
            let mut v = Vec::with_capacity(n);
            while v.len() + 8 <= n {
                let w = r.next() as u32;
                v.extend_from_slice(&w.to_be_bytes());
                v.extend_from_slice(&(0u32.wrapping_sub(w)).to_be_bytes());
            }
            while v.len() < n {
                v.push(0);
            }
            v
        }
        _ => r.bytes(n),
    }
}

fn sched_op(r: &mut Rng) -> String {
    match r.below(10) {
        0..=3 => "S SEND".into(),
        4 => "R SEND".into(),
        5 | 6 => "DELIVER R 0".into(),
        7 => "DELIVER S 0".into(),
        8 => format!("DELIVER R {}", r.below(6)),
        _ => format!("DELIVER S {}", r.below(4)),
    }
}

pub fn gen(seed: u64, tier: &str, w: &mut impl Write, stats: &mut Stats) {
    let mut rng = Rng::new(seed ^ 0x11AC);
    let n = if tier == "thorough" { 20_000 } else { 1_500 };
    for i in 0..n {
        let (sub, mut r) = rng.fork();
        let kind = r.below(10); // 0..=4 bounded faults (C02), 5..=7 blackout / unbounded loss (C03), 8..=9 free
        let acked = if kind <= 4 { true } else { r.chance(7, 10) };
        let seg = *r.pick(&[16u64, 20, 32, 48, 18, 21, 27]);
        let delay = *r.pick(&[0u64, 0, 50, 700]);
        let imm = r.chance(1, 2);
        let maxc = 2 + r.below(3);
        let (ti, ta, tn) = if kind <= 4 { (40 + r.below(20), 2 + r.below(4), 2 + r.below(4)) } else { (2 + r.below(8), 1 + r.below(5), 1 + r.below(6)) };
        let closure = r.chance(1, 2);
        let ck = if r.chance(3, 4) { "M" } else { "N" };
        let sizes = [0, 1, seg - 1, seg, seg + 1, 2 * seg, 3 * seg + 5, r.below(6 * seg + 1), 0, 1, seg];
        let flen = *r.pick(&sizes) as usize;
        let file = file_content(&mut r, flen);
        let handlers = if kind >= 8 && r.chance(1, 3) {
            let mut items = Vec::new();
            for c in [1u8, 4, 5, 6, 7, 8] {
                if r.chance(1, 4) {
                    items.push(format!("{c}:{}", r.pick(&["C", "S", "I", "A"])));
                }
            }
            items.join(",")
        } else if kind >= 5 && r.chance(1, 3) {
            // abandon instead of cancel on some limit
            format!("{}:A", r.pick(&[1u8, 7, 8]))
        } else {
            String::new()
        };
        let hdr = format!(
            "mode={} nak={}{} seg={} large=0 crc={} maxc={} ti={} ta={} tn={} h={} closure={} ck={} src={} dst={} idw={} file={} c02={} c03={}",
            if acked { "A" } else { "U" },
            if imm { "I" } else { "D" },
            delay,
            seg,
            r.chance(1, 2) as u8,
            maxc,
            ti,
            ta,
            tn,
            handlers,
            closure as u8,
            ck,
            hex(b"s"),
            hex(b"d"),
            *r.pick(&[1u8, 2, 4, 8]),
            hex(&file),
            (kind <= 4) as u8,
            (kind <= 7) as u8,
        );
        writeln!(w, "CASE l{i} sub={sub} {hdr}").unwrap();
        stats.inc(match kind {
            0..=4 => "script_bounded_faults",
            5..=7 => "script_blackout",
            _ => "script_free",
        });
        stats.inc(if acked { "mode_acked" } else { "mode_unacked" });
        stats.inc(&format!("filesize_{}", if flen == 0 { "0".to_string() } else if (flen as u64) < seg { "lt_seg".into() } else if (flen as u64) == seg { "eq_seg".into() } else { "gt_seg".into() }));
        let mut ops: Vec<String> = Vec::new();
        if kind <= 4 {
            // at most F < max_count faults in total, placed anywhere in the exchange; no time passes
            // while a PDU is in flight (RUN only sleeps when nothing is in flight)
            let mut drops = r.below(maxc); // < maxc
            stats.add("faults_drop", drops);
            if r.chance(1, 2) {
                // stepwise: the system advances one loop iteration at a time; drops aimed at a chosen PDU of
                // the sender's first pass (metadata, k-th segment, EOF), then at whatever is in flight later
                // (ACKs, NAKs, Finished, retransmissions)
                stats.inc("script_bounded_stepwise");
                let nseg = (flen as u64 + seg - 1) / seg;
                let first_pass = nseg + 2;
                let mut dropped = 0u64;
                for j in 0..first_pass {
                    ops.push("RUN 1".into());
                    if drops > 0 && r.chance(1, 3) {
                        drops -= 1;
                        ops.push(format!("DROP R {}", j - dropped));
                        dropped += 1;
                    }
                }
                let m = 10 + r.below(60);
                for _ in 0..m {
                    ops.push("RUN 1".into());
                    if drops > 0 && r.chance(1, 5) {
                        drops -= 1;
                        ops.push(format!("DROP {} 0", r.pick(&["S", "S", "R"])));
                    } else if r.chance(1, 12) {
                        stats.inc("faults_dup");
                        ops.push(format!("DUP {} 0", r.pick(&["S", "R"])));
                    }
                }
                ops.push("RUN 4000".into());
                stats.add("ops", ops.len() as u64);
                for o in ops {
                    writeln!(w, "{o}").unwrap();
                }
                continue;
            }
            let m = r.below(70);
            for _ in 0..m {
                match r.below(25) {
                    0 | 1 | 2 if drops > 0 => {
                        drops -= 1;
                        ops.push(format!("DROP {} {}", r.pick(&["R", "R", "S"]), r.below(5)));
                    }
                    3 | 4 => {
                        stats.inc("faults_dup");
                        ops.push(format!("DUP {} {}", r.pick(&["R", "S"]), r.below(5)))
                    }
                    5 | 6 => ops.push(format!("RUN {}", 1 + r.below(3))),
                    _ => ops.push(sched_op(&mut r)),
                }
            }
            ops.push("RUN 4000".into());
        } else if kind <= 7 {
            let mut cut_done = false;
            let m = r.below(60);
            for _ in 0..m {
                match r.below(28) {
                    0 | 1 | 2 => ops.push(format!("DROP {} {}", r.pick(&["R", "S"]), r.below(5))),
                    3 => ops.push(format!("DUP {} {}", r.pick(&["R", "S"]), r.below(5))),
                    4 if !cut_done || r.chance(1, 2) => {
                        cut_done = true;
                        stats.inc("cut");
                        ops.push(format!("CUT {}", r.pick(&["R", "S"])))
                    }
                    5 if r.chance(1, 3) => {
                        stats.inc("user_cancel");
                        ops.push(format!("{} CANCEL", r.pick(&["S", "R"])))
                    }
                    6 => ops.push(format!("ADV {}", *r.pick(&[1u64, 500, 1000, 2500, 7000]))),
                    7 => ops.push(format!("{} TIMEOUT", r.pick(&["S", "R"]))),
                    8 | 9 => ops.push(format!("RUN {}", 1 + r.below(4))),
                    _ => ops.push(sched_op(&mut r)),
                }
            }
            ops.push("RUN 6000".into());
        } else {
            let m = 5 + r.below(40);
            for _ in 0..m {
                match r.below(20) {
                    0 => ops.push(format!("DROP {} {}", r.pick(&["R", "S"]), r.below(5))),
                    1 => ops.push(format!("DUP {} {}", r.pick(&["R", "S"]), r.below(5))),
                    2 => ops.push(format!("{} {}", r.pick(&["S", "R"]), r.pick(&["CANCEL", "SUSPEND", "RESUME", "REPORT", "SUSPEND", "RESUME"]))),
                    3 => ops.push(format!("S PROMPT {}", r.pick(&["N", "K"]))),
                    4 => ops.push(format!("ADV {}", *r.pick(&[1u64, 500, 1000, 2500, 7000]))),
                    5 => ops.push(format!("{} TIMEOUT", r.pick(&["S", "R"]))),
                    6 => ops.push(format!("RUN {}", r.below(30))),
                    7 if r.chance(1, 4) => ops.push(format!("CUT {}", r.pick(&["R", "S"]))),
                    _ => ops.push(sched_op(&mut r)),
                }
            }
            ops.push("RUN 800".into());
        }
        stats.add("ops", ops.len() as u64);
        for o in ops {
            writeln!(w, "{o}").unwrap();
        }
    }
}
