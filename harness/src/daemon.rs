//! Component `daemon`: two real `Daemon`s (entities 1 and 2) whose three handlers are called one at
//! a time through the cfg(cfdp_verif) hooks, joined by in-memory transports the script controls.
//! The transactions they spawn are the real tokio tasks. Entity 3 has no transport anywhere.
//!
//! script ops:  PUT d k A|U [dest] | XFER d n | DROP d n | DUPX d | STRAY d R|S src dst seq kind
//!              REPLAY d i | CMD d src seq CANCEL|SUSPEND|RESUME|REPORT | CLEANUP d | ADV ms | SETTLE | RUNALL n
//! Every handler call becomes one *event* (written to events.ops for the model driver) and one
//! observation line:  <ok|unable|comm|FATAL> id=<src:seq|-> A[keys] B[keys] nA=<next seq> nB=<next seq>
//! events:  PUT d dest spawn_ok | FWD d R|S src dst seq closed | CMD d src seq closed | CLEANUP d k;k;..
use crate::rng::Rng;
use crate::tx::{cond_of, Cfg};
use crate::util::{cases, hex, Stats};
use async_trait::async_trait;
use camino::Utf8PathBuf;
use cfdp_core::{
    daemon::{EntityConfig, Indication, PutRequest, UserPrimitive},
    filestore::{ChecksumType, NativeFileStore},
    pdu::*,
    transaction::TransactionID,
};
use cfdp_daemon::{error::DaemonError, transport::PDUTransport, Daemon};
use std::collections::{HashMap, VecDeque};
use std::io::{Error as IoError, Write};
use std::sync::{Arc, Mutex};
use std::time::Duration;
use tokio::sync::{mpsc, oneshot};

type Outbox = Arc<Mutex<VecDeque<(VariableID, PDU)>>>;

struct MemTransport {
    outbox: Outbox,
}
#[async_trait]
impl PDUTransport for MemTransport {
    async fn request(&mut self, destination: VariableID, pdu: PDU) -> Result<(), IoError> {
        self.outbox.lock().unwrap().push_back((destination, pdu));
        Ok(())
    }
    async fn receive(&mut self) -> Result<PDU, IoError> {
        std::future::pending().await
    }
}

struct Node {
    d: Daemon<NativeFileStore>,
    outbox: Outbox,
    ind_rx: mpsc::Receiver<Indication>,
    inds: Vec<Indication>,
    root: Utf8PathBuf,
    _dir: tempfile::TempDir,
    _prim_tx: mpsc::Sender<UserPrimitive>,
    delivered: Vec<PDU>,
}

fn vid(w: u8, n: u64) -> VariableID {
    match w {
        1 => VariableID::from(n as u8),
        2 => VariableID::from(n as u16),
        4 => VariableID::from(n as u32),
        _ => VariableID::from(n),
    }
}

fn key_text(id: &TransactionID) -> String {
    format!("{}:{}", id.0.to_u64(), id.1.to_u64())
}

fn table_text(n: &Node) -> String {
    let mut v: Vec<(u64, u64)> = n.d.verif_table().iter().map(|(id, _)| (id.0.to_u64(), id.1.to_u64())).collect();
    v.sort();
    v.iter().map(|(a, b)| format!("{a}:{b}")).collect::<Vec<_>>().join(",")
}

fn res_class(r: &Result<(), DaemonError>) -> &'static str {
    match r {
        Ok(()) => "ok",
        Err(DaemonError::UnableToResume(_)) => "unable",
        Err(DaemonError::TransactionCommunication(..)) => "comm",
        Err(DaemonError::SpawnSend(_)) => "comm",
    }
}

async fn settle() {
    for _ in 0..40 {
        tokio::task::yield_now().await;
    }
}

fn file_content(k: u64, len: usize) -> Vec<u8> {
    (0..len).map(|i| (k as usize * 37 + i * 11 + 5) as u8).collect()
}

struct PutRec {
    daemon: usize,
    k: u64,
    dest: u64,
    id: Option<TransactionID>,
    out_name: String,
    mode_acked: bool,
}

struct World {
    nodes: Vec<Node>, // index 0 = entity 1, index 1 = entity 2
    w: u8,
    cfg: Cfg,
    flen: usize,
    puts: Vec<PutRec>,
    fatal: bool,
    /// isolation failures seen while routing (reported by the oracle at the end of the case)
    leaks: Vec<String>,
}

impl World {
    fn obs(&self, res: &str, id: Option<TransactionID>) -> String {
        format!(
            "{} id={} A[{}] B[{}] nA={} nB={}",
            res,
            id.map(|i| key_text(&i)).unwrap_or("-".into()),
            table_text(&self.nodes[0]),
            table_text(&self.nodes[1]),
            self.nodes[0].d.verif_next_sequence_number().to_u64(),
            self.nodes[1].d.verif_next_sequence_number().to_u64()
        )
    }
    async fn drain_inds(&mut self) {
        for n in self.nodes.iter_mut() {
            while let Ok(i) = n.ind_rx.try_recv() {
                n.inds.push(i);
            }
        }
    }
    /// hand one PDU to daemon `d` (0/1): one FWD event
    async fn forward(&mut self, d: usize, pdu: PDU, out: &mut impl Write, ev: &mut impl Write) {
        self.forward_opt(d, pdu, true, out, ev).await
    }
    /// `settle = false`: the daemon handles the next PDU before any transaction task gets to run (a burst)
    async fn forward_opt(&mut self, d: usize, pdu: PDU, settle_after: bool, out: &mut impl Write, ev: &mut impl Write) {
        let key = TransactionID(pdu.header.source_entity_id, pdu.header.transaction_sequence_number);
        let closed = self.nodes[d].d.verif_table().iter().find(|(id, _)| *id == key).map_or(false, |x| x.1);
        writeln!(
            ev,
            "FWD {} {} {} {} {} {}",
            d + 1,
            if pdu.header.direction == Direction::ToSender { "S" } else { "R" },
            pdu.header.source_entity_id.to_u64(),
            pdu.header.destination_entity_id.to_u64(),
            pdu.header.transaction_sequence_number.to_u64(),
            closed as u8
        )
        .unwrap();
        self.nodes[d].delivered.push(pdu.clone());
        // isolation oracle: a ToSender PDU whose id is registered nowhere on this daemon belongs to no transaction
        // here (responses never start one). Every handler call is followed by a settle, so the acknowledged send
        // transactions of this daemon are waiting for input; none of them may report Finished because of this PDU
        // (an acknowledged sender reports Finished only when it is handed a Finished PDU; no time passes here).
        let unregistered_response = settle_after
            && pdu.header.direction == Direction::ToSender
            && !self.nodes[d].d.verif_table().iter().any(|(id, _)| *id == key);
        self.drain_inds().await;
        let inds_before = self.nodes[d].inds.len();
        let what = format!("{:?}", pdu.payload).chars().take(40).collect::<String>();
        let r = self.nodes[d].d.verif_forward_pdu(pdu).await;
        if settle_after {
            settle().await;
        }
        self.drain_inds().await;
        if unregistered_response {
            for i in &self.nodes[d].inds[inds_before..] {
                if let Indication::Finished(f) = i {
                    if f.id != key && self.puts.iter().any(|p| p.id == Some(f.id) && p.mode_acked && p.daemon == d) {
                        self.leaks.push(format!(
                            "entity {}: a response PDU of transaction {} (registered nowhere: {what}) made the live send transaction {} report Finished ({:?})",
                            d + 1,
                            key_text(&key),
                            key_text(&f.id),
                            f.report.condition
                        ));
                    }
                }
            }
        }
        writeln!(out, "{}", self.obs(res_class(&r), None)).unwrap();
    }
    async fn cleanup(&mut self, d: usize, out: &mut impl Write, ev: &mut impl Write) {
        settle().await;
        let keys = |n: &Node| -> Vec<(u64, u64)> {
            let mut v: Vec<(u64, u64)> = n.d.verif_table().iter().map(|(id, _)| (id.0.to_u64(), id.1.to_u64())).collect();
            v.sort();
            v
        };
        let before = keys(&self.nodes[d]);
        self.nodes[d].d.verif_cleanup_transactions().await;
        settle().await;
        self.drain_inds().await;
        // which registrations were removed is decided by which task handles had finished with Ok(id) - not
        // observable beforehand (a finished OLD task also removes the registration of the transaction that
        // replaced it under the same id); the model is told and must agree on everything else
        let after = keys(&self.nodes[d]);
        let removed: Vec<(u64, u64)> = before.iter().filter(|k| !after.contains(k)).cloned().collect();
        writeln!(ev, "CLEANUP {} {}", d + 1, if removed.is_empty() { "-".to_string() } else { removed.iter().map(|(a, b)| format!("{a}:{b}")).collect::<Vec<_>>().join(";") }).unwrap();
        writeln!(out, "{}", self.obs("ok", None)).unwrap();
    }
    fn stray_pdu(&self, dir_s: bool, src: u64, dst: u64, seq: u64, kind: &str) -> PDU {
        let payload = match kind {
            "ACKE" => PDUPayload::Directive(Operations::Ack(PositiveAcknowledgePDU {
                directive: PDUDirective::EoF,
                directive_subtype_code: ACKSubDirective::Other,
                condition: Condition::NoError,
                transaction_status: TransactionStatus::Active,
            })),
            "ACKF" => PDUPayload::Directive(Operations::Ack(PositiveAcknowledgePDU {
                directive: PDUDirective::Finished,
                directive_subtype_code: ACKSubDirective::Finished,
                condition: Condition::NoError,
                transaction_status: TransactionStatus::Active,
            })),
            "FIN" => PDUPayload::Directive(Operations::Finished(Finished {
                condition: Condition::NoError,
                delivery_code: DeliveryCode::Complete,
                file_status: FileStatusCode::Retained,
                filestore_response: vec![],
                fault_location: None,
            })),
            "NAK" => PDUPayload::Directive(Operations::Nak(NegativeAcknowledgmentPDU {
                start_of_scope: 0,
                end_of_scope: 10,
                segment_requests: vec![SegmentRequestForm { start_offset: 0, end_offset: 10 }],
            })),
            "EOF" => PDUPayload::Directive(Operations::EoF(EndOfFile {
                condition: Condition::NoError,
                checksum: 0,
                file_size: 5,
                fault_location: None,
            })),
            "KA" => PDUPayload::Directive(Operations::KeepAlive(KeepAlivePDU { progress: 3 })),
            "PR" => PDUPayload::Directive(Operations::Prompt(PromptPDU { nak_or_keep_alive: NakOrKeepAlive::Nak })),
            "MD" => PDUPayload::Directive(Operations::Metadata(MetadataPDU {
                closure_requested: false,
                checksum_type: ChecksumType::Modular,
                file_size: 5,
                source_filename: Utf8PathBuf::from("stray_src"),
                destination_filename: Utf8PathBuf::from("stray_dst"),
                options: vec![],
            })),
            _ => PDUPayload::FileData(FileDataPDU::Unsegmented(UnsegmentedFileData { offset: 0, file_data: vec![1, 2, 3, 4, 5] })),
        };
        let len = payload.encoded_len(FileSizeFlag::Small);
        PDU {
            header: PDUHeader {
                version: U3::One,
                pdu_type: if matches!(payload, PDUPayload::FileData(_)) { PDUType::FileData } else { PDUType::FileDirective },
                direction: if dir_s { Direction::ToSender } else { Direction::ToReceiver },
                transmission_mode: self.cfg.mode,
                crc_flag: if self.cfg.crc { CRCFlag::Present } else { CRCFlag::NotPresent },
                large_file_flag: FileSizeFlag::Small,
                pdu_data_field_length: len,
                segmentation_control: SegmentationControl::NotPreserved,
                segment_metadata_flag: SegmentedData::NotPresent,
                source_entity_id: vid(self.w, src),
                transaction_sequence_number: vid(self.w, seq),
                destination_entity_id: vid(self.w, dst),
            },
            payload,
        }
    }
}

fn make_node(entity: u64, w: u8, first_seq: u64, cfg: &Cfg, nfiles: u64, flen: usize) -> Node {
    let dir = tempfile::tempdir().unwrap();
    let root = Utf8PathBuf::from_path_buf(dir.path().to_path_buf()).unwrap();
    for k in 0..nfiles {
        std::fs::write(root.join(format!("src{k}")), file_content(k + entity * 50, flen + k as usize)).unwrap();
    }
    let outbox: Outbox = Arc::new(Mutex::new(VecDeque::new()));
    let peer = 3 - entity;
    let mut transport_map: HashMap<Vec<EntityID>, Box<dyn PDUTransport + Send>> = HashMap::new();
    transport_map.insert(vec![vid(w, peer)], Box::new(MemTransport { outbox: outbox.clone() }));
    let (ind_tx, ind_rx) = mpsc::channel::<Indication>(100_000);
    let (prim_tx, prim_rx) = mpsc::channel::<UserPrimitive>(10);
    let config = EntityConfig {
        fault_handler_override: cfg.handlers.clone(),
        file_size_segment: cfg.seg,
        default_transaction_max_count: cfg.maxc,
        inactivity_timeout: cfg.ti,
        ack_timeout: cfg.ta,
        nak_timeout: cfg.tn,
        crc_flag: if cfg.crc { CRCFlag::Present } else { CRCFlag::NotPresent },
        closure_requested: cfg.closure,
        checksum_type: cfg.ck,
        nak_procedure: cfg.nak,
    };
    let d = Daemon::new(
        vid(w, entity),
        vid(w, first_seq),
        transport_map,
        Arc::new(NativeFileStore::new(&root)),
        HashMap::new(),
        config,
        prim_rx,
        ind_tx,
    );
    Node { d, outbox, ind_rx, inds: vec![], root, _dir: dir, _prim_tx: prim_tx, delivered: vec![] }
}

fn finished_ok(i: &Indication, id: &TransactionID, need_complete: bool) -> bool {
    match i {
        Indication::Finished(f) => {
            f.id == *id && f.report.condition == Condition::NoError && (!need_complete || (f.delivery_code == DeliveryCode::Complete && f.file_status == FileStatusCode::Retained))
        }
        _ => false,
    }
}

pub fn run(ops: &str, out: &mut impl Write, orc: &mut impl Write, ev: &mut impl Write, rstats: &mut Stats) {
    let rt = tokio::runtime::Builder::new_current_thread().enable_time().start_paused(true).build().unwrap();
    rt.block_on(async {
        for (hdr, lines) in cases(ops) {
            let id = hdr[0].clone();
            writeln!(out, "CASE {id}").unwrap();
            writeln!(ev, "CASE {}", hdr.join(" ")).unwrap();
            let cfg = Cfg::parse(&hdr);
            let get = |k: &str, d: u64| -> u64 { hdr.iter().find_map(|x| x.strip_prefix(&format!("{k}=")).and_then(|v| v.parse().ok())).unwrap_or(d) };
            let w = get("w", 1) as u8;
            let (s1, s2) = (get("s1", 0), get("s2", 0));
            let flen = get("flen", 40) as usize;
            let clean = get("clean", 0) == 1;
            let ends = get("ends", 0) == 1;
            let mut world = World { nodes: vec![make_node(1, w, s1, &cfg, 6, flen), make_node(2, w, s2, &cfg, 6, flen)], w, cfg: cfg.clone(), flen, puts: vec![], fatal: false, leaks: vec![] };
            settle().await;
            for l in lines.iter() {
                let t: Vec<&str> = l.split_whitespace().collect();
                let dn = |x: &str| -> usize { x.parse::<usize>().unwrap() - 1 };
                match t[0] {
                    "PUT" => {
                        let d = dn(t[1]);
                        let k: u64 = t[2].parse().unwrap();
                        let dest: u64 = if t.len() > 4 { t[4].parse().unwrap() } else { 2 - d as u64 };
                        let j = world.puts.len();
                        let out_name = format!("out{j}");
                        let spawn_ok = world.nodes[d].root.join(format!("src{k}")).exists();
                        let (tx, rx) = oneshot::channel();
                        let req = PutRequest {
                            source_filename: Utf8PathBuf::from(format!("src{k}")),
                            destination_filename: Utf8PathBuf::from(out_name.clone()),
                            destination_entity_id: vid(w, dest),
                            transmission_mode: if t[3] == "A" { TransmissionMode::Acknowledged } else { TransmissionMode::Unacknowledged },
                            filestore_requests: vec![],
                            message_to_user: vec![],
                        };
                        writeln!(ev, "PUT {} {} {}", d + 1, dest, spawn_ok as u8).unwrap();
                        let r = world.nodes[d].d.verif_process_primitive(UserPrimitive::Put(req, tx)).await;
                        settle().await;
                        world.drain_inds().await;
                        let got = rx.await.ok();
                        world.puts.push(PutRec { daemon: d, k, dest, id: got, out_name, mode_acked: t[3] == "A" });
                        writeln!(out, "{}", world.obs(res_class(&r), got)).unwrap();
                    }
                    "XFER" | "DROP" => {
                        let d = dn(t[1]);
                        let n: usize = t[2].parse().unwrap();
                        for _ in 0..n {
                            let p = world.nodes[d].outbox.lock().unwrap().pop_front();
                            match p {
                                Some((_dest, pdu)) if t[0] == "XFER" => world.forward(1 - d, pdu, out, ev).await,
                                _ => {}
                            }
                        }
                    }
                    "BURST" => {
                        // n PDUs handed to the peer daemon back to back: the receiving transaction's task
                        // does not run in between unless the daemon itself has to wait for it
                        let d = dn(t[1]);
                        let n: usize = t[2].parse().unwrap();
                        for _ in 0..n {
                            let p = world.nodes[d].outbox.lock().unwrap().pop_front();
                            match p {
                                Some((_dest, pdu)) => world.forward_opt(1 - d, pdu, false, out, ev).await,
                                None => break,
                            }
                        }
                        settle().await;
                    }
                    "DUPX" => {
                        let d = dn(t[1]);
                        let p = world.nodes[d].outbox.lock().unwrap().front().cloned();
                        if let Some((_dest, pdu)) = p {
                            world.forward(1 - d, pdu, out, ev).await;
                        }
                    }
                    "STRAY" => {
                        let d = dn(t[1]);
                        let pdu = world.stray_pdu(t[2] == "S", t[3].parse().unwrap(), t[4].parse().unwrap(), t[5].parse().unwrap(), t[6]);
                        world.forward(d, pdu, out, ev).await;
                    }
                    "REPLAY" => {
                        let d = dn(t[1]);
                        let n = world.nodes[d].delivered.len();
                        if n > 0 {
                            let i: usize = t[2].parse::<usize>().unwrap() % n;
                            let pdu = world.nodes[d].delivered[i].clone();
                            world.forward(d, pdu, out, ev).await;
                        }
                    }
                    "CMD" => {
                        let d = dn(t[1]);
                        let tid = TransactionID(vid(w, t[2].parse().unwrap()), vid(w, t[3].parse().unwrap()));
                        let closed = world.nodes[d].d.verif_table().iter().find(|(id, _)| *id == tid).map_or(false, |x| x.1);
                        writeln!(ev, "CMD {} {} {} {}", d + 1, t[2], t[3], closed as u8).unwrap();
                        let prim = match t[4] {
                            "CANCEL" => UserPrimitive::Cancel(tid),
                            "SUSPEND" => UserPrimitive::Suspend(tid),
                            "RESUME" => UserPrimitive::Resume(tid),
                            _ => UserPrimitive::Report(tid, oneshot::channel().0),
                        };
                        let r = world.nodes[d].d.verif_process_primitive(prim).await;
                        settle().await;
                        world.drain_inds().await;
                        writeln!(out, "{}", world.obs(res_class(&r), None)).unwrap();
                    }
                    "CLEANUP" => world.cleanup(dn(t[1]), out, ev).await,
                    "ADV" => {
                        tokio::time::advance(Duration::from_millis(t[1].parse().unwrap())).await;
                        settle().await;
                    }
                    "SETTLE" => settle().await,
                    "RUNALL" => {
                        let n: usize = t[1].parse().unwrap();
                        for _ in 0..n {
                            settle().await;
                            let mut moved = false;
                            for d in 0..2 {
                                loop {
                                    let p = world.nodes[d].outbox.lock().unwrap().pop_front();
                                    match p {
                                        Some((_dest, pdu)) => {
                                            moved = true;
                                            world.forward(1 - d, pdu, out, ev).await
                                        }
                                        None => break,
                                    }
                                }
                            }
                            if !moved {
                                world.cleanup(0, out, ev).await;
                                world.cleanup(1, out, ev).await;
                                if world.nodes[0].d.verif_handles() == 0 && world.nodes[1].d.verif_handles() == 0 {
                                    break;
                                }
                                tokio::time::advance(Duration::from_millis(500)).await;
                            }
                        }
                    }
                    other => panic!("daemon op {other}"),
                }
                world.drain_inds().await;
            }
            // ---------------- what this case exercised on the real daemons
            rstats.inc("cases");
            rstats.add("put_requests", world.puts.len() as u64);
            rstats.add("put_given_id", world.puts.iter().filter(|p| p.id.is_some()).count() as u64);
            for p in &world.puts {
                if let Some(tid) = p.id {
                    if p.dest != 3 && world.nodes[1 - p.daemon].inds.iter().any(|i| finished_ok(i, &tid, true)) {
                        rstats.inc("transactions_delivered");
                    }
                }
            }
            rstats.add("pdus_routed", world.nodes.iter().map(|n| n.delivered.len() as u64).sum());
            rstats.add("fault_or_abandon_indications", world.nodes.iter().map(|n| n.inds.iter().filter(|i| matches!(i, Indication::Fault(_) | Indication::Abandon(_))).count() as u64).sum());
            // ---------------- oracles (C11) on the real daemons
            let mut fail = |msg: String| writeln!(orc, "FAIL C11 case={id} op={} {msg}", lines.len()).unwrap();
            if world.fatal {
                fail("a daemon handler returned an error that stops manage_transactions".into());
            }
            for l in &world.leaks {
                fail(l.clone());
            }
            // distinct ids per daemon
            for d in 0..2 {
                let ids: Vec<TransactionID> = world.puts.iter().filter(|p| p.daemon == d).filter_map(|p| p.id).collect();
                for (i, a) in ids.iter().enumerate() {
                    if ids[..i].contains(a) {
                        fail(format!("two Put requests of entity {} were given the same transaction id {}", d + 1, key_text(a)));
                    }
                }
            }
            let final_run = lines.last().map_or(false, |l| l.starts_with("RUNALL"));
            if final_run && ends {
                for d in 0..2 {
                    if !world.nodes[d].d.verif_table().is_empty() || world.nodes[d].d.verif_handles() != 0 {
                        fail(format!("entity {}: transactions still registered after the final run: [{}]", d + 1, table_text(&world.nodes[d])));
                    }
                }
            }
            if final_run {
                let n_puts = world.puts.len();
                for (j, p) in world.puts.iter().enumerate() {
                    let Some(tid) = p.id else { continue };
                    if p.dest == 3 {
                        continue;
                    }
                    // each completed transaction delivered ITS file to ITS destination; in clean cases
                    // (nothing dropped, no user interference) every transaction must complete
                    let must = clean || j + 1 == n_puts;
                    let src = std::fs::read(world.nodes[p.daemon].root.join(format!("src{}", p.k))).unwrap();
                    let dst = std::fs::read(world.nodes[1 - p.daemon].root.join(&p.out_name)).ok();
                    let recv_ok = world.nodes[1 - p.daemon].inds.iter().any(|i| finished_ok(i, &tid, true));
                    let send_ok = world.nodes[p.daemon].inds.iter().any(|i| finished_ok(i, &tid, p.mode_acked));
                    if recv_ok && dst.as_deref() != Some(&src[..]) {
                        fail(format!("transaction {} reported delivered but {} differs from its source (got {:?} bytes)", key_text(&tid), p.out_name, dst.as_ref().map(|b| b.len())));
                    }
                    if must && !(recv_ok && send_ok && dst.as_deref() == Some(&src[..])) {
                        fail(format!("transaction {} (put #{j}) did not complete: receiver_ok={recv_ok} sender_ok={send_ok} file_ok={}", key_text(&tid), dst.as_deref() == Some(&src[..])));
                    }
                    // its indications at the receiving entity name its own file only
                    for i in &world.nodes[1 - p.daemon].inds {
                        if let Indication::MetadataRecv(m) = i {
                            if m.id == tid && m.destination_filename.as_str() != p.out_name {
                                fail(format!("transaction {} received the metadata of another transfer ({})", key_text(&tid), m.destination_filename));
                            }
                        }
                    }
                }
            }
            let _ = hex(&[]);
            let _ = cond_of(0);
        }
    });
}

// ------------------------------------------------------------------ generator
pub fn gen(seed: u64, tier: &str, w: &mut impl Write, stats: &mut Stats) {
    let mut rng = Rng::new(seed ^ 0xDAE0);
    let n = if tier == "thorough" { 3_000 } else { 250 };
    for i in 0..n {
        let (sub, mut r) = rng.fork();
        let kind = r.below(11); // 0..=5 clean concurrency + strays, 6..=7 lossy, 8 user commands, 9 id wrap-around, 10 bursts
        let idw = if kind == 9 { 1 } else { *r.pick(&[1u64, 2]) };
        let (s1, s2) = if kind == 9 { (250 + r.below(6), 240 + r.below(16)) } else { (r.below(180), r.below(180)) };
        let acked_default = r.chance(2, 3);
        let seg = *r.pick(&[16u64, 32, 48]);
        let seg = if kind == 10 { 16 } else { seg };
        let flen = if kind == 10 { 16 * (105 + r.below(60)) } else { *r.pick(&[0u64, 1, seg - 1, seg, 2 * seg + 3, 5 * seg]) };
        let clean = kind <= 5 || kind >= 9;
        let ends = kind != 8;
        writeln!(
            w,
            "CASE d{i} sub={sub} mode={} nak={}{} seg={seg} large=0 crc={} maxc={} ti={} ta={} tn={} h= closure={} ck=M idw={idw} w={idw} s1={s1} s2={s2} flen={flen} clean={} ends={}",
            if acked_default { "A" } else { "U" },
            r.pick(&["I", "D"]),
            r.pick(&[0u64, 0, 50]),
            r.chance(1, 2) as u8,
            2 + r.below(3),
            4 + r.below(6),
            1 + r.below(3),
            1 + r.below(3),
            r.chance(1, 2) as u8,
            clean as u8,
            ends as u8
        )
        .unwrap();
        stats.inc(match kind {
            0..=5 => "script_concurrent_clean",
            6 | 7 => "script_lossy",
            8 => "script_user_commands",
            9 => "script_id_wrap",
            _ => "script_burst",
        });
        let mut ops: Vec<String> = Vec::new();
        if kind == 10 {
            // long files (more PDUs than a transaction's command channel holds) delivered in bursts
            let np = 1 + r.below(3);
            for _ in 0..np {
                ops.push(format!("PUT {} {} {}", 1 + r.below(2), r.below(6), r.pick(&["A", "U"])));
            }
            for _ in 0..(6 + r.below(10)) {
                match r.below(6) {
                    0 => ops.push("SETTLE".into()),
                    1 => ops.push(format!("XFER {} {}", 1 + r.below(2), 1 + r.below(6))),
                    _ => ops.push(format!("BURST {} {}", 1 + r.below(2), 50 + r.below(250))),
                }
            }
            ops.push("RUNALL 400".into());
            ops.push(format!("PUT {} {} A", 1 + r.below(2), r.below(6)));
            ops.push("RUNALL 400".into());
            stats.add("ops", ops.len() as u64);
            for o in ops {
                writeln!(w, "{o}").unwrap();
            }
            continue;
        }
        let nput = if kind == 9 { 8 + r.below(10) } else { 2 + r.below(12) };
        let mut puts_done = 0u64;
        let steps = nput * 3 + r.below(30);
        let mut issued: Vec<(u64, u64)> = Vec::new(); // (daemon, seq) guesses for CMD
        let (mut n1, mut n2) = (s1, s2);
        let modulus = if idw == 1 { 256 } else { 65536 };
        for _ in 0..steps {
            match r.below(20) {
                0..=5 if puts_done < nput => {
                    let d = 1 + r.below(2);
                    let mode = if r.chance(2, 3) { "A" } else { "U" };
                    let k = if r.chance(1, 15) { 90 } else { r.below(6) };
                    if r.chance(1, 12) {
                        ops.push(format!("PUT {d} {k} {mode} 3"));
                    } else {
                        ops.push(format!("PUT {d} {k} {mode}"));
                    }
                    if d == 1 {
                        issued.push((1, n1));
                        n1 = (n1 + 1) % modulus;
                    } else {
                        issued.push((2, n2));
                        n2 = (n2 + 1) % modulus;
                    }
                    puts_done += 1;
                    stats.inc("put");
                }
                6..=11 => ops.push(format!("XFER {} {}", 1 + r.below(2), 1 + r.below(6))),
                12 => {
                    // stray / unknown-id PDUs in both directions, some naming the transport-less entity 3
                    stats.inc("stray");
                    let d = 1 + r.below(2);
                    let dir = *r.pick(&["S", "S", "R"]);
                    let (src, dst) = match r.below(5) {
                        0 => (3, d),
                        1 => (d, 3),
                        2 => (d, 3 - d),
                        _ => (3 - d, d),
                    };
                    // ids of strays never coincide with those of real transactions (a forged PDU carrying the id
                    // of a live transaction belongs to it as far as CFDP can tell)
                    let seq = if kind == 9 { 100 + r.below(50) } else { 215 + r.below(40) };
                    // ... except that a third of the strays carry the SEQUENCE NUMBER of a transaction that was
                    // really started, under a different source entity - a different transaction id, which must
                    // not reach the live transaction (seeded change C11e keyed ToSender PDUs by the daemon's own
                    // entity id): delivered to the daemon of the real sender (as a response) or of the real
                    // receiver (as sender traffic)
                    if !issued.is_empty() && r.chance(1, 3) {
                        let (d0, s0) = *r.pick(&issued);
                        let foreign: Vec<u64> = [3u64, 3 - d0].iter().copied().filter(|f| !issued.contains(&(*f, s0))).collect();
                        if !foreign.is_empty() {
                            stats.inc("stray_live_seq");
                            let f = *r.pick(&foreign);
                            let kinds = ["ACKE", "ACKF", "FIN", "NAK", "EOF", "MD", "FD", "KA", "PR"];
                            if r.chance(2, 3) {
                                ops.push(format!("STRAY {d0} S {f} {} {s0} {}", 3 - d0, r.pick(&["FIN", "FIN", "NAK", "ACKE", "KA"])));
                            } else {
                                ops.push(format!("STRAY {} R {f} {} {s0} {}", 3 - d0, 3 - d0, r.pick(&kinds)));
                            }
                            continue;
                        }
                    }
                    ops.push(format!("STRAY {d} {dir} {src} {dst} {seq} {}", r.pick(&["ACKE", "ACKF", "FIN", "NAK", "EOF", "MD", "FD", "KA", "PR"])));
                }
                13 => {
                    stats.inc("replay");
                    ops.push(format!("REPLAY {} {}", 1 + r.below(2), r.below(1000)))
                }
                14 => ops.push(format!("CLEANUP {}", 1 + r.below(2))),
                // in the clean scripts no PDU is held back for longer than a timer: time only passes in RUNALL
                15 => ops.push(format!("ADV {}", if clean { *r.pick(&[1u64, 10]) } else { *r.pick(&[10u64, 300, 1000, 2500]) })),
                16 if kind == 6 || kind == 7 => {
                    stats.inc("drop");
                    ops.push(format!("DROP {} {}", 1 + r.below(2), 1 + r.below(2)))
                }
                17 if kind == 6 || kind == 7 => ops.push(format!("DUPX {}", 1 + r.below(2))),
                18 if kind == 8 && !issued.is_empty() => {
                    let (d, seq) = *r.pick(&issued);
                    let at = if r.chance(1, 2) { d } else { 3 - d };
                    ops.push(format!("CMD {at} {d} {seq} {}", r.pick(&["CANCEL", "SUSPEND", "RESUME", "REPORT", "REPORT"])));
                }
                _ => ops.push("SETTLE".into()),
            }
        }
        ops.push("RUNALL 400".into());
        // the daemons keep serving: a fresh transfer afterwards must complete
        ops.push(format!("PUT {} {} A", 1 + r.below(2), r.below(6)));
        ops.push("RUNALL 400".into());
        stats.add("ops", ops.len() as u64);
        for o in ops {
            writeln!(w, "{o}").unwrap();
        }
    }
}
