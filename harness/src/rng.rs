//! One seeded PRNG (splitmix64 -> xoshiro256**); every random choice of the harness derives from it.
#[derive(Clone)]
pub struct Rng {
    s: [u64; 4],
}
fn splitmix(x: &mut u64) -> u64 {
    *x = x.wrapping_add(0x9E3779B97F4A7C15);
    let mut z = *x;
    z = (z ^ (z >> 30)).wrapping_mul(0xBF58476D1CE4E5B9);
    z = (z ^ (z >> 27)).wrapping_mul(0x94D049BB133111EB);
    z ^ (z >> 31)
}
impl Rng {
    pub fn new(seed: u64) -> Self {
        let mut x = seed;
        Rng {
            s: [splitmix(&mut x), splitmix(&mut x), splitmix(&mut x), splitmix(&mut x)],
        }
    }
    /// independent sub-stream, so that one case replays alone from its own sub-seed
    pub fn fork(&mut self) -> (u64, Rng) {
        let sub = self.next();
        (sub, Rng::new(sub))
    }
    pub fn next(&mut self) -> u64 {
        let r = self.s[1].wrapping_mul(5).rotate_left(7).wrapping_mul(9);
        let t = self.s[1] << 17;
        self.s[2] ^= self.s[0];
        self.s[3] ^= self.s[1];
        self.s[1] ^= self.s[2];
        self.s[0] ^= self.s[3];
        self.s[2] ^= t;
        self.s[3] = self.s[3].rotate_left(45);
        r
    }
    /// uniform in [0, n)
    pub fn below(&mut self, n: u64) -> u64 {
        if n == 0 {
            0
        } else {
            self.next() % n
        }
    }
    /// uniform in [lo, hi]
    pub fn range(&mut self, lo: u64, hi: u64) -> u64 {
        if hi == u64::MAX && lo == 0 {
            self.next()
        } else {
            lo + self.below(hi - lo + 1)
        }
    }
    pub fn chance(&mut self, num: u64, den: u64) -> bool {
        self.below(den) < num
    }
    pub fn pick<'a, T>(&mut self, xs: &'a [T]) -> &'a T {
        &xs[self.below(xs.len() as u64) as usize]
    }
    pub fn bytes(&mut self, n: usize) -> Vec<u8> {
        (0..n).map(|_| self.next() as u8).collect()
    }
}
