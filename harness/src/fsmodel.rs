//! Runner for FileStore::process_request on a real NativeFileStore and for the fail-the-rest loop of
//! RecvTransaction::finalize_receive (C13).
//! CASE <id>
//! ops:  I                                  reset the sandbox to {f1="one", f2="two", d1/, d1/f="three"}
//!       Q <action> <name1> <name2>         one process_request on the current filesystem state
//!       X <k> <a1> <n1> <m1> ... (k x)     reset, then the list is carried by a Metadata PDU into a real
//!                                          RecvTransaction (unacknowledged, no file) and executed by its
//!                                          own loop when the EOF arrives; statuses from the Finished indication
//! Observation: statuses (hex of FileStoreStatus::as_u8) `|` sorted recursive listing with contents.
use crate::rng::Rng;
use crate::util::{cases, hex, Stats};
use camino::Utf8PathBuf;
use cfdp_core::daemon::{Indication, NakProcedure};
use cfdp_core::filestore::{ChecksumType, FileStore, NativeFileStore};
use cfdp_core::pdu::*;
use cfdp_core::transaction::TransactionConfig;
use cfdp_daemon::transaction::RecvTransaction;
use std::collections::{BTreeMap, HashMap};
use std::fs;
use std::io::Write;
use std::panic::{catch_unwind, AssertUnwindSafe};
use std::sync::Arc;
use std::time::Duration;

fn unescape(root: &str, s: &str) -> String {
    if s == "-" {
        return String::new();
    }
    let b = s.as_bytes();
    let mut out: Vec<u8> = Vec::new();
    let mut i = 0;
    while i < b.len() {
        if b[i] == b'%' && i + 1 < b.len() && b[i + 1] == b'R' {
            out.extend_from_slice(root.as_bytes());
            i += 2;
        } else if b[i] == b'%' && i + 2 < b.len() {
            out.push(u8::from_str_radix(&s[i + 1..i + 3], 16).expect("bad escape"));
            i += 3;
        } else {
            out.push(b[i]);
            i += 1;
        }
    }
    String::from_utf8(out).expect("names in ops files must be valid UTF-8")
}
fn esc_raw(s: &str) -> String {
    let mut out = String::new();
    for &k in s.as_bytes() {
        let c = k as char;
        if k > 0x20 && k < 0x7f && !"%,:=|".contains(c) {
            out.push(c);
        } else {
            out.push_str(&format!("%{k:02x}"));
        }
    }
    out
}

fn action(k: u8) -> FileStoreAction {
    match k {
        0 => FileStoreAction::CreateFile,
        1 => FileStoreAction::DeleteFile,
        2 => FileStoreAction::RenameFile,
        3 => FileStoreAction::AppendFile,
        4 => FileStoreAction::ReplaceFile,
        5 => FileStoreAction::CreateDirectory,
        6 => FileStoreAction::RemoveDirectory,
        7 => FileStoreAction::DenyFile,
        _ => FileStoreAction::DenyDirectory,
    }
}

// ---------------------------------------------------------------- the real filesystem

type Key = Vec<String>;
/// location -> None (directory) | Some(content); the root is the empty key
type Tree = BTreeMap<Key, Option<Vec<u8>>>;

struct Sandbox {
    _guard: tempfile::TempDir,
    root: Utf8PathBuf,
}
impl Sandbox {
    fn new() -> Self {
        // a memory-backed directory if there is one: create_file fsyncs, which costs milliseconds on a disk.
        // (None of the names used by this component exposes the names or the depth of the root path.)
        let base = if std::path::Path::new("/dev/shm").is_dir() { "/dev/shm" } else { "/tmp" };
        let guard = tempfile::Builder::new()
            .prefix("cfdpverif")
            .tempdir_in(base)
            .or_else(|_| tempfile::Builder::new().prefix("cfdpverif").tempdir_in("/tmp"))
            .expect("temporary directory");
        let t = Utf8PathBuf::from_path_buf(guard.path().to_path_buf()).expect("utf8 tempdir");
        let sb = Sandbox { root: t.join("root"), _guard: guard };
        sb.reset();
        sb
    }
    fn reset(&self) {
        let _ = fs::remove_dir_all(&self.root);
        let _ = fs::remove_file(&self.root);
        fs::create_dir_all(self.root.join("d1")).unwrap();
        fs::write(self.root.join("f1"), b"one").unwrap();
        fs::write(self.root.join("f2"), b"two").unwrap();
        fs::write(self.root.join("d1/f"), b"three").unwrap();
    }
    fn snapshot(&self) -> Tree {
        fn walk(dir: &std::path::Path, key: &Key, out: &mut Tree) {
            if let Ok(rd) = fs::read_dir(dir) {
                for e in rd.flatten() {
                    let mut k = key.clone();
                    k.push(e.file_name().to_string_lossy().to_string());
                    if e.file_type().map(|t| t.is_dir()).unwrap_or(false) {
                        out.insert(k.clone(), None);
                        walk(&e.path(), &k, out);
                    } else {
                        out.insert(k, Some(fs::read(e.path()).unwrap_or_default()));
                    }
                }
            }
        }
        let mut out = Tree::new();
        if self.root.is_dir() {
            out.insert(vec![], None);
            walk(self.root.as_std_path(), &vec![], &mut out);
        }
        out
    }
}

fn listing(t: &Tree) -> String {
    if !t.contains_key(&vec![]) {
        return "NOROOT".to_string();
    }
    let mut lines: Vec<String> = t
        .iter()
        .filter(|(k, _)| !k.is_empty())
        .map(|(k, v)| {
            let path = k.iter().map(|x| esc_raw(x)).collect::<Vec<_>>().join("/");
            match v {
                None => format!("{path}/"),
                Some(d) => format!("{path}={}", hex(d)),
            }
        })
        .collect();
    if lines.is_empty() {
        return "EMPTY".to_string();
    }
    lines.sort();
    lines.join(" ")
}

// ---------------------------------------------------------------- the reference (oracle)
// Written from the Blue Book's definition of the actions, independently of the code and of the Coq model.

/// the location a name denotes below the root
fn key_of(root: &str, name: &str) -> Key {
    let pieces: Vec<&str> = name.split('/').filter(|s| !s.is_empty() && *s != ".").collect();
    let rootp: Vec<&str> = root.split('/').filter(|s| !s.is_empty()).collect();
    // a name that repeats the root path denotes the location after it
    let plain = |v: &[&str]| v.iter().all(|s| *s != "." && *s != "..");
    let rest: &[&str] = if name.starts_with('/') && pieces.len() >= rootp.len() && pieces[..rootp.len()] == rootp[..] && plain(&pieces[..rootp.len()]) {
        &pieces[rootp.len()..]
    } else {
        &pieces[..]
    };
    let mut st: Key = Vec::new();
    for p in rest {
        match *p {
            "." => {}
            ".." => {
                st.pop();
            }
            x => st.push(x.to_string()),
        }
    }
    st
}

fn is_file(t: &Tree, k: &Key) -> bool {
    matches!(t.get(k), Some(Some(_)))
}
fn is_dir(t: &Tree, k: &Key) -> bool {
    matches!(t.get(k), Some(None))
}
fn parent_is_dir(t: &Tree, k: &Key) -> bool {
    k.is_empty() || is_dir(t, &k[..k.len() - 1].to_vec())
}
fn under(p: &Key, q: &Key) -> bool {
    q.len() >= p.len() && q[..p.len()] == p[..]
}

/// status (low nibble of the status byte) and the tree afterwards
fn ref_apply(t: &Tree, a: u8, p: &Key, p2: &Key) -> (u8, Tree) {
    let mut n = t.clone();
    let st = match a {
        0 => {
            if t.contains_key(p) || p.is_empty() || !parent_is_dir(t, p) {
                1
            } else {
                n.insert(p.clone(), Some(vec![]));
                0
            }
        }
        1 | 7 => {
            if is_file(t, p) {
                n.remove(p);
                0
            } else if a == 1 {
                1
            } else {
                2
            }
        }
        2 => {
            if !is_file(t, p) {
                1
            } else if is_file(t, p2) {
                2
            } else if t.contains_key(p2) || !parent_is_dir(t, p2) {
                3
            } else {
                let c = n.remove(p).unwrap();
                n.insert(p2.clone(), c);
                0
            }
        }
        3 | 4 => {
            if !is_file(t, p) {
                1
            } else if !is_file(t, p2) {
                2
            } else {
                let c1 = t.get(p).unwrap().clone().unwrap();
                let c2 = t.get(p2).unwrap().clone().unwrap();
                let newc = if a == 3 { [c1, c2].concat() } else { c2 };
                n.insert(p.clone(), Some(newc));
                0
            }
        }
        5 => {
            if t.contains_key(p) || !parent_is_dir(t, p) {
                1
            } else {
                n.insert(p.clone(), None);
                0
            }
        }
        _ => {
            // 6 remove directory, 8 deny directory
            if is_dir(t, p) {
                n.retain(|k, _| !under(p, k));
                0
            } else if a == 6 {
                1
            } else {
                2
            }
        }
    };
    (st, n)
}

// ---------------------------------------------------------------- the real code

fn make_request(root: &str, a: u8, n1: &str, n2: &str) -> FileStoreRequest {
    FileStoreRequest { action_code: action(a), first_filename: unescape(root, n1).into(), second_filename: unescape(root, n2).into() }
}

fn header(len: u16) -> PDUHeader {
    PDUHeader {
        version: U3::One,
        pdu_type: PDUType::FileDirective,
        direction: Direction::ToReceiver,
        transmission_mode: TransmissionMode::Unacknowledged,
        crc_flag: CRCFlag::NotPresent,
        large_file_flag: FileSizeFlag::Small,
        pdu_data_field_length: len,
        segmentation_control: SegmentationControl::NotPreserved,
        segment_metadata_flag: SegmentedData::NotPresent,
        source_entity_id: VariableID::from(12_u16),
        transaction_sequence_number: VariableID::from(3_u16),
        destination_entity_id: VariableID::from(15_u16),
    }
}

/// the request list travels in a Metadata PDU; the receiver's own loop executes it on EOF
async fn through_transaction(store: Arc<NativeFileStore>, reqs: Vec<FileStoreRequest>) -> Result<Vec<FileStoreResponse>, String> {
    let (tx, mut rx) = tokio::sync::mpsc::channel::<Indication>(100);
    let config = TransactionConfig {
        source_entity_id: VariableID::from(12_u16),
        destination_entity_id: VariableID::from(15_u16),
        transmission_mode: TransmissionMode::Unacknowledged,
        sequence_number: VariableID::from(3_u16),
        file_size_flag: FileSizeFlag::Small,
        fault_handler_override: HashMap::new(),
        file_size_segment: 1024,
        crc_flag: CRCFlag::NotPresent,
        segment_metadata_flag: SegmentedData::NotPresent,
        max_count: 5,
        inactivity_timeout: 300,
        ack_timeout: 300,
        nak_timeout: 300,
    };
    let mut tr = RecvTransaction::new(config, NakProcedure::Deferred(Duration::ZERO), store, tx);
    let meta = PDUPayload::Directive(Operations::Metadata(MetadataPDU {
        closure_requested: false,
        checksum_type: ChecksumType::Null,
        file_size: 0,
        source_filename: "".into(),
        destination_filename: "".into(),
        options: reqs.into_iter().map(MetadataTLV::FileStoreRequest).collect(),
    }));
    let len = meta.encoded_len(FileSizeFlag::Small);
    tr.process_pdu(PDU { header: header(len), payload: meta }).map_err(|e| format!("metadata: {e}"))?;
    let eof = PDUPayload::Directive(Operations::EoF(EndOfFile { condition: Condition::NoError, checksum: 0, file_size: 0, fault_location: None }));
    let len = eof.encoded_len(FileSizeFlag::Small);
    tr.process_pdu(PDU { header: header(len), payload: eof }).map_err(|e| format!("eof: {e}"))?;
    loop {
        match tokio::time::timeout(Duration::from_secs(5), rx.recv()).await {
            Ok(Some(Indication::Finished(f))) => return Ok(f.filestore_responses),
            Ok(Some(_)) => continue,
            Ok(None) => return Err("indication channel closed without a Finished indication".to_string()),
            Err(_) => return Err("no Finished indication".to_string()),
        }
    }
}

pub fn run(ops: &str, out: &mut impl Write, orc: &mut impl Write) {
    let rt = tokio::runtime::Builder::new_current_thread().enable_all().build().expect("tokio runtime");
    for (hdr, lines) in cases(ops) {
        let id = &hdr[0];
        writeln!(out, "CASE {id}").unwrap();
        let sb = Sandbox::new();
        let root = sb.root.to_string();
        let store = Arc::new(NativeFileStore::new(&root));
        for (i, l) in lines.iter().enumerate() {
            let t: Vec<&str> = l.split_whitespace().collect();
            match t[0] {
                "I" => {
                    sb.reset();
                    writeln!(out, "{}", listing(&sb.snapshot())).unwrap();
                }
                "Q" => {
                    let a: u8 = t[1].parse().unwrap();
                    let req = make_request(&root, a, t[2], t[3]);
                    let before = sb.snapshot();
                    let r = catch_unwind(AssertUnwindSafe(|| store.process_request(&req)));
                    let after = sb.snapshot();
                    match r {
                        Ok(rep) => {
                            let code = rep.action_and_status.as_u8();
                            writeln!(out, "{code:02x} | {}", listing(&after)).unwrap();
                            let (p, p2) = (key_of(&root, req.first_filename.as_str()), key_of(&root, req.second_filename.as_str()));
                            let (want, want_tree) = ref_apply(&before, a, &p, &p2);
                            let want_code = (a << 4) | want;
                            let what = format!("request {a} ({}, {}) on [{}]", t[2], t[3], listing(&before));
                            if rep.first_filename != req.first_filename || rep.second_filename != req.second_filename || (code >> 4) != a {
                                writeln!(orc, "FAIL C13 case={id} op={i} {what}: the response does not echo the request").unwrap();
                            }
                            if code != want_code {
                                writeln!(orc, "FAIL C13 case={id} op={i} {what}: status {code:#04x}, CFDP defines {want_code:#04x}").unwrap();
                            }
                            if code & 0x0f != 0 && after != before {
                                writeln!(orc, "FAIL C13 case={id} op={i} {what}: failed with status {code:#04x} but changed the filestore to [{}]", listing(&after)).unwrap();
                            } else if after != want_tree && code == want_code {
                                writeln!(orc, "FAIL C13 case={id} op={i} {what}: status {code:#04x}, filestore afterwards [{}], CFDP defines [{}]", listing(&after), listing(&want_tree)).unwrap();
                            }
                        }
                        Err(_) => {
                            writeln!(out, "PANIC").unwrap();
                            writeln!(orc, "FAIL C13 case={id} op={i} request {a} ({}, {}) panicked", t[2], t[3]).unwrap();
                        }
                    }
                }
                "X" => {
                    let k: usize = t[1].parse().unwrap();
                    let mut reqs = Vec::new();
                    let mut raw = Vec::new();
                    for j in 0..k {
                        let a: u8 = t[2 + 3 * j].parse().unwrap();
                        reqs.push(make_request(&root, a, t[3 + 3 * j], t[4 + 3 * j]));
                        raw.push((a, t[3 + 3 * j], t[4 + 3 * j]));
                    }
                    sb.reset();
                    let before = sb.snapshot();
                    let res = rt.block_on(through_transaction(store.clone(), reqs.clone()));
                    let after = sb.snapshot();
                    match res {
                        Ok(reps) => {
                            let sts: Vec<String> = reps.iter().map(|r| format!("{:02x}", r.action_and_status.as_u8())).collect();
                            writeln!(out, "{} | {}", if sts.is_empty() { "-".to_string() } else { sts.join(",") }, listing(&after)).unwrap();
                            // ---- the property on the real outputs
                            let what = format!("request list {}", l);
                            if reps.len() != reqs.len() {
                                writeln!(orc, "FAIL C13 case={id} op={i} {what}: {} responses for {} requests", reps.len(), reqs.len()).unwrap();
                                continue;
                            }
                            let mut tree = before.clone();
                            let mut failed = false;
                            let mut want: Vec<u8> = Vec::new();
                            for (req, (a, _, _)) in reqs.iter().zip(raw.iter()) {
                                if failed {
                                    want.push((a << 4) | 0x0f);
                                } else {
                                    let (p, p2) = (key_of(&root, req.first_filename.as_str()), key_of(&root, req.second_filename.as_str()));
                                    let (st, nt) = ref_apply(&tree, *a, &p, &p2);
                                    want.push((a << 4) | st);
                                    tree = nt;
                                    failed = st != 0;
                                }
                            }
                            let got: Vec<u8> = reps.iter().map(|r| r.action_and_status.as_u8()).collect();
                            for (j, (rep, req)) in reps.iter().zip(reqs.iter()).enumerate() {
                                if rep.first_filename != req.first_filename || rep.second_filename != req.second_filename || (got[j] >> 4) != raw[j].0 {
                                    writeln!(orc, "FAIL C13 case={id} op={i} {what}: response {j} does not answer request {j}").unwrap();
                                }
                            }
                            if got != want {
                                writeln!(orc, "FAIL C13 case={id} op={i} {what}: statuses {:02x?}, CFDP defines {:02x?} (first failure stops execution, the rest is not performed)", got, want).unwrap();
                            } else if after != tree {
                                writeln!(orc, "FAIL C13 case={id} op={i} {what}: filestore afterwards [{}], CFDP defines [{}]", listing(&after), listing(&tree)).unwrap();
                            }
                        }
                        Err(e) => {
                            writeln!(out, "ERR {e}").unwrap();
                            writeln!(orc, "FAIL C13 case={id} op={i} request list {l}: the transaction did not deliver a Finished indication ({e})").unwrap();
                        }
                    }
                }
                other => panic!("fsmodel: unknown op {other}"),
            }
        }
    }
}

// ---------------------------------------------------------------- generator

const NAMES: [&str; 6] = ["f1", "f2", "d1", "d1/f", "missing", "nested/missing"];
const PAIRS: [(&str, &str); 7] = [("f1", "f2"), ("f1", "missing"), ("missing", "f2"), ("f1", "d1"), ("d1/f", "f1"), ("f1", "nested/missing"), ("f2", "f2")];

fn alphabet() -> Vec<String> {
    let mut v = Vec::new();
    for a in [0u8, 1, 5, 6, 7, 8] {
        for n in NAMES {
            v.push(format!("{a} {n} -"));
        }
    }
    for a in [2u8, 3, 4] {
        for (x, y) in PAIRS {
            v.push(format!("{a} {x} {y}"));
        }
    }
    v
}
fn small_alphabet() -> Vec<String> {
    [
        "0 missing -", "0 f1 -", "0 nested/missing -", "1 f1 -", "1 missing -", "5 missing -", "5 d1 -", "6 d1 -", "6 missing -", "7 f2 -",
        "7 missing -", "8 d1 -", "8 missing -", "2 f1 missing", "2 f1 f2", "2 missing f2", "3 f1 f2", "3 f1 missing", "4 f2 d1/f", "4 missing f1",
        "0 d1/f -", "1 d1/f -", "5 nested/missing -", "6 f1 -", "7 d1 -", "8 f1 -", "2 d1/f missing", "3 d1/f f1",
    ]
    .iter()
    .map(|s| s.to_string())
    .collect()
}

const RICH: [&str; 28] = [
    "f1", "f2", "d1", "d1/f", "missing", "nested/missing", "new", "d1/new", "d1/d2", "d1/d2/g", "-", ".", "d1/..", "d1/../f1", "./f2", "f1/", "d1/",
    "f1/x", "/f1", "%R/f1", "%R/d1/f", "%R", "%R/../f1", "..", "../f1", "a%20b", "%c3%a9", "d1//f",
];

/// a request that is likely to succeed on the tree `t` (the generator's own prediction of the state)
fn plausible(r: &mut Rng, t: &Tree) -> (u8, String, String) {
    let esc = |k: &Key| if k.is_empty() { "-".to_string() } else { k.iter().map(|x| esc_raw(x)).collect::<Vec<_>>().join("/") };
    let files: Vec<Key> = t.iter().filter(|(_, v)| v.is_some()).map(|(k, _)| k.clone()).collect();
    let dirs: Vec<Key> = t.iter().filter(|(k, v)| v.is_none() && !k.is_empty()).map(|(k, _)| k.clone()).collect();
    let fresh = |r: &mut Rng| -> String {
        let base = ["new", "g", "h", "x1", "x2", "x3"];
        let d: Vec<Key> = t.iter().filter(|(_, v)| v.is_none()).map(|(k, _)| k.clone()).collect();
        let parent: Key = if d.is_empty() { vec![] } else { r.pick(&d).clone() };
        let mut k = parent;
        k.push(r.pick(&base).to_string());
        esc(&k)
    };
    let a = r.below(9) as u8;
    match a {
        0 | 5 => (a, fresh(r), "-".to_string()),
        1 | 7 if !files.is_empty() => (a, esc(r.pick(&files)), "-".to_string()),
        6 | 8 if !dirs.is_empty() => (a, esc(r.pick(&dirs)), "-".to_string()),
        2 if !files.is_empty() => (a, esc(r.pick(&files)), fresh(r)),
        3 | 4 if !files.is_empty() => (a, esc(r.pick(&files)), esc(r.pick(&files))),
        _ => (0, fresh(r), "-".to_string()),
    }
}

fn std_tree() -> Tree {
    let mut t = Tree::new();
    t.insert(vec![], None);
    t.insert(vec!["f1".into()], Some(b"one".to_vec()));
    t.insert(vec!["f2".into()], Some(b"two".to_vec()));
    t.insert(vec!["d1".into()], None);
    t.insert(vec!["d1".into(), "f".into()], Some(b"three".to_vec()));
    t
}

fn random_request(r: &mut Rng, t: &Tree, adversarial: bool) -> (u8, String, String) {
    if !adversarial && r.chance(7, 10) {
        plausible(r, t)
    } else {
        let a = r.below(9) as u8;
        let pool: &[&str] = if adversarial { &RICH } else { &RICH[..10] };
        let n1 = r.pick(pool).to_string();
        let n2 = if (2..=4).contains(&a) || r.chance(1, 10) { r.pick(pool).to_string() } else { "-".to_string() };
        (a, n1, n2)
    }
}

pub fn gen(seed: u64, tier: &str, w: &mut impl Write, stats: &mut Stats) {
    let mut rng = Rng::new(seed ^ 0xC13);
    let thorough = tier == "thorough";
    let mut case = 0u64;
    let model_root = "/sb1/sb2/root"; // only for the generator's own prediction of plausible requests

    // (1) bounded exhaustive: every list of up to 3 requests over the namespace, through the real loop
    let al = alphabet();
    let mut in_case = usize::MAX;
    let mut emit = |w: &mut dyn Write, line: String, case: &mut u64, tag: &str| {
        if in_case >= 1000 {
            writeln!(w, "CASE x{} exhaustive {tag}", *case).unwrap();
            *case += 1;
            in_case = 0;
        }
        writeln!(w, "{line}").unwrap();
        in_case += 1;
    };
    emit(w, "X 0".to_string(), &mut case, "len<=3");
    for a in &al {
        emit(w, format!("X 1 {a}"), &mut case, "len<=3");
        stats.inc("lists_exhaustive_len1");
    }
    for a in &al {
        for b in &al {
            emit(w, format!("X 2 {a} {b}"), &mut case, "len<=3");
            stats.inc("lists_exhaustive_len2");
        }
    }
    for a in &al {
        for b in &al {
            for c in &al {
                emit(w, format!("X 3 {a} {b} {c}"), &mut case, "len<=3");
                stats.inc("lists_exhaustive_len3");
            }
        }
    }
    if thorough {
        let sm = small_alphabet();
        for a in &sm {
            for b in &sm {
                for c in &sm {
                    for d in &sm {
                        emit(w, format!("X 4 {a} {b} {c} {d}"), &mut case, "len4");
                        stats.inc("lists_exhaustive_len4");
                    }
                }
            }
        }
    }
    // every single request of the alphabet directly (lock-step with the listing), from the initial state
    writeln!(w, "CASE q{case} every request alone").unwrap();
    case += 1;
    for a in &al {
        writeln!(w, "I").unwrap();
        writeln!(w, "Q {a}").unwrap();
        stats.inc("requests_direct_alone");
    }

    // (2) random histories of direct requests (lock-step: status and listing after every request)
    let n_hist = if thorough { 3000 } else { 400 };
    for _ in 0..n_hist {
        let (sub, mut r) = rng.fork();
        let adversarial = r.chance(1, 5);
        writeln!(w, "CASE h{case} sub={sub} adversarial={}", adversarial as u8).unwrap();
        case += 1;
        let mut t = std_tree();
        let len = 1 + r.below(30);
        for _ in 0..len {
            let (a, n1, n2) = random_request(&mut r, &t, adversarial);
            writeln!(w, "Q {a} {n1} {n2}").unwrap();
            stats.inc(&format!("direct_action_{a}"));
            let (p, p2) = (key_of(model_root, &unescape(model_root, &n1)), key_of(model_root, &unescape(model_root, &n2)));
            let (st, nt) = ref_apply(&t, a, &p, &p2);
            stats.inc(if st == 0 { "direct_predicted_success" } else { "direct_predicted_failure" });
            t = nt;
        }
        stats.inc(if adversarial { "histories_adversarial" } else { "histories_mostly_valid" });
    }
    // (3) random request lists of up to 30 requests through the real loop
    let n_lists = if thorough { 6000 } else { 1000 };
    writeln!(w, "CASE l{case} random lists").unwrap();
    case += 1;
    for i in 0..n_lists {
        if i > 0 && i % 500 == 0 {
            writeln!(w, "CASE l{case} random lists").unwrap();
            case += 1;
        }
        let adversarial = rng.chance(1, 5);
        let mut t = std_tree();
        let len = rng.below(31) as usize;
        let mut line = format!("X {len}");
        let mut failed_at: Option<usize> = None;
        // valid up to a chosen point, so that long prefixes are executed before the first failure
        let good = rng.below(len as u64 + 1) as usize;
        for j in 0..len {
            let (a, n1, n2) = if j < good && failed_at.is_none() { plausible(&mut rng, &t) } else { random_request(&mut rng, &t, adversarial) };
            line.push_str(&format!(" {a} {n1} {n2}"));
            if failed_at.is_none() {
                let (p, p2) = (key_of(model_root, &unescape(model_root, &n1)), key_of(model_root, &unescape(model_root, &n2)));
                let (st, nt) = ref_apply(&t, a, &p, &p2);
                if st != 0 {
                    failed_at = Some(j);
                } else {
                    t = nt;
                }
            }
        }
        writeln!(w, "{line}").unwrap();
        stats.inc(match failed_at {
            None => "lists_random_all_succeed",
            Some(j) if j + 1 == len => "lists_random_last_fails",
            Some(_) => "lists_random_fail_then_not_performed",
        });
    }
}
