//! Runner for cfdp_core::filestore::FileChecksum (C14).
//! ops:  K <src> <type> <pos> <hex data> <script>     src = file | cursor | script
//!       D <type> <hex data> <idx> <newbyte> <scriptA> <scriptB>
//! `script` = comma separated sizes ("-" = none): the k-th read call on the underlying
//! reader returns min(script[k], buf.len(), remaining) bytes; after the script every read
//! is as large as the caller's buffer allows. A size 0 is an early end of file.
use crate::rng::Rng;
use crate::util::{cases, hex, unhex, Stats};
use cfdp_core::filestore::{ChecksumType, FileChecksum};
use std::io::{Cursor, Read, Seek, SeekFrom, Write};
use std::panic::{catch_unwind, AssertUnwindSafe};

/// the CCSDS definition, written naively: zero-pad to a multiple of 4, sum big-endian words
fn reference(data: &[u8]) -> u32 {
    let mut v = data.to_vec();
    while v.len() % 4 != 0 {
        v.push(0);
    }
    let mut s: u64 = 0;
    for w in v.chunks(4) {
        s = (s + (((w[0] as u64) << 24) | ((w[1] as u64) << 16) | ((w[2] as u64) << 8) | (w[3] as u64))) % (1u64 << 32);
    }
    s as u32
}

/// Read + Seek adaptor returning scripted short reads; records what it handed out
struct Scripted {
    cur: Cursor<Vec<u8>>,
    script: Vec<usize>,
    k: usize,
    seen: Vec<usize>,
    stopped: bool,
}
impl Scripted {
    fn new(data: Vec<u8>, script: Vec<usize>) -> Self {
        Scripted { cur: Cursor::new(data), script, k: 0, seen: Vec::new(), stopped: false }
    }
    fn delivered(&self) -> usize {
        self.seen.iter().sum()
    }
    fn hash(&self) -> (usize, u64) {
        let mut h: u64 = 0;
        for s in &self.seen {
            h = (h * 31 + *s as u64) & 0xFFFF_FFFF;
        }
        (self.seen.len(), h)
    }
}
impl Read for Scripted {
    fn read(&mut self, buf: &mut [u8]) -> std::io::Result<usize> {
        let want = if self.k < self.script.len() { self.script[self.k] } else { buf.len() };
        self.k += 1;
        let n = want.min(buf.len());
        let got = self.cur.read(&mut buf[..n])?;
        if got > 0 && !self.stopped {
            self.seen.push(got);
        } else {
            self.stopped = true;
        }
        Ok(got)
    }
}
impl Seek for Scripted {
    fn seek(&mut self, pos: SeekFrom) -> std::io::Result<u64> {
        self.cur.seek(pos)
    }
}

fn parse_script(s: &str) -> Vec<usize> {
    if s == "-" {
        vec![]
    } else {
        s.split(',').map(|x| x.parse().unwrap()).collect()
    }
}
fn fmt_script(s: &[usize]) -> String {
    if s.is_empty() {
        "-".to_string()
    } else {
        s.iter().map(|x| x.to_string()).collect::<Vec<_>>().join(",")
    }
}
fn ck_type(t: &str) -> ChecksumType {
    match t {
        "15" => ChecksumType::Null,
        _ => ChecksumType::Modular,
    }
}

enum Out {
    Ok(u32),
    Err,
    Panic,
}
fn guarded(f: impl FnOnce() -> Result<u32, ()>) -> Out {
    match catch_unwind(AssertUnwindSafe(f)) {
        Ok(Ok(v)) => Out::Ok(v),
        Ok(Err(())) => Out::Err,
        Err(_) => Out::Panic,
    }
}

/// run the real checksum through the scripted adaptor; -> (result, delivered bytes, n, h)
fn run_scripted(data: &[u8], script: &[usize], ty: ChecksumType, pos: u64) -> (Out, usize, usize, u64) {
    let mut rd = Scripted::new(data.to_vec(), script.to_vec());
    let _ = rd.seek(SeekFrom::Start(pos));
    let r = guarded(|| rd.checksum(ty).map_err(|_| ()));
    let (n, h) = rd.hash();
    (r, rd.delivered(), n, h)
}

pub fn run(ops: &str, out: &mut impl Write, orc: &mut impl Write) {
    let tmp = tempfile::tempdir().expect("tempdir");
    for (hdr, lines) in cases(ops) {
        let id = &hdr[0];
        writeln!(out, "CASE {id}").unwrap();
        for (i, l) in lines.iter().enumerate() {
            let t: Vec<&str> = l.split_whitespace().collect();
            match t[0] {
                "K" => {
                    let (src, tys, pos, data, script) = (t[1], t[2], t[3].parse::<u64>().unwrap(), unhex(t[4]), parse_script(t[5]));
                    let ty = ck_type(tys);
                    let (res, delivered, tail) = match src {
                        "file" => {
                            let p = tmp.path().join("f.bin");
                            std::fs::write(&p, &data).unwrap();
                            let mut f = std::fs::File::open(&p).unwrap();
                            let _ = f.seek(SeekFrom::Start(pos));
                            (guarded(|| f.checksum(ty).map_err(|_| ())), data.len(), String::new())
                        }
                        "cursor" => {
                            let mut c = Cursor::new(data.clone());
                            c.set_position(pos);
                            (guarded(|| c.checksum(ty).map_err(|_| ())), data.len(), String::new())
                        }
                        _ => {
                            let (r, d, n, h) = run_scripted(&data, &script, ty, pos);
                            let d = if tys == "15" { data.len() } else { d };
                            (r, d, format!(" n={n} h={h}"))
                        }
                    };
                    let want = if tys == "15" { 0 } else { reference(&data[..delivered]) };
                    match res {
                        Out::Ok(v) => {
                            writeln!(out, "{v}{tail}").unwrap();
                            if v != want {
                                writeln!(orc, "FAIL C14 case={id} op={i} checksum(type {tys}) of {} bytes read from {src} (read sizes {}) = {v:#010x}, the CCSDS checksum of the content is {want:#010x}", delivered, fmt_script(&script)).unwrap();
                            }
                        }
                        Out::Err => {
                            writeln!(out, "ERR").unwrap();
                            writeln!(orc, "FAIL C14 case={id} op={i} checksum returned an error on a well-behaved reader").unwrap();
                        }
                        Out::Panic => {
                            writeln!(out, "PANIC").unwrap();
                            writeln!(orc, "FAIL C14 case={id} op={i} checksum panicked").unwrap();
                        }
                    }
                }
                "D" => {
                    let (tys, data, idx, nb) = (t[1], unhex(t[2]), t[3].parse::<usize>().unwrap(), t[4].parse::<u8>().unwrap());
                    let (sa, sb) = (parse_script(t[5]), parse_script(t[6]));
                    let ty = ck_type(tys);
                    let mut data2 = data.clone();
                    if idx < data2.len() {
                        data2[idx] = nb;
                    }
                    let (r1, _, _, _) = run_scripted(&data, &sa, ty, 0);
                    let (r2, _, _, _) = run_scripted(&data2, &sb, ty, 0);
                    match (r1, r2) {
                        (Out::Ok(a), Out::Ok(b)) => {
                            writeln!(out, "{a} {b}").unwrap();
                            if tys != "15" {
                                if data == data2 && a != b {
                                    writeln!(orc, "FAIL C14 case={id} op={i} identical data read as {} and as {} gives different checksums {a:#010x} / {b:#010x}", fmt_script(&sa), fmt_script(&sb)).unwrap();
                                }
                                if data != data2 && a == b {
                                    writeln!(orc, "FAIL C14 case={id} op={i} changing byte {idx} from {} to {nb} leaves the checksum {a:#010x} unchanged (read sizes {} / {})", data[idx], fmt_script(&sa), fmt_script(&sb)).unwrap();
                                }
                            }
                        }
                        _ => {
                            writeln!(out, "ERR").unwrap();
                            writeln!(orc, "FAIL C14 case={id} op={i} checksum failed or panicked").unwrap();
                        }
                    }
                }
                other => panic!("checksum: unknown op {other}"),
            }
        }
    }
}

// ---------------------------------------------------------------- generator

fn content(rng: &mut Rng, kind: u64, len: usize) -> Vec<u8> {
    match kind {
        0 => (0..len).map(|i| (i + 1) as u8).collect(),  // ramp 1,2,3,...
        1 => vec![0xff; len],                             // every word addition wraps
        2 => (0..len).map(|i| if i % 4 == 0 { 0x80 } else { 0 }).collect(), // carries out of bit 31
        3 => vec![0; len],
        _ => rng.bytes(len),
    }
}

fn small_script(rng: &mut Rng, len: usize) -> Vec<usize> {
    let mut v = Vec::new();
    let mut tot = 0;
    while tot < len {
        let s = 1 + rng.below(9) as usize;
        v.push(s);
        tot += s;
    }
    v
}

fn mixed_script(rng: &mut Rng, len: usize) -> Vec<usize> {
    let mut v = Vec::new();
    let mut tot = 0;
    let bounds = [1usize, 2, 3, 4, 5, 7, 8, 9, 4095, 4096, 4097, 8191, 8192, 8193, 65536];
    while tot < len && v.len() < 400 {
        let s = match rng.below(4) {
            0 => 1 + rng.below(9) as usize,
            1 => *rng.pick(&bounds),
            2 => 1 + rng.below(9000) as usize,
            _ => 8192,
        };
        v.push(s);
        tot += s.min(8192);
    }
    v
}

fn emit_d(w: &mut impl Write, rng: &mut Rng, ty: u8, data: &[u8], sa: &[usize], sb: &[usize], stats: &mut Stats) {
    if data.is_empty() {
        return;
    }
    let idx = rng.below(data.len() as u64) as usize;
    let nb = if rng.chance(1, 8) {
        data[idx]
    } else {
        match rng.below(4) {
            0 => data[idx] ^ 1,
            1 => data[idx] ^ 0x80,
            2 => data[idx].wrapping_add(1),
            _ => rng.next() as u8,
        }
    };
    stats.inc(if nb == data[idx] { "op_pair_identical" } else { "op_pair_one_byte_changed" });
    writeln!(w, "D {ty} {} {idx} {nb} {} {}", hex(data), fmt_script(sa), fmt_script(sb)).unwrap();
}

/// all compositions of n into parts 1..=5
fn compositions(n: usize, cur: &mut Vec<usize>, out: &mut Vec<Vec<usize>>) {
    if n == 0 {
        out.push(cur.clone());
        return;
    }
    for p in 1..=5.min(n) {
        cur.push(p);
        compositions(n - p, cur, out);
        cur.pop();
    }
}

pub fn gen(seed: u64, tier: &str, w: &mut impl Write, stats: &mut Stats) {
    let mut rng = Rng::new(seed ^ 0xC14);
    let thorough = tier == "thorough";
    let mut case = 0u64;

    // (1) every length 0..=70 with structured contents; every constant read size 1..=9
    for len in 0..=70usize {
        for kind in [0u64, 1, 4] {
            let (sub, mut r) = rng.fork();
            let data = content(&mut r, kind, len);
            writeln!(w, "CASE s{case} sub={sub} len={len} content={kind}").unwrap();
            case += 1;
            let h = hex(&data);
            let pos = r.below(len as u64 + 3);
            writeln!(w, "K file 0 {pos} {h} -").unwrap();
            writeln!(w, "K cursor 0 {pos} {h} -").unwrap();
            writeln!(w, "K script 0 {pos} {h} -").unwrap();
            for c in 1..=9usize {
                let sc = vec![c; len / c + 1];
                writeln!(w, "K script 0 0 {h} {}", fmt_script(&sc)).unwrap();
                stats.inc("op_script_constant");
            }
            let sa = small_script(&mut r, len);
            let sb = small_script(&mut r, len);
            writeln!(w, "K script 0 0 {h} {}", fmt_script(&sa)).unwrap();
            writeln!(w, "K file 15 0 {h} -").unwrap();
            writeln!(w, "K script 15 0 {h} {}", fmt_script(&sb)).unwrap();
            emit_d(w, &mut r, 0, &data, &sa, &sb, stats);
            stats.inc("cases_small_lengths");
            stats.add("op_file", 2);
            stats.inc("op_cursor");
            stats.add("op_script_random", 2);
            stats.inc("op_null");
        }
    }

    // (2) lengths straddling the 8 KiB buffer (and multiples)
    let mut centres = vec![8192usize, 16384];
    if thorough {
        centres.extend([24576usize, 32768, 40960]);
    }
    for c in centres {
        for len in (c - 5)..=(c + 5) {
            let (sub, mut r) = rng.fork();
            let kind = *r.pick(&[0u64, 1, 4, 4]);
            let data = content(&mut r, kind, len);
            let h = hex(&data);
            writeln!(w, "CASE b{case} sub={sub} len={len} content={kind}").unwrap();
            case += 1;
            writeln!(w, "K file 0 0 {h} -").unwrap();
            writeln!(w, "K cursor 0 {} {h} -", r.below(len as u64)).unwrap();
            writeln!(w, "K script 0 0 {h} -").unwrap();
            for sc in [vec![8191usize; 8], vec![8193; 8], vec![8191, 1, 8192, 8190, 3], vec![4097; 12], vec![1, 8192, 8191, 2], vec![8189, 7, 8187, 9]] {
                writeln!(w, "K script 0 0 {h} {}", fmt_script(&sc)).unwrap();
                stats.inc("op_script_boundary");
            }
            let sa = mixed_script(&mut r, len);
            let sb = mixed_script(&mut r, len);
            writeln!(w, "K script 0 0 {h} {}", fmt_script(&sa)).unwrap();
            emit_d(w, &mut r, 0, &data, &sa, &sb, stats);
            if len % 3 == 0 {
                let sc = vec![7usize; len / 7 + 1];
                writeln!(w, "K script 0 0 {h} {}", fmt_script(&sc)).unwrap();
            }
            stats.inc("cases_buffer_boundary");
        }
    }

    // (3) random contents up to 40 KiB, mixed read sizes; 20% adversarial (early EOF, wrapping content)
    let n_random = if thorough { 1500 } else { 150 };
    for _ in 0..n_random {
        let (sub, mut r) = rng.fork();
        let len = match r.below(5) {
            0 => r.below(80) as usize,
            1 => r.below(2000) as usize,
            2 => 8000 + r.below(600) as usize,
            _ => r.below(40 * 1024 + 1) as usize,
        };
        let adversarial = r.chance(1, 5);
        let kind = if adversarial { *r.pick(&[1u64, 2, 3]) } else { 4 };
        let data = content(&mut r, kind, len);
        let h = hex(&data);
        writeln!(w, "CASE r{case} sub={sub} len={len} content={kind} adversarial={}", adversarial as u8).unwrap();
        case += 1;
        let mut sa = if r.chance(1, 2) { mixed_script(&mut r, len) } else { small_script(&mut r, len.min(3000)) };
        let sb = mixed_script(&mut r, len);
        if adversarial && !sa.is_empty() && r.chance(1, 2) {
            // early end of file: the reader returns 0 before the data is exhausted
            let k = r.below(sa.len() as u64) as usize;
            sa[k] = 0;
            stats.inc("op_script_early_eof");
        }
        writeln!(w, "K script 0 {} {h} {}", r.below(len as u64 + 2), fmt_script(&sa)).unwrap();
        writeln!(w, "K script 0 0 {h} {}", fmt_script(&sb)).unwrap();
        match r.below(3) {
            0 => writeln!(w, "K file 0 {} {h} -", r.below(len as u64 + 2)).unwrap(),
            1 => writeln!(w, "K cursor 0 {} {h} -", r.below(len as u64 + 2)).unwrap(),
            _ => writeln!(w, "K script 15 0 {h} {}", fmt_script(&sb)).unwrap(),
        }
        let sa2: Vec<usize> = sa.iter().cloned().filter(|x| *x > 0).collect();
        emit_d(w, &mut r, 0, &data, &sa2, &sb, stats);
        stats.inc(if adversarial { "cases_random_adversarial" } else { "cases_random" });
    }

    // (4) bounded exhaustive: every chunking of every length <= L into chunks of 1..=5
    let lmax = if thorough { 14 } else { 11 };
    for len in 0..=lmax {
        let mut all = Vec::new();
        compositions(len, &mut Vec::new(), &mut all);
        let data: Vec<u8> = (0..len).map(|i| (0x11 * (i + 1)) as u8).collect();
        let h = hex(&data);
        writeln!(w, "CASE x{case} exhaustive len={len} chunkings={}", all.len()).unwrap();
        case += 1;
        for sc in &all {
            writeln!(w, "K script 0 0 {h} {}", fmt_script(sc)).unwrap();
            stats.inc("op_script_exhaustive");
        }
        stats.inc("cases_exhaustive_chunkings");
    }
}
