//! Runner for cfdp_daemon::transport::UdpTransport::receive over loopback UDP (C16).
//! ops:  P <hex> = <res>         send the full datagram <hex>
//!       T <hex> <k> = <res>     send the first k bytes of <hex> (a datagram truncated in flight)
//!       R <hex> = <res>         send raw bytes
//! <res> (`OK <hex of the re-encoded PDU>` | `ERR`) is what PDU::decode returns for exactly those
//! bytes in isolation; it is recorded by the generator for the model side and ignored here.
//! One CASE = one receiving transport (one receive buffer) = one history.
use crate::rng::Rng;
use crate::util::{cases, hex, unhex, Stats};
use cfdp_core::filestore::ChecksumType;
use cfdp_core::pdu::*;
use cfdp_daemon::transport::{PDUTransport, UdpTransport};
use std::collections::HashMap;
use std::io::Write;
use std::net::SocketAddr;
use std::time::Duration;
use tokio::net::UdpSocket;

fn isolated(bytes: &[u8]) -> Option<PDU> {
    std::panic::catch_unwind(|| PDU::decode(&mut &bytes[..]).ok()).unwrap_or(None)
}
fn fmt_res(r: &Option<PDU>) -> String {
    match r {
        Some(p) => format!("OK {}", hex(&p.clone().encode())),
        None => "ERR".to_string(),
    }
}

fn datagram(t: &[&str]) -> (Vec<u8>, Vec<u8>) {
    // -> (bytes sent, the full encoding they were cut from)
    match t[0] {
        "P" | "R" => {
            let b = unhex(t[1]);
            (b.clone(), b)
        }
        "T" => {
            let b = unhex(t[1]);
            let k: usize = t[2].parse().unwrap();
            (b[..k.min(b.len())].to_vec(), b)
        }
        other => panic!("udp: unknown op {other}"),
    }
}

pub fn run(ops: &str, out: &mut impl Write, orc: &mut impl Write) {
    let rt = tokio::runtime::Builder::new_current_thread().enable_all().build().expect("tokio runtime");
    rt.block_on(async {
        for (hdr, lines) in cases(ops) {
            let id = &hdr[0];
            writeln!(out, "CASE {id}").unwrap();
            // a fresh receiving transport (fresh receive buffer) per history
            let rsock = UdpSocket::bind("127.0.0.1:0").await.expect("bind receiver");
            let raddr: SocketAddr = rsock.local_addr().unwrap();
            let mut rx = UdpTransport::try_from((rsock, HashMap::new())).expect("receiver transport");
            // the sending side: a real transport for well-formed PDUs, a plain socket for everything else
            let dest = VariableID::from(1_u16);
            let ssock = UdpSocket::bind("127.0.0.1:0").await.expect("bind sender");
            let mut tx = UdpTransport::try_from((ssock, HashMap::from([(dest.clone(), raddr)]))).expect("sender transport");
            let raw = UdpSocket::bind("127.0.0.1:0").await.expect("bind raw sender");
            let mut longest_before = 0usize;
            for (i, l) in lines.iter().enumerate() {
                let t: Vec<&str> = l.split_whitespace().collect();
                let (bytes, full) = datagram(&t);
                let alone = isolated(&bytes);
                let via_transport = match (&alone, t[0]) {
                    (Some(p), "P") if p.clone().encode() == bytes => Some(p.clone()),
                    _ => None,
                };
                // lock-step: exactly one datagram is in flight, so loopback cannot drop or reorder it.
                // It is sent once (a second copy could be mistaken for the next datagram) and awaited
                // with a generous bound.
                match &via_transport {
                    Some(p) => tx.request(dest.clone(), p.clone()).await.expect("send through transport"),
                    None => {
                        raw.send_to(&bytes, raddr).await.expect("send raw");
                    }
                }
                let got: Option<Result<PDU, std::io::Error>> = tokio::time::timeout(Duration::from_secs(30), rx.receive()).await.ok();
                let res: Option<PDU> = match got {
                    Some(Ok(p)) => Some(p),
                    // the transport's pdu_handler logs any error of receive() and goes on: a rejection
                    Some(Err(_)) => None,
                    None => panic!("udp: datagram {i} of case {id} never arrived on loopback"),
                };
                writeln!(out, "{}", fmt_res(&res)).unwrap();
                // ---- the property, on the real code alone
                let what = match t[0] {
                    "T" => format!("datagram truncated to {} of {} bytes", bytes.len(), full.len()),
                    "P" => format!("complete datagram of {} bytes", bytes.len()),
                    _ => format!("raw datagram of {} bytes", bytes.len()),
                };
                if res != alone {
                    let shown = if bytes.len() <= 48 { hex(&bytes) } else { format!("{}..", hex(&bytes[..48])) };
                    writeln!(orc, "FAIL C16 case={id} op={i} {what} ({shown}), received after a datagram of up to {longest_before} bytes, gave {} but its own bytes decode to {}", short(&fmt_res(&res)), short(&fmt_res(&alone))).unwrap();
                } else if t[0] == "T" && bytes.len() < full.len() && isolated(&full).is_some() && res.is_some() {
                    writeln!(orc, "FAIL C16 case={id} op={i} {what} was accepted as a PDU (the decoder accepts a strict prefix of a valid PDU)").unwrap();
                }
                longest_before = longest_before.max(bytes.len());
            }
        }
    });
}
fn short(s: &str) -> String {
    if s.len() > 120 {
        format!("{}..", &s[..120])
    } else {
        s.to_string()
    }
}

// ---------------------------------------------------------------- generator

fn mk(payload: PDUPayload, crc: CRCFlag, fss: FileSizeFlag, seq: u16) -> PDU {
    let (pdu_type, seg) = match &payload {
        PDUPayload::Directive(_) => (PDUType::FileDirective, SegmentedData::NotPresent),
        PDUPayload::FileData(FileDataPDU::Segmented(_)) => (PDUType::FileData, SegmentedData::Present),
        PDUPayload::FileData(_) => (PDUType::FileData, SegmentedData::NotPresent),
    };
    PDU {
        header: PDUHeader {
            version: U3::One,
            pdu_type,
            direction: Direction::ToReceiver,
            transmission_mode: TransmissionMode::Acknowledged,
            crc_flag: crc,
            large_file_flag: fss,
            pdu_data_field_length: payload.encoded_len(fss),
            segmentation_control: SegmentationControl::NotPreserved,
            segment_metadata_flag: seg,
            source_entity_id: VariableID::from(18_u16),
            transaction_sequence_number: VariableID::from(seq),
            destination_entity_id: VariableID::from(23_u16),
        },
        payload,
    }
}

fn payloads(rng: &mut Rng) -> Vec<(&'static str, PDUPayload)> {
    let data = |rng: &mut Rng, n: usize| -> Vec<u8> { rng.bytes(n) };
    vec![
        ("eof", PDUPayload::Directive(Operations::EoF(EndOfFile { condition: Condition::NoError, checksum: 0x1234_5678, file_size: 1025, fault_location: None }))),
        ("eof_fault", PDUPayload::Directive(Operations::EoF(EndOfFile { condition: Condition::FilesizeError, checksum: 7, file_size: 99, fault_location: Some(VariableID::from(18_u16)) }))),
        ("finished", PDUPayload::Directive(Operations::Finished(Finished { condition: Condition::NoError, delivery_code: DeliveryCode::Complete, file_status: FileStatusCode::Retained, filestore_response: vec![], fault_location: None }))),
        ("finished_resp", PDUPayload::Directive(Operations::Finished(Finished {
            condition: Condition::NoError,
            delivery_code: DeliveryCode::Complete,
            file_status: FileStatusCode::Retained,
            filestore_response: vec![
                FileStoreResponse { action_and_status: FileStoreStatus::CreateFile(CreateFileStatus::Successful), first_filename: "test".into(), second_filename: "".into(), filestore_message: "some message here".into() },
                FileStoreResponse { action_and_status: FileStoreStatus::AppendFile(AppendStatus::NotPerformed), first_filename: "a/long/name".into(), second_filename: "second".into(), filestore_message: vec![] },
            ],
            fault_location: None,
        }))),
        ("ack", PDUPayload::Directive(Operations::Ack(PositiveAcknowledgePDU { directive: PDUDirective::EoF, directive_subtype_code: ACKSubDirective::Other, condition: Condition::NoError, transaction_status: TransactionStatus::Active }))),
        ("metadata", PDUPayload::Directive(Operations::Metadata(MetadataPDU {
            closure_requested: true,
            checksum_type: ChecksumType::Modular,
            file_size: 55,
            source_filename: "the input filename".into(),
            destination_filename: "the output filename".into(),
            options: vec![
                MetadataTLV::FlowLabel(FlowLabel { value: vec![1, 2, 3] }),
                MetadataTLV::MessageToUser(MessageToUser { message_text: b"hello user".to_vec() }),
                MetadataTLV::FileStoreRequest(FileStoreRequest { action_code: FileStoreAction::CreateFile, first_filename: "new.txt".into(), second_filename: "".into() }),
            ],
        }))),
        ("metadata_min", PDUPayload::Directive(Operations::Metadata(MetadataPDU { closure_requested: false, checksum_type: ChecksumType::Null, file_size: 0, source_filename: "".into(), destination_filename: "".into(), options: vec![] }))),
        ("nak", PDUPayload::Directive(Operations::Nak(NegativeAcknowledgmentPDU { start_of_scope: 12, end_of_scope: 239585, segment_requests: vec![SegmentRequestForm { start_offset: 12, end_offset: 64 }, SegmentRequestForm { start_offset: 69, end_offset: 4758 }] }))),
        ("nak_empty", PDUPayload::Directive(Operations::Nak(NegativeAcknowledgmentPDU { start_of_scope: 0, end_of_scope: 100, segment_requests: vec![] }))),
        ("prompt", PDUPayload::Directive(Operations::Prompt(PromptPDU { nak_or_keep_alive: NakOrKeepAlive::KeepAlive }))),
        ("keepalive", PDUPayload::Directive(Operations::KeepAlive(KeepAlivePDU { progress: 184 }))),
        ("filedata", PDUPayload::FileData(FileDataPDU::Unsegmented(UnsegmentedFileData { offset: 948, file_data: data(rng, 24) }))),
        ("filedata_empty", PDUPayload::FileData(FileDataPDU::Unsegmented(UnsegmentedFileData { offset: 0, file_data: vec![] }))),
        ("filedata_seg", PDUPayload::FileData(FileDataPDU::Segmented(SegmentedFileData { record_continuation_state: RecordContinuationState::First, segment_metadata: (0..20).collect(), offset: 757, file_data: data(rng, 9) }))),
    ]
}

struct Enc {
    name: String,
    bytes: Vec<u8>,
}

fn res_of(bytes: &[u8]) -> String {
    fmt_res(&isolated(bytes))
}

pub fn gen(seed: u64, tier: &str, w: &mut impl Write, stats: &mut Stats) {
    let mut rng = Rng::new(seed ^ 0xC16);
    let thorough = tier == "thorough";
    // corpus: every payload kind x CRC on/off x small/large file flag; only encodings which
    // the codec itself decodes back to the same PDU (codec round-trip is another property)
    let mut corpus: Vec<Enc> = Vec::new();
    let mut seq = 100u16;
    for crc in [CRCFlag::NotPresent, CRCFlag::Present] {
        for fss in [FileSizeFlag::Small, FileSizeFlag::Large] {
            for (name, pl) in payloads(&mut rng) {
                seq += 1;
                let pdu = mk(pl, crc, fss, seq);
                let bytes = pdu.clone().encode();
                if isolated(&bytes).as_ref() == Some(&pdu) {
                    corpus.push(Enc { name: format!("{name}/crc{}/fss{}", crc as u8, fss as u8), bytes });
                    stats.inc("corpus_pdus");
                } else {
                    stats.inc("corpus_skipped_no_codec_roundtrip");
                }
            }
        }
    }
    // long datagrams that fill the buffer with stale bytes
    let mut longs: Vec<Enc> = Vec::new();
    for (k, n) in [1000usize, 9000, 60000].iter().enumerate() {
        for crc in [CRCFlag::NotPresent, CRCFlag::Present] {
            let pl = PDUPayload::FileData(FileDataPDU::Unsegmented(UnsegmentedFileData { offset: 4096 * k as u64, file_data: rng.bytes(*n) }));
            let pdu = mk(pl, crc, FileSizeFlag::Small, 900 + k as u16);
            let bytes = pdu.clone().encode();
            if isolated(&bytes).as_ref() == Some(&pdu) {
                longs.push(Enc { name: format!("long{n}/crc{}", crc as u8), bytes });
            }
        }
    }
    let mut case = 0u64;
    let p = |w: &mut dyn Write, b: &[u8]| writeln!(w, "P {} = {}", hex(b), res_of(b)).unwrap();
    let t = |w: &mut dyn Write, b: &[u8], k: usize| writeln!(w, "T {} {k} = {}", hex(b), res_of(&b[..k])).unwrap();

    // (1) every PDU of the corpus: itself in full, then EVERY truncation length, then itself again
    for m in &corpus {
        writeln!(w, "CASE s{case} same {}", m.name).unwrap();
        case += 1;
        p(w, &m.bytes);
        for k in 0..m.bytes.len() {
            t(w, &m.bytes, k);
            stats.inc("op_truncated_after_same");
        }
        p(w, &m.bytes);
        stats.inc("cases_same_pdu");
    }
    // (2) a long datagram, then every truncation length of another valid datagram
    let n_long = if thorough { longs.len() } else { 2 };
    for (li, lg) in longs.iter().enumerate().take(n_long.max(1)) {
        for (mi, m) in corpus.iter().enumerate() {
            if !thorough && (mi + li) % 2 == 1 {
                continue;
            }
            writeln!(w, "CASE l{case} after {} truncate {}", lg.name, m.name).unwrap();
            case += 1;
            p(w, &lg.bytes);
            for k in 0..m.bytes.len() {
                t(w, &m.bytes, k);
                stats.inc("op_truncated_after_long");
            }
            p(w, &m.bytes);
            p(w, &lg.bytes);
            stats.inc("cases_long_then_truncations");
        }
    }
    // (3) thorough: every ordered pair (L, M) of the corpus with |L| >= |M|
    if thorough {
        for l in &corpus {
            for m in &corpus {
                if l.bytes.len() < m.bytes.len() || l.name == m.name {
                    continue;
                }
                writeln!(w, "CASE p{case} after {} truncate {}", l.name, m.name).unwrap();
                case += 1;
                p(w, &l.bytes);
                for k in 0..m.bytes.len() {
                    t(w, &m.bytes, k);
                    stats.inc("op_truncated_after_other");
                }
                stats.inc("cases_pairs");
            }
        }
    }
    // (4) random histories, 20% malformed datagrams (garbage, valid PDU + trailing junk, flipped bytes)
    let n_random = if thorough { 400 } else { 60 };
    for _ in 0..n_random {
        let (sub, mut r) = rng.fork();
        writeln!(w, "CASE r{case} sub={sub} random").unwrap();
        case += 1;
        let len = 5 + r.below(25);
        for _ in 0..len {
            let m = if r.chance(1, 6) { r.pick(&longs) } else { r.pick(&corpus) };
            match r.below(10) {
                0 | 1 => {
                    // malformed
                    let mut b = m.bytes.clone();
                    match r.below(3) {
                        0 => {
                            let n = r.below(64) as usize;
                            b = r.bytes(n);
                        }
                        1 => {
                            let n = 1 + r.below(40) as usize;
                            b.extend(r.bytes(n));
                        }
                        _ => {
                            if !b.is_empty() {
                                let i = r.below(b.len() as u64) as usize;
                                b[i] ^= 1 << r.below(8);
                            }
                        }
                    }
                    writeln!(w, "R {} = {}", hex(&b), res_of(&b)).unwrap();
                    stats.inc("op_random_malformed");
                }
                2..=5 => {
                    let k = r.below(m.bytes.len() as u64) as usize;
                    t(w, &m.bytes, k);
                    stats.inc("op_random_truncated");
                }
                _ => {
                    p(w, &m.bytes);
                    stats.inc("op_random_full");
                }
            }
        }
        stats.inc("cases_random");
    }
}
