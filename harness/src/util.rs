use std::collections::BTreeMap;

#[derive(Default)]
pub struct Stats(pub BTreeMap<String, u64>);
impl Stats {
    pub fn inc(&mut self, k: &str) {
        *self.0.entry(k.to_string()).or_insert(0) += 1;
    }
    pub fn add(&mut self, k: &str, n: u64) {
        *self.0.entry(k.to_string()).or_insert(0) += n;
    }
    pub fn to_json(&self) -> String {
        let body: Vec<String> = self.0.iter().map(|(k, v)| format!("\"{k}\": {v}")).collect();
        format!("{{{}}}", body.join(", "))
    }
}

pub fn hex(b: &[u8]) -> String {
    let mut s = String::with_capacity(b.len() * 2);
    for x in b {
        s.push_str(&format!("{x:02x}"));
    }
    if s.is_empty() {
        s.push('-');
    }
    s
}
pub fn unhex(s: &str) -> Vec<u8> {
    if s == "-" {
        return vec![];
    }
    (0..s.len() / 2).map(|i| u8::from_str_radix(&s[2 * i..2 * i + 2], 16).unwrap()).collect()
}

/// iterate over the cases of an ops file: ("CASE <id> params...", [op lines])
pub fn cases(ops: &str) -> Vec<(Vec<String>, Vec<String>)> {
    let mut out: Vec<(Vec<String>, Vec<String>)> = Vec::new();
    for line in ops.lines() {
        let line = line.trim();
        if line.is_empty() || line.starts_with('#') {
            continue;
        }
        if let Some(rest) = line.strip_prefix("CASE ") {
            out.push((rest.split_whitespace().map(|s| s.to_string()).collect(), Vec::new()));
        } else if let Some(last) = out.last_mut() {
            last.1.push(line.to_string());
        }
    }
    out
}

/// A reader that hands the bytes out in short reads (1, 2, 3, 1, 2, 3 ... at a time): what a framed or
/// ring-buffer transport may do. Decoding must not depend on how the bytes are chunked.
pub struct Dribble<'a> {
    pub data: &'a [u8],
    pub pos: usize,
    pub step: usize,
}
impl<'a> Dribble<'a> {
    pub fn new(data: &'a [u8]) -> Self {
        Dribble { data, pos: 0, step: 0 }
    }
}
impl<'a> std::io::Read for Dribble<'a> {
    fn read(&mut self, buf: &mut [u8]) -> std::io::Result<usize> {
        self.step = self.step % 3 + 1;
        let n = self.step.min(buf.len()).min(self.data.len() - self.pos);
        buf[..n].copy_from_slice(&self.data[self.pos..self.pos + n]);
        self.pos += n;
        Ok(n)
    }
}
