//! Property C15: CRC-16 routine and rejection of corrupted CRC-bearing PDUs.
//!
//! ops (one observation line each):
//!   CRC <hex>            verif_crc16(message)                      -> decimal value
//!   SW <b0> <b1>         verif_crc16([b0,b1,x]) for x = 0..255     -> 256 x 4 hex digits
//!                        (the 2-octet prefixes reach every register state exactly once, so the
//!                         SW lines enumerate (state, octet) pairs)
//!   F <hex>              declares the frame of the case (a valid CRC-bearing encoding made by the
//!                        real encoder) and decodes it unaltered    -> SAME | REJECT | DIFFERENT
//!   E <bitpos> <pat>     xor the bit pattern <pat> (hex, most significant set bit lands on bit
//!                        <bitpos>, following bits on the following positions; bit k of the frame
//!                        is bit 7-(k mod 8) of octet k/8) onto the frame and decode
//!                                                                  -> REJECT | SAME | DIFFERENT
//!   BA <bitpos> <len>    every pattern of <len> bits whose first bit is set, laid at <bitpos>
//!                        (patterns reaching beyond the frame are skipped)
//!                                         -> n=<k> REJECT=<r> SAME=<s> DIFFERENT=<d> [first=<pat>]
//!   X <hexmask>          xor a whole-frame mask (an error OUTSIDE the classes of the property: many
//!                        scattered flips, replaced octets, long bursts; the generator keeps only masks
//!                        after which the reference CRC of the frame no longer matches) and decode
//!                                                                  -> REJECT | SAME | DIFFERENT
//!                        (no oracle verdict: the property promises nothing for these errors; the model
//!                         says REJECT because the frame check fails, so an acceptance by the real code
//!                         shows up as a broken correspondence: the decoder would not be checking the
//!                         CRC of what it received)
//!   T <hex>              octets that follow the frame in the same arrival (for this and the following
//!                        ops of the case); decodes frame ++ these      -> SAME <octets consumed> | REJECT | DIFFERENT <n>
//! A panic of the decoder counts as REJECT here (the PDU was not accepted; panics are property
//! C06) and is noted in oracle.txt as a NOTE line.
use crate::rng::Rng;
use crate::util::{cases, hex, unhex, Stats};
use camino::Utf8PathBuf;
use cfdp_core::filestore::ChecksumType;
use cfdp_core::pdu::*;
use std::io::Write;
use std::panic::{catch_unwind, AssertUnwindSafe};

/// bit-serial reference CRC-16/IBM-3740 (polynomial division, one message bit at a time);
/// written independently of the octet-wise routine in pdu.rs
fn ref_crc(msg: &[u8]) -> u16 {
    let mut reg: u32 = 0xFFFF;
    for byte in msg {
        for k in (0..8).rev() {
            let inbit = ((*byte as u32) >> k) & 1;
            let top = ((reg >> 15) & 1) ^ inbit;
            reg = (reg << 1) & 0xFFFF;
            if top == 1 {
                reg ^= 0x1021;
            }
        }
    }
    reg as u16
}

#[derive(PartialEq, Clone, Copy)]
enum Obs {
    Reject,
    Same,
    Different,
}
impl Obs {
    fn s(self) -> &'static str {
        match self {
            Obs::Reject => "REJECT",
            Obs::Same => "SAME",
            Obs::Different => "DIFFERENT",
        }
    }
}

/// (observation, panicked)
fn decode_obs(bytes: &[u8], original: &Option<PDU>) -> (Obs, bool) {
    match catch_unwind(AssertUnwindSafe(|| PDU::decode(&mut &bytes[..]))) {
        Ok(Ok(p)) => {
            if Some(&p) == original.as_ref() {
                (Obs::Same, false)
            } else {
                (Obs::Different, false)
            }
        }
        Ok(Err(_)) => (Obs::Reject, false),
        Err(_) => (Obs::Reject, true),
    }
}

/// xor `pat` onto `frame`: the most significant set bit of pat lands on bit `pos`
fn apply(frame: &[u8], pos: usize, pat: u64) -> Option<Vec<u8>> {
    let len = 64 - pat.leading_zeros() as usize;
    let mut out = frame.to_vec();
    for i in 0..len {
        if (pat >> (len - 1 - i)) & 1 == 1 {
            let k = pos + i;
            if k >= frame.len() * 8 {
                return None;
            }
            out[k / 8] ^= 0x80 >> (k % 8);
        }
    }
    Some(out)
}

pub fn run(ops: &str, out: &mut impl Write, orc: &mut impl Write) {
    for (hdr, lines) in cases(ops) {
        let id = &hdr[0];
        writeln!(out, "CASE {id}").unwrap();
        let mut frame: Vec<u8> = Vec::new();
        let mut original: Option<PDU> = None;
        let mut trailing: Vec<u8> = Vec::new();
        for (i, l) in lines.iter().enumerate() {
            let t: Vec<&str> = l.split_whitespace().collect();
            match t[0] {
                "CRC" => {
                    let m = unhex(t[1]);
                    let c = cfdp_core::pdu::verif_crc16(&m);
                    writeln!(out, "{c}").unwrap();
                    let r = ref_crc(&m);
                    if c != r {
                        writeln!(orc, "FAIL C15 case={id} op={i} crc16 of {} is {c}, the CRC-16/IBM-3740 of it is {r}", t[1]).unwrap();
                    }
                }
                "SW" => {
                    let b0: u8 = t[1].parse().unwrap();
                    let b1: u8 = t[2].parse().unwrap();
                    let mut s = String::with_capacity(1024);
                    for x in 0..=255u8 {
                        let m = [b0, b1, x];
                        let c = cfdp_core::pdu::verif_crc16(&m);
                        s.push_str(&format!("{c:04x}"));
                        if c != ref_crc(&m) {
                            writeln!(orc, "FAIL C15 case={id} op={i} crc16 of {} is {c}, the CRC-16/IBM-3740 of it is {}", hex(&m), ref_crc(&m)).unwrap();
                        }
                    }
                    writeln!(out, "{s}").unwrap();
                }
                "F" => {
                    frame = unhex(t[1]);
                    // what the sender meant: the decoding of the unaltered frame
                    original = match catch_unwind(AssertUnwindSafe(|| PDU::decode(&mut &frame[..]))) {
                        Ok(Ok(p)) => Some(p),
                        _ => None,
                    };
                    // the verdict must not depend on how the reader chunks the same bytes
                    let short = match catch_unwind(AssertUnwindSafe(|| PDU::decode(&mut crate::util::Dribble::new(&frame)))) {
                        Ok(Ok(p)) => Some(p),
                        _ => None,
                    };
                    if short.as_ref().map(|p| p.clone().encode()) != original.as_ref().map(|p| p.clone().encode()) {
                        writeln!(orc, "FAIL C15 case={id} op={i} the unaltered encoding {} is judged differently when the reader delivers it in short reads (accepted from a slice: {}, in short reads: {})", t[1], original.is_some(), short.is_some()).unwrap();
                    }
                    // the unaltered frame must be accepted, and as the PDU whose encoding it is
                    let reenc_ok = original.as_ref().map_or(false, |p| p.clone().encode() == frame);
                    let o = if original.is_none() {
                        Obs::Reject
                    } else if reenc_ok {
                        Obs::Same
                    } else {
                        Obs::Different
                    };
                    writeln!(out, "{}", o.s()).unwrap();
                    if o != Obs::Same {
                        writeln!(orc, "FAIL C15 case={id} op={i} the unaltered encoding {} is not accepted as the PDU it encodes ({})", t[1], o.s()).unwrap();
                    }
                }
                "X" => {
                    let mask = unhex(t[1]);
                    let mut bad: Vec<u8> = frame.iter().zip(mask.iter()).map(|(a, b)| a ^ b).collect();
                    bad.extend(&trailing);
                    let (o, panicked) = decode_obs(&bad, &original);
                    writeln!(out, "{}", o.s()).unwrap();
                    if panicked {
                        writeln!(orc, "NOTE C06 case={id} op={i} decode panicked on {}", hex(&bad)).unwrap();
                    }
                    if o != Obs::Reject {
                        writeln!(orc, "NOTE C15 case={id} op={i} a frame whose CRC does not match its octets was accepted ({}): {}", o.s(), hex(&bad)).unwrap();
                    }
                }
                "T" => {
                    trailing = unhex(t[1]);
                    let mut all = frame.clone();
                    all.extend(&trailing);
                    let mut rd = &all[..];
                    let res = catch_unwind(AssertUnwindSafe(|| PDU::decode(&mut rd)));
                    let consumed = all.len() - rd.len();
                    match res {
                        Ok(Ok(p)) if Some(&p) == original.as_ref() => writeln!(out, "SAME {consumed}").unwrap(),
                        Ok(Ok(_)) => {
                            writeln!(out, "DIFFERENT {consumed}").unwrap();
                            writeln!(orc, "FAIL C15 case={id} op={i} the unaltered encoding followed by {} decodes to a different PDU", t[1]).unwrap();
                        }
                        _ => {
                            writeln!(out, "REJECT").unwrap();
                            writeln!(orc, "FAIL C15 case={id} op={i} the unaltered encoding followed by {} is rejected", t[1]).unwrap();
                        }
                    }
                }
                "E" => {
                    let pos: usize = t[1].parse().unwrap();
                    let pat = u64::from_str_radix(t[2], 16).unwrap();
                    match apply(&frame, pos, pat) {
                        None => writeln!(out, "SKIP").unwrap(),
                        Some(mut bad) => {
                            bad.extend(&trailing);
                            let (o, panicked) = decode_obs(&bad, &original);
                            writeln!(out, "{}", o.s()).unwrap();
                            if panicked {
                                writeln!(orc, "NOTE C06 case={id} op={i} decode panicked on {}", hex(&bad)).unwrap();
                            }
                            if o == Obs::Different {
                                writeln!(orc, "FAIL C15 case={id} op={i} error pattern {} at bit {pos} (detectable class) accepted as a different PDU: {}", t[2], hex(&bad)).unwrap();
                            }
                        }
                    }
                }
                "BA" => {
                    let pos: usize = t[1].parse().unwrap();
                    let len: u32 = t[2].parse().unwrap();
                    let (mut n, mut r, mut s, mut d) = (0u64, 0u64, 0u64, 0u64);
                    let mut first: Option<u64> = None;
                    let mut panics = 0u64;
                    for pat in (1u64 << (len - 1))..(1u64 << len) {
                        if let Some(mut bad) = apply(&frame, pos, pat) {
                            bad.extend(&trailing);
                            n += 1;
                            let (o, panicked) = decode_obs(&bad, &original);
                            if panicked {
                                panics += 1;
                            }
                            match o {
                                Obs::Reject => r += 1,
                                Obs::Same => s += 1,
                                Obs::Different => {
                                    d += 1;
                                    writeln!(orc, "FAIL C15 case={id} op={i} error pattern {pat:x} at bit {pos} (burst of at most {len} bits) accepted as a different PDU: {}", hex(&bad)).unwrap();
                                }
                            }
                            if o != Obs::Reject && first.is_none() {
                                first = Some(pat);
                            }
                        }
                    }
                    if panics > 0 {
                        writeln!(orc, "NOTE C06 case={id} op={i} decode panicked on {panics} of the patterns").unwrap();
                    }
                    match first {
                        None => writeln!(out, "n={n} REJECT={r} SAME={s} DIFFERENT={d}").unwrap(),
                        Some(p) => writeln!(out, "n={n} REJECT={r} SAME={s} DIFFERENT={d} first={p:x}").unwrap(),
                    }
                }
                other => panic!("crc: unknown op {other}"),
            }
        }
    }
}

// ------------------------------------------------------------------ corpus of valid PDUs

fn vid(rng: &mut Rng, width: u8) -> VariableID {
    match width {
        1 => VariableID::from(rng.next() as u8),
        2 => VariableID::from(rng.next() as u16),
        4 => VariableID::from(rng.next() as u32),
        _ => VariableID::from(rng.next()),
    }
}

fn rbytes(rng: &mut Rng, max: u64) -> Vec<u8> {
    let k = rng.below(max + 1) as usize;
    rng.bytes(k)
}
fn rwidth(rng: &mut Rng) -> u8 {
    *rng.pick(&[1u8, 2, 4, 8])
}
fn rvid(rng: &mut Rng) -> VariableID {
    let w = rwidth(rng);
    vid(rng, w)
}
fn rcond(rng: &mut Rng) -> Condition {
    let e = rng.chance(1, 2);
    condition(rng, e)
}

fn fss(rng: &mut Rng, large: bool) -> u64 {
    let v = match rng.below(5) {
        0 => 0,
        1 => rng.below(1000),
        2 => u32::MAX as u64 - rng.below(3),
        _ => rng.next(),
    };
    if large {
        v
    } else {
        v & 0xFFFF_FFFF
    }
}

fn name(rng: &mut Rng, max: u64) -> Utf8PathBuf {
    let n = rng.below(max + 1) as usize;
    let s: String = (0..n).map(|_| *rng.pick(&['a', 'b', '/', '.', 'x', '_', '0'])).collect();
    Utf8PathBuf::from(s)
}

fn condition(rng: &mut Rng, error: bool) -> Condition {
    if !error {
        return Condition::NoError;
    }
    *rng.pick(&[
        Condition::PositiveLimitReached,
        Condition::KeepAliveLimitReached,
        Condition::InvalidTransmissionMode,
        Condition::FileStoreRejection,
        Condition::FileChecksumFailure,
        Condition::FilesizeError,
        Condition::NakLimitReached,
        Condition::InactivityDetected,
        Condition::InvalidFileStructure,
        Condition::CheckLimitReached,
        Condition::UnsupportedChecksumType,
        Condition::SuspendReceived,
        Condition::CancelReceived,
    ])
}

fn response(rng: &mut Rng) -> FileStoreResponse {
    let st = match rng.below(9) {
        0 => FileStoreStatus::CreateFile(CreateFileStatus::Successful),
        1 => FileStoreStatus::DeleteFile(DeleteFileStatus::FileDoesNotExist),
        2 => FileStoreStatus::RenameFile(RenameStatus::NewFilenameAlreadyExists),
        3 => FileStoreStatus::AppendFile(AppendStatus::NotAllowed),
        4 => FileStoreStatus::ReplaceFile(ReplaceStatus::Successful),
        5 => FileStoreStatus::CreateDirectory(CreateDirectoryStatus::DirectoryCannotBeCreated),
        6 => FileStoreStatus::RemoveDirectory(RemoveDirectoryStatus::NotPerformed),
        7 => FileStoreStatus::DenyFile(DenyStatus::NotAllowed),
        _ => FileStoreStatus::DenyDirectory(DenyStatus::Successful),
    };
    FileStoreResponse {
        action_and_status: st,
        first_filename: name(rng, 6),
        second_filename: name(rng, 4),
        filestore_message: rbytes(rng, 3),
    }
}

fn option(rng: &mut Rng, k: u64) -> MetadataTLV {
    match k % 5 {
        0 => MetadataTLV::FileStoreRequest(FileStoreRequest {
            action_code: rng.pick(&[
                FileStoreAction::CreateFile,
                FileStoreAction::DeleteFile,
                FileStoreAction::RenameFile,
                FileStoreAction::AppendFile,
                FileStoreAction::ReplaceFile,
                FileStoreAction::CreateDirectory,
                FileStoreAction::RemoveDirectory,
                FileStoreAction::DenyFile,
                FileStoreAction::DenyDirectory,
            ]).clone(),
            first_filename: name(rng, 8),
            second_filename: name(rng, 5),
        }),
        1 => MetadataTLV::MessageToUser(MessageToUser { message_text: { let mut v = rbytes(rng, 11); v.push(0x21); v } }),
        2 => MetadataTLV::FaultHandlerOverride(FaultHandlerOverride {
            fault_handler_code: match rng.below(4) {
                0 => HandlerCode::NoticeOfCancellation,
                1 => HandlerCode::NoticeOfSuspension,
                2 => HandlerCode::IgnoreError,
                _ => HandlerCode::AbandonTransaction,
            },
        }),
        3 => MetadataTLV::FlowLabel(FlowLabel { value: rbytes(rng, 5) }),
        _ => MetadataTLV::MessageToUser(MessageToUser { message_text: b"cfdp".to_vec() }),
    }
}

pub const KINDS: usize = 16;
pub const KIND_NAMES: [&str; KINDS] = [
    "eof", "eof_fault", "finished", "finished_resp", "finished_fault", "ack_eof", "ack_fin", "metadata",
    "metadata_opts", "nak", "nak_empty", "prompt", "keepalive", "filedata", "filedata_seg", "filedata_long",
];

/// one valid CRC-bearing PDU of the given kind
pub fn make_pdu(rng: &mut Rng, kind: usize, large: bool, width: u8, long: usize, crc: bool) -> PDU {
    let flag = if large { FileSizeFlag::Large } else { FileSizeFlag::Small };
    let mut seg_meta = SegmentedData::NotPresent;
    let payload = match kind {
        0 => PDUPayload::Directive(Operations::EoF(EndOfFile {
            condition: Condition::NoError,
            checksum: rng.next() as u32,
            file_size: fss(rng, large),
            fault_location: None,
        })),
        1 => PDUPayload::Directive(Operations::EoF(EndOfFile {
            condition: condition(rng, true),
            checksum: rng.next() as u32,
            file_size: fss(rng, large),
            fault_location: Some(rvid(rng)),
        })),
        2 => PDUPayload::Directive(Operations::Finished(Finished {
            condition: Condition::NoError,
            delivery_code: if rng.chance(1, 2) { DeliveryCode::Complete } else { DeliveryCode::Incomplete },
            file_status: *rng.pick(&[FileStatusCode::Discarded, FileStatusCode::FileStoreRejection, FileStatusCode::Retained, FileStatusCode::Unreported]),
            filestore_response: vec![],
            fault_location: None,
        })),
        3 => PDUPayload::Directive(Operations::Finished(Finished {
            condition: Condition::NoError,
            delivery_code: DeliveryCode::Complete,
            file_status: FileStatusCode::Retained,
            filestore_response: (0..1 + rng.below(3)).map(|_| response(rng)).collect(),
            fault_location: None,
        })),
        4 => PDUPayload::Directive(Operations::Finished(Finished {
            condition: condition(rng, true),
            delivery_code: DeliveryCode::Incomplete,
            file_status: FileStatusCode::Discarded,
            filestore_response: (0..rng.below(2)).map(|_| response(rng)).collect(),
            fault_location: Some(rvid(rng)),
        })),
        5 => PDUPayload::Directive(Operations::Ack(PositiveAcknowledgePDU {
            directive: PDUDirective::EoF,
            directive_subtype_code: ACKSubDirective::Other,
            condition: rcond(rng),
            transaction_status: *rng.pick(&[TransactionStatus::Undefined, TransactionStatus::Active, TransactionStatus::Terminated, TransactionStatus::Unrecognized]),
        })),
        6 => PDUPayload::Directive(Operations::Ack(PositiveAcknowledgePDU {
            directive: PDUDirective::Finished,
            directive_subtype_code: ACKSubDirective::Finished,
            condition: rcond(rng),
            transaction_status: *rng.pick(&[TransactionStatus::Undefined, TransactionStatus::Active, TransactionStatus::Terminated, TransactionStatus::Unrecognized]),
        })),
        7 => PDUPayload::Directive(Operations::Metadata(MetadataPDU {
            closure_requested: rng.chance(1, 2),
            checksum_type: if rng.chance(1, 2) { ChecksumType::Modular } else { ChecksumType::Null },
            file_size: fss(rng, large),
            source_filename: name(rng, 10),
            destination_filename: name(rng, 10),
            options: vec![],
        })),
        8 => {
            let nopt = if long > 0 { long as u64 } else { 1 + rng.below(4) };
            PDUPayload::Directive(Operations::Metadata(MetadataPDU {
                closure_requested: rng.chance(1, 2),
                checksum_type: ChecksumType::Modular,
                file_size: fss(rng, large),
                source_filename: name(rng, 6),
                destination_filename: name(rng, 6),
                options: (0..nopt).map(|k| option(rng, k)).collect(),
            }))
        }
        9 => {
            let nseg = if long > 0 { long as u64 } else { 1 + rng.below(3) };
            PDUPayload::Directive(Operations::Nak(NegativeAcknowledgmentPDU {
                start_of_scope: fss(rng, large),
                end_of_scope: fss(rng, large),
                segment_requests: (0..nseg)
                    .map(|_| SegmentRequestForm { start_offset: fss(rng, large), end_offset: fss(rng, large) })
                    .collect(),
            }))
        }
        10 => PDUPayload::Directive(Operations::Nak(NegativeAcknowledgmentPDU {
            start_of_scope: 0,
            end_of_scope: fss(rng, large),
            segment_requests: vec![],
        })),
        11 => PDUPayload::Directive(Operations::Prompt(PromptPDU {
            nak_or_keep_alive: if rng.chance(1, 2) { NakOrKeepAlive::Nak } else { NakOrKeepAlive::KeepAlive },
        })),
        12 => PDUPayload::Directive(Operations::KeepAlive(KeepAlivePDU { progress: fss(rng, large) })),
        13 => PDUPayload::FileData(FileDataPDU::Unsegmented(UnsegmentedFileData {
            offset: fss(rng, large),
            file_data: rbytes(rng, 11),
        })),
        14 => {
            seg_meta = SegmentedData::Present;
            PDUPayload::FileData(FileDataPDU::Segmented(SegmentedFileData {
                record_continuation_state: rng.pick(&[
                    RecordContinuationState::First,
                    RecordContinuationState::Last,
                    RecordContinuationState::Unsegmented,
                    RecordContinuationState::Interim,
                ]).clone(),
                segment_metadata: rbytes(rng, 4),
                offset: fss(rng, large),
                file_data: { let mut v = rbytes(rng, 9); v.push(0x5a); v },
            }))
        }
        _ => PDUPayload::FileData(FileDataPDU::Unsegmented(UnsegmentedFileData {
            offset: fss(rng, large),
            file_data: rng.bytes(if long > 0 { long } else { 200 }),
        })),
    };
    let pdu_type = match payload {
        PDUPayload::Directive(_) => PDUType::FileDirective,
        PDUPayload::FileData(_) => PDUType::FileData,
    };
    let header = PDUHeader {
        version: U3::One,
        pdu_type,
        direction: if rng.chance(1, 2) { Direction::ToReceiver } else { Direction::ToSender },
        transmission_mode: if rng.chance(1, 2) { TransmissionMode::Acknowledged } else { TransmissionMode::Unacknowledged },
        crc_flag: if crc { CRCFlag::Present } else { CRCFlag::NotPresent },
        large_file_flag: flag,
        pdu_data_field_length: payload.encoded_len(flag),
        segmentation_control: if rng.chance(1, 2) { SegmentationControl::NotPreserved } else { SegmentationControl::Preserved },
        segment_metadata_flag: seg_meta,
        source_entity_id: vid(rng, width),
        transaction_sequence_number: rvid(rng),
        destination_entity_id: vid(rng, width),
    };
    PDU { header, payload }
}

/// the historical witness of the defect fixed by dded641 (see corpus/crc/eof_condition_flip.ops)
pub fn witness_frame() -> Vec<u8> {
    let payload = PDUPayload::Directive(Operations::EoF(EndOfFile {
        condition: Condition::PositiveLimitReached,
        checksum: 11840,
        file_size: 100,
        fault_location: Some(VariableID::from(1u8)),
    }));
    let header = PDUHeader {
        version: U3::One,
        pdu_type: PDUType::FileDirective,
        direction: Direction::ToReceiver,
        transmission_mode: TransmissionMode::Acknowledged,
        crc_flag: CRCFlag::Present,
        large_file_flag: FileSizeFlag::Small,
        pdu_data_field_length: payload.encoded_len(FileSizeFlag::Small),
        segmentation_control: SegmentationControl::NotPreserved,
        segment_metadata_flag: SegmentedData::NotPresent,
        source_entity_id: VariableID::from(1u8),
        transaction_sequence_number: VariableID::from(7u8),
        destination_entity_id: VariableID::from(2u8),
    };
    PDU { header, payload }.encode()
}

// ------------------------------------------------------------------ generator

fn gen_errors(w: &mut impl Write, stats: &mut Stats, rng: &mut Rng, tier: &str, cid: &str, frame: &[u8]) {
    let n = frame.len();
    let nbits = n * 8;
    let thorough = tier == "thorough";
    let fhex = hex(frame);
    // ---- every single-bit flip at every position >= 4 octets
    writeln!(w, "CASE {cid}_single len={n}").unwrap();
    writeln!(w, "F {fhex}").unwrap();
    let exhaustive_single = thorough || n <= 320;
    if exhaustive_single {
        for pos in 32..nbits {
            writeln!(w, "E {pos} 1").unwrap();
            stats.inc("err_single");
        }
    } else {
        for _ in 0..600 {
            writeln!(w, "E {} 1", 32 + rng.below((nbits - 32) as u64)).unwrap();
            stats.inc("err_single_sampled");
        }
    }
    // ---- every pair of flips within a 40-bit window
    writeln!(w, "CASE {cid}_pairs len={n}").unwrap();
    writeln!(w, "F {fhex}").unwrap();
    let exhaustive_pairs = if thorough { n <= 300 } else { n <= 48 };
    if exhaustive_pairs {
        for pos in 32..nbits {
            for d in 1..40usize {
                if pos + d < nbits {
                    writeln!(w, "E {pos} {:x}", (1u64 << d) | 1).unwrap();
                    stats.inc("err_pair");
                }
            }
        }
    } else {
        let k = if thorough { 20_000 } else if n <= 400 { 1500 } else { 700 };
        for _ in 0..k {
            let d = 1 + rng.below(39) as usize;
            let pos = 32 + rng.below((nbits - 32 - d) as u64) as usize;
            writeln!(w, "E {pos} {:x}", (1u64 << d) | 1).unwrap();
            stats.inc("err_pair_sampled");
        }
    }
    // ---- burst patterns of length <= 16
    writeln!(w, "CASE {cid}_bursts len={n}").unwrap();
    writeln!(w, "F {fhex}").unwrap();
    // exhaustive over all patterns up to `full` bits at every position
    let full: u32 = if thorough {
        if n <= 13 { 16 } else if n <= 64 { 8 } else if n <= 320 { 4 } else { 2 }
    } else if n <= 14 {
        9
    } else if n <= 48 {
        6
    } else if n <= 100 {
        3
    } else {
        0
    };
    if full > 0 {
        for pos in 32..nbits {
            writeln!(w, "BA {pos} {full}").unwrap();
            stats.add("err_burst_exhaustive", 1u64 << (full - 1));
        }
    }
    // seeded sample of the longer patterns (first bit set, up to 16 bits)
    let per_pos = if thorough { 60 } else { 12 };
    if n <= 48 {
        for pos in 32..nbits {
            for _ in 0..per_pos {
                let len = full.max(1) + 1 + rng.below((16 - full.max(1)) as u64) as u32;
                let len = len.min(16);
                let pat = (1u64 << (len - 1)) | rng.below(1u64 << (len - 1));
                writeln!(w, "E {pos} {pat:x}").unwrap();
                stats.inc("err_burst_sampled");
            }
        }
    } else {
        let k = if thorough { 10_000 } else if n <= 400 { 1500 } else { 700 };
        for _ in 0..k {
            let len = 1 + rng.below(16) as u32;
            let pat = (1u64 << (len - 1)) | rng.below(1u64 << (len - 1));
            let pos = 32 + rng.below((nbits - 32) as u64) as usize;
            writeln!(w, "E {pos} {pat:x}").unwrap();
            stats.inc("err_burst_sampled");
        }
    }
}

/// errors outside the property's classes that break the CRC: the decoder must still reject them
fn gen_other(w: &mut impl Write, stats: &mut Stats, rng: &mut Rng, tier: &str, cid: &str, frame: &[u8]) {
    let n = frame.len();
    writeln!(w, "CASE {cid}_other len={n}").unwrap();
    writeln!(w, "F {}", hex(frame)).unwrap();
    let k = if tier == "thorough" { 1500 } else if n <= 400 { 120 } else { 40 };
    for _ in 0..k {
        let mut mask = vec![0u8; n];
        match rng.below(4) {
            0 => {
                // 3..10 scattered flips
                for _ in 0..3 + rng.below(8) {
                    let b = 32 + rng.below((n * 8 - 32) as u64) as usize;
                    mask[b / 8] ^= 0x80 >> (b % 8);
                }
            }
            1 => {
                // a block of 1..4 octets replaced
                let len = 1 + rng.below(4) as usize;
                let off = 4 + rng.below((n - 4) as u64) as usize;
                for j in off..(off + len).min(n) {
                    mask[j] = rng.next() as u8;
                }
            }
            2 => {
                // two neighbouring octets exchanged
                let off = 4 + rng.below((n - 5) as u64) as usize;
                let x = frame[off] ^ frame[off + 1];
                mask[off] = x;
                mask[off + 1] = x;
            }
            _ => {
                // a long burst (17..64 bits)
                let len = 17 + rng.below(48) as usize;
                let b0 = 32 + rng.below((n * 8 - 32) as u64) as usize;
                for b in b0..(b0 + len).min(n * 8) {
                    if b == b0 || rng.chance(1, 2) {
                        mask[b / 8] ^= 0x80 >> (b % 8);
                    }
                }
            }
        }
        let bad: Vec<u8> = frame.iter().zip(mask.iter()).map(|(a, b)| a ^ b).collect();
        let crc_matches = ref_crc(&bad[..n - 2]) == u16::from_be_bytes([bad[n - 2], bad[n - 1]]);
        if crc_matches {
            stats.inc("err_other_skipped_crc_still_matches");
            continue;
        }
        writeln!(w, "X {}", hex(&mask)).unwrap();
        stats.inc("err_other_classes");
    }
}

/// the frame followed by other octets in the same arrival: the receiver must cut the frame by its header
fn gen_trailing(w: &mut impl Write, stats: &mut Stats, rng: &mut Rng, tier: &str, cid: &str, frame: &[u8]) {
    let nbits = frame.len() * 8;
    writeln!(w, "CASE {cid}_trail len={}", frame.len()).unwrap();
    writeln!(w, "F {}", hex(frame)).unwrap();
    let k = 1 + rng.below(8) as usize;
    let t = match rng.below(3) {
        0 => vec![0u8; k],
        1 => frame[..k.min(frame.len())].to_vec(),
        _ => rng.bytes(k),
    };
    writeln!(w, "T {}", hex(&t)).unwrap();
    stats.inc("trailing_cases");
    let m = if tier == "thorough" { 600 } else { 60 };
    for _ in 0..m {
        let pos = 32 + rng.below((nbits - 32) as u64) as usize;
        let pat = match rng.below(3) {
            0 => 1,
            1 => (1u64 << (1 + rng.below(39))) | 1,
            _ => {
                let len = 1 + rng.below(16) as u32;
                (1u64 << (len - 1)) | rng.below(1u64 << (len - 1))
            }
        };
        writeln!(w, "E {pos} {pat:x}").unwrap();
        stats.inc("err_with_trailing");
    }
}

pub fn gen(seed: u64, tier: &str, w: &mut impl Write, stats: &mut Stats) {
    let mut rng = Rng::new(seed ^ 0xC15);
    let thorough = tier == "thorough";
    // ---- (i) the CRC routine
    writeln!(w, "CASE k0 crc_vectors").unwrap();
    writeln!(w, "CRC {}", hex(b"123456789")).unwrap();
    writeln!(w, "CRC -").unwrap();
    writeln!(w, "CRC 00").unwrap();
    writeln!(w, "CRC ff").unwrap();
    writeln!(w, "CRC ffff").unwrap();
    writeln!(w, "CRC 1d0f").unwrap();
    writeln!(w, "CRC 06000cf0000400558873c900000521").unwrap();
    stats.add("crc_vectors", 7);
    let ncase = if thorough { 2500 } else { 190 };
    for k in 0..ncase {
        let (sub, mut r) = rng.fork();
        writeln!(w, "CASE k{} crc_random sub={sub}", k + 1).unwrap();
        for _ in 0..8 {
            let len = match r.below(6) {
                0 => r.below(4),
                1 => 300 - r.below(3),
                _ => r.below(301),
            } as usize;
            let m: Vec<u8> = match r.below(5) {
                0 => vec![0u8; len],
                1 => vec![0xFFu8; len],
                2 => (0..len).map(|_| *r.pick(&[0u8, 1, 0x7F, 0x80, 0xFF])).collect(),
                _ => r.bytes(len),
            };
            writeln!(w, "CRC {}", hex(&m)).unwrap();
            stats.inc("crc_random");
            stats.inc(&format!("crc_len_{}", if len == 0 { "0".to_string() } else if len < 4 { "1-3".to_string() } else if len < 298 { "4-297".to_string() } else { "298-300".to_string() }));
        }
    }
    // every 2-octet message (reaches every register state), and (state, octet) continuations
    writeln!(w, "CASE k2oct crc_all_two_octet_messages").unwrap();
    for b0 in 0..=255u32 {
        for b1 in 0..=255u32 {
            writeln!(w, "CRC {b0:02x}{b1:02x}").unwrap();
        }
    }
    stats.add("crc_two_octet_exhaustive", 65536);
    writeln!(w, "CASE ksw crc_state_octet_pairs").unwrap();
    if thorough {
        for b0 in 0..=255u32 {
            for b1 in 0..=255u32 {
                writeln!(w, "SW {b0} {b1}").unwrap();
            }
        }
        stats.add("crc_state_octet_pairs", 1 << 24);
    } else {
        for _ in 0..96 {
            writeln!(w, "SW {} {}", rng.below(256), rng.below(256)).unwrap();
        }
        stats.add("crc_state_octet_pairs", 96 * 256);
    }

    // ---- (ii) corrupted PDUs
    let wf = witness_frame();
    writeln!(w, "CASE witness_eof_condition_flip").unwrap();
    writeln!(w, "F {}", hex(&wf)).unwrap();
    writeln!(w, "E 67 1").unwrap();
    gen_errors(w, stats, &mut rng, tier, "witness", &wf);

    let widths = [1u8, 2, 4, 8];
    let mut idx = 0usize;
    let reps = if thorough { 4 } else { 1 };
    for rep in 0..reps {
        for kind in 0..KINDS {
            for large in [false, true] {
                let (sub, mut r) = rng.fork();
                // id widths: quick cycles through 1/2/4/8 across the corpus; thorough takes all four per kind and flag
                let width = if thorough { widths[rep] } else { widths[(kind + large as usize * 2) % 4] };
                let long = if kind == 15 { if large { 1000 } else { 260 } } else { 0 };
                if kind == 15 && rep > 0 {
                    continue; // the long file-data PDUs once per flag
                }
                let p = make_pdu(&mut r, kind, large, width, long, true);
                let frame = p.clone().encode();
                // only encodings the real decoder maps back to the PDU are in the corpus (C05 is about the others)
                let back = catch_unwind(AssertUnwindSafe(|| PDU::decode(&mut &frame[..])));
                let ok = matches!(&back, Ok(Ok(q)) if *q == p);
                if !ok {
                    stats.inc("corpus_skipped_no_roundtrip");
                    stats.inc(&format!("corpus_skipped_{}", KIND_NAMES[kind]));
                    continue;
                }
                stats.inc(&format!("pdu_{}", KIND_NAMES[kind]));
                stats.inc(&format!("idwidth_{width}"));
                stats.inc(if large { "flag_large" } else { "flag_small" });
                let cid = format!("p{idx}_{}_{}w{width}_s{sub:x}", KIND_NAMES[kind], if large { "L" } else { "S" });
                gen_errors(w, stats, &mut r, tier, &cid, &frame);
                gen_trailing(w, stats, &mut r, tier, &cid, &frame);
                gen_other(w, stats, &mut r, tier, &cid, &frame);
                // the same PDU without the CRC: only the delimitation of the frame is compared
                let q = {
                    let mut q = p.clone();
                    q.header.crc_flag = CRCFlag::NotPresent;
                    q
                };
                let f2 = q.encode();
                writeln!(w, "CASE {cid}_nocrc len={}", f2.len()).unwrap();
                writeln!(w, "F {}", hex(&f2)).unwrap();
                writeln!(w, "T {}", hex(&r.bytes(3))).unwrap();
                writeln!(w, "T -").unwrap();
                stats.inc("nocrc_cases");
                idx += 1;
            }
        }
    }
    // long PDUs with many options / segment requests
    for (kind, long, large) in [(8usize, 40usize, false), (9, 30, true)] {
        let (sub, mut r) = rng.fork();
        let p = make_pdu(&mut r, kind, large, 2, long, true);
        let frame = p.clone().encode();
        let back = catch_unwind(AssertUnwindSafe(|| PDU::decode(&mut &frame[..])));
        if !matches!(&back, Ok(Ok(q)) if *q == p) {
            stats.inc("corpus_skipped_no_roundtrip");
            continue;
        }
        stats.inc(&format!("pdu_{}_long", KIND_NAMES[kind]));
        let cid = format!("p{idx}_{}_long_s{sub:x}", KIND_NAMES[kind]);
        gen_errors(w, stats, &mut r, tier, &cid, &frame);
        idx += 1;
    }
    stats.add("corpus_pdus", idx as u64);
}
