//! Differential harness for the PDU codec: cfdp_core::pdu::{PDU, UserOperation} and
//! cfdp_core::daemon::Report.  Text protocol: harness/CODEC_FORMAT.md (shared with ocaml/drv_codec.ml).
//! ops:  E <PDU> | D <hex> | EU <USEROP> | DU <hex> | ER <REPORT> | DR <hex>
#![allow(clippy::too_many_arguments)]
use crate::rng::Rng;
use crate::util::{cases, hex, unhex, Stats};
use camino::Utf8PathBuf;
use cfdp_core::daemon::Report;
use cfdp_core::filestore::ChecksumType;
use cfdp_core::pdu::*;
use cfdp_core::transaction::{TransactionID, TransactionState};
use std::alloc::{GlobalAlloc, Layout, System};
use std::io::Write;
use std::panic::{catch_unwind, AssertUnwindSafe};
use std::sync::atomic::{AtomicUsize, Ordering::Relaxed};

// ---------------------------------------------------------------------------------------------
// counting allocator: live bytes and a resettable peak (used for the C06 allocation bound)
// ---------------------------------------------------------------------------------------------
struct CountingAlloc;
static LIVE: AtomicUsize = AtomicUsize::new(0);
static PEAK: AtomicUsize = AtomicUsize::new(0);
#[inline]
fn live_add(n: usize) {
    let cur = LIVE.fetch_add(n, Relaxed).wrapping_add(n);
    PEAK.fetch_max(cur, Relaxed);
}
unsafe impl GlobalAlloc for CountingAlloc {
    unsafe fn alloc(&self, l: Layout) -> *mut u8 {
        let p = System.alloc(l);
        if !p.is_null() {
            live_add(l.size());
        }
        p
    }
    unsafe fn alloc_zeroed(&self, l: Layout) -> *mut u8 {
        let p = System.alloc_zeroed(l);
        if !p.is_null() {
            live_add(l.size());
        }
        p
    }
    unsafe fn dealloc(&self, p: *mut u8, l: Layout) {
        System.dealloc(p, l);
        LIVE.fetch_sub(l.size(), Relaxed);
    }
    unsafe fn realloc(&self, p: *mut u8, l: Layout, new_size: usize) -> *mut u8 {
        let q = System.realloc(p, l, new_size);
        if !q.is_null() {
            if new_size >= l.size() {
                live_add(new_size - l.size());
            } else {
                LIVE.fetch_sub(l.size() - new_size, Relaxed);
            }
        }
        q
    }
}
#[global_allocator]
static GLOBAL: CountingAlloc = CountingAlloc;

/// run `f` and return its result together with the peak heap growth (bytes) while it ran
fn measured<T>(f: impl FnOnce() -> T) -> (T, usize) {
    let base = LIVE.load(Relaxed);
    PEAK.store(base, Relaxed);
    let r = f();
    let peak = PEAK.load(Relaxed);
    MAX_GROWTH.fetch_max(peak.saturating_sub(base), Relaxed);
    (r, peak.saturating_sub(base))
}
static MAX_GROWTH: AtomicUsize = AtomicUsize::new(0);

// ---------------------------------------------------------------------------------------------
// s-expressions
// ---------------------------------------------------------------------------------------------
#[derive(Clone, Debug, PartialEq)]
enum Sx {
    A(String),
    L(Vec<Sx>),
}
fn parse_sx(s: &str) -> Sx {
    let mut stack: Vec<Vec<Sx>> = vec![Vec::new()];
    let mut atom = String::new();
    fn flush(atom: &mut String, stack: &mut [Vec<Sx>]) {
        if !atom.is_empty() {
            stack.last_mut().unwrap().push(Sx::A(std::mem::take(atom)));
        }
    }
    for c in s.chars() {
        match c {
            '(' => {
                flush(&mut atom, &mut stack);
                stack.push(Vec::new());
            }
            ')' => {
                flush(&mut atom, &mut stack);
                let done = stack.pop().expect("sexp: unbalanced )");
                stack.last_mut().expect("sexp: unbalanced )").push(Sx::L(done));
            }
            c if c.is_whitespace() => flush(&mut atom, &mut stack),
            c => atom.push(c),
        }
    }
    flush(&mut atom, &mut stack);
    assert!(stack.len() == 1, "sexp: unbalanced (");
    let mut top = stack.pop().unwrap();
    assert!(top.len() == 1, "sexp: expected exactly one expression");
    top.pop().unwrap()
}
impl Sx {
    fn print_into(&self, out: &mut String) {
        match self {
            Sx::A(a) => out.push_str(a),
            Sx::L(v) => {
                out.push('(');
                for (i, e) in v.iter().enumerate() {
                    if i > 0 {
                        out.push(' ');
                    }
                    e.print_into(out);
                }
                out.push(')');
            }
        }
    }
    fn print(&self) -> String {
        let mut s = String::new();
        self.print_into(&mut s);
        s
    }
}
fn a(x: impl ToString) -> Sx {
    Sx::A(x.to_string())
}
macro_rules! sx {
    ($tag:expr $(, $e:expr)* $(,)?) => { Sx::L(vec![Sx::A($tag.to_string()) $(, $e)*]) };
}
fn at(s: &Sx) -> &str {
    match s {
        Sx::A(x) => x,
        Sx::L(_) => panic!("sexp: atom expected, got {}", s.print()),
    }
}
fn li(s: &Sx) -> &[Sx] {
    match s {
        Sx::L(v) => v,
        Sx::A(x) => panic!("sexp: list expected, got {x}"),
    }
}
fn nu8(s: &Sx) -> u8 {
    at(s).parse().unwrap_or_else(|_| panic!("u8 expected: {}", at(s)))
}
fn nu16(s: &Sx) -> u16 {
    at(s).parse().unwrap_or_else(|_| panic!("u16 expected: {}", at(s)))
}
fn nu32(s: &Sx) -> u32 {
    at(s).parse().unwrap_or_else(|_| panic!("u32 expected: {}", at(s)))
}
fn nu64(s: &Sx) -> u64 {
    at(s).parse().unwrap_or_else(|_| panic!("u64 expected: {}", at(s)))
}
fn nbool(s: &Sx) -> bool {
    match at(s) {
        "0" => false,
        "1" => true,
        o => panic!("bool expected: {o}"),
    }
}
fn vbytes(s: &Sx) -> Vec<u8> {
    unhex(at(s))
}
fn vpath(s: &Sx) -> Utf8PathBuf {
    Utf8PathBuf::from(String::from_utf8(vbytes(s)).unwrap())
}
fn sx_bytes(b: &[u8]) -> Sx {
    a(hex(b))
}
fn sx_path(p: &Utf8PathBuf) -> Sx {
    sx_bytes(p.as_str().as_bytes())
}
fn sx_bool(b: bool) -> Sx {
    a(b as u8)
}

// ---------------------------------------------------------------------------------------------
// enums: all variants + from_u8 by scanning (no num-traits in the harness)
// ---------------------------------------------------------------------------------------------
macro_rules! all_enum {
    ($c:ident, $f:ident, $t:ty, [$($v:ident),* $(,)?]) => {
        const $c: &[$t] = &[$(<$t>::$v),*];
        fn $f(x: u8) -> $t {
            $c.iter()
                .find(|v| (**v).clone() as u8 == x)
                .cloned()
                .unwrap_or_else(|| panic!("{}: no variant with discriminant {}", stringify!($t), x))
        }
    };
}
all_enum!(CONDITIONS, cond_from, Condition, [
    NoError, PositiveLimitReached, KeepAliveLimitReached, InvalidTransmissionMode, FileStoreRejection,
    FileChecksumFailure, FilesizeError, NakLimitReached, InactivityDetected, InvalidFileStructure,
    CheckLimitReached, UnsupportedChecksumType, SuspendReceived, CancelReceived
]);
all_enum!(U3S, u3_from, U3, [Zero, One, Two, Three, Four, Five, Six, Seven]);
all_enum!(PDU_TYPES, ptype_from, PDUType, [FileDirective, FileData]);
all_enum!(DIRECTIONS, dir_from, Direction, [ToReceiver, ToSender]);
all_enum!(MODES, mode_from, TransmissionMode, [Acknowledged, Unacknowledged]);
all_enum!(TRACES, trace_from, TraceControl, [NoTrace, SourceOnly, DestinationOnly, BothDirections]);
all_enum!(CRCS, crc_from, CRCFlag, [NotPresent, Present]);
all_enum!(FSIZES, fsize_from, FileSizeFlag, [Small, Large]);
all_enum!(SEGCTLS, segctl_from, SegmentationControl, [NotPreserved, Preserved]);
all_enum!(SEGMETAS, segmeta_from, SegmentedData, [NotPresent, Present]);
all_enum!(PROMPTS, prompt_from, NakOrKeepAlive, [Nak, KeepAlive]);
all_enum!(DELIVERIES, deliv_from, DeliveryCode, [Complete, Incomplete]);
all_enum!(FILE_STATUSES, fstat_from, FileStatusCode, [Discarded, FileStoreRejection, Retained, Unreported]);
all_enum!(TX_STATUSES, txstatus_from, TransactionStatus, [Undefined, Active, Terminated, Unrecognized]);
all_enum!(ACTIONS, action_from, FileStoreAction, [
    CreateFile, DeleteFile, RenameFile, AppendFile, ReplaceFile, CreateDirectory, RemoveDirectory,
    DenyFile, DenyDirectory
]);
all_enum!(HANDLERS, handler_from, HandlerCode, [
    NoticeOfCancellation, NoticeOfSuspension, IgnoreError, AbandonTransaction
]);
all_enum!(DIRECTIVES, directive_from, PDUDirective, [EoF, Finished, Ack, Metadata, Nak, Prompt, KeepAlive]);
all_enum!(SUBDIRS, subdir_from, ACKSubDirective, [Other, Finished]);
all_enum!(RCSTATES, rcs_from, RecordContinuationState, [Interim, First, Last, Unsegmented]);
all_enum!(LISTINGS, listing_from, ListingResponseCode, [Successful, Unsuccessful]);
all_enum!(CHECKSUMS, cksum_from, ChecksumType, [Modular, Null]);
all_enum!(TX_STATES, txstate_from, TransactionState, [Active, Suspended, Terminated]);

const FS_STATUSES: &[FileStoreStatus] = &[
    FileStoreStatus::CreateFile(CreateFileStatus::Successful),
    FileStoreStatus::CreateFile(CreateFileStatus::NotAllowed),
    FileStoreStatus::CreateFile(CreateFileStatus::NotPerformed),
    FileStoreStatus::DeleteFile(DeleteFileStatus::Successful),
    FileStoreStatus::DeleteFile(DeleteFileStatus::FileDoesNotExist),
    FileStoreStatus::DeleteFile(DeleteFileStatus::DeleteNotAllowed),
    FileStoreStatus::DeleteFile(DeleteFileStatus::NotPerformed),
    FileStoreStatus::RenameFile(RenameStatus::Successful),
    FileStoreStatus::RenameFile(RenameStatus::OldFilenameDoesNotExist),
    FileStoreStatus::RenameFile(RenameStatus::NewFilenameAlreadyExists),
    FileStoreStatus::RenameFile(RenameStatus::RenameNotAllowed),
    FileStoreStatus::RenameFile(RenameStatus::NotPerformed),
    FileStoreStatus::AppendFile(AppendStatus::Successful),
    FileStoreStatus::AppendFile(AppendStatus::Filename1DoesNotExist),
    FileStoreStatus::AppendFile(AppendStatus::Filename2DoesNotExist),
    FileStoreStatus::AppendFile(AppendStatus::NotAllowed),
    FileStoreStatus::AppendFile(AppendStatus::NotPerformed),
    FileStoreStatus::ReplaceFile(ReplaceStatus::Successful),
    FileStoreStatus::ReplaceFile(ReplaceStatus::Filename1DoesNotExist),
    FileStoreStatus::ReplaceFile(ReplaceStatus::Filename2DoesNotExist),
    FileStoreStatus::ReplaceFile(ReplaceStatus::NotAllowed),
    FileStoreStatus::ReplaceFile(ReplaceStatus::NotPerformed),
    FileStoreStatus::CreateDirectory(CreateDirectoryStatus::Successful),
    FileStoreStatus::CreateDirectory(CreateDirectoryStatus::DirectoryCannotBeCreated),
    FileStoreStatus::CreateDirectory(CreateDirectoryStatus::NotPerformed),
    FileStoreStatus::RemoveDirectory(RemoveDirectoryStatus::Successful),
    FileStoreStatus::RemoveDirectory(RemoveDirectoryStatus::DirectoryDoesNotExist),
    FileStoreStatus::RemoveDirectory(RemoveDirectoryStatus::DeleteNotAllowed),
    FileStoreStatus::RemoveDirectory(RemoveDirectoryStatus::NotPerformed),
    FileStoreStatus::DenyFile(DenyStatus::Successful),
    FileStoreStatus::DenyFile(DenyStatus::NotAllowed),
    FileStoreStatus::DenyFile(DenyStatus::NotPerformed),
    FileStoreStatus::DenyDirectory(DenyStatus::Successful),
    FileStoreStatus::DenyDirectory(DenyStatus::NotAllowed),
    FileStoreStatus::DenyDirectory(DenyStatus::NotPerformed),
];
fn fs_status_from(x: u8) -> FileStoreStatus {
    *FS_STATUSES
        .iter()
        .find(|s| s.as_u8() == x)
        .unwrap_or_else(|| panic!("FileStoreStatus: no (action,status) pair with code {x}"))
}

// ---------------------------------------------------------------------------------------------
// value -> sexp
// ---------------------------------------------------------------------------------------------
fn sx_id(v: &VariableID) -> Sx {
    match v {
        VariableID::U8(x) => a(format!("1:{x}")),
        VariableID::U16(x) => a(format!("2:{x}")),
        VariableID::U32(x) => a(format!("4:{x}")),
        VariableID::U64(x) => a(format!("8:{x}")),
    }
}
fn sx_optid(v: &Option<VariableID>) -> Sx {
    match v {
        None => a("none"),
        Some(i) => sx_id(i),
    }
}
fn sx_hdr(h: &PDUHeader) -> Sx {
    sx!(
        "h",
        a(h.version.clone() as u8),
        a(h.pdu_type.clone() as u8),
        a(h.direction.clone() as u8),
        a(h.transmission_mode as u8),
        a(h.crc_flag as u8),
        a(h.large_file_flag as u8),
        a(h.pdu_data_field_length),
        a(h.segmentation_control as u8),
        a(h.segment_metadata_flag as u8),
        sx_id(&h.source_entity_id),
        sx_id(&h.transaction_sequence_number),
        sx_id(&h.destination_entity_id)
    )
}
fn sx_fsq(q: &FileStoreRequest) -> Sx {
    sx!("fsq", a(q.action_code.clone() as u8), sx_path(&q.first_filename), sx_path(&q.second_filename))
}
fn sx_fsr(r: &FileStoreResponse) -> Sx {
    sx!(
        "fsr",
        a(r.action_and_status.as_u8()),
        sx_path(&r.first_filename),
        sx_path(&r.second_filename),
        sx_bytes(&r.filestore_message)
    )
}
fn sx_tlv(t: &MetadataTLV) -> Sx {
    match t {
        MetadataTLV::FileStoreRequest(q) => sx_fsq(q),
        MetadataTLV::FileStoreResponse(r) => sx_fsr(r),
        MetadataTLV::MessageToUser(m) => sx!("msg", sx_bytes(&m.message_text)),
        MetadataTLV::FaultHandlerOverride(f) => sx!("fho", a(f.fault_handler_code.clone() as u8)),
        MetadataTLV::FlowLabel(f) => sx!("flow", sx_bytes(&f.value)),
        MetadataTLV::EntityID(i) => sx!("eid", sx_id(i)),
    }
}
fn sx_payload(p: &PDUPayload) -> Sx {
    match p {
        PDUPayload::Directive(op) => match op {
            Operations::EoF(e) => sx!(
                "eof",
                a(e.condition as u8),
                a(e.checksum),
                a(e.file_size),
                sx_optid(&e.fault_location)
            ),
            Operations::Finished(f) => sx!(
                "fin",
                a(f.condition as u8),
                a(f.delivery_code as u8),
                a(f.file_status as u8),
                Sx::L(f.filestore_response.iter().map(sx_fsr).collect()),
                sx_optid(&f.fault_location)
            ),
            Operations::Ack(k) => sx!(
                "ack",
                a(k.directive.clone() as u8),
                a(k.directive_subtype_code.clone() as u8),
                a(k.condition as u8),
                a(k.transaction_status as u8)
            ),
            Operations::Metadata(m) => sx!(
                "md",
                sx_bool(m.closure_requested),
                a(m.checksum_type as u8),
                a(m.file_size),
                sx_path(&m.source_filename),
                sx_path(&m.destination_filename),
                Sx::L(m.options.iter().map(sx_tlv).collect())
            ),
            Operations::Nak(n) => sx!(
                "nak",
                a(n.start_of_scope),
                a(n.end_of_scope),
                Sx::L(n
                    .segment_requests
                    .iter()
                    .map(|s| a(format!("{}:{}", s.start_offset, s.end_offset)))
                    .collect())
            ),
            Operations::Prompt(p) => sx!("prompt", a(p.nak_or_keep_alive as u8)),
            Operations::KeepAlive(k) => sx!("ka", a(k.progress)),
        },
        PDUPayload::FileData(FileDataPDU::Unsegmented(d)) => sx!("fd", a(d.offset), sx_bytes(&d.file_data)),
        PDUPayload::FileData(FileDataPDU::Segmented(d)) => sx!(
            "sfd",
            a(d.record_continuation_state.clone() as u8),
            sx_bytes(&d.segment_metadata),
            a(d.offset),
            sx_bytes(&d.file_data)
        ),
    }
}
fn sx_pdu(p: &PDU) -> Sx {
    sx!("pdu", sx_hdr(&p.header), sx_payload(&p.payload))
}
fn sx_uo(u: &UserOperation) -> Sx {
    use UserOperation as U;
    match u {
        U::OriginatingTransactionIDMessage(m) => {
            sx!("uo-otid", sx_id(&m.source_entity_id), sx_id(&m.transaction_sequence_number))
        }
        U::ProxyOperation(p) => match p {
            ProxyOperation::ProxyPutRequest(m) => sx!(
                "uo-proxy-put",
                sx_id(&m.destination_entity_id),
                sx_path(&m.source_filename),
                sx_path(&m.destination_filename)
            ),
            ProxyOperation::ProxyMessageToUser(m) => sx!("uo-proxy-msg", sx_bytes(&m.message_text)),
            ProxyOperation::ProxyFileStoreRequest(q) => sx!("uo-proxy-fsq", sx_fsq(q)),
            ProxyOperation::ProxyFaultHandlerOverride(f) => {
                sx!("uo-proxy-fho", a(f.fault_handler_code.clone() as u8))
            }
            ProxyOperation::ProxyTransmissionMode(m) => sx!("uo-proxy-mode", a(*m as u8)),
            ProxyOperation::ProxyFlowLabel(f) => sx!("uo-proxy-flow", sx_bytes(&f.value)),
            ProxyOperation::ProxySegmentationControl(c) => sx!("uo-proxy-segctl", a(c.verif_parts().0 as u8)),
            ProxyOperation::ProxyPutCancel => sx!("uo-proxy-cancel"),
        },
        U::Response(r) => match r {
            UserResponse::ProxyPut(m) => sx!(
                "uo-resp-put",
                a(m.condition as u8),
                a(m.delivery_code as u8),
                a(m.file_status as u8)
            ),
            UserResponse::ProxyFileStore(f) => sx!("uo-resp-fsr", sx_fsr(f)),
            UserResponse::DirectoryListing(m) => sx!(
                "uo-resp-dir",
                a(m.response_code.clone() as u8),
                sx_path(&m.directory_name),
                sx_path(&m.directory_filename)
            ),
            UserResponse::RemoteStatusReport(m) => sx!(
                "uo-resp-status",
                a(m.transaction_status as u8),
                sx_bool(m.response_code),
                sx_id(&m.source_entity_id),
                sx_id(&m.transaction_sequence_number)
            ),
            UserResponse::RemoteSuspend(m) => sx!(
                "uo-resp-suspend",
                sx_bool(m.suspend_indication),
                a(m.transaction_status as u8),
                sx_id(&m.source_entity_id),
                sx_id(&m.transaction_sequence_number)
            ),
            UserResponse::RemoteResume(m) => sx!(
                "uo-resp-resume",
                sx_bool(m.suspend_indication),
                a(m.transaction_status as u8),
                sx_id(&m.source_entity_id),
                sx_id(&m.transaction_sequence_number)
            ),
        },
        U::Request(r) => match r {
            UserRequest::DirectoryListing(m) => {
                sx!("uo-req-dir", sx_path(&m.directory_name), sx_path(&m.directory_filename))
            }
            UserRequest::RemoteStatusReport(m) => sx!(
                "uo-req-status",
                sx_id(&m.source_entity_id),
                sx_id(&m.transaction_sequence_number),
                sx_path(&m.report_filename)
            ),
            UserRequest::RemoteSuspend(m) => {
                sx!("uo-req-suspend", sx_id(&m.source_entity_id), sx_id(&m.transaction_sequence_number))
            }
            UserRequest::RemoteResume(m) => {
                sx!("uo-req-resume", sx_id(&m.source_entity_id), sx_id(&m.transaction_sequence_number))
            }
        },
        U::SFORequest(m) => {
            let (trace, mode, segctl, closure, prior, label, src, dst, sname, dname) = m.verif_parts();
            sx!(
                "uo-sfo-req",
                a(trace as u8),
                a(mode as u8),
                a(segctl as u8),
                sx_bool(closure),
                a(prior),
                sx_bytes(&label),
                sx_id(&src),
                sx_id(&dst),
                sx_path(&sname),
                sx_path(&dname)
            )
        }
        U::SFOMessageToUser(m) => sx!("uo-sfo-msg", sx_bytes(&m.message_text)),
        U::SFOFlowLabel(f) => sx!("uo-sfo-flow", sx_bytes(&f.value)),
        U::SFOFaultHandlerOverride(f) => sx!("uo-sfo-fho", a(f.fault_handler_code.clone() as u8)),
        U::SFOFileStoreRequest(q) => sx!("uo-sfo-fsq", sx_fsq(q)),
        U::SFOFileStoreResponse(r) => sx!("uo-sfo-fsr", sx_fsr(r)),
        U::SFOReport(m) => {
            let (label, src, dst, rep, prior, code, cond, dir, deliv, fstat) = m.verif_parts();
            sx!(
                "uo-sfo-report",
                sx_bytes(&label),
                sx_id(&src),
                sx_id(&dst),
                sx_id(&rep),
                a(prior),
                a(code),
                a(cond as u8),
                a(dir as u8),
                a(deliv as u8),
                a(fstat as u8)
            )
        }
    }
}
fn sx_report(r: &Report) -> Sx {
    sx!(
        "report",
        sx_id(&r.id.0),
        sx_id(&r.id.1),
        a(r.state as u8),
        a(r.status as u8),
        a(r.condition as u8)
    )
}

// ---------------------------------------------------------------------------------------------
// sexp -> value
// ---------------------------------------------------------------------------------------------
fn v_id(s: &Sx) -> VariableID {
    let t = at(s);
    let (w, v) = t.split_once(':').unwrap_or_else(|| panic!("ID expected: {t}"));
    match w {
        "1" => VariableID::U8(v.parse().unwrap()),
        "2" => VariableID::U16(v.parse().unwrap()),
        "4" => VariableID::U32(v.parse().unwrap()),
        "8" => VariableID::U64(v.parse().unwrap()),
        _ => panic!("ID width: {t}"),
    }
}
fn v_optid(s: &Sx) -> Option<VariableID> {
    if at(s) == "none" {
        None
    } else {
        Some(v_id(s))
    }
}
fn tagged<'a>(s: &'a Sx, tag: &str, n: usize) -> &'a [Sx] {
    let e = li(s);
    assert!(!e.is_empty() && at(&e[0]) == tag && e.len() == n + 1, "expected ({tag} + {n} fields), got {}", s.print());
    e
}
fn v_hdr(s: &Sx) -> PDUHeader {
    let e = tagged(s, "h", 12);
    PDUHeader {
        version: u3_from(nu8(&e[1])),
        pdu_type: ptype_from(nu8(&e[2])),
        direction: dir_from(nu8(&e[3])),
        transmission_mode: mode_from(nu8(&e[4])),
        crc_flag: crc_from(nu8(&e[5])),
        large_file_flag: fsize_from(nu8(&e[6])),
        pdu_data_field_length: nu16(&e[7]),
        segmentation_control: segctl_from(nu8(&e[8])),
        segment_metadata_flag: segmeta_from(nu8(&e[9])),
        source_entity_id: v_id(&e[10]),
        transaction_sequence_number: v_id(&e[11]),
        destination_entity_id: v_id(&e[12]),
    }
}
fn v_fsq(s: &Sx) -> FileStoreRequest {
    let e = tagged(s, "fsq", 3);
    FileStoreRequest {
        action_code: action_from(nu8(&e[1])),
        first_filename: vpath(&e[2]),
        second_filename: vpath(&e[3]),
    }
}
fn v_fsr(s: &Sx) -> FileStoreResponse {
    let e = tagged(s, "fsr", 4);
    FileStoreResponse {
        action_and_status: fs_status_from(nu8(&e[1])),
        first_filename: vpath(&e[2]),
        second_filename: vpath(&e[3]),
        filestore_message: vbytes(&e[4]),
    }
}
fn v_tlv(s: &Sx) -> MetadataTLV {
    let e = li(s);
    match at(&e[0]) {
        "fsq" => MetadataTLV::FileStoreRequest(v_fsq(s)),
        "fsr" => MetadataTLV::FileStoreResponse(v_fsr(s)),
        "msg" => MetadataTLV::MessageToUser(MessageToUser { message_text: vbytes(&e[1]) }),
        "fho" => MetadataTLV::FaultHandlerOverride(FaultHandlerOverride { fault_handler_code: handler_from(nu8(&e[1])) }),
        "flow" => MetadataTLV::FlowLabel(FlowLabel { value: vbytes(&e[1]) }),
        "eid" => MetadataTLV::EntityID(v_id(&e[1])),
        o => panic!("unknown TLV {o}"),
    }
}
fn v_payload(s: &Sx) -> PDUPayload {
    let e = li(s);
    let dir = |o| PDUPayload::Directive(o);
    match at(&e[0]) {
        "eof" => dir(Operations::EoF(EndOfFile {
            condition: cond_from(nu8(&e[1])),
            checksum: nu32(&e[2]),
            file_size: nu64(&e[3]),
            fault_location: v_optid(&e[4]),
        })),
        "fin" => dir(Operations::Finished(Finished {
            condition: cond_from(nu8(&e[1])),
            delivery_code: deliv_from(nu8(&e[2])),
            file_status: fstat_from(nu8(&e[3])),
            filestore_response: li(&e[4]).iter().map(v_fsr).collect(),
            fault_location: v_optid(&e[5]),
        })),
        "ack" => dir(Operations::Ack(PositiveAcknowledgePDU {
            directive: directive_from(nu8(&e[1])),
            directive_subtype_code: subdir_from(nu8(&e[2])),
            condition: cond_from(nu8(&e[3])),
            transaction_status: txstatus_from(nu8(&e[4])),
        })),
        "md" => dir(Operations::Metadata(MetadataPDU {
            closure_requested: nbool(&e[1]),
            checksum_type: cksum_from(nu8(&e[2])),
            file_size: nu64(&e[3]),
            source_filename: vpath(&e[4]),
            destination_filename: vpath(&e[5]),
            options: li(&e[6]).iter().map(v_tlv).collect(),
        })),
        "nak" => dir(Operations::Nak(NegativeAcknowledgmentPDU {
            start_of_scope: nu64(&e[1]),
            end_of_scope: nu64(&e[2]),
            segment_requests: li(&e[3])
                .iter()
                .map(|x| {
                    let (s0, s1) = at(x).split_once(':').expect("SEG");
                    SegmentRequestForm { start_offset: s0.parse().unwrap(), end_offset: s1.parse().unwrap() }
                })
                .collect(),
        })),
        "prompt" => dir(Operations::Prompt(PromptPDU { nak_or_keep_alive: prompt_from(nu8(&e[1])) })),
        "ka" => dir(Operations::KeepAlive(KeepAlivePDU { progress: nu64(&e[1]) })),
        "fd" => PDUPayload::FileData(FileDataPDU::Unsegmented(UnsegmentedFileData {
            offset: nu64(&e[1]),
            file_data: vbytes(&e[2]),
        })),
        "sfd" => PDUPayload::FileData(FileDataPDU::Segmented(SegmentedFileData {
            record_continuation_state: rcs_from(nu8(&e[1])),
            segment_metadata: vbytes(&e[2]),
            offset: nu64(&e[3]),
            file_data: vbytes(&e[4]),
        })),
        o => panic!("unknown payload {o}"),
    }
}
fn v_pdu(s: &Sx) -> PDU {
    let e = tagged(s, "pdu", 2);
    PDU { header: v_hdr(&e[1]), payload: v_payload(&e[2]) }
}
fn v_uo(s: &Sx) -> UserOperation {
    use UserOperation as U;
    let e = li(s);
    let px = |o| U::ProxyOperation(o);
    let rs = |o| U::Response(o);
    let rq = |o| U::Request(o);
    match at(&e[0]) {
        "uo-otid" => U::OriginatingTransactionIDMessage(OriginatingTransactionIDMessage {
            source_entity_id: v_id(&e[1]),
            transaction_sequence_number: v_id(&e[2]),
        }),
        "uo-proxy-put" => px(ProxyOperation::ProxyPutRequest(ProxyPutRequest {
            destination_entity_id: v_id(&e[1]),
            source_filename: vpath(&e[2]),
            destination_filename: vpath(&e[3]),
        })),
        "uo-proxy-msg" => px(ProxyOperation::ProxyMessageToUser(MessageToUser { message_text: vbytes(&e[1]) })),
        "uo-proxy-fsq" => px(ProxyOperation::ProxyFileStoreRequest(v_fsq(&e[1]))),
        "uo-proxy-fho" => px(ProxyOperation::ProxyFaultHandlerOverride(FaultHandlerOverride {
            fault_handler_code: handler_from(nu8(&e[1])),
        })),
        "uo-proxy-mode" => px(ProxyOperation::ProxyTransmissionMode(mode_from(nu8(&e[1])))),
        "uo-proxy-flow" => px(ProxyOperation::ProxyFlowLabel(FlowLabel { value: vbytes(&e[1]) })),
        "uo-proxy-segctl" => px(ProxyOperation::ProxySegmentationControl(ProxySegmentationControl::verif_new(
            segctl_from(nu8(&e[1])),
        ))),
        "uo-proxy-cancel" => px(ProxyOperation::ProxyPutCancel),
        "uo-resp-put" => rs(UserResponse::ProxyPut(ProxyPutResponse {
            condition: cond_from(nu8(&e[1])),
            delivery_code: deliv_from(nu8(&e[2])),
            file_status: fstat_from(nu8(&e[3])),
        })),
        "uo-resp-fsr" => rs(UserResponse::ProxyFileStore(v_fsr(&e[1]))),
        "uo-resp-dir" => rs(UserResponse::DirectoryListing(DirectoryListingResponse {
            response_code: listing_from(nu8(&e[1])),
            directory_name: vpath(&e[2]),
            directory_filename: vpath(&e[3]),
        })),
        "uo-resp-status" => rs(UserResponse::RemoteStatusReport(RemoteStatusReportResponse {
            transaction_status: txstatus_from(nu8(&e[1])),
            response_code: nbool(&e[2]),
            source_entity_id: v_id(&e[3]),
            transaction_sequence_number: v_id(&e[4]),
        })),
        "uo-resp-suspend" => rs(UserResponse::RemoteSuspend(RemoteSuspendResponse {
            suspend_indication: nbool(&e[1]),
            transaction_status: txstatus_from(nu8(&e[2])),
            source_entity_id: v_id(&e[3]),
            transaction_sequence_number: v_id(&e[4]),
        })),
        "uo-resp-resume" => rs(UserResponse::RemoteResume(RemoteResumeResponse {
            suspend_indication: nbool(&e[1]),
            transaction_status: txstatus_from(nu8(&e[2])),
            source_entity_id: v_id(&e[3]),
            transaction_sequence_number: v_id(&e[4]),
        })),
        "uo-req-dir" => rq(UserRequest::DirectoryListing(DirectoryListingRequest {
            directory_name: vpath(&e[1]),
            directory_filename: vpath(&e[2]),
        })),
        "uo-req-status" => rq(UserRequest::RemoteStatusReport(RemoteStatusReportRequest {
            source_entity_id: v_id(&e[1]),
            transaction_sequence_number: v_id(&e[2]),
            report_filename: vpath(&e[3]),
        })),
        "uo-req-suspend" => rq(UserRequest::RemoteSuspend(RemoteSuspendRequest {
            source_entity_id: v_id(&e[1]),
            transaction_sequence_number: v_id(&e[2]),
        })),
        "uo-req-resume" => rq(UserRequest::RemoteResume(RemoteResumeRequest {
            source_entity_id: v_id(&e[1]),
            transaction_sequence_number: v_id(&e[2]),
        })),
        "uo-sfo-req" => U::SFORequest(SFORequest::verif_new(
            trace_from(nu8(&e[1])),
            mode_from(nu8(&e[2])),
            segctl_from(nu8(&e[3])),
            nbool(&e[4]),
            nu8(&e[5]),
            vbytes(&e[6]),
            v_id(&e[7]),
            v_id(&e[8]),
            vpath(&e[9]),
            vpath(&e[10]),
        )),
        "uo-sfo-msg" => U::SFOMessageToUser(MessageToUser { message_text: vbytes(&e[1]) }),
        "uo-sfo-flow" => U::SFOFlowLabel(FlowLabel { value: vbytes(&e[1]) }),
        "uo-sfo-fho" => U::SFOFaultHandlerOverride(FaultHandlerOverride { fault_handler_code: handler_from(nu8(&e[1])) }),
        "uo-sfo-fsq" => U::SFOFileStoreRequest(v_fsq(&e[1])),
        "uo-sfo-fsr" => U::SFOFileStoreResponse(v_fsr(&e[1])),
        "uo-sfo-report" => U::SFOReport(SFOReport::verif_new(
            vbytes(&e[1]),
            v_id(&e[2]),
            v_id(&e[3]),
            v_id(&e[4]),
            nu8(&e[5]),
            nu8(&e[6]),
            cond_from(nu8(&e[7])),
            dir_from(nu8(&e[8])),
            deliv_from(nu8(&e[9])),
            fstat_from(nu8(&e[10])),
        )),
        o => panic!("unknown user operation {o}"),
    }
}
fn v_report(s: &Sx) -> Report {
    let e = tagged(s, "report", 5);
    Report {
        id: TransactionID(v_id(&e[1]), v_id(&e[2])),
        state: txstate_from(nu8(&e[3])),
        status: txstatus_from(nu8(&e[4])),
        condition: cond_from(nu8(&e[5])),
    }
}

// ---------------------------------------------------------------------------------------------
// independent reference: wire lengths and well-formedness (the wire format's own limits)
// ---------------------------------------------------------------------------------------------
fn idw(v: &VariableID) -> usize {
    match v {
        VariableID::U8(_) => 1,
        VariableID::U16(_) => 2,
        VariableID::U32(_) => 4,
        VariableID::U64(_) => 8,
    }
}
fn fss(large: bool) -> usize {
    if large {
        8
    } else {
        4
    }
}
fn is_large(h: &PDUHeader) -> bool {
    h.large_file_flag == FileSizeFlag::Large
}
fn crc_len(h: &PDUHeader) -> usize {
    if h.crc_flag == CRCFlag::Present {
        2
    } else {
        0
    }
}
fn ref_hdr_len(h: &PDUHeader) -> usize {
    4 + idw(&h.source_entity_id) + idw(&h.transaction_sequence_number) + idw(&h.destination_entity_id)
}
fn plen(p: &Utf8PathBuf) -> usize {
    p.as_str().len()
}
fn fsq_len(q: &FileStoreRequest) -> usize {
    3 + plen(&q.first_filename) + plen(&q.second_filename)
}
fn fsr_len(r: &FileStoreResponse) -> usize {
    4 + plen(&r.first_filename) + plen(&r.second_filename) + r.filestore_message.len()
}
fn tlv_len(t: &MetadataTLV) -> usize {
    1 + match t {
        MetadataTLV::FileStoreRequest(q) => fsq_len(q),
        MetadataTLV::FileStoreResponse(r) => fsr_len(r),
        MetadataTLV::MessageToUser(m) => 1 + m.message_text.len(),
        MetadataTLV::FaultHandlerOverride(_) => 1,
        MetadataTLV::FlowLabel(f) => 1 + f.value.len(),
        MetadataTLV::EntityID(i) => 1 + idw(i),
    }
}
fn fault_len(f: &Option<VariableID>) -> usize {
    match f {
        None => 0,
        Some(i) => 2 + idw(i),
    }
}
/// number of bytes the payload occupies on the wire
fn ref_payload_len(p: &PDUPayload, large: bool) -> usize {
    match p {
        PDUPayload::Directive(op) => {
            1 + match op {
                Operations::EoF(e) => 5 + fss(large) + fault_len(&e.fault_location),
                Operations::Finished(f) => {
                    1 + f.filestore_response.iter().map(|r| 2 + fsr_len(r)).sum::<usize>()
                        + fault_len(&f.fault_location)
                }
                Operations::Ack(_) => 2,
                Operations::Metadata(m) => {
                    1 + fss(large)
                        + 1
                        + plen(&m.source_filename)
                        + 1
                        + plen(&m.destination_filename)
                        + m.options.iter().map(tlv_len).sum::<usize>()
                }
                Operations::Nak(n) => 2 * fss(large) * (1 + n.segment_requests.len()),
                Operations::Prompt(_) => 1,
                Operations::KeepAlive(_) => fss(large),
            }
        }
        PDUPayload::FileData(FileDataPDU::Unsegmented(d)) => fss(large) + d.file_data.len(),
        PDUPayload::FileData(FileDataPDU::Segmented(d)) => {
            1 + d.segment_metadata.len() + fss(large) + d.file_data.len()
        }
    }
}
fn wf_fsq(q: &FileStoreRequest) -> bool {
    plen(&q.first_filename) <= 255 && plen(&q.second_filename) <= 255
}
fn wf_fsr(r: &FileStoreResponse) -> bool {
    plen(&r.first_filename) <= 255 && plen(&r.second_filename) <= 255 && r.filestore_message.len() <= 255
}
fn wf_pdu(p: &PDU) -> bool {
    let h = &p.header;
    let large = is_large(h);
    let fits = |v: u64| large || v < (1u64 << 32);
    if idw(&h.source_entity_id) != idw(&h.destination_entity_id) {
        return false;
    }
    let is_directive = matches!(p.payload, PDUPayload::Directive(_));
    if (h.pdu_type == PDUType::FileDirective) != is_directive {
        return false;
    }
    let ok = match &p.payload {
        PDUPayload::Directive(op) => match op {
            Operations::EoF(e) => {
                fits(e.file_size) && (e.fault_location.is_some() == (e.condition != Condition::NoError))
            }
            Operations::Finished(f) => {
                f.filestore_response.iter().all(|r| wf_fsr(r) && fsr_len(r) <= 255)
                    && !(f.condition == Condition::NoError && f.fault_location.is_some())
            }
            Operations::Ack(k) => matches!(
                (&k.directive, &k.directive_subtype_code),
                (PDUDirective::EoF, ACKSubDirective::Other) | (PDUDirective::Finished, ACKSubDirective::Finished)
            ),
            Operations::Metadata(m) => {
                fits(m.file_size)
                    && plen(&m.source_filename) <= 255
                    && plen(&m.destination_filename) <= 255
                    && m.options.iter().all(|t| match t {
                        MetadataTLV::FileStoreRequest(q) => wf_fsq(q),
                        MetadataTLV::FileStoreResponse(r) => wf_fsr(r),
                        MetadataTLV::MessageToUser(m) => m.message_text.len() <= 255,
                        MetadataTLV::FaultHandlerOverride(_) => true,
                        MetadataTLV::FlowLabel(f) => f.value.len() <= 255,
                        MetadataTLV::EntityID(_) => true,
                    })
            }
            Operations::Nak(n) => {
                fits(n.start_of_scope)
                    && fits(n.end_of_scope)
                    && n.segment_requests.iter().all(|s| fits(s.start_offset) && fits(s.end_offset))
            }
            Operations::Prompt(_) => true,
            Operations::KeepAlive(k) => fits(k.progress),
        },
        PDUPayload::FileData(FileDataPDU::Unsegmented(d)) => {
            fits(d.offset) && h.segment_metadata_flag == SegmentedData::NotPresent
        }
        PDUPayload::FileData(FileDataPDU::Segmented(d)) => {
            fits(d.offset) && d.segment_metadata.len() <= 63 && h.segment_metadata_flag == SegmentedData::Present
        }
    };
    if !ok {
        return false;
    }
    let n = ref_payload_len(&p.payload, large);
    h.pdu_data_field_length as usize == n && n + crc_len(h) <= 65535
}
fn wf_uo(u: &UserOperation) -> bool {
    use UserOperation as U;
    match u {
        U::OriginatingTransactionIDMessage(_) => true,
        U::ProxyOperation(p) => match p {
            ProxyOperation::ProxyPutRequest(m) => plen(&m.source_filename) <= 255 && plen(&m.destination_filename) <= 255,
            ProxyOperation::ProxyMessageToUser(m) => m.message_text.len() <= 255,
            ProxyOperation::ProxyFileStoreRequest(q) => wf_fsq(q),
            ProxyOperation::ProxyFlowLabel(f) => f.value.len() <= 255,
            _ => true,
        },
        U::Response(r) => match r {
            UserResponse::ProxyFileStore(f) => wf_fsr(f),
            UserResponse::DirectoryListing(m) => plen(&m.directory_name) <= 255 && plen(&m.directory_filename) <= 255,
            _ => true,
        },
        U::Request(r) => match r {
            UserRequest::DirectoryListing(m) => plen(&m.directory_name) <= 255 && plen(&m.directory_filename) <= 255,
            UserRequest::RemoteStatusReport(m) => plen(&m.report_filename) <= 255,
            _ => true,
        },
        U::SFORequest(m) => {
            let p = m.verif_parts();
            p.5.len() <= 255 && plen(&p.8) <= 255 && plen(&p.9) <= 255
        }
        U::SFOMessageToUser(m) => m.message_text.len() <= 255,
        U::SFOFlowLabel(f) => f.value.len() <= 255,
        U::SFOFaultHandlerOverride(_) => true,
        U::SFOFileStoreRequest(q) => wf_fsq(q),
        U::SFOFileStoreResponse(r) => wf_fsr(r),
        U::SFOReport(m) => m.verif_parts().0.len() <= 255,
    }
}
fn report_eq(x: &Report, y: &Report) -> bool {
    x.id == y.id && x.state == y.state && x.status == y.status && x.condition == y.condition
}

// ---------------------------------------------------------------------------------------------
// runner + oracles (C05 round trip / lengths, C06 decoder robustness)
// ---------------------------------------------------------------------------------------------
fn guard<T>(f: impl FnOnce() -> T) -> Result<T, ()> {
    catch_unwind(AssertUnwindSafe(f)).map_err(|_| ())
}
fn part_hex(r: &Result<Vec<u8>, ()>) -> String {
    match r {
        Ok(b) => hex(b),
        Err(()) => "PANIC".to_string(),
    }
}
fn part_num(r: &Result<u16, ()>) -> String {
    match r {
        Ok(n) => n.to_string(),
        Err(()) => "PANIC".to_string(),
    }
}
fn alloc_limit(input_len: usize) -> usize {
    65536 + 3 * input_len + 4096
}
macro_rules! fail {
    ($orc:expr, $prop:expr, $id:expr, $k:expr, $line:expr, $($fmt:tt)+) => {
        writeln!($orc, "FAIL {} case={} op={} {} :: {}", $prop, $id, $k, format!($($fmt)+), $line).unwrap()
    };
}
fn pdu_same(x: &PDU, y: &PDU) -> bool {
    // derived equality AND byte-wise equality of every field incl. file names (canonical print)
    x == y && sx_pdu(x).print() == sx_pdu(y).print()
}
fn uo_same(x: &UserOperation, y: &UserOperation) -> bool {
    x == y && sx_uo(x).print() == sx_uo(y).print()
}

/// checks shared by E lines (on the given value) and D lines (on the re-normalised decoded value):
/// `bytes` is encode(v); returns nothing, writes FAIL C05 lines
fn c05_pdu_checks(
    v: &PDU,
    bytes: &[u8],
    plen_r: &Result<u16, ()>,
    tlen_r: &Result<u16, ()>,
    what: &str,
    id: &str,
    k: usize,
    line: &str,
    orc: &mut impl Write,
) {
    let total = bytes.len();
    // the same bytes read in short reads must decode to the same value
    match guard(|| PDU::decode(&mut crate::util::Dribble::new(bytes))) {
        Ok(Ok(v3)) if pdu_same(v, &v3) => {}
        _ => fail!(orc, "C05", id, k, line, "{what}: decode(encode(v)) from a reader delivering short reads does not give v back, encode(v) = {}", hex(bytes)),
    }
    match guard(|| PDU::decode(&mut &bytes[..])) {
        Err(()) => fail!(orc, "C05", id, k, line, "{what}: decode(encode(v)) panicked"),
        Ok(Err(e)) => fail!(orc, "C05", id, k, line, "{what}: decode(encode(v)) = Err({e:?}), encode(v) = {}", hex(bytes)),
        Ok(Ok(v2)) => {
            if !pdu_same(v, &v2) {
                fail!(orc, "C05", id, k, line, "{what}: decode(encode(v)) = {} differs from v = {}, encode(v) = {}",
                    sx_pdu(&v2).print(), sx_pdu(v).print(), hex(bytes));
            }
        }
    }
    let payload_bytes = total as i64 - ref_hdr_len(&v.header) as i64 - crc_len(&v.header) as i64;
    match plen_r {
        Err(()) => fail!(orc, "C05", id, k, line, "{what}: payload.encoded_len() panicked"),
        Ok(n) => {
            if *n as i64 != payload_bytes {
                fail!(orc, "C05", id, k, line, "{what}: payload.encoded_len() = {n} but the payload encodes to {payload_bytes} bytes");
            }
        }
    }
    if total <= 65535 {
        match tlen_r {
            Err(()) => fail!(orc, "C05", id, k, line, "{what}: pdu.encoded_len() panicked"),
            Ok(n) => {
                if *n as usize != total {
                    fail!(orc, "C05", id, k, line, "{what}: pdu.encoded_len() = {n} but encode() produced {total} bytes");
                }
            }
        }
    }
}

fn run_e(id: &str, k: usize, line: &str, arg: &str, out: &mut impl Write, orc: &mut impl Write, refcheck: bool) {
    let pdu = v_pdu(&parse_sx(arg));
    let c = pdu.clone();
    let enc = guard(move || c.encode());
    let plen_r = guard(|| pdu.payload.encoded_len(pdu.header.large_file_flag));
    let tlen_r = guard(|| pdu.encoded_len());
    writeln!(out, "{} {} {}", part_hex(&enc), part_num(&plen_r), part_num(&tlen_r)).unwrap();
    if refcheck {
        let r = ref_enc_pdu(&pdu);
        if enc.as_ref().ok() != Some(&r) {
            eprintln!("REFCHECK E case={id} op={k} wf={} ref={} impl={} :: {line}", wf_pdu(&pdu), hex(&r), part_hex(&enc));
        }
    }
    if !wf_pdu(&pdu) {
        return;
    }
    match &enc {
        Err(()) => fail!(orc, "C05", id, k, line, "encode of a well-formed PDU panicked"),
        Ok(bytes) => c05_pdu_checks(&pdu, bytes, &plen_r, &tlen_r, "well-formed PDU", id, k, line, orc),
    }
}

fn run_d(id: &str, k: usize, line: &str, arg: &str, out: &mut impl Write, orc: &mut impl Write) {
    let input = unhex(arg);
    let (r, grew) = measured(|| guard(|| PDU::decode(&mut &input[..])));
    if grew > alloc_limit(input.len()) {
        fail!(orc, "C06", id, k, line, "PDU::decode of {} input bytes allocated {grew} bytes (limit {})", input.len(), alloc_limit(input.len()));
    }
    match r {
        Err(()) => {
            writeln!(out, "PANIC").unwrap();
            fail!(orc, "C06", id, k, line, "PDU::decode panicked");
        }
        Ok(Err(_)) => writeln!(out, "ERR").unwrap(),
        Ok(Ok(p)) => {
            let p2 = p.clone();
            let re = guard(move || {
                let mut q = p2;
                q.header.pdu_data_field_length = q.payload.encoded_len(q.header.large_file_flag);
                let b = q.clone().encode();
                (q, b)
            });
            match &re {
                Err(()) => {
                    writeln!(out, "{} PANIC", sx_pdu(&p).print()).unwrap();
                    fail!(orc, "C06", id, k, line, "decoded {} is not canonical: re-encoding panicked", sx_pdu(&p).print());
                }
                Ok((q, b)) => {
                    writeln!(out, "{} {}", sx_pdu(&p).print(), hex(b)).unwrap();
                    let fix = guard(|| PDU::decode(&mut &b[..]));
                    let good = matches!(&fix, Ok(Ok(q2)) if pdu_same(q, q2));
                    if !good {
                        let got = match &fix {
                            Err(()) => "PANIC".to_string(),
                            Ok(Err(e)) => format!("Err({e:?})"),
                            Ok(Ok(q2)) => sx_pdu(q2).print(),
                        };
                        fail!(orc, "C06", id, k, line, "decoded value is not canonical: q = {} encodes to {} which decodes to {got}", sx_pdu(q).print(), hex(b));
                    }
                    // C05 on the decoded value: lengths always, round trip when q is well-formed
                    let plen_r: Result<u16, ()> = Ok(q.header.pdu_data_field_length);
                    let tlen_r = guard(|| q.encoded_len());
                    if wf_pdu(q) {
                        c05_pdu_checks(q, b, &plen_r, &tlen_r, "decoded PDU", id, k, line, orc);
                    } else {
                        let payload_bytes = b.len() as i64 - ref_hdr_len(&q.header) as i64 - crc_len(&q.header) as i64;
                        if q.header.pdu_data_field_length as i64 != payload_bytes {
                            fail!(orc, "C05", id, k, line, "decoded PDU: payload.encoded_len() = {} but the payload encodes to {payload_bytes} bytes", q.header.pdu_data_field_length);
                        }
                    }
                }
            }
        }
    }
}

fn run_eu(id: &str, k: usize, line: &str, arg: &str, out: &mut impl Write, orc: &mut impl Write, refcheck: bool) {
    let u = v_uo(&parse_sx(arg));
    let c = u.clone();
    let enc = guard(move || c.encode());
    let len_r = guard(|| u.encoded_len());
    writeln!(out, "{} {}", part_hex(&enc), part_num(&len_r)).unwrap();
    if refcheck {
        let r = ref_enc_uo(&u);
        if enc.as_ref().ok() != Some(&r) {
            eprintln!("REFCHECK EU case={id} op={k} ref={} impl={} :: {line}", hex(&r), part_hex(&enc));
        }
    }
    if !wf_uo(&u) {
        return;
    }
    match &enc {
        Err(()) => fail!(orc, "C05", id, k, line, "encode of a well-formed user operation panicked"),
        Ok(bytes) => c05_uo_checks(&u, bytes, &len_r, "well-formed user operation", id, k, line, orc),
    }
}
fn c05_uo_checks(
    u: &UserOperation,
    bytes: &[u8],
    len_r: &Result<u16, ()>,
    what: &str,
    id: &str,
    k: usize,
    line: &str,
    orc: &mut impl Write,
) {
    match guard(|| UserOperation::decode(&mut &bytes[..])) {
        Err(()) => fail!(orc, "C05", id, k, line, "{what}: decode(encode(v)) panicked"),
        Ok(Err(e)) => fail!(orc, "C05", id, k, line, "{what}: decode(encode(v)) = Err({e:?}), encode(v) = {}", hex(bytes)),
        Ok(Ok(u2)) => {
            if !uo_same(u, &u2) {
                fail!(orc, "C05", id, k, line, "{what}: decode(encode(v)) = {} differs from v = {}, encode(v) = {}",
                    sx_uo(&u2).print(), sx_uo(u).print(), hex(bytes));
            }
        }
    }
    match len_r {
        Err(()) => fail!(orc, "C05", id, k, line, "{what}: encoded_len() panicked"),
        Ok(n) => {
            if *n as usize != bytes.len() {
                fail!(orc, "C05", id, k, line, "{what}: encoded_len() = {n} but encode() produced {} bytes", bytes.len());
            }
        }
    }
}

fn run_du(id: &str, k: usize, line: &str, arg: &str, out: &mut impl Write, orc: &mut impl Write) {
    let input = unhex(arg);
    let (r, grew) = measured(|| guard(|| UserOperation::decode(&mut &input[..])));
    if grew > alloc_limit(input.len()) {
        fail!(orc, "C06", id, k, line, "UserOperation::decode of {} input bytes allocated {grew} bytes (limit {})", input.len(), alloc_limit(input.len()));
    }
    match r {
        Err(()) => {
            writeln!(out, "PANIC").unwrap();
            fail!(orc, "C06", id, k, line, "UserOperation::decode panicked");
        }
        Ok(Err(_)) => writeln!(out, "ERR").unwrap(),
        Ok(Ok(p)) => {
            let c = p.clone();
            let re = guard(move || c.encode());
            writeln!(out, "{} {}", sx_uo(&p).print(), part_hex(&re)).unwrap();
            match &re {
                Err(()) => fail!(orc, "C06", id, k, line, "decoded {} is not canonical: re-encoding panicked", sx_uo(&p).print()),
                Ok(b) => {
                    let fix = guard(|| UserOperation::decode(&mut &b[..]));
                    let good = matches!(&fix, Ok(Ok(p2)) if uo_same(&p, p2));
                    if !good {
                        let got = match &fix {
                            Err(()) => "PANIC".to_string(),
                            Ok(Err(e)) => format!("Err({e:?})"),
                            Ok(Ok(p2)) => sx_uo(p2).print(),
                        };
                        fail!(orc, "C06", id, k, line, "decoded value is not canonical: {} encodes to {} which decodes to {got}", sx_uo(&p).print(), hex(b));
                    }
                    if wf_uo(&p) {
                        let len_r = guard(|| p.encoded_len());
                        c05_uo_checks(&p, b, &len_r, "decoded user operation", id, k, line, orc);
                    }
                }
            }
        }
    }
}

fn run_er(id: &str, k: usize, line: &str, arg: &str, out: &mut impl Write, orc: &mut impl Write, refcheck: bool) {
    let v = v_report(&parse_sx(arg));
    let c = v.clone();
    let enc = guard(move || c.encode());
    writeln!(out, "{}", part_hex(&enc)).unwrap();
    if refcheck {
        let r = ref_enc_report(&v);
        if enc.as_ref().ok() != Some(&r) {
            eprintln!("REFCHECK ER case={id} op={k} ref={} impl={} :: {line}", hex(&r), part_hex(&enc));
        }
    }
    match &enc {
        Err(()) => fail!(orc, "C05", id, k, line, "encode of a report panicked"),
        Ok(bytes) => c05_report_checks(&v, bytes, "report", id, k, line, orc),
    }
}
fn c05_report_checks(v: &Report, bytes: &[u8], what: &str, id: &str, k: usize, line: &str, orc: &mut impl Write) {
    match guard(|| Report::decode(&mut &bytes[..])) {
        Err(()) => fail!(orc, "C05", id, k, line, "{what}: decode(encode(v)) panicked"),
        Ok(Err(e)) => fail!(orc, "C05", id, k, line, "{what}: decode(encode(v)) = Err({e:?}), encode(v) = {}", hex(bytes)),
        Ok(Ok(v2)) => {
            if !report_eq(v, &v2) {
                fail!(orc, "C05", id, k, line, "{what}: decode(encode(v)) = {} differs from v = {}, encode(v) = {}",
                    sx_report(&v2).print(), sx_report(v).print(), hex(bytes));
            }
        }
    }
}
fn run_dr(id: &str, k: usize, line: &str, arg: &str, out: &mut impl Write, orc: &mut impl Write) {
    let input = unhex(arg);
    let (r, grew) = measured(|| guard(|| Report::decode(&mut &input[..])));
    if grew > alloc_limit(input.len()) {
        fail!(orc, "C06", id, k, line, "Report::decode of {} input bytes allocated {grew} bytes (limit {})", input.len(), alloc_limit(input.len()));
    }
    match r {
        Err(()) => {
            writeln!(out, "PANIC").unwrap();
            fail!(orc, "C06", id, k, line, "Report::decode panicked");
        }
        Ok(Err(_)) => writeln!(out, "ERR").unwrap(),
        Ok(Ok(p)) => {
            let c = p.clone();
            let re = guard(move || c.encode());
            writeln!(out, "{} {}", sx_report(&p).print(), part_hex(&re)).unwrap();
            match &re {
                Err(()) => fail!(orc, "C06", id, k, line, "decoded {} is not canonical: re-encoding panicked", sx_report(&p).print()),
                Ok(b) => {
                    let fix = guard(|| Report::decode(&mut &b[..]));
                    let good = matches!(&fix, Ok(Ok(p2)) if report_eq(&p, p2));
                    if !good {
                        let got = match &fix {
                            Err(()) => "PANIC".to_string(),
                            Ok(Err(e)) => format!("Err({e:?})"),
                            Ok(Ok(p2)) => sx_report(p2).print(),
                        };
                        fail!(orc, "C06", id, k, line, "decoded value is not canonical: {} encodes to {} which decodes to {got}", sx_report(&p).print(), hex(b));
                        fail!(orc, "C05", id, k, line, "decoded report: decode(encode(v)) = {got} differs from v = {}", sx_report(&p).print());
                    }
                }
            }
        }
    }
}

/// per-type decoder ops (DH DO DF DT DV DQ DS): `<value> <consumed>` | ERR | PANIC; C06: no panic, bounded allocation
fn run_typed<T>(
    id: &str,
    k: usize,
    line: &str,
    name: &str,
    input: &[u8],
    dec: impl FnOnce(&mut &[u8]) -> PDUResult<T>,
    show: impl FnOnce(&T) -> Sx,
    out: &mut impl Write,
    orc: &mut impl Write,
) {
    let mut s = input;
    let (r, grew) = measured(|| guard(|| dec(&mut s)));
    let consumed = input.len() - s.len();
    if grew > alloc_limit(input.len()) {
        fail!(orc, "C06", id, k, line, "{name} of {} input bytes allocated {grew} bytes (limit {})", input.len(), alloc_limit(input.len()));
    }
    match r {
        Err(()) => {
            writeln!(out, "PANIC").unwrap();
            fail!(orc, "C06", id, k, line, "{name} panicked");
        }
        Ok(Err(_)) => writeln!(out, "ERR").unwrap(),
        Ok(Ok(v)) => writeln!(out, "{} {consumed}", show(&v).print()).unwrap(),
    }
}
fn flag_arg(t: &str) -> u8 {
    match t {
        "0" => 0,
        "1" => 1,
        o => panic!("codec: flag 0/1 expected, got {o}"),
    }
}

pub fn run(ops: &str, out: &mut impl Write, orc: &mut impl Write) {
    // developer aid: CODEC_REFCHECK=1 compares the generator's reference encoders with the real ones (stderr)
    let refcheck = std::env::var_os("CODEC_REFCHECK").is_some();
    for (hdr, lines) in cases(ops) {
        let id = &hdr[0];
        writeln!(out, "CASE {id}").unwrap();
        for (k, line) in lines.iter().enumerate() {
            let (op, arg) = match line.split_once(char::is_whitespace) {
                Some((o, r)) => (o, r.trim()),
                None => (line.as_str(), ""),
            };
            match op {
                "E" => run_e(id, k, line, arg, out, orc, refcheck),
                "D" => run_d(id, k, line, arg, out, orc),
                "EU" => run_eu(id, k, line, arg, out, orc, refcheck),
                "DU" => run_du(id, k, line, arg, out, orc),
                "ER" => run_er(id, k, line, arg, out, orc, refcheck),
                "DR" => run_dr(id, k, line, arg, out, orc),
                "DH" => run_typed(id, k, line, "PDUHeader::decode", &unhex(arg), |s| PDUHeader::decode(s), sx_hdr, out, orc),
                "DO" => {
                    let t: Vec<&str> = arg.split_whitespace().collect();
                    let flag = fsize_from(flag_arg(t[0]));
                    run_typed(
                        id,
                        k,
                        line,
                        "Operations::decode",
                        &unhex(t[1]),
                        |s| Operations::decode(s, flag),
                        |o: &Operations| sx_payload(&PDUPayload::Directive(o.clone())),
                        out,
                        orc,
                    )
                }
                "DF" => {
                    let t: Vec<&str> = arg.split_whitespace().collect();
                    let seg = segmeta_from(flag_arg(t[0]));
                    let flag = fsize_from(flag_arg(t[1]));
                    run_typed(
                        id,
                        k,
                        line,
                        "FileDataPDU::decode",
                        &unhex(t[2]),
                        |s| FileDataPDU::decode(s, seg, flag),
                        |d: &FileDataPDU| sx_payload(&PDUPayload::FileData(d.clone())),
                        out,
                        orc,
                    )
                }
                "DT" => run_typed(id, k, line, "MetadataTLV::decode", &unhex(arg), |s| MetadataTLV::decode(s), sx_tlv, out, orc),
                "DV" => run_typed(id, k, line, "VariableID::decode", &unhex(arg), |s| VariableID::decode(s), sx_id, out, orc),
                "DQ" => run_typed(id, k, line, "FileStoreRequest::decode", &unhex(arg), |s| FileStoreRequest::decode(s), sx_fsq, out, orc),
                "DS" => run_typed(id, k, line, "FileStoreResponse::decode", &unhex(arg), |s| FileStoreResponse::decode(s), sx_fsr, out, orc),
                other => panic!("codec: unknown op {other}"),
            }
        }
    }
    if refcheck {
        eprintln!("REFCHECK largest heap growth during one decode call: {} bytes", MAX_GROWTH.load(Relaxed));
    }
}

// ---------------------------------------------------------------------------------------------
// reference encoders (generator only: they produce the corpus of valid encodings, so that the
// ops file does not depend on the encoder under test; never used by an oracle)
// ---------------------------------------------------------------------------------------------
fn ref_crc16(b: &[u8]) -> u16 {
    let mut crc: u16 = 0xffff;
    for x in b {
        crc ^= (*x as u16) << 8;
        for _ in 0..8 {
            crc = if crc & 0x8000 != 0 { (crc << 1) ^ 0x1021 } else { crc << 1 };
        }
    }
    crc
}
fn id_bytes(v: &VariableID) -> Vec<u8> {
    match v {
        VariableID::U8(x) => x.to_be_bytes().to_vec(),
        VariableID::U16(x) => x.to_be_bytes().to_vec(),
        VariableID::U32(x) => x.to_be_bytes().to_vec(),
        VariableID::U64(x) => x.to_be_bytes().to_vec(),
    }
}
fn put_lv(o: &mut Vec<u8>, b: &[u8]) {
    o.push(b.len() as u8);
    o.extend_from_slice(b);
}
fn put_fss(o: &mut Vec<u8>, v: u64, large: bool) {
    if large {
        o.extend_from_slice(&v.to_be_bytes());
    } else {
        o.extend_from_slice(&(v as u32).to_be_bytes());
    }
}
/// entity id as the value of an "entity id TLV": type 06, (width-1), bytes
fn put_eid_tlv(o: &mut Vec<u8>, i: &VariableID) {
    o.push(0x06);
    o.push(idw(i) as u8 - 1);
    o.extend(id_bytes(i));
}
/// width, bytes (user operations with an LV entity id)
fn put_id_lv(o: &mut Vec<u8>, i: &VariableID) {
    o.push(idw(i) as u8);
    o.extend(id_bytes(i));
}
fn ref_enc_fsq(q: &FileStoreRequest) -> Vec<u8> {
    let mut o = vec![(q.action_code.clone() as u8) << 4];
    put_lv(&mut o, q.first_filename.as_str().as_bytes());
    put_lv(&mut o, q.second_filename.as_str().as_bytes());
    o
}
fn ref_enc_fsr(r: &FileStoreResponse) -> Vec<u8> {
    let mut o = vec![r.action_and_status.as_u8()];
    put_lv(&mut o, r.first_filename.as_str().as_bytes());
    put_lv(&mut o, r.second_filename.as_str().as_bytes());
    put_lv(&mut o, &r.filestore_message);
    o
}
fn ref_enc_payload(p: &PDUPayload, large: bool) -> Vec<u8> {
    let mut o = Vec::new();
    match p {
        PDUPayload::Directive(op) => match op {
            Operations::EoF(e) => {
                o.push(0x04);
                o.push((e.condition as u8) << 4);
                o.extend_from_slice(&e.checksum.to_be_bytes());
                put_fss(&mut o, e.file_size, large);
                if let Some(f) = &e.fault_location {
                    put_eid_tlv(&mut o, f);
                }
            }
            Operations::Finished(f) => {
                o.push(0x05);
                o.push(((f.condition as u8) << 4) | ((f.delivery_code as u8) << 2) | f.file_status as u8);
                for r in &f.filestore_response {
                    let b = ref_enc_fsr(r);
                    o.push(0x01);
                    o.push(b.len() as u8);
                    o.extend(b);
                }
                if let Some(i) = &f.fault_location {
                    put_eid_tlv(&mut o, i);
                }
            }
            Operations::Ack(k) => {
                o.push(0x06);
                o.push(((k.directive.clone() as u8) << 4) | k.directive_subtype_code.clone() as u8);
                o.push(((k.condition as u8) << 4) | k.transaction_status as u8);
            }
            Operations::Metadata(m) => {
                o.push(0x07);
                o.push(((m.closure_requested as u8) << 6) | m.checksum_type as u8);
                put_fss(&mut o, m.file_size, large);
                put_lv(&mut o, m.source_filename.as_str().as_bytes());
                put_lv(&mut o, m.destination_filename.as_str().as_bytes());
                for t in &m.options {
                    match t {
                        MetadataTLV::FileStoreRequest(q) => {
                            o.push(0x00);
                            o.extend(ref_enc_fsq(q));
                        }
                        MetadataTLV::FileStoreResponse(r) => {
                            o.push(0x01);
                            o.extend(ref_enc_fsr(r));
                        }
                        MetadataTLV::MessageToUser(m) => {
                            o.push(0x02);
                            put_lv(&mut o, &m.message_text);
                        }
                        MetadataTLV::FaultHandlerOverride(f) => {
                            o.push(0x04);
                            o.push(f.fault_handler_code.clone() as u8);
                        }
                        MetadataTLV::FlowLabel(f) => {
                            o.push(0x05);
                            put_lv(&mut o, &f.value);
                        }
                        MetadataTLV::EntityID(i) => put_eid_tlv(&mut o, i),
                    }
                }
            }
            Operations::Nak(n) => {
                o.push(0x08);
                put_fss(&mut o, n.start_of_scope, large);
                put_fss(&mut o, n.end_of_scope, large);
                for s in &n.segment_requests {
                    put_fss(&mut o, s.start_offset, large);
                    put_fss(&mut o, s.end_offset, large);
                }
            }
            Operations::Prompt(p) => {
                o.push(0x09);
                o.push((p.nak_or_keep_alive as u8) << 7);
            }
            Operations::KeepAlive(k) => {
                o.push(0x0c);
                put_fss(&mut o, k.progress, large);
            }
        },
        PDUPayload::FileData(FileDataPDU::Unsegmented(d)) => {
            put_fss(&mut o, d.offset, large);
            o.extend_from_slice(&d.file_data);
        }
        PDUPayload::FileData(FileDataPDU::Segmented(d)) => {
            o.push(((d.record_continuation_state.clone() as u8) << 6) | d.segment_metadata.len() as u8);
            o.extend_from_slice(&d.segment_metadata);
            put_fss(&mut o, d.offset, large);
            o.extend_from_slice(&d.file_data);
        }
    }
    o
}
fn ref_enc_pdu(p: &PDU) -> Vec<u8> {
    let h = &p.header;
    let mut o = vec![
        ((h.version.clone() as u8) << 5)
            | ((h.pdu_type.clone() as u8) << 4)
            | ((h.direction.clone() as u8) << 3)
            | ((h.transmission_mode as u8) << 2)
            | ((h.crc_flag as u8) << 1)
            | h.large_file_flag as u8,
    ];
    o.extend_from_slice(&h.pdu_data_field_length.wrapping_add(crc_len(h) as u16).to_be_bytes());
    o.push(
        ((h.segmentation_control as u8) << 7)
            | ((idw(&h.source_entity_id) as u8 - 1) << 4)
            | ((h.segment_metadata_flag as u8) << 3)
            | (idw(&h.transaction_sequence_number) as u8 - 1),
    );
    o.extend(id_bytes(&h.source_entity_id));
    o.extend(id_bytes(&h.transaction_sequence_number));
    o.extend(id_bytes(&h.destination_entity_id));
    o.extend(ref_enc_payload(&p.payload, is_large(h)));
    if crc_len(h) == 2 {
        let c = ref_crc16(&o);
        o.extend_from_slice(&c.to_be_bytes());
    }
    o
}
fn put_widths(o: &mut Vec<u8>, src: &VariableID, seq: &VariableID) {
    o.push(((idw(src) as u8 - 1) << 4) | (idw(seq) as u8 - 1));
}
fn ref_enc_uo(u: &UserOperation) -> Vec<u8> {
    use UserOperation as U;
    let mut o = b"cfdp".to_vec();
    let with_len = |o: &mut Vec<u8>, b: Vec<u8>| {
        o.push(b.len() as u8);
        o.extend(b);
    };
    match u {
        U::OriginatingTransactionIDMessage(m) => {
            o.push(0x0a);
            put_widths(&mut o, &m.source_entity_id, &m.transaction_sequence_number);
            o.extend(id_bytes(&m.source_entity_id));
            o.extend(id_bytes(&m.transaction_sequence_number));
        }
        U::ProxyOperation(p) => match p {
            ProxyOperation::ProxyPutRequest(m) => {
                o.push(0x00);
                put_id_lv(&mut o, &m.destination_entity_id);
                put_lv(&mut o, m.source_filename.as_str().as_bytes());
                put_lv(&mut o, m.destination_filename.as_str().as_bytes());
            }
            ProxyOperation::ProxyMessageToUser(m) => {
                o.push(0x01);
                put_lv(&mut o, &m.message_text);
            }
            ProxyOperation::ProxyFileStoreRequest(q) => {
                o.push(0x02);
                with_len(&mut o, ref_enc_fsq(q));
            }
            ProxyOperation::ProxyFaultHandlerOverride(f) => {
                o.push(0x03);
                o.push(f.fault_handler_code.clone() as u8);
            }
            ProxyOperation::ProxyTransmissionMode(m) => {
                o.push(0x04);
                o.push(*m as u8);
            }
            ProxyOperation::ProxyFlowLabel(f) => {
                o.push(0x05);
                put_lv(&mut o, &f.value);
            }
            ProxyOperation::ProxySegmentationControl(c) => {
                o.push(0x06);
                o.push(c.verif_parts().0 as u8);
            }
            ProxyOperation::ProxyPutCancel => o.push(0x09),
        },
        U::Response(r) => match r {
            UserResponse::ProxyPut(m) => {
                o.push(0x07);
                o.push(((m.condition as u8) << 4) | ((m.delivery_code as u8) << 2) | m.file_status as u8);
            }
            UserResponse::ProxyFileStore(f) => {
                o.push(0x08);
                with_len(&mut o, ref_enc_fsr(f));
            }
            UserResponse::DirectoryListing(m) => {
                o.push(0x11);
                o.push(m.response_code.clone() as u8);
                put_lv(&mut o, m.directory_name.as_str().as_bytes());
                put_lv(&mut o, m.directory_filename.as_str().as_bytes());
            }
            UserResponse::RemoteStatusReport(m) => {
                o.push(0x21);
                o.push(((m.transaction_status as u8) << 6) | m.response_code as u8);
                put_widths(&mut o, &m.source_entity_id, &m.transaction_sequence_number);
                o.extend(id_bytes(&m.source_entity_id));
                o.extend(id_bytes(&m.transaction_sequence_number));
            }
            UserResponse::RemoteSuspend(m) => {
                o.push(0x31);
                o.push(((m.suspend_indication as u8) << 7) | ((m.transaction_status as u8) << 5));
                put_widths(&mut o, &m.source_entity_id, &m.transaction_sequence_number);
                o.extend(id_bytes(&m.source_entity_id));
                o.extend(id_bytes(&m.transaction_sequence_number));
            }
            UserResponse::RemoteResume(m) => {
                o.push(0x39);
                o.push(((m.suspend_indication as u8) << 7) | ((m.transaction_status as u8) << 5));
                put_widths(&mut o, &m.source_entity_id, &m.transaction_sequence_number);
                o.extend(id_bytes(&m.source_entity_id));
                o.extend(id_bytes(&m.transaction_sequence_number));
            }
        },
        U::Request(r) => match r {
            UserRequest::DirectoryListing(m) => {
                o.push(0x10);
                put_lv(&mut o, m.directory_name.as_str().as_bytes());
                put_lv(&mut o, m.directory_filename.as_str().as_bytes());
            }
            UserRequest::RemoteStatusReport(m) => {
                o.push(0x20);
                put_widths(&mut o, &m.source_entity_id, &m.transaction_sequence_number);
                o.extend(id_bytes(&m.source_entity_id));
                o.extend(id_bytes(&m.transaction_sequence_number));
                put_lv(&mut o, m.report_filename.as_str().as_bytes());
            }
            UserRequest::RemoteSuspend(m) => {
                o.push(0x30);
                put_widths(&mut o, &m.source_entity_id, &m.transaction_sequence_number);
                o.extend(id_bytes(&m.source_entity_id));
                o.extend(id_bytes(&m.transaction_sequence_number));
            }
            UserRequest::RemoteResume(m) => {
                o.push(0x38);
                put_widths(&mut o, &m.source_entity_id, &m.transaction_sequence_number);
                o.extend(id_bytes(&m.source_entity_id));
                o.extend(id_bytes(&m.transaction_sequence_number));
            }
        },
        U::SFORequest(m) => {
            let (trace, mode, segctl, closure, prior, label, src, dst, sname, dname) = m.verif_parts();
            o.push(0x40);
            o.push(((trace as u8) << 6) | ((mode as u8) << 5) | ((segctl as u8) << 4) | ((closure as u8) << 3));
            o.push(prior);
            put_lv(&mut o, &label);
            put_id_lv(&mut o, &src);
            put_id_lv(&mut o, &dst);
            put_lv(&mut o, sname.as_str().as_bytes());
            put_lv(&mut o, dname.as_str().as_bytes());
        }
        U::SFOMessageToUser(m) => {
            o.push(0x41);
            put_lv(&mut o, &m.message_text);
        }
        U::SFOFlowLabel(f) => {
            o.push(0x42);
            put_lv(&mut o, &f.value);
        }
        U::SFOFaultHandlerOverride(f) => {
            o.push(0x43);
            o.push(f.fault_handler_code.clone() as u8);
        }
        U::SFOFileStoreRequest(q) => {
            o.push(0x44);
            with_len(&mut o, ref_enc_fsq(q));
        }
        U::SFOReport(m) => {
            let (label, src, dst, rep, prior, code, cond, dir, deliv, fstat) = m.verif_parts();
            o.push(0x45);
            put_lv(&mut o, &label);
            put_id_lv(&mut o, &src);
            put_id_lv(&mut o, &dst);
            put_id_lv(&mut o, &rep);
            o.push(prior);
            o.push(code);
            o.push(((cond as u8) << 4) | ((dir as u8) << 3) | ((deliv as u8) << 2) | fstat as u8);
        }
        U::SFOFileStoreResponse(r) => {
            o.push(0x46);
            with_len(&mut o, ref_enc_fsr(r));
        }
    }
    o
}
fn ref_enc_report(r: &Report) -> Vec<u8> {
    let mut o = Vec::new();
    for i in [&r.id.0, &r.id.1] {
        o.push(idw(i) as u8 - 1);
        o.extend(id_bytes(i));
    }
    o.push(r.state as u8);
    o.push(r.status as u8);
    o.push(r.condition as u8);
    o
}

// ---------------------------------------------------------------------------------------------
// generator: building blocks
// ---------------------------------------------------------------------------------------------
const WIDTHS: [usize; 4] = [1, 2, 4, 8];
const U32MAX: u64 = (1u64 << 32) - 1;

struct G<'a> {
    w: &'a mut dyn Write,
    stats: &'a mut Stats,
    case_no: u64,
    in_case: usize,
    prefix: &'static str,
    kind: String,
}
impl<'a> G<'a> {
    fn stream(&mut self, prefix: &'static str, kind: &str) {
        self.prefix = prefix;
        self.kind = kind.to_string();
        self.in_case = 0;
    }
    fn op(&mut self, line: &str) {
        if self.in_case == 0 || self.in_case >= 25 {
            writeln!(self.w, "CASE {}{} {}", self.prefix, self.case_no, self.kind).unwrap();
            self.case_no += 1;
            self.in_case = 0;
            self.stats.inc("cases");
        }
        writeln!(self.w, "{line}").unwrap();
        self.in_case += 1;
        let opname = line.split(' ').next().unwrap();
        self.stats.inc(&format!("op_{opname}"));
        self.stats.inc(&format!("stream_{}", self.kind));
    }
    fn e(&mut self, p: &PDU) {
        self.stats.inc(&format!("E_payload_{}", payload_kind(&p.payload)));
        self.stats.inc(if wf_pdu(p) { "E_wellformed" } else { "E_not_wellformed" });
        self.op(&format!("E {}", sx_pdu(p).print()));
    }
    fn eu(&mut self, u: &UserOperation) {
        let s = sx_uo(u).print();
        let tag = s[1..].split(|c| c == ' ' || c == ')').next().unwrap().to_string();
        self.stats.inc(&format!("EU_{tag}"));
        self.stats.inc(if wf_uo(u) { "EU_wellformed" } else { "EU_not_wellformed" });
        self.op(&format!("EU {s}"));
    }
    fn er(&mut self, r: &Report) {
        self.op(&format!("ER {}", sx_report(r).print()));
    }
    fn d(&mut self, op: &str, bytes: &[u8]) {
        self.op(&format!("{op} {}", hex(bytes)));
    }
}
fn payload_kind(p: &PDUPayload) -> &'static str {
    match p {
        PDUPayload::Directive(Operations::EoF(_)) => "eof",
        PDUPayload::Directive(Operations::Finished(_)) => "fin",
        PDUPayload::Directive(Operations::Ack(_)) => "ack",
        PDUPayload::Directive(Operations::Metadata(_)) => "md",
        PDUPayload::Directive(Operations::Nak(_)) => "nak",
        PDUPayload::Directive(Operations::Prompt(_)) => "prompt",
        PDUPayload::Directive(Operations::KeepAlive(_)) => "ka",
        PDUPayload::FileData(FileDataPDU::Unsegmented(_)) => "fd",
        PDUPayload::FileData(FileDataPDU::Segmented(_)) => "sfd",
    }
}

fn id_w(w: usize, v: u64) -> VariableID {
    match w {
        1 => VariableID::U8(v as u8),
        2 => VariableID::U16(v as u16),
        4 => VariableID::U32(v as u32),
        _ => VariableID::U64(v),
    }
}
fn id_max(w: usize) -> VariableID {
    id_w(w, u64::MAX)
}
fn path(s: &str) -> Utf8PathBuf {
    Utf8PathBuf::from(s.to_string())
}

/// header parameters; pdu_type, segment metadata flag (for file data) and length are derived from the payload
#[derive(Clone)]
struct H {
    version: u8,
    dir: u8,
    mode: u8,
    crc: bool,
    large: bool,
    segctl: u8,
    segmeta: u8,
    src: VariableID,
    seq: VariableID,
    dst: VariableID,
}
fn simple_h(w: usize, large: bool, crc: bool) -> H {
    H {
        version: 1,
        dir: 0,
        mode: 0,
        crc,
        large,
        segctl: 0,
        segmeta: 0,
        src: id_w(w, 18),
        seq: id_w(w, 0x7533_1234_5678_9abc),
        dst: id_w(w, 23),
    }
}
fn build(h: &H, payload: PDUPayload) -> PDU {
    let (ptype, segmeta) = match &payload {
        PDUPayload::Directive(_) => (PDUType::FileDirective, h.segmeta),
        PDUPayload::FileData(FileDataPDU::Unsegmented(_)) => (PDUType::FileData, 0),
        PDUPayload::FileData(FileDataPDU::Segmented(_)) => (PDUType::FileData, 1),
    };
    let len = ref_payload_len(&payload, h.large);
    assert!(len + 2 <= 65535, "generator: payload too long");
    PDU {
        header: PDUHeader {
            version: u3_from(h.version),
            pdu_type: ptype,
            direction: dir_from(h.dir),
            transmission_mode: mode_from(h.mode),
            crc_flag: crc_from(h.crc as u8),
            large_file_flag: fsize_from(h.large as u8),
            pdu_data_field_length: len as u16,
            segmentation_control: segctl_from(h.segctl),
            segment_metadata_flag: segmeta_from(segmeta),
            source_entity_id: h.src,
            transaction_sequence_number: h.seq,
            destination_entity_id: h.dst,
        },
        payload,
    }
}
fn dirp(o: Operations) -> PDUPayload {
    PDUPayload::Directive(o)
}
fn fd(offset: u64, data: Vec<u8>) -> PDUPayload {
    PDUPayload::FileData(FileDataPDU::Unsegmented(UnsegmentedFileData { offset, file_data: data }))
}
fn sfd(state: RecordContinuationState, meta: Vec<u8>, offset: u64, data: Vec<u8>) -> PDUPayload {
    PDUPayload::FileData(FileDataPDU::Segmented(SegmentedFileData {
        record_continuation_state: state,
        segment_metadata: meta,
        offset,
        file_data: data,
    }))
}
fn fsr(status: FileStoreStatus, a1: &str, a2: &str, msg: &[u8]) -> FileStoreResponse {
    FileStoreResponse {
        action_and_status: status,
        first_filename: path(a1),
        second_filename: path(a2),
        filestore_message: msg.to_vec(),
    }
}
fn fsq(action: FileStoreAction, a1: &str, a2: &str) -> FileStoreRequest {
    FileStoreRequest { action_code: action, first_filename: path(a1), second_filename: path(a2) }
}
fn all_tlvs(w_cycle: usize) -> Vec<MetadataTLV> {
    let mut v = Vec::new();
    for (i, act) in ACTIONS.iter().enumerate() {
        v.push(MetadataTLV::FileStoreRequest(fsq(act.clone(), "a/b.txt", if i % 2 == 0 { "" } else { "c" })));
    }
    for (i, st) in FS_STATUSES.iter().enumerate() {
        v.push(MetadataTLV::FileStoreResponse(fsr(*st, "f1", if i % 2 == 0 { "" } else { "dir/f2" }, if i % 3 == 0 { b"" } else { b"ok!" })));
    }
    v.push(MetadataTLV::MessageToUser(MessageToUser { message_text: b"hello user".to_vec() }));
    for hc in HANDLERS {
        v.push(MetadataTLV::FaultHandlerOverride(FaultHandlerOverride { fault_handler_code: hc.clone() }));
    }
    v.push(MetadataTLV::FlowLabel(FlowLabel { value: vec![1, 2, 3] }));
    for w in WIDTHS {
        v.push(MetadataTLV::EntityID(if (w + w_cycle) % 2 == 0 { id_max(w) } else { id_w(w, 5) }));
    }
    v
}
fn md(closure: bool, ck: ChecksumType, size: u64, s: &str, d: &str, options: Vec<MetadataTLV>) -> PDUPayload {
    dirp(Operations::Metadata(MetadataPDU {
        closure_requested: closure,
        checksum_type: ck,
        file_size: size,
        source_filename: path(s),
        destination_filename: path(d),
        options,
    }))
}
/// E-exhaustive (ii): every enum value of every payload kind; numeric values fit both file size flags
fn exh_payloads(w: usize) -> Vec<PDUPayload> {
    let mut v = Vec::new();
    for (i, c) in CONDITIONS.iter().enumerate() {
        v.push(dirp(Operations::EoF(EndOfFile {
            condition: *c,
            checksum: 0xdead_0000 + i as u32,
            file_size: 1000 + i as u64,
            fault_location: if *c == Condition::NoError { None } else { Some(id_w(w, 200 + i as u64)) },
        })));
    }
    let mut i = 0usize;
    for c in CONDITIONS {
        for dc in DELIVERIES {
            for fs in FILE_STATUSES {
                let resp: Vec<FileStoreResponse> = (0..i % 3)
                    .map(|j| fsr(FS_STATUSES[(i + 7 * j) % FS_STATUSES.len()], "x/y", if j == 0 { "" } else { "z" }, b"m"))
                    .collect();
                let fault = if *c == Condition::NoError || i % 4 == 3 { None } else { Some(id_w(w, 77 + i as u64)) };
                v.push(dirp(Operations::Finished(Finished {
                    condition: *c,
                    delivery_code: *dc,
                    file_status: *fs,
                    filestore_response: resp,
                    fault_location: fault,
                })));
                i += 1;
            }
        }
    }
    for (d, s) in [(PDUDirective::EoF, ACKSubDirective::Other), (PDUDirective::Finished, ACKSubDirective::Finished)] {
        for c in CONDITIONS {
            for ts in TX_STATUSES {
                v.push(dirp(Operations::Ack(PositiveAcknowledgePDU {
                    directive: d.clone(),
                    directive_subtype_code: s.clone(),
                    condition: *c,
                    transaction_status: *ts,
                })));
            }
        }
    }
    for closure in [false, true] {
        for ck in CHECKSUMS {
            for t in all_tlvs(w) {
                v.push(md(closure, *ck, 4242, "src/file", "dst/file", vec![t]));
            }
            let tl = all_tlvs(w);
            // one of each kind together
            let pick = vec![tl[2].clone(), tl[9 + 8].clone(), tl[44].clone(), tl[46].clone(), tl[49].clone(), tl[50 + (w.trailing_zeros() as usize)].clone()];
            v.push(md(closure, *ck, 0, "", "", pick));
            v.push(md(closure, *ck, U32MAX, "s", "d", vec![]));
        }
    }
    for n in 0..4u64 {
        v.push(dirp(Operations::Nak(NegativeAcknowledgmentPDU {
            start_of_scope: n,
            end_of_scope: 5000 + n,
            segment_requests: (0..n).map(|j| SegmentRequestForm { start_offset: 100 * j, end_offset: 100 * j + 50 }).collect(),
        })));
    }
    for p in PROMPTS {
        v.push(dirp(Operations::Prompt(PromptPDU { nak_or_keep_alive: *p })));
    }
    v.push(dirp(Operations::KeepAlive(KeepAlivePDU { progress: 184 })));
    v.push(fd(948, (0..12).collect()));
    for st in RCSTATES {
        v.push(sfd(st.clone(), (0..5).collect(), 757, vec![33, 40, 47]));
    }
    v
}
/// small payloads (encodings < 80 bytes) for the mutation corpus
fn corpus_payloads() -> Vec<PDUPayload> {
    let tl = all_tlvs(0);
    vec![
        dirp(Operations::EoF(EndOfFile { condition: Condition::NoError, checksum: 0x01020304, file_size: 300, fault_location: None })),
        dirp(Operations::EoF(EndOfFile { condition: Condition::FileChecksumFailure, checksum: 7, file_size: 9, fault_location: Some(id_w(2, 515)) })),
        dirp(Operations::Finished(Finished {
            condition: Condition::NoError,
            delivery_code: DeliveryCode::Complete,
            file_status: FileStatusCode::Retained,
            filestore_response: vec![fsr(FS_STATUSES[0], "ab", "", b"ok"), fsr(FS_STATUSES[8], "c", "d", b"")],
            fault_location: None,
        })),
        dirp(Operations::Finished(Finished {
            condition: Condition::InactivityDetected,
            delivery_code: DeliveryCode::Incomplete,
            file_status: FileStatusCode::Discarded,
            filestore_response: vec![fsr(FS_STATUSES[5], "q", "", b"")],
            fault_location: Some(id_w(1, 9)),
        })),
        dirp(Operations::Ack(PositiveAcknowledgePDU {
            directive: PDUDirective::EoF,
            directive_subtype_code: ACKSubDirective::Other,
            condition: Condition::NoError,
            transaction_status: TransactionStatus::Active,
        })),
        dirp(Operations::Ack(PositiveAcknowledgePDU {
            directive: PDUDirective::Finished,
            directive_subtype_code: ACKSubDirective::Finished,
            condition: Condition::CancelReceived,
            transaction_status: TransactionStatus::Terminated,
        })),
        md(true, ChecksumType::Modular, 1234, "in", "out", vec![]),
        md(false, ChecksumType::Null, 5, "a", "b", vec![tl[2].clone(), tl[12].clone(), tl[44].clone(), tl[46].clone(), tl[49].clone(), tl[51].clone()]),
        dirp(Operations::Nak(NegativeAcknowledgmentPDU { start_of_scope: 0, end_of_scope: 77, segment_requests: vec![] })),
        dirp(Operations::Nak(NegativeAcknowledgmentPDU {
            start_of_scope: 3,
            end_of_scope: 1000,
            segment_requests: vec![SegmentRequestForm { start_offset: 3, end_offset: 10 }, SegmentRequestForm { start_offset: 500, end_offset: 1000 }],
        })),
        dirp(Operations::Prompt(PromptPDU { nak_or_keep_alive: NakOrKeepAlive::KeepAlive })),
        dirp(Operations::KeepAlive(KeepAlivePDU { progress: 65536 })),
        fd(16, b"some data".to_vec()),
        sfd(RecordContinuationState::First, vec![9, 8, 7], 32, b"rec".to_vec()),
        md(false, ChecksumType::Modular, 1, "s", "d", vec![tl[3].clone()]),
        md(false, ChecksumType::Modular, 2, "s", "d", vec![tl[20].clone()]),
        md(true, ChecksumType::Null, 3, "s", "d", vec![tl[44].clone()]),
        md(false, ChecksumType::Modular, 4, "s", "d", vec![tl[45].clone()]),
        md(false, ChecksumType::Modular, 5, "s", "d", vec![tl[49].clone()]),
        md(false, ChecksumType::Modular, 6, "s", "d", vec![tl[53].clone(), tl[50].clone()]),
    ]
}

// ---- random values ----
fn rnd_lv_len(r: &mut Rng) -> usize {
    if r.chance(1, 2) {
        *r.pick(&[0usize, 1, 255])
    } else {
        r.below(41) as usize
    }
}
const ASCII_NAME: &[char] = &[
    'a', 'b', 'c', 'x', 'y', 'z', 'A', 'Z', '0', '1', '9', '/', '/', '.', '.', '_', '-', ' ', '~', ':', '\\',
];
const MULTI_NAME: &[char] = &['é', 'ü', 'ß', '€', '日', '本', '😀', '\u{7ff}', '\u{800}', '\u{ffff}', '\u{10000}'];
/// valid UTF-8 of exactly `n` bytes
fn rnd_name(r: &mut Rng, n: usize) -> Utf8PathBuf {
    let mut s = String::with_capacity(n);
    while s.len() < n {
        let c = if r.chance(1, 6) { *r.pick(MULTI_NAME) } else { *r.pick(ASCII_NAME) };
        if s.len() + c.len_utf8() <= n {
            s.push(c);
        }
    }
    Utf8PathBuf::from(s)
}
fn rnd_num(r: &mut Rng, large: bool) -> u64 {
    if r.chance(1, 3) {
        if large {
            *r.pick(&[0, 1, U32MAX, U32MAX + 1, u64::MAX])
        } else {
            *r.pick(&[0, 1, U32MAX])
        }
    } else if large {
        if r.chance(1, 2) {
            r.next()
        } else {
            r.below(1 << 34)
        }
    } else {
        r.below(1 << 32)
    }
}
fn rnd_idv(r: &mut Rng, w: usize) -> VariableID {
    if r.chance(1, 3) {
        match r.below(3) {
            0 => id_w(w, 0),
            1 => id_w(w, 1),
            _ => id_max(w),
        }
    } else {
        id_w(w, r.next())
    }
}
fn rnd_width(r: &mut Rng) -> usize {
    *r.pick(&WIDTHS)
}
fn rnd_h(r: &mut Rng) -> H {
    let ew = rnd_width(r);
    let sw = rnd_width(r);
    H {
        version: r.below(8) as u8,
        dir: r.below(2) as u8,
        mode: r.below(2) as u8,
        crc: r.chance(1, 2),
        large: r.chance(1, 2),
        segctl: r.below(2) as u8,
        segmeta: r.below(2) as u8,
        src: rnd_idv(r, ew),
        seq: rnd_idv(r, sw),
        dst: rnd_idv(r, ew),
    }
}
fn rnd_fsq(r: &mut Rng) -> FileStoreRequest {
    let (n1, n2) = (rnd_lv_len(r), rnd_lv_len(r));
    FileStoreRequest { action_code: r.pick(ACTIONS).clone(), first_filename: rnd_name(r, n1), second_filename: rnd_name(r, n2) }
}
/// `budget`: maximal sum of the three LV lengths (251 inside a Finished PDU, so that the response is a TLV value)
fn rnd_fsr(r: &mut Rng, budget: Option<usize>) -> FileStoreResponse {
    let (mut n1, mut n2, mut n3) = (rnd_lv_len(r), rnd_lv_len(r), rnd_lv_len(r));
    if let Some(b) = budget {
        n1 = n1.min(b);
        n2 = n2.min(b - n1);
        n3 = n3.min(b - n1 - n2);
    }
    FileStoreResponse {
        action_and_status: *r.pick(FS_STATUSES),
        first_filename: rnd_name(r, n1),
        second_filename: rnd_name(r, n2),
        filestore_message: r.bytes(n3),
    }
}
fn rnd_tlv(r: &mut Rng) -> MetadataTLV {
    match r.below(6) {
        0 => MetadataTLV::FileStoreRequest(rnd_fsq(r)),
        1 => MetadataTLV::FileStoreResponse(rnd_fsr(r, None)),
        2 => {
            let n = rnd_lv_len(r);
            MetadataTLV::MessageToUser(MessageToUser { message_text: r.bytes(n) })
        }
        3 => MetadataTLV::FaultHandlerOverride(FaultHandlerOverride { fault_handler_code: r.pick(HANDLERS).clone() }),
        4 => {
            let n = rnd_lv_len(r);
            MetadataTLV::FlowLabel(FlowLabel { value: r.bytes(n) })
        }
        _ => {
            let w = rnd_width(r);
            MetadataTLV::EntityID(rnd_idv(r, w))
        }
    }
}
fn rnd_data_len(r: &mut Rng) -> usize {
    if r.chance(1, 3) {
        *r.pick(&[0usize, 1, 2, 255, 256])
    } else {
        r.below(301) as usize
    }
}
fn rnd_meta_len(r: &mut Rng) -> usize {
    if r.chance(1, 3) {
        *r.pick(&[0usize, 1, 63])
    } else {
        r.below(64) as usize
    }
}
/// random well-formed payload of the given kind (0..9)
fn rnd_payload(r: &mut Rng, kind: u64, large: bool) -> PDUPayload {
    match kind {
        0 => {
            let c = *r.pick(CONDITIONS);
            let w = rnd_width(r);
            dirp(Operations::EoF(EndOfFile {
                condition: c,
                checksum: if r.chance(1, 3) { *r.pick(&[0u32, 1, u32::MAX]) } else { r.next() as u32 },
                file_size: rnd_num(r, large),
                fault_location: if c == Condition::NoError { None } else { Some(rnd_idv(r, w)) },
            }))
        }
        1 => {
            let c = *r.pick(CONDITIONS);
            let w = rnd_width(r);
            let n = r.below(4);
            dirp(Operations::Finished(Finished {
                condition: c,
                delivery_code: *r.pick(DELIVERIES),
                file_status: *r.pick(FILE_STATUSES),
                filestore_response: (0..n).map(|_| rnd_fsr(r, Some(251))).collect(),
                fault_location: if c == Condition::NoError || r.chance(1, 4) { None } else { Some(rnd_idv(r, w)) },
            }))
        }
        2 => {
            let (d, s) = if r.chance(1, 2) {
                (PDUDirective::EoF, ACKSubDirective::Other)
            } else {
                (PDUDirective::Finished, ACKSubDirective::Finished)
            };
            dirp(Operations::Ack(PositiveAcknowledgePDU {
                directive: d,
                directive_subtype_code: s,
                condition: *r.pick(CONDITIONS),
                transaction_status: *r.pick(TX_STATUSES),
            }))
        }
        3 => {
            let (n1, n2) = (rnd_lv_len(r), rnd_lv_len(r));
            let nt = r.below(5);
            dirp(Operations::Metadata(MetadataPDU {
                closure_requested: r.chance(1, 2),
                checksum_type: *r.pick(CHECKSUMS),
                file_size: rnd_num(r, large),
                source_filename: rnd_name(r, n1),
                destination_filename: rnd_name(r, n2),
                options: (0..nt).map(|_| rnd_tlv(r)).collect(),
            }))
        }
        4 => {
            let n = if r.chance(1, 10) { r.below(40) } else { r.below(4) };
            dirp(Operations::Nak(NegativeAcknowledgmentPDU {
                start_of_scope: rnd_num(r, large),
                end_of_scope: rnd_num(r, large),
                segment_requests: (0..n)
                    .map(|_| SegmentRequestForm { start_offset: rnd_num(r, large), end_offset: rnd_num(r, large) })
                    .collect(),
            }))
        }
        5 => dirp(Operations::Prompt(PromptPDU { nak_or_keep_alive: *r.pick(PROMPTS) })),
        6 => dirp(Operations::KeepAlive(KeepAlivePDU { progress: rnd_num(r, large) })),
        7 => {
            let n = rnd_data_len(r);
            fd(rnd_num(r, large), r.bytes(n))
        }
        _ => {
            let (m, n) = (rnd_meta_len(r), rnd_data_len(r));
            sfd(r.pick(RCSTATES).clone(), r.bytes(m), rnd_num(r, large), r.bytes(n))
        }
    }
}
fn rnd_pdu(r: &mut Rng) -> PDU {
    let h = rnd_h(r);
    let kind = r.below(9);
    let p = rnd_payload(r, kind, h.large);
    build(&h, p)
}

/// a PDU outside the well-formedness predicate (exercises truncation / inconsistent headers)
fn rnd_nonwf(r: &mut Rng) -> (PDU, &'static str) {
    let mut h = rnd_h(r);
    match r.below(10) {
        0 => {
            // an LV of 256..300 bytes
            let n = 256 + r.below(45) as usize;
            let p = match r.below(5) {
                0 => md(true, ChecksumType::Modular, 10, rnd_name(r, n).as_str(), "d", vec![]),
                1 => md(false, ChecksumType::Null, 10, "s", rnd_name(r, n).as_str(), vec![]),
                2 => md(false, ChecksumType::Modular, 1, "s", "d", vec![MetadataTLV::MessageToUser(MessageToUser { message_text: r.bytes(n) })]),
                3 => md(false, ChecksumType::Modular, 1, "s", "d", vec![
                    MetadataTLV::FlowLabel(FlowLabel { value: r.bytes(n) }),
                    MetadataTLV::FileStoreRequest(FileStoreRequest { action_code: FileStoreAction::RenameFile, first_filename: rnd_name(r, n), second_filename: path("b") }),
                ]),
                _ => dirp(Operations::Finished(Finished {
                    condition: Condition::NoError,
                    delivery_code: DeliveryCode::Complete,
                    file_status: FileStatusCode::Retained,
                    filestore_response: vec![FileStoreResponse {
                        action_and_status: *r.pick(FS_STATUSES),
                        first_filename: rnd_name(r, 3),
                        second_filename: path(""),
                        filestore_message: r.bytes(n),
                    }],
                    fault_location: None,
                })),
            };
            (build(&h, p), "lv_over_255")
        }
        1 => {
            let m = 64 + r.below(7) as usize;
            let n = r.below(20) as usize;
            let p = sfd(r.pick(RCSTATES).clone(), r.bytes(m), rnd_num(r, h.large), r.bytes(n));
            (build(&h, p), "segment_metadata_over_63")
        }
        2 => {
            h.large = false;
            let big = if r.chance(1, 2) { *r.pick(&[U32MAX + 1, U32MAX + 2, u64::MAX, 1u64 << 63]) } else { (1u64 << 32) + r.below(1 << 40) };
            let p = match r.below(6) {
                0 => dirp(Operations::EoF(EndOfFile { condition: Condition::NoError, checksum: 1, file_size: big, fault_location: None })),
                1 => fd(big, r.bytes(5)),
                2 => sfd(RecordContinuationState::Last, r.bytes(2), big, r.bytes(5)),
                3 => dirp(Operations::Nak(NegativeAcknowledgmentPDU {
                    start_of_scope: if r.chance(1, 2) { big } else { 0 },
                    end_of_scope: big,
                    segment_requests: vec![SegmentRequestForm { start_offset: 1, end_offset: big }],
                })),
                4 => dirp(Operations::KeepAlive(KeepAlivePDU { progress: big })),
                _ => md(false, ChecksumType::Modular, big, "s", "d", vec![]),
            };
            (build(&h, p), "small_flag_value_over_u32")
        }
        3 => {
            let w = rnd_width(r);
            let c = *r.pick(CONDITIONS);
            let fault = if c == Condition::NoError { Some(rnd_idv(r, w)) } else { None };
            let p = dirp(Operations::EoF(EndOfFile { condition: c, checksum: r.next() as u32, file_size: r.below(1 << 32), fault_location: fault }));
            (build(&h, p), "eof_fault_location_mismatch")
        }
        4 => {
            let ew = idw(&h.src);
            let other = *r.pick(&WIDTHS.iter().cloned().filter(|w| *w != ew).collect::<Vec<_>>());
            h.dst = rnd_idv(r, other);
            let kind = r.below(9);
            let p = rnd_payload(r, kind, h.large);
            (build(&h, p), "entity_id_width_mismatch")
        }
        5 => {
            let kind = r.below(9);
            let p = rnd_payload(r, kind, h.large);
            let mut pdu = build(&h, p);
            let l = pdu.header.pdu_data_field_length;
            pdu.header.pdu_data_field_length = match r.below(3) {
                0 => l + 1,
                1 => l - 1,
                _ => 0,
            };
            (pdu, "length_field_off")
        }
        6 => {
            let kind = r.below(9);
            let p = rnd_payload(r, kind, h.large);
            let mut pdu = build(&h, p);
            pdu.header.pdu_type = if pdu.header.pdu_type == PDUType::FileData { PDUType::FileDirective } else { PDUType::FileData };
            (pdu, "pdu_type_mismatch")
        }
        7 => {
            let w = rnd_width(r);
            let p = dirp(Operations::Finished(Finished {
                condition: Condition::NoError,
                delivery_code: *r.pick(DELIVERIES),
                file_status: *r.pick(FILE_STATUSES),
                filestore_response: (0..r.below(2)).map(|_| rnd_fsr(r, Some(251))).collect(),
                fault_location: Some(rnd_idv(r, w)),
            }));
            (build(&h, p), "finished_noerror_fault_location")
        }
        8 => {
            let (d, s) = loop {
                let d = r.pick(DIRECTIVES).clone();
                let s = r.pick(SUBDIRS).clone();
                let valid = matches!((&d, &s), (PDUDirective::EoF, ACKSubDirective::Other) | (PDUDirective::Finished, ACKSubDirective::Finished));
                if !valid {
                    break (d, s);
                }
            };
            let p = dirp(Operations::Ack(PositiveAcknowledgePDU {
                directive: d,
                directive_subtype_code: s,
                condition: *r.pick(CONDITIONS),
                transaction_status: *r.pick(TX_STATUSES),
            }));
            (build(&h, p), "ack_directive_pair")
        }
        _ => {
            let kind = 7 + r.below(2);
            let p = rnd_payload(r, kind, h.large);
            let mut pdu = build(&h, p);
            pdu.header.segment_metadata_flag =
                if pdu.header.segment_metadata_flag == SegmentedData::Present { SegmentedData::NotPresent } else { SegmentedData::Present };
            (pdu, "segment_metadata_flag_mismatch")
        }
    }
}

// ---- user operations ----
fn uo_px(o: ProxyOperation) -> UserOperation {
    UserOperation::ProxyOperation(o)
}
fn uo_rs(o: UserResponse) -> UserOperation {
    UserOperation::Response(o)
}
fn uo_rq(o: UserRequest) -> UserOperation {
    UserOperation::Request(o)
}
fn name_of_len(n: usize, salt: usize) -> Utf8PathBuf {
    // deterministic valid UTF-8 of exactly n bytes, a multi-byte character when it fits
    let mut s = String::new();
    if n >= 3 && salt % 2 == 1 {
        s.push('€');
    }
    while s.len() < n {
        s.push(if s.len() % 7 == 3 { '/' } else { (b'a' + ((s.len() + salt) % 26) as u8) as char });
    }
    Utf8PathBuf::from(s)
}
fn bytes_of_len(n: usize, salt: usize) -> Vec<u8> {
    (0..n).map(|i| (i * 37 + salt * 11) as u8).collect()
}
fn bid(w: usize, k: usize) -> VariableID {
    // boundary-ish id values, cycling
    match k % 3 {
        0 => id_max(w),
        1 => id_w(w, 1),
        _ => id_w(w, 0x0123_4567_89ab_cdef),
    }
}
const LVS: [usize; 3] = [0, 1, 255];
fn exh_uos() -> Vec<UserOperation> {
    let mut v = Vec::new();
    let mut k = 0usize;
    for w1 in WIDTHS {
        for w2 in WIDTHS {
            k += 1;
            let (a1, a2) = (bid(w1, k), bid(w2, k + 1));
            v.push(UserOperation::OriginatingTransactionIDMessage(OriginatingTransactionIDMessage { source_entity_id: a1, transaction_sequence_number: a2 }));
            v.push(uo_rq(UserRequest::RemoteSuspend(RemoteSuspendRequest { source_entity_id: a1, transaction_sequence_number: a2 })));
            v.push(uo_rq(UserRequest::RemoteResume(RemoteResumeRequest { source_entity_id: a1, transaction_sequence_number: a2 })));
            for n in LVS {
                v.push(uo_rq(UserRequest::RemoteStatusReport(RemoteStatusReportRequest {
                    source_entity_id: a1,
                    transaction_sequence_number: a2,
                    report_filename: name_of_len(n, k),
                })));
            }
            for ts in TX_STATUSES {
                for b in [false, true] {
                    v.push(uo_rs(UserResponse::RemoteStatusReport(RemoteStatusReportResponse {
                        transaction_status: *ts,
                        response_code: b,
                        source_entity_id: a1,
                        transaction_sequence_number: a2,
                    })));
                    v.push(uo_rs(UserResponse::RemoteSuspend(RemoteSuspendResponse {
                        suspend_indication: b,
                        transaction_status: *ts,
                        source_entity_id: a1,
                        transaction_sequence_number: a2,
                    })));
                    v.push(uo_rs(UserResponse::RemoteResume(RemoteResumeResponse {
                        suspend_indication: b,
                        transaction_status: *ts,
                        source_entity_id: a1,
                        transaction_sequence_number: a2,
                    })));
                }
            }
            // SFO request: every flag combination for every width pair, LV lengths cycling
            let mut j = 0usize;
            for tr in TRACES {
                for m in MODES {
                    for sc in SEGCTLS {
                        for cl in [false, true] {
                            j += 1;
                            v.push(UserOperation::SFORequest(SFORequest::verif_new(
                                tr.clone(),
                                *m,
                                *sc,
                                cl,
                                [0u8, 1, 255][j % 3],
                                bytes_of_len(LVS[j % 3], j),
                                a1,
                                a2,
                                name_of_len(LVS[(j / 3) % 3], j),
                                name_of_len(LVS[(j / 9) % 3], j + 1),
                            )));
                        }
                    }
                }
            }
        }
    }
    for w in WIDTHS {
        for n1 in LVS {
            for n2 in LVS {
                v.push(uo_px(ProxyOperation::ProxyPutRequest(ProxyPutRequest {
                    destination_entity_id: bid(w, n1 + n2),
                    source_filename: name_of_len(n1, 1),
                    destination_filename: name_of_len(n2, 2),
                })));
            }
        }
    }
    for n in LVS {
        v.push(uo_px(ProxyOperation::ProxyMessageToUser(MessageToUser { message_text: bytes_of_len(n, 1) })));
        v.push(uo_px(ProxyOperation::ProxyFlowLabel(FlowLabel { value: bytes_of_len(n, 2) })));
        v.push(UserOperation::SFOMessageToUser(MessageToUser { message_text: bytes_of_len(n, 3) }));
        v.push(UserOperation::SFOFlowLabel(FlowLabel { value: bytes_of_len(n, 4) }));
        for n2 in LVS {
            v.push(uo_rq(UserRequest::DirectoryListing(DirectoryListingRequest { directory_name: name_of_len(n, 0), directory_filename: name_of_len(n2, 1) })));
            for c in LISTINGS {
                v.push(uo_rs(UserResponse::DirectoryListing(DirectoryListingResponse {
                    response_code: c.clone(),
                    directory_name: name_of_len(n, 1),
                    directory_filename: name_of_len(n2, 0),
                })));
            }
        }
        for (i, act) in ACTIONS.iter().enumerate() {
            let q = FileStoreRequest { action_code: act.clone(), first_filename: name_of_len(n, i), second_filename: name_of_len(LVS[i % 3], i + 1) };
            v.push(uo_px(ProxyOperation::ProxyFileStoreRequest(q.clone())));
            v.push(UserOperation::SFOFileStoreRequest(q));
        }
        for (i, st) in FS_STATUSES.iter().enumerate() {
            let f = FileStoreResponse {
                action_and_status: *st,
                first_filename: name_of_len(n, i),
                second_filename: name_of_len(LVS[i % 3], i + 1),
                filestore_message: bytes_of_len(LVS[(i / 3) % 3], i),
            };
            v.push(uo_rs(UserResponse::ProxyFileStore(f.clone())));
            v.push(UserOperation::SFOFileStoreResponse(f));
        }
    }
    for hc in HANDLERS {
        v.push(uo_px(ProxyOperation::ProxyFaultHandlerOverride(FaultHandlerOverride { fault_handler_code: hc.clone() })));
        v.push(UserOperation::SFOFaultHandlerOverride(FaultHandlerOverride { fault_handler_code: hc.clone() }));
    }
    for m in MODES {
        v.push(uo_px(ProxyOperation::ProxyTransmissionMode(*m)));
    }
    for sc in SEGCTLS {
        v.push(uo_px(ProxyOperation::ProxySegmentationControl(ProxySegmentationControl::verif_new(*sc))));
    }
    v.push(uo_px(ProxyOperation::ProxyPutCancel));
    for c in CONDITIONS {
        for dc in DELIVERIES {
            for fs in FILE_STATUSES {
                v.push(uo_rs(UserResponse::ProxyPut(ProxyPutResponse { condition: *c, delivery_code: *dc, file_status: *fs })));
            }
        }
    }
    // SFO report: every enum combination (widths cycling over the 64 triples) and every width triple
    let mut j = 0usize;
    for c in CONDITIONS {
        for d in DIRECTIONS {
            for dc in DELIVERIES {
                for fs in FILE_STATUSES {
                    let (w1, w2, w3) = (WIDTHS[j % 4], WIDTHS[(j / 4) % 4], WIDTHS[(j / 16) % 4]);
                    v.push(UserOperation::SFOReport(SFOReport::verif_new(
                        bytes_of_len(LVS[j % 3], j),
                        bid(w1, j),
                        bid(w2, j + 1),
                        bid(w3, j + 2),
                        [0u8, 1, 255][(j / 3) % 3],
                        [255u8, 0, 2][(j / 3) % 3],
                        *c,
                        d.clone(),
                        *dc,
                        *fs,
                    )));
                    j += 1;
                }
            }
        }
    }
    v
}
fn rnd_uo(r: &mut Rng, allow_nonwf: bool) -> UserOperation {
    let over = allow_nonwf && r.chance(1, 30);
    let lv = |r: &mut Rng| if over && r.chance(1, 2) { 256 + r.below(45) as usize } else { rnd_lv_len(r) };
    let (w1, w2, w3) = (rnd_width(r), rnd_width(r), rnd_width(r));
    let (a1, a2, a3) = (rnd_idv(r, w1), rnd_idv(r, w2), rnd_idv(r, w3));
    match r.below(27) {
        0 => UserOperation::OriginatingTransactionIDMessage(OriginatingTransactionIDMessage { source_entity_id: a1, transaction_sequence_number: a2 }),
        1 => {
            let (n1, n2) = (lv(r), lv(r));
            uo_px(ProxyOperation::ProxyPutRequest(ProxyPutRequest { destination_entity_id: a1, source_filename: rnd_name(r, n1), destination_filename: rnd_name(r, n2) }))
        }
        2 => {
            let n = lv(r);
            uo_px(ProxyOperation::ProxyMessageToUser(MessageToUser { message_text: r.bytes(n) }))
        }
        3 => {
            let (n1, n2) = (lv(r), lv(r));
            uo_px(ProxyOperation::ProxyFileStoreRequest(FileStoreRequest { action_code: r.pick(ACTIONS).clone(), first_filename: rnd_name(r, n1), second_filename: rnd_name(r, n2) }))
        }
        4 => uo_px(ProxyOperation::ProxyFaultHandlerOverride(FaultHandlerOverride { fault_handler_code: r.pick(HANDLERS).clone() })),
        5 => uo_px(ProxyOperation::ProxyTransmissionMode(*r.pick(MODES))),
        6 => {
            let n = lv(r);
            uo_px(ProxyOperation::ProxyFlowLabel(FlowLabel { value: r.bytes(n) }))
        }
        7 => uo_px(ProxyOperation::ProxySegmentationControl(ProxySegmentationControl::verif_new(*r.pick(SEGCTLS)))),
        8 => uo_px(ProxyOperation::ProxyPutCancel),
        9 => uo_rs(UserResponse::ProxyPut(ProxyPutResponse { condition: *r.pick(CONDITIONS), delivery_code: *r.pick(DELIVERIES), file_status: *r.pick(FILE_STATUSES) })),
        10 => {
            let (n1, n2, n3) = (lv(r), lv(r), lv(r));
            uo_rs(UserResponse::ProxyFileStore(FileStoreResponse { action_and_status: *r.pick(FS_STATUSES), first_filename: rnd_name(r, n1), second_filename: rnd_name(r, n2), filestore_message: r.bytes(n3) }))
        }
        11 => {
            let (n1, n2) = (lv(r), lv(r));
            uo_rs(UserResponse::DirectoryListing(DirectoryListingResponse { response_code: r.pick(LISTINGS).clone(), directory_name: rnd_name(r, n1), directory_filename: rnd_name(r, n2) }))
        }
        12 => uo_rs(UserResponse::RemoteStatusReport(RemoteStatusReportResponse { transaction_status: *r.pick(TX_STATUSES), response_code: r.chance(1, 2), source_entity_id: a1, transaction_sequence_number: a2 })),
        13 => uo_rs(UserResponse::RemoteSuspend(RemoteSuspendResponse { suspend_indication: r.chance(1, 2), transaction_status: *r.pick(TX_STATUSES), source_entity_id: a1, transaction_sequence_number: a2 })),
        14 => uo_rs(UserResponse::RemoteResume(RemoteResumeResponse { suspend_indication: r.chance(1, 2), transaction_status: *r.pick(TX_STATUSES), source_entity_id: a1, transaction_sequence_number: a2 })),
        15 => {
            let (n1, n2) = (lv(r), lv(r));
            uo_rq(UserRequest::DirectoryListing(DirectoryListingRequest { directory_name: rnd_name(r, n1), directory_filename: rnd_name(r, n2) }))
        }
        16 => {
            let n = lv(r);
            uo_rq(UserRequest::RemoteStatusReport(RemoteStatusReportRequest { source_entity_id: a1, transaction_sequence_number: a2, report_filename: rnd_name(r, n) }))
        }
        17 => uo_rq(UserRequest::RemoteSuspend(RemoteSuspendRequest { source_entity_id: a1, transaction_sequence_number: a2 })),
        18 => uo_rq(UserRequest::RemoteResume(RemoteResumeRequest { source_entity_id: a1, transaction_sequence_number: a2 })),
        19 => {
            let (n0, n1, n2) = (lv(r), lv(r), lv(r));
            UserOperation::SFORequest(SFORequest::verif_new(
                r.pick(TRACES).clone(),
                *r.pick(MODES),
                *r.pick(SEGCTLS),
                r.chance(1, 2),
                r.next() as u8,
                r.bytes(n0),
                a1,
                a2,
                rnd_name(r, n1),
                rnd_name(r, n2),
            ))
        }
        20 => {
            let n = lv(r);
            UserOperation::SFOMessageToUser(MessageToUser { message_text: r.bytes(n) })
        }
        21 => {
            let n = lv(r);
            UserOperation::SFOFlowLabel(FlowLabel { value: r.bytes(n) })
        }
        22 => UserOperation::SFOFaultHandlerOverride(FaultHandlerOverride { fault_handler_code: r.pick(HANDLERS).clone() }),
        23 => {
            let (n1, n2) = (lv(r), lv(r));
            UserOperation::SFOFileStoreRequest(FileStoreRequest { action_code: r.pick(ACTIONS).clone(), first_filename: rnd_name(r, n1), second_filename: rnd_name(r, n2) })
        }
        24 => {
            let (n1, n2, n3) = (lv(r), lv(r), lv(r));
            UserOperation::SFOFileStoreResponse(FileStoreResponse { action_and_status: *r.pick(FS_STATUSES), first_filename: rnd_name(r, n1), second_filename: rnd_name(r, n2), filestore_message: r.bytes(n3) })
        }
        _ => {
            let n = lv(r);
            UserOperation::SFOReport(SFOReport::verif_new(
                r.bytes(n),
                a1,
                a2,
                a3,
                r.next() as u8,
                r.next() as u8,
                *r.pick(CONDITIONS),
                r.pick(DIRECTIONS).clone(),
                *r.pick(DELIVERIES),
                *r.pick(FILE_STATUSES),
            ))
        }
    }
}
/// one small encoding per user-operation variant (mutation corpus)
fn corpus_uos(a1: VariableID, a2: VariableID, a3: VariableID) -> Vec<UserOperation> {
    let q = fsq(FileStoreAction::AppendFile, "ab", "c");
    let f = fsr(FS_STATUSES[13], "ab", "c", b"no");
    vec![
        UserOperation::OriginatingTransactionIDMessage(OriginatingTransactionIDMessage { source_entity_id: a1, transaction_sequence_number: a2 }),
        uo_px(ProxyOperation::ProxyPutRequest(ProxyPutRequest { destination_entity_id: a1, source_filename: path("s/f"), destination_filename: path("d") })),
        uo_px(ProxyOperation::ProxyMessageToUser(MessageToUser { message_text: b"hi".to_vec() })),
        uo_px(ProxyOperation::ProxyFileStoreRequest(q.clone())),
        uo_px(ProxyOperation::ProxyFaultHandlerOverride(FaultHandlerOverride { fault_handler_code: HandlerCode::IgnoreError })),
        uo_px(ProxyOperation::ProxyTransmissionMode(TransmissionMode::Unacknowledged)),
        uo_px(ProxyOperation::ProxyFlowLabel(FlowLabel { value: vec![1, 2] })),
        uo_px(ProxyOperation::ProxySegmentationControl(ProxySegmentationControl::verif_new(SegmentationControl::Preserved))),
        uo_px(ProxyOperation::ProxyPutCancel),
        uo_rs(UserResponse::ProxyPut(ProxyPutResponse { condition: Condition::FilesizeError, delivery_code: DeliveryCode::Incomplete, file_status: FileStatusCode::Retained })),
        uo_rs(UserResponse::ProxyFileStore(f.clone())),
        uo_rs(UserResponse::DirectoryListing(DirectoryListingResponse { response_code: ListingResponseCode::Unsuccessful, directory_name: path("/d"), directory_filename: path("l.txt") })),
        uo_rs(UserResponse::RemoteStatusReport(RemoteStatusReportResponse { transaction_status: TransactionStatus::Terminated, response_code: true, source_entity_id: a1, transaction_sequence_number: a2 })),
        uo_rs(UserResponse::RemoteSuspend(RemoteSuspendResponse { suspend_indication: true, transaction_status: TransactionStatus::Active, source_entity_id: a1, transaction_sequence_number: a3 })),
        uo_rs(UserResponse::RemoteResume(RemoteResumeResponse { suspend_indication: false, transaction_status: TransactionStatus::Unrecognized, source_entity_id: a3, transaction_sequence_number: a2 })),
        uo_rq(UserRequest::DirectoryListing(DirectoryListingRequest { directory_name: path("/d"), directory_filename: path("l") })),
        uo_rq(UserRequest::RemoteStatusReport(RemoteStatusReportRequest { source_entity_id: a1, transaction_sequence_number: a2, report_filename: path("r") })),
        uo_rq(UserRequest::RemoteSuspend(RemoteSuspendRequest { source_entity_id: a2, transaction_sequence_number: a1 })),
        uo_rq(UserRequest::RemoteResume(RemoteResumeRequest { source_entity_id: a3, transaction_sequence_number: a2 })),
        UserOperation::SFORequest(SFORequest::verif_new(
            TraceControl::BothDirections,
            TransmissionMode::Unacknowledged,
            SegmentationControl::Preserved,
            true,
            3,
            vec![0xaa, 0xbb],
            a1,
            a3,
            path("s"),
            path("dd"),
        )),
        UserOperation::SFOMessageToUser(MessageToUser { message_text: b"m".to_vec() }),
        UserOperation::SFOFlowLabel(FlowLabel { value: vec![5] }),
        UserOperation::SFOFaultHandlerOverride(FaultHandlerOverride { fault_handler_code: HandlerCode::AbandonTransaction }),
        UserOperation::SFOFileStoreRequest(q),
        UserOperation::SFOFileStoreResponse(f),
        UserOperation::SFOReport(SFOReport::verif_new(
            vec![1, 2, 3],
            a1,
            a2,
            a3,
            5,
            255,
            Condition::NakLimitReached,
            Direction::ToSender,
            DeliveryCode::Incomplete,
            FileStatusCode::Unreported,
        )),
    ]
}

// ---------------------------------------------------------------------------------------------
// generator: streams
// ---------------------------------------------------------------------------------------------
const MUT_BYTES: [u8; 5] = [0x00, 0x01, 0x7f, 0x80, 0xff];
const SMALL_ALPHABET: [u8; 6] = [0x00, 0x01, 0x22, 0x7f, 0x80, 0xff];

/// all strings over `alpha` of length <= max
fn all_strings(alpha: &[u8], max: usize) -> Vec<Vec<u8>> {
    let mut out: Vec<Vec<u8>> = vec![vec![]];
    let mut start = 0;
    for _ in 0..max {
        let end = out.len();
        for i in start..end {
            for x in alpha {
                let mut v = out[i].clone();
                v.push(*x);
                out.push(v);
            }
        }
        start = end;
    }
    out
}
/// truncations, single byte replacements and the original
fn mutations(g: &mut G, op: &str, enc: &[u8], force_len: bool) {
    g.d(op, enc);
    for n in 0..enc.len() {
        g.d(op, &enc[..n]);
    }
    for i in 0..enc.len() {
        for b in MUT_BYTES {
            if enc[i] != b {
                let mut v = enc.to_vec();
                v[i] = b;
                g.d(op, &v);
            }
        }
    }
    if force_len && enc.len() >= 3 {
        for l in [0u16, 1, 255, 65535] {
            let mut v = enc.to_vec();
            v[1..3].copy_from_slice(&l.to_be_bytes());
            g.d(op, &v);
        }
    }
}

/// per-type decoder corpus entry: valid bytes, valid bytes + trailing garbage, truncations, replacements
fn typed_mutations(g: &mut G, op: &str, enc: &[u8]) {
    mutations(g, op, enc, false);
    let mut v = enc.to_vec();
    v.extend_from_slice(&[0xaa, 0x55]);
    g.d(op, &v);
}
fn ref_enc_tlv(t: &MetadataTLV) -> Vec<u8> {
    // a Metadata directive (small flag, empty names) is: 07, flags, 4 size bytes, 00, 00, then the TLVs
    ref_enc_payload(&md(false, ChecksumType::Modular, 0, "", "", vec![t.clone()]), false)[8..].to_vec()
}
fn ref_enc_varid(i: &VariableID) -> Vec<u8> {
    let mut o = vec![idw(i) as u8 - 1];
    o.extend(id_bytes(i));
    o
}
/// random bytes, half of the time made of small values (plausible lengths / codes)
fn rnd_soft_bytes(r: &mut Rng, max: u64) -> Vec<u8> {
    let n = r.below(max + 1) as usize;
    let mut v = r.bytes(n);
    if r.chance(1, 2) {
        for b in v.iter_mut() {
            if *b >= 0x40 {
                *b &= 0x0f;
            }
        }
    }
    v
}

pub fn gen(seed: u64, tier: &str, w: &mut impl Write, stats: &mut Stats) {
    let thorough = tier == "thorough";
    let n_random: u64 = if thorough { 300_000 } else { 6_000 };
    let n_random_bytes: u64 = if thorough { 200_000 } else { 4_000 };
    let n_random_uo: u64 = if thorough { 30_000 } else { 1_500 };
    let mut rng = Rng::new(seed ^ 0xC0DEC);
    let mut g = G { w, stats, case_no: 0, in_case: 0, prefix: "e", kind: String::new() };

    // ---- E-exhaustive (i): header sweep ----
    g.stream("h", "E-header-sweep");
    for version in 0..8u8 {
        for kind in 0..2 {
            for bits in 0..32u8 {
                let (dir, mode, crc, large, segctl) = (bits & 1, (bits >> 1) & 1, (bits >> 2) & 1 == 1, (bits >> 3) & 1 == 1, (bits >> 4) & 1);
                for segmeta in 0..(if kind == 0 { 2u8 } else { 1 }) {
                    for ew in WIDTHS {
                        for sw in WIDTHS {
                            let x = rng.next();
                            let pickid = |w: usize, max: bool, small: u64| if max { id_max(w) } else { id_w(w, small) };
                            let h = H {
                                version,
                                dir,
                                mode,
                                crc,
                                large,
                                segctl,
                                segmeta,
                                src: pickid(ew, x & 1 == 1, 1 + ((x >> 8) % 7)),
                                seq: pickid(sw, x & 2 == 2, (x >> 16) % 200),
                                dst: pickid(ew, x & 4 == 4, 2 + ((x >> 24) % 5)),
                            };
                            let p = if kind == 0 {
                                dirp(Operations::KeepAlive(KeepAlivePDU { progress: 5 }))
                            } else {
                                fd(7, vec![1, 2, 3])
                            };
                            g.e(&build(&h, p));
                        }
                    }
                }
            }
        }
    }

    // ---- E-exhaustive (ii): every enum value of every payload kind x id width x large x crc ----
    g.stream("x", "E-enum-sweep");
    for wd in WIDTHS {
        let payloads = exh_payloads(wd);
        for large in [false, true] {
            for crc in [false, true] {
                let h = simple_h(wd, large, crc);
                for p in &payloads {
                    g.e(&build(&h, p.clone()));
                }
            }
        }
    }

    // ---- E-random (+ ~5% not well-formed, + D of the real encoding for 1 in 4) ----
    g.stream("e", "E-random");
    let mut valid_encodings: Vec<Vec<u8>> = Vec::new();
    for i in 0..n_random {
        let (_, mut r) = rng.fork();
        if r.chance(1, 20) {
            let (p, class) = rnd_nonwf(&mut r);
            debug_assert!(!wf_pdu(&p));
            g.stats.inc(&format!("nonwf_{class}"));
            g.e(&p);
        } else {
            let p = rnd_pdu(&mut r);
            g.e(&p);
            if i % 4 == 0 {
                valid_encodings.push(ref_enc_pdu(&p));
            }
        }
    }
    // big file data: 4096 and 65000 bytes, whole PDU <= 65535
    g.stream("b", "E-big-data");
    for i in 0..10u64 {
        let (_, mut r) = rng.fork();
        let h = rnd_h(&mut r);
        let n = if i % 2 == 0 { 4096 } else { 65000 };
        let p = if i % 4 < 2 {
            fd(rnd_num(&mut r, h.large), r.bytes(n))
        } else {
            let m = rnd_meta_len(&mut r);
            sfd(r.pick(RCSTATES).clone(), r.bytes(m), rnd_num(&mut r, h.large), r.bytes(n))
        };
        let pdu = build(&h, p);
        g.e(&pdu);
        if i % 3 == 0 {
            valid_encodings.push(ref_enc_pdu(&pdu));
        }
    }

    // ---- EU: exhaustive + random ----
    g.stream("u", "EU-enum-sweep");
    for u in exh_uos() {
        g.eu(&u);
    }
    g.stream("v", "EU-random");
    let mut valid_uo_encodings: Vec<Vec<u8>> = Vec::new();
    for i in 0..n_random_uo {
        let (_, mut r) = rng.fork();
        let u = rnd_uo(&mut r, true);
        g.eu(&u);
        if i % 4 == 0 && wf_uo(&u) {
            valid_uo_encodings.push(ref_enc_uo(&u));
        }
    }

    // ---- ER: id widths (16 pairs) x state x status x condition ----
    g.stream("r", "ER-sweep");
    let mut k = 0usize;
    let mut report_encodings: Vec<Vec<u8>> = Vec::new();
    let mut valid_report_encodings: Vec<Vec<u8>> = Vec::new();
    for w1 in WIDTHS {
        for w2 in WIDTHS {
            for st in TX_STATES {
                for ts in TX_STATUSES {
                    for c in CONDITIONS {
                        k += 1;
                        let rep = Report { id: TransactionID(bid(w1, k), bid(w2, k / 3)), state: *st, status: *ts, condition: *c };
                        g.er(&rep);
                        if k % 168 == 1 {
                            report_encodings.push(ref_enc_report(&rep));
                        }
                        if k % 4 == 0 {
                            valid_report_encodings.push(ref_enc_report(&rep));
                        }
                    }
                }
            }
        }
    }

    // ---- D-malformed (a): all short strings over a small alphabet ----
    g.stream("s", "D-short-strings");
    for s in all_strings(&SMALL_ALPHABET, 4) {
        g.d("D", &s);
    }
    g.stream("s", "DU-short-strings");
    for s in all_strings(&SMALL_ALPHABET, 3) {
        let mut v = b"cfdp".to_vec();
        v.extend(s);
        g.d("DU", &v);
    }
    g.stream("s", "DR-short-strings");
    for s in all_strings(&SMALL_ALPHABET, 3) {
        g.d("DR", &s);
    }

    // ---- D-malformed (b): mutations of a corpus of valid encodings ----
    g.stream("m", "D-mutations");
    for p in corpus_payloads() {
        for large in [false, true] {
            for crc in [false, true] {
                let mut h = simple_h(2, large, crc);
                h.seq = id_w(1, 0x2a);
                let enc = ref_enc_pdu(&build(&h, p.clone()));
                g.stats.add("corpus_pdu_bytes", enc.len() as u64);
                mutations(&mut g, "D", &enc, true);
            }
        }
    }
    g.stream("m", "DU-mutations");
    for u in corpus_uos(id_w(2, 0x1234), id_w(1, 7), id_w(4, 0xdeadbeef)) {
        mutations(&mut g, "DU", &ref_enc_uo(&u), false);
    }
    // the variants that carry ids once more with other widths (8-byte ids included)
    for u in corpus_uos(id_w(8, 0x0102_0304_0506_0708), id_w(4, 0xfffe_fdfc), id_w(1, 0xff)) {
        let has_id = sx_uo(&u).print().contains(':');
        if has_id {
            mutations(&mut g, "DU", &ref_enc_uo(&u), false);
        }
    }
    g.stream("m", "DR-mutations");
    for enc in &report_encodings {
        mutations(&mut g, "DR", enc, false);
    }

    // ---- D-malformed (c): random byte strings ----
    g.stream("z", "D-random-bytes");
    for i in 0..n_random_bytes {
        let (_, mut r) = rng.fork();
        let n = r.below(65) as usize;
        let mut v = r.bytes(n);
        if i % 2 == 0 && n >= 3 {
            v[0] = 0x20 + r.below(0x20) as u8;
            v[1] = 0;
            v[2] = r.below(40) as u8;
        }
        g.d("D", &v);
    }
    g.stream("z", "DU-random-bytes");
    for _ in 0..n_random_bytes / 4 {
        let (_, mut r) = rng.fork();
        let n = r.below(40) as usize;
        let mut v = b"cfdp".to_vec();
        // a valid message type most of the time
        const TYPES: [u8; 27] = [
            0x00, 0x01, 0x02, 0x03, 0x04, 0x05, 0x06, 0x07, 0x08, 0x09, 0x0a, 0x0b, 0x10, 0x11, 0x20, 0x21, 0x30, 0x31,
            0x38, 0x39, 0x40, 0x41, 0x42, 0x43, 0x44, 0x45, 0x46,
        ];
        v.push(if r.chance(7, 8) { *r.pick(&TYPES) } else { r.next() as u8 });
        let mut body = r.bytes(n);
        if r.chance(1, 2) {
            // small bytes make plausible length fields
            for b in body.iter_mut() {
                if *b >= 0x80 {
                    *b &= 0x07;
                }
            }
        }
        v.extend(body);
        g.d("DU", &v);
    }
    g.stream("z", "DR-random-bytes");
    for _ in 0..n_random_bytes / 4 {
        let (_, mut r) = rng.fork();
        let n = r.below(24) as usize;
        let mut v = r.bytes(n);
        if r.chance(1, 2) && n >= 1 {
            v[0] = *r.pick(&[0u8, 1, 3, 7]);
        }
        g.d("DR", &v);
    }

    // ---- (d): decode of valid encodings of the random values ----
    g.stream("d", "D-valid");
    for enc in &valid_encodings {
        g.d("D", enc);
    }
    g.stream("d", "DU-valid");
    for enc in &valid_uo_encodings {
        g.d("DU", enc);
    }
    g.stream("d", "DR-valid");
    for enc in &valid_report_encodings {
        g.d("DR", enc);
    }

    // ---- per-type decoders (FORMAT.md addendum): DH DO DF DT DV DQ DS ----
    let n_typed_random: u64 = if thorough { 6_000 } else { 300 };
    let short = all_strings(&SMALL_ALPHABET, 3);

    // DH: all 16 width pairs x crc x large
    g.stream("t", "DH-mutations");
    let mut k = 0u64;
    for ew in WIDTHS {
        for sw in WIDTHS {
            for crc in [false, true] {
                for large in [false, true] {
                    k += 1;
                    let h = H {
                        version: (k % 8) as u8,
                        dir: (k % 2) as u8,
                        mode: ((k / 2) % 2) as u8,
                        crc,
                        large,
                        segctl: ((k / 4) % 2) as u8,
                        segmeta: ((k / 8) % 2) as u8,
                        src: bid(ew, k as usize),
                        seq: bid(sw, k as usize + 1),
                        dst: bid(ew, k as usize + 2),
                    };
                    let pdu = build(&h, dirp(Operations::KeepAlive(KeepAlivePDU { progress: k })));
                    let enc = ref_enc_pdu(&pdu);
                    typed_mutations(&mut g, "DH", &enc[..ref_hdr_len(&pdu.header)]);
                }
            }
        }
    }
    g.stream("t", "DH-short-strings");
    for sh in &short {
        g.d("DH", sh);
    }
    g.stream("t", "DH-random-bytes");
    for _ in 0..n_typed_random {
        let (_, mut r) = rng.fork();
        let mut v = rnd_soft_bytes(&mut r, 40);
        if v.len() >= 4 && r.chance(1, 2) {
            // plausible id widths
            v[3] = (v[3] & 0x88) | ((*r.pick(&[0u8, 1, 3, 7])) << 4) | *r.pick(&[0u8, 1, 3, 7]);
        }
        g.d("DH", &v);
    }

    // DO: every corpus directive payload x both flags
    g.stream("t", "DO-mutations");
    for p in corpus_payloads() {
        if !matches!(p, PDUPayload::Directive(_)) {
            continue;
        }
        for large in [false, true] {
            typed_mutations(&mut g, &format!("DO {}", large as u8), &ref_enc_payload(&p, large));
        }
    }
    g.stream("t", "DO-short-strings");
    for large in 0..2 {
        for sh in &short {
            g.d(&format!("DO {large}"), sh);
        }
    }
    g.stream("t", "DO-random-bytes");
    for _ in 0..n_typed_random {
        let (_, mut r) = rng.fork();
        let mut v = rnd_soft_bytes(&mut r, 40);
        if !v.is_empty() && r.chance(3, 4) {
            v[0] = *r.pick(&[0x04u8, 0x05, 0x06, 0x07, 0x08, 0x09, 0x0c]);
        }
        g.d(&format!("DO {}", r.below(2)), &v);
    }

    // DF: unsegmented + segmented x both flags
    g.stream("t", "DF-mutations");
    for p in [fd(16, b"some data".to_vec()), sfd(RecordContinuationState::Last, vec![9, 8, 7], 0x0102_0304, b"rec".to_vec())] {
        let seg = matches!(p, PDUPayload::FileData(FileDataPDU::Segmented(_))) as u8;
        for large in [false, true] {
            typed_mutations(&mut g, &format!("DF {seg} {}", large as u8), &ref_enc_payload(&p, large));
        }
    }
    g.stream("t", "DF-short-strings");
    for seg in 0..2 {
        for large in 0..2 {
            for sh in &short {
                g.d(&format!("DF {seg} {large}"), sh);
            }
        }
    }
    g.stream("t", "DF-random-bytes");
    for _ in 0..n_typed_random {
        let (_, mut r) = rng.fork();
        let v = rnd_soft_bytes(&mut r, 40);
        g.d(&format!("DF {} {}", r.below(2), r.below(2)), &v);
    }

    // DT: every TLV kind incl. every entity id width
    g.stream("t", "DT-mutations");
    let tl = all_tlvs(0);
    for i in [1usize, 2, 9, 20, 43, 44, 45, 48, 49, 50, 51, 52, 53] {
        typed_mutations(&mut g, "DT", &ref_enc_tlv(&tl[i]));
    }
    typed_mutations(&mut g, "DT", &ref_enc_tlv(&MetadataTLV::MessageToUser(MessageToUser { message_text: vec![] })));
    g.stream("t", "DT-short-strings");
    for sh in &short {
        g.d("DT", sh);
    }
    g.stream("t", "DT-random-bytes");
    for _ in 0..n_typed_random {
        let (_, mut r) = rng.fork();
        let mut v = rnd_soft_bytes(&mut r, 40);
        if !v.is_empty() && r.chance(3, 4) {
            v[0] = *r.pick(&[0x00u8, 0x01, 0x02, 0x04, 0x05, 0x06]);
        }
        g.d("DT", &v);
    }

    // DV: the four widths (max and small values)
    g.stream("t", "DV-mutations");
    for wd in WIDTHS {
        typed_mutations(&mut g, "DV", &ref_enc_varid(&id_max(wd)));
        typed_mutations(&mut g, "DV", &ref_enc_varid(&id_w(wd, 0x0102_0304_0506_0708)));
    }
    g.stream("t", "DV-short-strings");
    for sh in &short {
        g.d("DV", sh);
    }
    g.stream("t", "DV-random-bytes");
    for _ in 0..n_typed_random {
        let (_, mut r) = rng.fork();
        let mut v = rnd_soft_bytes(&mut r, 12);
        if !v.is_empty() && r.chance(1, 2) {
            v[0] = *r.pick(&[0u8, 1, 3, 7, 2, 8, 0xfe, 0xff]);
        }
        g.d("DV", &v);
    }

    // DQ / DS: a few requests and responses
    g.stream("t", "DQ-mutations");
    for q in [
        fsq(FileStoreAction::CreateFile, "a/b.txt", ""),
        fsq(FileStoreAction::RenameFile, "old", "n\u{e9}w"),
        fsq(FileStoreAction::DenyDirectory, "", ""),
    ] {
        typed_mutations(&mut g, "DQ", &ref_enc_fsq(&q));
    }
    g.stream("t", "DQ-short-strings");
    for sh in &short {
        g.d("DQ", sh);
    }
    g.stream("t", "DQ-random-bytes");
    for _ in 0..n_typed_random {
        let (_, mut r) = rng.fork();
        let mut v = rnd_soft_bytes(&mut r, 40);
        if !v.is_empty() && r.chance(1, 2) {
            v[0] = (r.below(10) as u8) << 4;
        }
        g.d("DQ", &v);
    }
    g.stream("t", "DS-mutations");
    for f in [
        fsr(FS_STATUSES[0], "a/b.txt", "", b"ok"),
        fsr(FS_STATUSES[10], "old", "n\u{e9}w", b""),
        fsr(FS_STATUSES[34], "", "", b""),
        fsr(FS_STATUSES[27], "d", "", &[0xff, 0x00]),
    ] {
        typed_mutations(&mut g, "DS", &ref_enc_fsr(&f));
    }
    g.stream("t", "DS-short-strings");
    for sh in &short {
        g.d("DS", sh);
    }
    g.stream("t", "DS-random-bytes");
    for _ in 0..n_typed_random {
        let (_, mut r) = rng.fork();
        let mut v = rnd_soft_bytes(&mut r, 40);
        if !v.is_empty() && r.chance(1, 2) {
            v[0] = ((r.below(10) as u8) << 4) | *r.pick(&[0u8, 1, 2, 3, 6, 0xf, 5]);
        }
        g.d("DS", &v);
    }
}
