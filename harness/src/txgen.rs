//! Script generator ("plausible exchange with perturbations") and property oracles for the
//! transaction-level lock-step streams (components `recv`, `send`).
use crate::rng::Rng;
use crate::tx::{Cfg, Obs};
use crate::util::{hex, Stats};
use cfdp_core::daemon::{Indication, NakProcedure};
use cfdp_core::filestore::ChecksumType;
use cfdp_core::pdu::*;
use cfdp_core::transaction::TransactionState;
use std::io::Write;

// ------------------------------------------------------------------ helpers

pub fn ref_checksum(data: &[u8], ck: ChecksumType) -> u32 {
    match ck {
        ChecksumType::Null => 0,
        ChecksumType::Modular => {
            let mut sum: u32 = 0;
            for chunk in data.chunks(4) {
                let mut w = [0u8; 4];
                w[..chunk.len()].copy_from_slice(chunk);
                sum = sum.wrapping_add(u32::from_be_bytes(w));
            }
            sum
        }
    }
}

fn norm(ops: &[(u64, u64)]) -> Vec<(u64, u64)> {
    let mut v: Vec<(u64, u64)> = ops.iter().cloned().filter(|(a, b)| a < b).collect();
    v.sort();
    let mut out: Vec<(u64, u64)> = Vec::new();
    for (a, b) in v {
        if let Some(last) = out.last_mut() {
            if a <= last.1 {
                if b > last.1 {
                    last.1 = b;
                }
                continue;
            }
        }
        out.push((a, b));
    }
    out
}
fn total(v: &[(u64, u64)]) -> u64 {
    v.iter().map(|(a, b)| b - a).sum()
}
fn complement(n: &[(u64, u64)], s: u64, e: u64) -> Vec<(u64, u64)> {
    let mut out = Vec::new();
    let mut p = s;
    for (a, b) in n {
        if *b <= p {
            continue;
        }
        if *a >= e {
            break;
        }
        if *a > p {
            out.push((p, *a));
        }
        p = *b;
        if p >= e {
            break;
        }
    }
    if p < e {
        out.push((p, e));
    }
    out
}

// ------------------------------------------------------------------ oracle

pub struct Oracle {
    id: String,
    is_recv: bool,
    cfg: Cfg,
    fss: u64,
    prev_st: TransactionState,
    // receiver
    held: Vec<(u64, u64)>,
    md_seen: bool,
    md_closure: bool,
    eof_size: Option<u64>,
    done: bool,                   // a successful Finished indication has been seen
    dest_snapshot: Option<Vec<u8>>,
    cancelled_before_done: bool,
    dest_at_cancel: Option<Vec<u8>>,
    prompt_nak_pending: bool,
    collecting: Option<(Vec<(u64, u64)>, Vec<(u64, u64)>)>, // (expected, got)
    since_eof_reqs: Vec<(u64, u64)>,
    marker_since_eof: bool,
    nak_since_eof: bool,
    left_recv: bool,
    now_ms: u64,
    resumed_at: Option<u64>,
    reqs_done: bool,
    cancel_pending: bool,
    /// the sending user's cancel request was accepted by an active transaction
    user_cancelled: bool,
    /// receiver: progress figure at the most recent NAK round (a NAK PDU was emitted)
    pr_at_last_nak: Option<u64>,
    fin_pdu_seen: bool,
    owed: Vec<(u64, u64)>,
    owed_md: bool,
    spoiled: bool,
    last_activity_ms: u64,
    eof_at: Option<u64>,
    nak_due_handled: bool,
    last_ut_zero: bool,
    // sender
    max_sent: u64,
    last_pr: u64,
    eof_sent: bool,
    sent_ranges: Vec<(u64, u64)>,
}

impl Oracle {
    pub fn new(cfg: &Cfg, is_recv: bool, id: &str) -> Self {
        Oracle {
            id: id.to_string(),
            is_recv,
            cfg: cfg.clone(),
            fss: if cfg.large { 8 } else { 4 },
            prev_st: TransactionState::Active,
            held: vec![],
            md_seen: false,
            md_closure: false,
            eof_size: None,
            done: false,
            dest_snapshot: None,
            cancelled_before_done: false,
            dest_at_cancel: None,
            prompt_nak_pending: false,
            collecting: None,
            since_eof_reqs: vec![],
            marker_since_eof: false,
            nak_since_eof: false,
            left_recv: false,
            now_ms: 0,
            resumed_at: None,
            reqs_done: false,
            cancel_pending: false,
            user_cancelled: false,
            pr_at_last_nak: None,
            fin_pdu_seen: false,
            owed: Vec::new(),
            owed_md: false,
            spoiled: false,
            last_activity_ms: 0,
            eof_at: None,
            nak_due_handled: false,
            last_ut_zero: false,
            max_sent: 0,
            last_pr: 0,
            eof_sent: false,
            sent_ranges: vec![],
        }
    }
    pub fn initial(&mut self, _inds: &[Indication]) {}

    fn fail(&self, orc: &mut impl Write, prop: &str, k: usize, msg: String) {
        writeln!(orc, "FAIL {prop} case={} op={k} {msg}", self.id).unwrap();
    }

    pub fn step(&mut self, k: usize, line: &str, o: &Obs, orc: &mut impl Write) {
        let t: Vec<&str> = line.split_whitespace().collect();
        // ---- C19: silence and no timer faults while suspended
        if self.prev_st == TransactionState::Suspended && t[0] != "RESUME" {
            for (_, p) in &o.pdus {
                self.fail(orc, "C19", k, format!("PDU emitted while suspended: {}", crate::tx::payload_text(&p.payload)));
            }
            for i in &o.inds {
                if let Indication::Fault(f) = i {
                    if matches!(f.condition, Condition::PositiveLimitReached | Condition::NakLimitReached | Condition::InactivityDetected) {
                        self.fail(orc, "C19", k, format!("timer fault {:?} declared while suspended", f.condition));
                    }
                }
            }
        }
        if o.st == TransactionState::Suspended && (o.hp || o.ut != std::time::Duration::MAX) {
            self.fail(orc, "C19", k, format!("suspended but has_pdu_to_send={} until_timeout={:?}", o.hp, o.ut));
        }
        // ---- C03: left alone (peer silent for good), the transaction must end within its limits
        if t[0] == "IDLE" {
            if let Some((it, ms)) = o.idle {
                let k: usize = t[1].parse().unwrap();
                let h = &self.cfg.handlers;
                let soft = |c: &Condition| matches!(h.get(c), Some(FaultHandlerAction::Ignore) | Some(FaultHandlerAction::Suspend));
                // an ignored inactivity limit does not stop the other timers: once the receiver has a Finished PDU
                // outstanding, its positive-ACK limit still ends the transaction
                let ignore_only_inactivity = self.is_recv
                    && self.fin_pdu_seen
                    && matches!(h.get(&Condition::InactivityDetected), Some(FaultHandlerAction::Ignore))
                    && !soft(&Condition::PositiveLimitReached);
                let lenient = !ignore_only_inactivity
                    && [Condition::PositiveLimitReached, Condition::NakLimitReached, Condition::InactivityDetected].iter().any(soft);
                let tmax = self.cfg.ti.max(self.cfg.ta).max(self.cfg.tn) as u64 * 1000;
                let delay = match self.cfg.nak {
                    NakProcedure::Immediate(d) | NakProcedure::Deferred(d) => d.as_millis() as u64,
                };
                let bound = (3 * self.cfg.maxc as u64 + 3) * tmax + delay;
                if o.st == TransactionState::Active && o.res == "ok" {
                    if it < k && !self.is_recv && self.cfg.mode == TransmissionMode::Unacknowledged && self.cfg.closure {
                        self.fail(orc, "C18", k, "unacknowledged sender with closure waits for the Finished PDU without any limit (no timer running)".into());
                    }
                    if it < k {
                        self.fail(orc, "C03", k, format!("transaction stuck after {it} loop iterations: active, nothing to send and no timer running"));
                    } else if !lenient {
                        self.fail(orc, "C03", k, format!("transaction still active after {it} loop iterations without any incoming PDU"));
                        if ignore_only_inactivity {
                            self.fail(orc, "C17", k, "with the inactivity fault ignored the positive-ACK limit was never declared: ignoring one limit stopped the other timers".into());
                        }
                    }
                }
                if o.st == TransactionState::Terminated && !lenient && ms > bound {
                    self.fail(orc, "C03", k, format!("transaction took {ms} ms of silence to end; bound from the configuration is {bound} ms"));
                }
            }
        }
        // ---- C17: an inactivity fault needs max_count consecutive expirations without any PDU from the peer
        if !self.is_recv && t[0] == "ADV" {
            self.now_ms += t[1].parse::<u64>().unwrap(); // (the receiver side advances now_ms in step_recv)
        }
        let mut now = if self.is_recv && t[0] == "ADV" { self.now_ms + t[1].parse::<u64>().unwrap() } else { self.now_ms };
        if let Some((_, ms)) = o.idle {
            // time advanced inside the idle drive (faults inside it happened no later than its end)
            now += ms;
            self.now_ms += ms;
        }
        if t[0] == "PDU" && self.prev_st != TransactionState::Suspended {
            self.last_activity_ms = now;
        }
        for i in &o.inds {
            if let Indication::Fault(f) = i {
                if f.condition == Condition::InactivityDetected {
                    let need = self.cfg.maxc as u64 * self.cfg.ti as u64 * 1000;
                    if now < self.last_activity_ms + need {
                        self.fail(orc, "C17", k, format!("inactivity fault {} ms after the last PDU from the peer; {} expirations of {} s are required", now - self.last_activity_ms, self.cfg.maxc, self.cfg.ti));
                    }
                }
            }
        }
        // ---- C17: progress resets the NAK count - a NAK-limit fault can only be declared when nothing new has been
        // received since the previous NAK round (seeded change C17f tested the limit before looking at the progress)
        if self.is_recv {
            // (no data arrives inside an operation that runs the send / timeout arms, so a NAK PDU emitted by this very
            // operation was emitted at the current progress figure; the order of PDUs and indications within one
            // operation is not observed)
            let nak_now = o.pdus.iter().any(|(_, p)| matches!(&p.payload, PDUPayload::Directive(Operations::Nak(_))));
            if nak_now {
                self.pr_at_last_nak = Some(o.pr);
            }
            for i in &o.inds {
                if let Indication::Fault(f) = i {
                    if f.condition == Condition::NakLimitReached && o.pr != self.pr_at_last_nak.unwrap_or(0) {
                        self.fail(orc, "C17", k, format!("NAK limit fault although the receiver made progress since its previous NAK round ({} -> {} bytes)", self.pr_at_last_nak.unwrap_or(0), o.pr));
                    }
                }
            }
        }
        // ---- C19 / C17: timers count only un-suspended time - after a resume every timer starts a fresh
        // period, so no timer-limit fault can be declared less than one full period after the resume
        if t[0] == "RESUME" && self.prev_st == TransactionState::Suspended {
            self.resumed_at = Some(now);
        } else if t[0] == "SUSPEND" {
            self.resumed_at = None;
        }
        if t[0] == "RESUME" && !self.is_recv && o.res == "ok" && o.ut != std::time::Duration::MAX {
            // a send transaction has no timers but the inactivity and ACK timers; both start afresh at a resume
            let full = (self.cfg.ti.min(self.cfg.ta) as u64) * 1000;
            if (o.ut.as_millis() as u64) < full {
                for prop in ["C19", "C17"] {
                    self.fail(orc, prop, k, format!("next deadline {} ms after a resume: the timers did not start a fresh period (shortest period {} ms)", o.ut.as_millis(), full));
                }
            }
        }
        if let Some(r) = self.resumed_at {
            for i in &o.inds {
                if let Indication::Fault(f) = i {
                    let period = match f.condition {
                        Condition::PositiveLimitReached => Some(self.cfg.ta),
                        Condition::InactivityDetected => Some(self.cfg.ti),
                        Condition::NakLimitReached => Some(self.cfg.tn),
                        _ => None,
                    };
                    if let Some(p) = period {
                        if now < r + p as u64 * 1000 {
                            for prop in ["C19", "C17"] {
                                self.fail(orc, prop, k, format!("{:?} declared {} ms after the resume: time spent suspended was counted by the timer (period {} s)", f.condition, now - r, p));
                            }
                        }
                    }
                }
            }
        }
        if self.is_recv {
            self.step_recv(k, &t, o, orc);
        } else {
            self.step_send(k, &t, o, orc);
        }
        self.prev_st = o.st;
    }

    fn step_recv(&mut self, k: usize, t: &[&str], o: &Obs, orc: &mut impl Write) {
        let acked = self.cfg.mode == TransmissionMode::Acknowledged;
        if o.pdus.iter().any(|(_, p)| matches!(p.payload, PDUPayload::Directive(Operations::Finished(_)))) {
            self.fin_pdu_seen = true;
        }
        // ---- C04: nothing that arrives after a completed delivery may make the transaction fail
        if self.done && (o.res == "err" || o.res == "PANIC") {
            self.fail(orc, "C04", k, format!("after the delivery had completed, `{}` made the transaction return a fatal error", t.join(" ")));
        }
        // ---- C13, transaction clause: the requests of the metadata run once, in order, only in a finalisation
        // that ends without error; the same responses go to the user and into the Finished PDU
        if !self.cfg.reqs.is_empty() {
            // within ONE operation: a fault handler that ends the transaction reports Finished (without responses);
            // a Finished indication WITH responses after it means the requests ran in a transaction that had
            // already been cancelled (fixed defect 860603f: unacknowledged EOF whose size is below the data held)
            let mut ended_in_this_op = false;
            for i in &o.inds {
                if let Indication::Finished(f) = i {
                    if ended_in_this_op && !f.filestore_responses.is_empty() {
                        self.fail(orc, "C13", k, format!("filestore requests executed after a fault had already ended the transaction in the same operation (condition {:?})", f.report.condition));
                    }
                    if f.report.condition != Condition::NoError {
                        ended_in_this_op = true;
                    }
                }
            }
            for i in &o.inds {
                if let Indication::Finished(f) = i {
                    if f.filestore_responses.is_empty() {
                        continue;
                    }
                    if self.reqs_done {
                        self.fail(orc, "C13", k, "the filestore requests were executed (reported) a second time".into());
                    }
                    if self.cancelled_before_done {
                        self.fail(orc, "C13", k, format!("filestore requests executed in a transaction that had been cancelled before it completed (condition {:?})", f.report.condition));
                    }
                    let names: Vec<String> = f.filestore_responses.iter().map(|r| r.first_filename.to_string()).collect();
                    if names != self.cfg.reqs {
                        self.fail(orc, "C13", k, format!("responses {:?} do not answer the requests {:?} one by one, in order", names, self.cfg.reqs));
                    }
                    for r in &f.filestore_responses {
                        if r.action_and_status.as_u8() & 0x0F != 0 {
                            self.fail(orc, "C13", k, format!("request on {} reported status {} although its precondition held", r.first_filename, r.action_and_status.as_u8() & 0x0F));
                        }
                    }
                    self.reqs_done = true;
                }
            }
            if !self.reqs_done && o.req_exists.iter().any(|x| *x) {
                self.fail(orc, "C13", k, "a filestore request took effect although no successful finalisation was reported".into());
            }
            if self.reqs_done && o.req_exists.iter().any(|x| !*x) {
                self.fail(orc, "C13", k, "a filestore request reported successful left no effect".into());
            }
            for (_, p) in &o.pdus {
                if let PDUPayload::Directive(Operations::Finished(f)) = &p.payload {
                    if !f.filestore_response.is_empty() && !self.reqs_done {
                        self.fail(orc, "C13", k, "Finished PDU carries filestore responses that were never reported to the user".into());
                    }
                }
            }
        }
        // what the op delivered
        let mut eof_noerror_now = false;
        if t[0] == "PDU" {
            match t[1] {
                "FD" => {
                    // held bytes: data for which a segment indication was raised
                    for i in &o.inds {
                        if let Indication::FileSegmentRecv(f) = i {
                            if f.length > 0 {
                                self.held.push((f.offset, f.offset + f.length));
                            }
                        }
                    }
                }
                "MD" => {
                    if o.inds.iter().any(|i| matches!(i, Indication::MetadataRecv(_))) {
                        self.md_seen = true;
                        self.md_closure = t[2] == "1";
                    }
                }
                "EOF" => {
                    if t[2] != "0" {
                        // the peer cancels: whatever the receiver makes of this EOF, a transfer that had not
                        // been delivered before must not be delivered afterwards
                        if !self.done && !self.cancelled_before_done {
                            self.cancelled_before_done = true;
                            self.dest_at_cancel = o.dest.clone();
                        }
                    } else if o.inds.iter().any(|i| matches!(i, Indication::EoFRecv(_))) {
                        if self.eof_size.is_none() {
                            eof_noerror_now = true;
                        }
                        self.eof_size = Some(t[4].parse().unwrap());
                    }
                }
                "PR" => {
                    if t[2] == "N" && acked {
                        self.prompt_nak_pending = true;
                    }
                }
                _ => {}
            }
        }
        if t[0] == "CANCEL" && !self.done && !self.cancelled_before_done {
            self.cancelled_before_done = true;
            self.dest_at_cancel = o.dest.clone();
        }
        let distinct = total(&norm(&self.held));
        // ---- C20: progress figures
        if o.pr != distinct {
            self.fail(orc, "C20", k, format!("receiver progress {} but {} distinct bytes held", o.pr, distinct));
        }
        for i in &o.inds {
            let p = match i {
                Indication::Fault(f) | Indication::Abandon(f) => Some(f.progress),
                Indication::Resumed(r) => Some(r.progress),
                _ => None,
            };
            if let Some(p) = p {
                if p != distinct {
                    self.fail(orc, "C20", k, format!("indication reports progress {p} but {distinct} distinct bytes held"));
                }
            }
        }
        // ---- emitted PDUs
        let mut naks_now: Vec<(u64, u64)> = Vec::new();
        let mut nak_emitted = false;
        for (_, p) in &o.pdus {
            match &p.payload {
                PDUPayload::Directive(Operations::KeepAlive(ka)) => {
                    if ka.progress != distinct {
                        self.fail(orc, "C20", k, format!("KeepAlive progress {} but {distinct} distinct bytes held", ka.progress));
                    }
                    if !acked {
                        self.fail(orc, "C18", k, "KeepAlive PDU emitted in unacknowledged mode".into());
                    }
                }
                PDUPayload::Directive(Operations::Ack(_)) => {
                    if !acked {
                        self.fail(orc, "C18", k, "ACK PDU emitted in unacknowledged mode".into());
                    }
                }
                PDUPayload::Directive(Operations::Finished(f)) => {
                    if !acked && !self.md_closure {
                        self.fail(orc, "C18", k, "Finished PDU emitted in unacknowledged mode without closure".into());
                    }
                    if self.done && matches!(f.condition, Condition::FileChecksumFailure | Condition::FilesizeError) {
                        self.fail(orc, "C04", k, format!("Finished PDU with {:?} after a successful delivery", f.condition));
                    }
                }
                PDUPayload::Directive(Operations::Nak(n)) => {
                    nak_emitted = true;
                    if !acked {
                        self.fail(orc, "C18", k, "NAK PDU emitted in unacknowledged mode".into());
                        if self.resumed_at.is_some() {
                            self.fail(orc, "C19", k, "a resumed unacknowledged receiver started to send NAKs: it does not continue as an unsuspended one would".into());
                        }
                    }
                    if self.eof_size.is_some() {
                        self.nak_since_eof = true;
                    }
                    for r in &n.segment_requests {
                        let (a, b) = (r.start_offset, r.end_offset);
                        naks_now.push((a, b));
                        if self.eof_size.is_some() {
                            if a == 0 && b == 0 {
                                self.marker_since_eof = true;
                            } else {
                                self.since_eof_reqs.push((a, b));
                            }
                        }
                        if a == 0 && b == 0 {
                            if self.md_seen {
                                self.fail(orc, "C08", k, "NAK carries the 0-0 metadata marker although metadata was received".into());
                            }
                        } else if a >= b {
                            self.fail(orc, "C08", k, format!("NAK request ({a},{b}) is empty or inverted"));
                        }
                        if a < n.start_of_scope || b > n.end_of_scope {
                            self.fail(orc, "C08", k, format!("NAK request ({a},{b}) outside the announced scope [{},{}]", n.start_of_scope, n.end_of_scope));
                        }
                        if let Some(fs) = self.eof_size {
                            if b > fs {
                                self.fail(orc, "C08", k, format!("NAK request ({a},{b}) beyond the file size {fs}"));
                            }
                        }
                    }
                    if p.header.pdu_data_field_length as u64 > self.cfg.seg as u64 + self.fss {
                        self.fail(orc, "C08", k, format!("NAK data field {} exceeds segment size {} + FSS", p.header.pdu_data_field_length, self.cfg.seg));
                    }
                    if matches!(self.cfg.nak, NakProcedure::Deferred(_)) && self.eof_size.is_none() && !self.prompt_nak_pending {
                        self.fail(orc, "C08", k, "unsolicited NAK before EOF under the deferred procedure".into());
                    }
                }
                _ => {}
            }
            if p.header.direction != Direction::ToSender {
                self.fail(orc, "C08", k, "receiver emitted a PDU with direction ToReceiver".into());
            }
        }
        if nak_emitted && !o.hp {
            self.prompt_nak_pending = false;
        }
        // ---- C08 exactness: after the (first, NoError) EOF with zero delay, the NAKs sent until the
        //      queue is empty are exactly the missing ranges (+ metadata marker)
        if eof_noerror_now {
            self.since_eof_reqs.clear();
            self.marker_since_eof = false;
            self.nak_since_eof = false;
            self.eof_at = Some(self.now_ms);
            let d = match self.cfg.nak {
                NakProcedure::Immediate(d) | NakProcedure::Deferred(d) => d,
            };
            self.nak_due_handled = d.is_zero();
        }
        if eof_noerror_now && acked {
            let delay_zero = match self.cfg.nak {
                NakProcedure::Immediate(d) | NakProcedure::Deferred(d) => d.is_zero(),
            };
            let quiet = !o.inds.iter().any(|i| matches!(i, Indication::Fault(_) | Indication::Finished(_) | Indication::Abandon(_) | Indication::Suspended(_)));
            if delay_zero && quiet && o.st == TransactionState::Active {
                let mut exp = Vec::new();
                if !self.md_seen {
                    exp.push((0, 0));
                }
                exp.extend(complement(&norm(&self.held), 0, self.eof_size.unwrap()));
                self.collecting = Some((exp, Vec::new()));
            }
        } else if o.inds.iter().any(|i| matches!(i, Indication::Fault(_) | Indication::Finished(_) | Indication::Abandon(_) | Indication::Suspended(_))) {
            // a limit fault (e.g. the NAK limit, reached on the way) ends the exchange being collected
            self.collecting = None;
        } else if let Some((exp, got)) = self.collecting.as_mut() {
            if t[0] == "SEND" {
                got.extend(naks_now.iter().cloned());
                if !o.hp {
                    if exp != got {
                        let m = format!("after EOF the NAKs requested {:?} but the missing data is {:?}", got, exp);
                        self.fail(orc, "C08", k, m);
                    }
                    self.collecting = None;
                }
            } else {
                self.collecting = None;
            }
        }
        // ---- C08: no missing byte is left out. Once the EOF is in, whenever the receiver has sent at least one
        //      NAK and has nothing more to send, everything still missing (and the metadata, if missing)
        //      must have been asked for since the EOF.
        if o.inds.iter().any(|i| matches!(i, Indication::Finished(_) | Indication::Abandon(_))) || t[0] == "CANCEL" || t[0] == "ABANDON" {
            self.left_recv = true;
        }
        if t[0] == "ADV" {
            self.now_ms += t[1].parse::<u64>().unwrap();
        }
        if t[0] == "TIMEOUT" && self.last_ut_zero {
            if let Some(at) = self.eof_at {
                let d = match self.cfg.nak {
                    NakProcedure::Immediate(d) | NakProcedure::Deferred(d) => d.as_millis() as u64,
                };
                if self.now_ms >= at + d {
                    self.nak_due_handled = true;
                }
            }
        }
        self.last_ut_zero = o.ut == std::time::Duration::ZERO && o.st == TransactionState::Active;
        // (a NAK that goes out between the EOF and the end of the EOF's own NAK delay may stem from an older
        //  per-gap delay timer and need not be complete: only the due point of the EOF's check counts)
        if t[0] == "SEND" && acked && self.nak_due_handled && !self.left_recv && !o.hp && o.st == TransactionState::Active {
            if let Some(fs) = self.eof_size {
                let missing = complement(&norm(&self.held), 0, fs);
                let asked = norm(&self.since_eof_reqs);
                for (a, b) in &missing {
                    if !complement(&asked, *a, *b).is_empty() {
                        self.fail(orc, "C08", k, format!("bytes ({a},{b}) are missing but no NAK since the EOF asked for them (asked: {:?})", asked));
                        break;
                    }
                }
                if !self.md_seen && !self.marker_since_eof {
                    self.fail(orc, "C08", k, "the metadata is missing but no NAK since the EOF asked for it".into());
                }
            }
        }
        // ---- C09: in acknowledged mode the file is verified only once it is judged complete; a checksum
        //      verification (visible as its failure) while a byte of [0, file size) is missing means the
        //      receiver's account of what it holds was wrong
        if acked {
            if let Some(fs) = self.eof_size {
                let all = complement(&norm(&self.held), 0, fs).is_empty();
                if !all && o.inds.iter().any(|i| matches!(i, Indication::Fault(f) if f.condition == Condition::FileChecksumFailure)) {
                    self.fail(orc, "C09", k, format!("the file was judged complete and verified although the bytes {:?} were never received", complement(&norm(&self.held), 0, fs)));
                }
            }
        }
        // ---- Finished indications
        for i in &o.inds {
            match i {
                Indication::Finished(f) => {
                    let success = f.report.condition == Condition::NoError
                        && f.delivery_code == DeliveryCode::Complete
                        && f.file_status == FileStatusCode::Retained;
                    if f.delivery_code == DeliveryCode::Complete && f.report.condition == Condition::NoError {
                        // complete delivery claimed: metadata and every byte must be there
                        let all = match self.eof_size {
                            Some(fs) => complement(&norm(&self.held), 0, fs).is_empty(),
                            None => false,
                        };
                        if !self.md_seen || (f.file_status == FileStatusCode::Retained && !all) {
                            let prop = if acked { "C01" } else { "C18" };
                            self.fail(orc, prop, k, format!("complete delivery reported with metadata received={} all bytes held={}", self.md_seen, all));
                            if self.md_seen {
                                // the receiver's account of what it holds said "complete" while a byte of the file is missing
                                self.fail(orc, "C09", k, "the file was judged complete although not every byte of [0, file size) is held".into());
                            }
                        }
                    }
                    if self.done && (success || matches!(f.report.condition, Condition::FileChecksumFailure | Condition::FilesizeError)) {
                        self.fail(orc, "C04", k, format!("second Finished indication ({:?}) after a successful delivery", f.report.condition));
                    }
                    if success && !self.done {
                        if self.cancelled_before_done {
                            self.fail(orc, "C10", k, "successful delivery reported after the transaction was cancelled".into());
                        }
                        self.done = true;
                        self.dest_snapshot = o.dest.clone();
                        if let Some(truth) = &self.cfg.truth {
                            if o.dest.as_ref() != Some(truth) {
                                self.fail(orc, "C01", k, format!("delivered file {} differs from the source {}", o.dest.as_ref().map(|d| hex(d)).unwrap_or("none".into()), hex(truth)));
                            }
                        }
                    }
                }
                Indication::Fault(f) => {
                    if self.done && matches!(f.condition, Condition::FileChecksumFailure | Condition::FilesizeError) {
                        self.fail(orc, "C04", k, format!("file-integrity fault {:?} after a successful delivery", f.condition));
                    }
                }
                _ => {}
            }
        }
        if self.done && o.dest != self.dest_snapshot {
            self.fail(orc, "C04", k, "delivered file changed after the successful Finished indication".into());
        }
        if self.cancelled_before_done && !self.done && o.dest != self.dest_at_cancel {
            self.fail(orc, "C10", k, "the file under the destination name appeared or changed after a cancel that preceded complete delivery".into());
        }
    }

    fn step_send(&mut self, k: usize, t: &[&str], o: &Obs, orc: &mut impl Write) {
        let acked = self.cfg.mode == TransmissionMode::Acknowledged;
        let flen = self.cfg.file.len() as u64;
        let flag = if self.cfg.large { FileSizeFlag::Large } else { FileSizeFlag::Small };
        // ---- C10: a user cancel of an active send transaction tells the peer: an EOF with the cancel
        //      condition goes out before the transaction has nothing left to send
        // ... and from then on it transmits no file data and no Metadata any more (a cancelled sender that went on
        // answering retransmission requests could complete the file at the receiver before the EOF(cancel) gets
        // there - seeded change C10f)
        if self.user_cancelled && t[0] != "CANCEL" {
            for (_, p) in &o.pdus {
                if matches!(&p.payload, PDUPayload::FileData(_) | PDUPayload::Directive(Operations::Metadata(_))) {
                    self.fail(orc, "C10", k, "the send transaction transmitted file data / Metadata after its user had cancelled it".into());
                }
            }
        }
        if t[0] == "CANCEL" && o.res == "ok" && o.st == TransactionState::Active {
            self.cancel_pending = true;
            self.user_cancelled = true;
        }
        if o.pdus.iter().any(|(_, p)| matches!(&p.payload, PDUPayload::Directive(Operations::EoF(e)) if e.condition != Condition::NoError)) {
            self.cancel_pending = false;
        }
        if o.st != TransactionState::Active || o.res != "ok" {
            if o.st == TransactionState::Terminated {
                self.cancel_pending = false;
            }
        } else if self.cancel_pending && !o.hp {
            self.fail(orc, "C10", k, "the cancelled sender has nothing left to send but never sent an EOF carrying the cancel condition".into());
            self.cancel_pending = false;
        }
        // ---- C13: the sending user is shown the filestore responses the Finished PDU carries
        if t[0] == "PDU" && t[1] == "FIN" && o.res == "ok" {
            let n: usize = t[6].parse().unwrap();
            for i in &o.inds {
                if let Indication::Finished(f) = i {
                    if f.filestore_responses.len() != n {
                        self.fail(orc, "C13", k, format!("the Finished PDU carried {n} filestore responses, the sending user was shown {}", f.filestore_responses.len()));
                    }
                }
            }
        }
        // ---- C07: what the receiver asked for (the part inside the file) is owed until retransmitted
        if matches!(t[0], "CANCEL" | "ABANDON") || (t[0] == "PDU" && t[1] == "FIN") || o.res != "ok" || o.st == TransactionState::Terminated {
            self.spoiled = true;
        }
        if o.inds.iter().any(|i| matches!(i, Indication::Fault(_) | Indication::Abandon(_))) {
            self.spoiled = true;
        }
        if acked && t[0] == "PDU" && t[1] == "NAK" && o.res == "ok" {
            let n: usize = t[4].parse().unwrap();
            for r in &t[5..5 + n] {
                let (a, b) = r.split_once('-').unwrap();
                let (a, b): (u64, u64) = (a.parse().unwrap(), b.parse().unwrap());
                if a == 0 && b == 0 {
                    self.owed_md = true;
                } else if a < b.min(flen) {
                    self.owed.push((a, b.min(flen)));
                }
            }
        }
        for (dest, p) in &o.pdus {
            // header
            let enc_len = p.payload.clone().encode(flag).len();
            if p.header.pdu_data_field_length as usize != enc_len {
                self.fail(orc, "C07", k, format!("length field {} but payload is {} bytes", p.header.pdu_data_field_length, enc_len));
            }
            if p.header.direction != Direction::ToReceiver
                || p.header.transmission_mode != self.cfg.mode
                || p.header.source_entity_id.to_u64() != 1
                || p.header.destination_entity_id.to_u64() != 2
                || p.header.transaction_sequence_number.to_u64() != 7
                || dest.to_u64() != 2
            {
                self.fail(orc, "C07", k, "emitted PDU does not carry the transaction's identifiers, mode and direction".into());
            }
            match &p.payload {
                PDUPayload::FileData(FileDataPDU::Unsegmented(d)) => {
                    let (off, len) = (d.offset, d.file_data.len() as u64);
                    if len == 0 {
                        self.fail(orc, "C07", k, format!("empty file data PDU at offset {off}"));
                    }
                    if len > self.cfg.seg as u64 {
                        self.fail(orc, "C07", k, format!("file data PDU of {len} bytes exceeds segment size {}", self.cfg.seg));
                    }
                    if off + len > flen || self.cfg.file[(off.min(flen)) as usize..((off + len).min(flen)) as usize] != d.file_data[..] {
                        self.fail(orc, "C07", k, format!("file data PDU ({off},{len}) does not carry the source file's bytes"));
                    }
                    self.max_sent = self.max_sent.max(off + len);
                    self.sent_ranges.push((off, off + len));
                    let mut rest = Vec::new();
                    for (a, b) in self.owed.drain(..) {
                        if a < off.min(b) {
                            rest.push((a, off.min(b)));
                        }
                        if (off + len).max(a) < b {
                            rest.push(((off + len).max(a), b));
                        }
                    }
                    self.owed = rest;
                    if !acked && self.eof_sent {
                        self.fail(orc, "C18", k, "file data sent after EOF in unacknowledged mode".into());
                    }
                }
                PDUPayload::Directive(Operations::Metadata(m)) => {
                    self.owed_md = false;
                    if m.file_size != flen
                        || m.source_filename.as_str() != self.cfg.src
                        || m.destination_filename.as_str() != self.cfg.dst
                        || m.checksum_type != self.cfg.ck
                        || m.closure_requested != self.cfg.closure
                    {
                        self.fail(orc, "C07", k, "Metadata PDU does not state the true names, size, checksum type or closure".into());
                    }
                }
                PDUPayload::Directive(Operations::EoF(e)) => {
                    if e.condition == Condition::NoError && (e.file_size != flen || e.checksum != ref_checksum(&self.cfg.file, self.cfg.ck)) {
                        self.fail(orc, "C07", k, format!("EOF states size {} checksum {} but the file has size {} checksum {}", e.file_size, e.checksum, flen, ref_checksum(&self.cfg.file, self.cfg.ck)));
                    }
                    if !self.eof_sent && e.condition == Condition::NoError {
                        // the first pass must have tiled the whole file before the EOF is sent
                        let missing = complement(&norm(&self.sent_ranges), 0, flen);
                        if !missing.is_empty() {
                            self.fail(orc, "C07", k, format!("EOF sent although the first pass never transmitted the bytes {:?}", missing));
                        }
                    }
                    if !self.eof_sent && !acked && self.cfg.closure && o.st == TransactionState::Terminated {
                        self.fail(orc, "C18", k, "unacknowledged sender with closure ended right after sending EOF".into());
                    }
                    self.eof_sent = true;
                }
                PDUPayload::Directive(Operations::Prompt(_)) => {}
                PDUPayload::Directive(Operations::Ack(_)) => {
                    if !acked {
                        self.fail(orc, "C18", k, "ACK PDU sent in unacknowledged mode".into());
                    }
                }
                other => {
                    self.fail(orc, "C07", k, format!("sender emitted an unexpected PDU {}", crate::tx::payload_text(other)));
                }
            }
        }
        // nothing left to send, still active, never cancelled/finished: every request has been answered
        if acked && !self.spoiled && o.st == TransactionState::Active && !o.hp && (self.owed_md || !self.owed.is_empty()) {
            self.fail(orc, "C07", k, format!("nothing left to send but NAK requests were never answered: metadata={} ranges={:?}", self.owed_md, self.owed));
            self.owed.clear();
            self.owed_md = false;
        }
        // ---- C20
        if o.pr != self.max_sent {
            self.fail(orc, "C20", k, format!("sender progress {} but the highest offset transmitted so far is {}", o.pr, self.max_sent));
        }
        if o.pr < self.last_pr || o.pr > flen {
            self.fail(orc, "C20", k, format!("sender progress {} decreased (was {}) or exceeds the file size {}", o.pr, self.last_pr, flen));
        }
        self.last_pr = o.pr;
        for i in &o.inds {
            let p = match i {
                Indication::Fault(f) | Indication::Abandon(f) => Some(f.progress),
                Indication::Resumed(r) => Some(r.progress),
                _ => None,
            };
            if let Some(p) = p {
                if p != self.max_sent {
                    self.fail(orc, "C20", k, format!("indication reports progress {p} but the highest offset transmitted is {}", self.max_sent));
                }
            }
        }
    }
}

// ------------------------------------------------------------------ generator

fn file_content(r: &mut Rng, n: usize) -> Vec<u8> {
    match r.below(4) {
        0 => vec![0u8; n],
        1 => {
            // word pairs summing to 0 mod 2^32 (checksum-neutral)
            let mut v = Vec::with_capacity(n);
            while v.len() + 8 <= n {
                let w = r.next() as u32;
                v.extend_from_slice(&w.to_be_bytes());
                v.extend_from_slice(&(0u32.wrapping_sub(w)).to_be_bytes());
            }
            while v.len() < n {
                v.push(0);
            }
            v
        }
        _ => r.bytes(n),
    }
}

fn handlers(r: &mut Rng) -> String {
    let mut items = Vec::new();
    for c in [1u8, 4, 5, 6, 7, 8] {
        if r.chance(1, 4) {
            items.push(format!("{c}:{}", r.pick(&["C", "S", "I", "A"])));
        }
    }
    items.join(",")
}

struct Plan {
    hdr: String,
    seg: u64,
    file: Vec<u8>,
    ta: u64,
    tn: u64,
    ti: u64,
    delay: u64,
    closure: bool,
    ck: &'static str,
    acked: bool,
}

fn plan(r: &mut Rng, stats: &mut Stats, is_recv: bool) -> Plan {
    let acked = r.chance(7, 10);
    // segment sizes: multiples of 4 and not (the modular checksum works on 4-octet words, so a segment size
    // that is not a multiple of 4 shifts every later segment against the word grid - seeded change C07e)
    let seg = *r.pick(&[16u64, 20, 32, 48, 18, 21, 27, 33]);
    let large = r.chance(1, 10);
    let seg = if large && seg < 32 { seg + 16 } else { seg };
    let delay = *r.pick(&[0u64, 0, 50, 700]);
    let imm = r.chance(1, 2);
    let maxc = 1 + r.below(4);
    let ti = 2 + r.below(8);
    let ta = 1 + r.below(5);
    let tn = 1 + r.below(6);
    let closure = r.chance(1, 2);
    let ck = if r.chance(3, 4) { "M" } else { "N" };
    let sizes = [0, 1, seg - 1, seg, seg + 1, 2 * seg, 3 * seg + 5, r.below(6 * seg + 1)];
    let n = *r.pick(&sizes) as usize;
    let file = file_content(r, n);
    let dst = if r.chance(1, 25) { "nodir/x" } else { "d" };
    stats.inc(if acked { "mode_acked" } else { "mode_unacked" });
    stats.inc(&format!("nak_{}{}", if imm { "I" } else { "D" }, if delay == 0 { "0" } else { "delay" }));
    stats.inc(&format!("filesize_{}", if n == 0 { "0".to_string() } else if (n as u64) < seg { "lt_seg".into() } else if (n as u64) == seg { "eq_seg".into() } else { "gt_seg".into() }));
    let mut hdr = format!(
        "mode={} nak={}{} seg={} large={} crc={} maxc={} ti={} ta={} tn={} h={} closure={} ck={} src={} dst={} idw={}",
        if acked { "A" } else { "U" },
        if imm { "I" } else { "D" },
        delay,
        seg,
        large as u8,
        r.chance(1, 2) as u8,
        maxc,
        ti,
        ta,
        tn,
        handlers(r),
        closure as u8,
        ck,
        hex(b"s"),
        hex(dst.as_bytes()),
        *r.pick(&[1u8, 2, 4, 8]),
    );
    if !is_recv {
        hdr.push_str(&format!(" file={}", hex(&file)));
    }
    Plan { hdr, seg, file, ta, tn, ti, delay, closure, ck, acked }
}

fn adv_choice(r: &mut Rng, p: &Plan) -> u64 {
    let c = [
        1,
        10,
        999,
        1000,
        1001,
        p.ta * 1000 - 1,
        p.ta * 1000,
        p.ta * 1000 + 1,
        p.tn * 1000 - 1,
        p.tn * 1000,
        p.tn * 1000 + 1,
        p.ti * 1000 - 1,
        p.ti * 1000,
        p.ti * 1000 + 1,
        p.delay.max(1) - 1,
        p.delay,
        p.delay + 1,
        r.below(3000),
    ];
    *r.pick(&c)
}

fn cks(file: &[u8], ck: &str) -> u32 {
    ref_checksum(file, if ck == "M" { ChecksumType::Modular } else { ChecksumType::Null })
}

fn stray_for_recv(r: &mut Rng, p: &Plan) -> String {
    let flen = p.file.len() as u64;
    match r.below(12) {
        0 => "PDU ACK E O 0 1".into(),
        1 => "PDU ACK F F 0 1".into(),
        2 => "PDU ACK F O 0 1".into(),
        3 => "PDU ACK F F 15 1".into(),
        4 => "PDU FIN 0 0 2 - 0".into(),
        5 => "PDU NAK 0 10 1 0-10".into(),
        6 => format!("PDU KA {}", r.below(100)),
        7 => format!("PDU PR {}", r.pick(&["N", "K"])),
        8 => format!("PDU EOF {} {} {} 1", r.pick(&[15u8, 1, 8, 4]), cks(&p.file, p.ck), flen),
        9 => {
            let n = 1 + r.below(8) as usize;
            let off = flen + r.below(40);
            format!("PDU FD {} {}", off, hex(&r.bytes(n)))
        }
        10 => format!("PDU FD {} -", r.below(flen + 1)),
        _ => format!("PDU MD {} {} {} {} {} 0 0", r.below(2), p.ck, flen + 1, hex(b"other"), hex(b"e")),
    }
}

fn user_op(r: &mut Rng) -> &'static str {
    *r.pick(&["CANCEL", "SUSPEND", "RESUME", "REPORT", "SUSPEND", "RESUME", "ABANDON"])
}

pub fn gen_recv(seed: u64, tier: &str, w: &mut impl Write, stats: &mut Stats) {
    let mut rng = Rng::new(seed ^ 0xEC7);
    let n = if tier == "thorough" { 40_000 } else { 2_500 };
    for case in 0..n {
        let (sub, mut r) = rng.fork();
        let p = plan(&mut r, stats, true);
        let flen = p.file.len() as u64;
        let calm = r.chance(1, 3); // calm cases: truthful inputs only, few perturbations
        // base exchange
        let mut base: Vec<String> = Vec::new();
        let dst_hex = p.hdr.split_whitespace().find(|x| x.starts_with("dst=")).unwrap()[4..].to_string();
        // a quarter of the transactions carry filestore requests (create a file, make a directory: fresh names,
        // so both succeed once and would fail on a second execution)
        let reqs: Vec<(&str, u8)> = if r.chance(1, 4) { if r.chance(1, 2) { vec![("rqa", 0x00), ("rqd", 0x50)] } else { vec![("rqa", 0x00)] } } else { vec![] };
        let req_text: String = reqs.iter().map(|(n, a)| { let mut b = vec![*a, n.len() as u8]; b.extend(n.as_bytes()); b.push(0); format!(" {}", hex(&b)) }).collect();
        base.push(format!("PDU MD {} {} {} {} {} {}{} {}", p.closure as u8, p.ck, flen, hex(b"s"), dst_hex, reqs.len(), req_text, if r.chance(1, 5) { format!("1 {}", hex(b"hello")) } else { "0".into() }));
        if !reqs.is_empty() {
            stats.inc("cases_with_filestore_requests");
        }
        let mut off = 0;
        let mut data_ops = Vec::new();
        while off < flen {
            let l = p.seg.min(flen - off);
            data_ops.push(format!("PDU FD {} {}", off, hex(&p.file[off as usize..(off + l) as usize])));
            off += l;
        }
        base.extend(data_ops.iter().cloned());
        base.push(format!("PDU EOF 0 {} {} -", cks(&p.file, p.ck), flen));
        // perturb: drop / duplicate / swap
        let (pd, pdup, pswap, pstray, puser) = if calm { (15, 8, 8, 0, 2) } else { (20, 10, 10, 8, 4) };
        let mut ops: Vec<String> = Vec::new();
        let mut dropped: Vec<String> = Vec::new();
        for b in &base {
            if r.chance(pd, 100) {
                dropped.push(b.clone());
                stats.inc("perturb_drop");
                continue;
            }
            ops.push(b.clone());
            if r.chance(pdup, 100) {
                ops.push(b.clone());
                stats.inc("perturb_dup");
            }
        }
        let mut i = 0;
        while i + 1 < ops.len() {
            if r.chance(pswap, 100) {
                ops.swap(i, i + 1);
                stats.inc("perturb_swap");
                i += 1;
            }
            i += 1;
        }
        // interleave sends, time, strays, user ops
        let mut script: Vec<String> = Vec::new();
        let mut truthful = true;
        for o in ops {
            script.push(o);
            if r.chance(1, 2) {
                script.push("SEND".into());
            }
            if r.chance(1, 6) {
                script.push(format!("ADV {}", adv_choice(&mut r, &p)));
                if r.chance(2, 3) {
                    script.push("TIMEOUT".into());
                }
            }
            if r.chance(pstray, 100) {
                let s = stray_for_recv(&mut r, &p);
                if s.starts_with("PDU FD") || s.starts_with("PDU EOF") || s.starts_with("PDU MD") {
                    truthful = false;
                }
                script.push(s);
                stats.inc("perturb_stray");
            }
            if r.chance(puser, 100) {
                script.push(user_op(&mut r).into());
                stats.inc("perturb_user_op");
            }
        }
        // tail: timers, NAK rounds, retransmission of what was dropped, closing handshake
        let rounds = 2 + r.below(5);
        for round in 0..rounds {
            for _ in 0..(1 + r.below(3)) {
                script.push("SEND".into());
            }
            script.push(format!("ADV {}", adv_choice(&mut r, &p)));
            script.push("TIMEOUT".into());
            script.push("SEND".into());
            script.push("SEND".into());
            if round == 0 || r.chance(1, 2) {
                // the "sender" answers: some of the dropped PDUs arrive now
                let mut rest = Vec::new();
                for d in dropped.drain(..) {
                    if r.chance(2, 3) {
                        script.push(d);
                        if r.chance(1, 2) {
                            script.push("SEND".into());
                        }
                    } else {
                        rest.push(d);
                    }
                }
                dropped = rest;
            }
            if r.chance(1, 3) {
                // duplicate EOF (its ACK was lost)
                script.push(format!("PDU EOF 0 {} {} -", cks(&p.file, p.ck), flen));
            }
            if !calm && r.chance(1, 6) {
                script.push(user_op(&mut r).into());
            }
            if r.chance(1, 4) {
                script.push("SEND".into());
                script.push("PDU ACK F F 0 1".into());
            }
        }
        for _ in 0..(1 + r.below(6)) {
            script.push(format!("ADV {}", *r.pick(&[p.ta * 1000, p.ti * 1000, p.tn * 1000, 1000])));
            script.push("TIMEOUT".into());
            script.push("SEND".into());
        }
        if r.chance(1, 2) {
            script.push("IDLE 400".into());
            stats.inc("idle_drive");
        }
        if r.chance(1, 20) {
            // targeted family: the Metadata PDU is overtaken by everything else and arrives only after the
            // transaction has been cancelled (by the user or by the peer) or suspended
            stats.inc("script_late_metadata_after_cancel");
            script.clear();
            truthful = true;
            for d in &data_ops {
                script.push(d.clone());
                if r.chance(1, 3) {
                    script.push("SEND".into());
                }
            }
            script.push(format!("PDU EOF 0 {} {} -", cks(&p.file, p.ck), flen));
            for _ in 0..r.below(3) {
                script.push("SEND".into());
            }
            match r.below(4) {
                0 => script.push(format!("PDU EOF 15 {} {} 1", cks(&p.file, p.ck), flen)),
                1 => {
                    script.push("SUSPEND".into());
                    script.push(base[0].clone());
                    script.push("RESUME".into());
                }
                _ => script.push("CANCEL".into()),
            }
            for _ in 0..r.below(3) {
                script.push("SEND".into());
            }
            script.push(base[0].clone());
            script.push("SEND".into());
            script.push("SEND".into());
            script.push(format!("ADV {}", adv_choice(&mut r, &p)));
            script.push("TIMEOUT".into());
            script.push("SEND".into());
            script.push("IDLE 300".into());
        }
        if data_ops.len() >= 3 && r.chance(1, 25) {
            // targeted family: a user suspends and resumes the receiver while a segment (or the metadata) is
            // missing and the EOF has not arrived - afterwards it must carry on as if never suspended
            stats.inc("script_suspend_resume_with_gap");
            script.clear();
            truthful = true;
            if r.chance(3, 4) {
                script.push(base[0].clone());
            }
            let lost = 1 + r.below(data_ops.len() as u64 - 2) as usize;
            for (i, d) in data_ops.iter().enumerate() {
                if i == lost {
                    continue;
                }
                script.push(d.clone());
                if i == lost + 1 {
                    script.push("SEND".into());
                    script.push("SUSPEND".into());
                    script.push(format!("ADV {}", adv_choice(&mut r, &p)));
                    script.push("RESUME".into());
                    script.push("SEND".into());
                    script.push("SEND".into());
                    script.push(format!("ADV {}", p.tn * 1000));
                    script.push("TIMEOUT".into());
                    script.push("SEND".into());
                }
            }
            script.push(format!("PDU EOF 0 {} {} -", cks(&p.file, p.ck), flen));
            script.push("SEND".into());
            script.push("SEND".into());
            script.push(data_ops[lost].clone());
            script.push("SEND".into());
            script.push("IDLE 200".into());
        }
        if flen > p.seg && r.chance(1, 25) {
            // targeted family: one segment is lost for good, and as much stray data arrives beyond the end of
            // the file (before or after the EOF): the receiver holds at least "file size" bytes, not the file
            stats.inc("script_hole_plus_data_beyond_eof");
            script.clear();
            truthful = false;
            let lost = r.below(data_ops.len() as u64) as usize;
            script.push(base[0].clone());
            let stray = format!("PDU FD {} {}", flen + r.below(3) * p.seg, hex(&r.bytes(p.seg as usize)));
            let stray_first = r.chance(1, 2);
            for (i, d) in data_ops.iter().enumerate() {
                if i != lost {
                    script.push(d.clone());
                }
            }
            if stray_first {
                script.push(stray.clone());
            }
            script.push(format!("PDU EOF 0 {} {} -", cks(&p.file, p.ck), flen));
            script.push("SEND".into());
            if !stray_first {
                script.push(stray.clone());
            }
            for _ in 0..3 {
                script.push("SEND".into());
            }
            script.push(format!("ADV {}", p.tn * 1000));
            script.push("TIMEOUT".into());
            script.push("SEND".into());
            script.push("SEND".into());
            script.push("IDLE 200".into());
        }
        let truth = if truthful { format!(" truth={}", hex(&p.file)) } else { String::new() };
        stats.inc(if truthful { "cases_truthful_inputs" } else { "cases_untruthful_inputs" });
        stats.add("ops", script.len() as u64);
        let _ = p.acked;
        let reqs_hdr = if reqs.is_empty() { String::new() } else { format!(" reqs={}", reqs.iter().map(|x| x.0).collect::<Vec<_>>().join(",")) };
        // one case in ten: an older, longer file already sits under the destination name
        let pre_hdr = if r.chance(1, 10) { stats.inc("cases_with_preexisting_destination"); format!(" pre={}", flen + 1 + r.below(40)) } else { String::new() };
        writeln!(w, "CASE r{case} sub={sub} {}{}{}{}", p.hdr, truth, reqs_hdr, pre_hdr).unwrap();
        for s in script {
            writeln!(w, "{s}").unwrap();
        }
    }
}

fn nak_for_send(r: &mut Rng, p: &Plan) -> String {
    let flen = p.file.len() as u64;
    let k = 1 + r.below(4);
    let mut reqs = Vec::new();
    for _ in 0..k {
        let a = r.below(flen + 20);
        let b = match r.below(8) {
            0 => a,                       // empty
            1 => a.saturating_sub(r.below(10)), // inverted or empty
            2 => a + p.seg * 3 + r.below(9),    // longer than a segment
            3 => flen + r.below(50),            // beyond EOF
            _ => a + 1 + r.below(p.seg + 3),
        };
        reqs.push(if r.chance(1, 10) { "0-0".to_string() } else { format!("{a}-{b}") });
    }
    format!("PDU NAK 0 {} {} {}", flen, reqs.len(), reqs.join(" "))
}

pub fn gen_send(seed: u64, tier: &str, w: &mut impl Write, stats: &mut Stats) {
    let mut rng = Rng::new(seed ^ 0x5E4D);
    let n = if tier == "thorough" { 40_000 } else { 2_500 };
    for case in 0..n {
        let (sub, mut r) = rng.fork();
        let p = plan(&mut r, stats, false);
        let flen = p.file.len() as u64;
        let nseg = (flen + p.seg - 1) / p.seg;
        let mut script: Vec<String> = Vec::new();
        let calm = r.chance(1, 3);
        let first_pass = nseg + 2 + r.below(3);
        for i in 0..first_pass {
            script.push("SEND".into());
            if p.acked && r.chance(if calm { 3 } else { 10 }, 100) {
                script.push(nak_for_send(&mut r, &p)); // NAK while the first pass is still running
                stats.inc("nak_during_first_pass");
            }
            if !calm && r.chance(4, 100) {
                script.push(user_op(&mut r).into());
                stats.inc("perturb_user_op");
            }
            if r.chance(5, 100) {
                script.push(format!("PROMPT {}", r.pick(&["N", "K"])));
            }
            if r.chance(5, 100) {
                script.push(format!("ADV {}", adv_choice(&mut r, &p)));
                script.push("TIMEOUT".into());
            }
            let _ = i;
        }
        let rounds = 2 + r.below(5);
        for _ in 0..rounds {
            match r.below(10) {
                0 | 1 => script.push("PDU ACK E O 0 1".into()),
                2 | 3 | 4 => {
                    if p.acked {
                        script.push(nak_for_send(&mut r, &p));
                        stats.inc("nak_after_eof");
                    }
                    for _ in 0..(1 + r.below(6)) {
                        script.push("SEND".into());
                    }
                }
                5 => script.push(format!("PDU KA {}", r.below(flen + 1))),
                6 => {
                    // a third of the Finished PDUs report filestore responses (written in request form)
                    let resp = if r.chance(1, 3) { format!("2 {} {}", hex(&[0x00, 3, b'r', b'q', b'a', 0]), hex(&[0x50, 3, b'r', b'q', b'd', 0])) } else { "0".to_string() };
                    script.push(format!("PDU FIN {} {} {} - {}", r.pick(&[0u8, 0, 15, 5, 1]), r.below(2), r.pick(&[2u8, 3]), resp))
                }
                7 => script.push(
                    r.pick(&["PDU ACK F F 0 1", "PDU FD 0 aa", "PDU EOF 0 0 0 -", "PDU PR N", "PDU MD 0 M 0 73 64 0 0"]).to_string(),
                ),
                _ => {
                    script.push(format!("ADV {}", adv_choice(&mut r, &p)));
                    script.push("TIMEOUT".into());
                    script.push("SEND".into());
                }
            }
            if !calm && r.chance(1, 8) {
                script.push(user_op(&mut r).into());
            }
            script.push("SEND".into());
        }
        for _ in 0..(1 + r.below(7)) {
            script.push(format!("ADV {}", *r.pick(&[p.ta * 1000, p.ti * 1000, 1000, p.ta * 1000 + 1])));
            script.push("TIMEOUT".into());
            script.push("SEND".into());
        }
        if r.chance(1, 2) {
            script.push("IDLE 400".into());
            stats.inc("idle_drive");
        }
        stats.add("ops", script.len() as u64);
        writeln!(w, "CASE s{case} sub={sub} {}", p.hdr).unwrap();
        for s in script {
            writeln!(w, "{s}").unwrap();
        }
    }
}
