//! Runner for NativeFileStore::get_native_path and every NativeFileStore operation (C12).
//! CASE <id> root=<escaped root | sandbox>
//! ops:  N <name>                 native path of the name (no filesystem access)
//!       C <name>                 components of the name (camino / std::path)
//!       F <op> <name1> <name2>   execute the operation in a temporary sandbox
//!                                T/{root, rootx, outside, top}; prints the native paths used
//! Names are printable text: `-` = empty, `%R` = the root path, `%xx` = a byte.
use crate::rng::Rng;
use crate::util::{cases, Stats};
use camino::{Utf8Component, Utf8Path, Utf8PathBuf};
use cfdp_core::filestore::{FileStore, NativeFileStore};
use cfdp_core::pdu::{FileStoreAction, FileStoreRequest};
use std::collections::BTreeMap;
use std::fs::{self, OpenOptions};
use std::io::{Read, Write};
use std::panic::{catch_unwind, AssertUnwindSafe};

fn unescape(root: &str, s: &str) -> String {
    if s == "-" {
        return String::new();
    }
    let b = s.as_bytes();
    let mut out: Vec<u8> = Vec::new();
    let mut i = 0;
    while i < b.len() {
        if b[i] == b'%' && i + 1 < b.len() && b[i + 1] == b'R' {
            out.extend_from_slice(root.as_bytes());
            i += 2;
        } else if b[i] == b'%' && i + 2 < b.len() {
            out.push(u8::from_str_radix(&s[i + 1..i + 3], 16).expect("bad escape"));
            i += 3;
        } else {
            out.push(b[i]);
            i += 1;
        }
    }
    String::from_utf8(out).expect("names in ops files must be valid UTF-8")
}

fn esc_raw(s: &str) -> String {
    let mut out = String::new();
    for &k in s.as_bytes() {
        let c = k as char;
        if k > 0x20 && k < 0x7f && c != '%' && c != ',' && c != ':' {
            out.push(c);
        } else {
            out.push_str(&format!("%{k:02x}"));
        }
    }
    out
}
fn escape(s: &str) -> String {
    if s.is_empty() {
        return "-".to_string();
    }
    if s == "-" {
        return "%2d".to_string();
    }
    esc_raw(s)
}

/// a native path with the root made symbolic: a leading root string becomes %R, and any later
/// path component equal to the i-th name of the root becomes %<i>, so that a run in a temporary
/// sandbox and the model's run with the root /sb1/sb2/sb3/root print the same text
fn relativise(root: &str, p: &str) -> String {
    let (pre, rest) = match p.strip_prefix(root) {
        Some(rest) => ("%R", rest),
        None => ("", p),
    };
    let rc: Vec<&str> = root.split('/').filter(|c| !c.is_empty()).collect();
    let body = rest
        .split('/')
        .map(|piece| match rc.iter().position(|c| *c == piece) {
            Some(i) => format!("%<{}>", i + 1),
            None => esc_raw(piece),
        })
        .collect::<Vec<_>>()
        .join("/");
    let r = format!("{pre}{body}");
    if r.is_empty() {
        "-".to_string()
    } else if r == "-" {
        "%2d".to_string()
    } else {
        r
    }
}

fn fmt_comps<'a>(cs: impl Iterator<Item = Utf8Component<'a>>) -> String {
    let v: Vec<String> = cs
        .map(|c| match c {
            Utf8Component::Prefix(_) => "X".to_string(),
            Utf8Component::RootDir => "R".to_string(),
            Utf8Component::CurDir => "C".to_string(),
            Utf8Component::ParentDir => "P".to_string(),
            Utf8Component::Normal(n) => format!("N:{}", escape(n)),
        })
        .collect();
    if v.is_empty() {
        "-".to_string()
    } else {
        v.join(",")
    }
}

/// Independent oracle: where does the kernel end up when it walks this absolute path
/// (no symbolic links)? Written on the raw string, not with std::path.
fn lexical_resolve(p: &str) -> Option<Vec<String>> {
    if !p.starts_with('/') {
        return None; // relative: depends on the working directory, certainly not confined
    }
    let mut st: Vec<String> = Vec::new();
    for piece in p.split('/') {
        match piece {
            "" | "." => {}
            ".." => {
                st.pop();
            }
            x => st.push(x.to_string()),
        }
    }
    Some(st)
}
fn is_under(p: &str, dir: &str) -> bool {
    match (lexical_resolve(p), lexical_resolve(dir)) {
        (Some(a), Some(b)) => a.len() >= b.len() && a[..b.len()] == b[..],
        _ => false,
    }
}

fn native(store: &NativeFileStore, name: &str) -> Option<String> {
    catch_unwind(AssertUnwindSafe(|| store.get_native_path(name).to_string())).ok()
}
fn fmt_native(root: &str, p: &Option<String>) -> String {
    match p {
        Some(s) => relativise(root, s),
        None => "PANIC".to_string(),
    }
}

// ---------------------------------------------------------------- sandbox

const OUTSIDE_FILES: [(&str, usize); 4] = [("rootx/s", 1001), ("outside/o", 1002), ("outside/od/og", 1003), ("top", 1004)];

struct Sandbox {
    _guard: tempfile::TempDir,
    t: Utf8PathBuf,
    root: Utf8PathBuf,
}
impl Sandbox {
    fn new() -> Self {
        // The root always has exactly four components, like the model's /sb1/sb2/sb3/root (names that
        // climb out of a sibling of the root expose the names above it, position by position):
        // /dev/shm/<random>/root (memory-backed: create_file fsyncs) or /tmp/<random>/pad/root.
        let (guard, t) = match tempfile::Builder::new().prefix("cfdpverif").tempdir_in("/dev/shm") {
            Ok(g) => {
                let t = Utf8PathBuf::from_path_buf(g.path().to_path_buf()).expect("utf8 tempdir");
                (g, t)
            }
            Err(_) => {
                let g = tempfile::Builder::new().prefix("cfdpverif").tempdir_in("/tmp").expect("tempdir in /tmp");
                let t = Utf8PathBuf::from_path_buf(g.path().to_path_buf()).expect("utf8 tempdir").join("pad");
                fs::create_dir_all(&t).expect("sandbox");
                (g, t)
            }
        };
        let root = t.join("root");
        let sb = Sandbox { _guard: guard, t, root };
        sb.build_outside();
        sb.reset_inside();
        sb
    }
    fn build_outside(&self) {
        for d in ["rootx", "outside", "top"] {
            let p = self.t.join(d);
            let _ = fs::remove_dir_all(&p);
            let _ = fs::remove_file(&p);
        }
        // anything else that appeared directly below T
        if let Ok(rd) = fs::read_dir(&self.t) {
            for e in rd.flatten() {
                if e.file_name() != "root" {
                    let _ = fs::remove_dir_all(e.path());
                    let _ = fs::remove_file(e.path());
                }
            }
        }
        fs::create_dir_all(self.t.join("rootx")).unwrap();
        fs::create_dir_all(self.t.join("outside/od")).unwrap();
        for (f, len) in OUTSIDE_FILES {
            let mut c = format!("OUTSIDE-SECRET {f} ").into_bytes();
            c.resize(len, b'#');
            fs::write(self.t.join(f), c).unwrap();
        }
    }
    fn reset_inside(&self) {
        let _ = fs::remove_dir_all(&self.root);
        let _ = fs::remove_file(&self.root);
        fs::create_dir_all(self.root.join("d")).unwrap();
        fs::write(self.root.join("f"), b"inside-f").unwrap();
        fs::write(self.root.join("d/g"), b"inside-g").unwrap();
    }
    /// everything below T except the subtree of root: relative path -> None (dir) | Some(content)
    fn snapshot(&self) -> BTreeMap<String, Option<Vec<u8>>> {
        fn walk(base: &Utf8Path, dir: &Utf8Path, skip: &Utf8Path, out: &mut BTreeMap<String, Option<Vec<u8>>>) {
            if let Ok(rd) = fs::read_dir(dir) {
                for e in rd.flatten() {
                    let p = Utf8PathBuf::from_path_buf(e.path()).unwrap();
                    if p == skip {
                        continue;
                    }
                    let rel = p.strip_prefix(base).unwrap().to_string();
                    let ft = e.file_type().unwrap();
                    if ft.is_dir() {
                        out.insert(rel, None);
                        walk(base, &p, skip, out);
                    } else {
                        out.insert(rel, Some(fs::read(&p).unwrap_or_default()));
                    }
                }
            }
        }
        let mut out = BTreeMap::new();
        walk(&self.t, &self.t, &self.root, &mut out);
        out
    }
}

fn describe_change(a: &BTreeMap<String, Option<Vec<u8>>>, b: &BTreeMap<String, Option<Vec<u8>>>) -> String {
    let mut v = Vec::new();
    for (k, x) in a {
        match b.get(k) {
            None => v.push(format!("removed {k}")),
            Some(y) if y != x => v.push(format!("changed {k}")),
            _ => {}
        }
    }
    for k in b.keys() {
        if !a.contains_key(k) {
            v.push(format!("created {k}"));
        }
    }
    v.join("; ")
}

const SINGLE_OPS: [&str; 9] = ["create_file", "delete_file", "create_directory", "remove_directory", "list_directory", "open_r", "open_w", "open_a", "get_size"];
const DOUBLE_OPS: [&str; 3] = ["rename_file", "append_file", "replace_file"];

fn action(k: u8) -> FileStoreAction {
    match k {
        0 => FileStoreAction::CreateFile,
        1 => FileStoreAction::DeleteFile,
        2 => FileStoreAction::RenameFile,
        3 => FileStoreAction::AppendFile,
        4 => FileStoreAction::ReplaceFile,
        5 => FileStoreAction::CreateDirectory,
        6 => FileStoreAction::RemoveDirectory,
        7 => FileStoreAction::DenyFile,
        _ => FileStoreAction::DenyDirectory,
    }
}

/// executes one operation; returns (textual result, data read through it if any)
fn exec(store: &NativeFileStore, op: &str, a: &str, b: &str) -> (String, Vec<u8>) {
    let mut leak: Vec<u8> = Vec::new();
    let ok = |r: Result<(), cfdp_core::filestore::FileStoreError>| if r.is_ok() { "ok".to_string() } else { "err".to_string() };
    let res = match op {
        "create_file" => ok(store.create_file(a)),
        "delete_file" => ok(store.delete_file(a)),
        "create_directory" => ok(store.create_directory(a)),
        "remove_directory" => ok(store.remove_directory(a)),
        "rename_file" => ok(store.rename_file(a, b)),
        "append_file" => ok(store.append_file(a, b)),
        "replace_file" => ok(store.replace_file(a, b)),
        "list_directory" => match store.list_directory(a) {
            Ok(s) => {
                leak = s.into_bytes();
                "ok".to_string()
            }
            Err(_) => "err".to_string(),
        },
        "open_r" => match store.open(a, OpenOptions::new().read(true)) {
            Ok(mut f) => {
                let _ = f.read_to_end(&mut leak);
                "ok".to_string()
            }
            Err(_) => "err".to_string(),
        },
        "open_w" => match store.open(a, OpenOptions::new().create(true).write(true).truncate(true)) {
            Ok(mut f) => {
                let _ = f.write_all(b"written-by-test");
                "ok".to_string()
            }
            Err(_) => "err".to_string(),
        },
        "open_a" => match store.open(a, OpenOptions::new().append(true)) {
            Ok(mut f) => {
                let _ = f.write_all(b"appended-by-test");
                "ok".to_string()
            }
            Err(_) => "err".to_string(),
        },
        "get_size" => match store.get_size(a) {
            Ok(n) => format!("size={n}"),
            Err(_) => "err".to_string(),
        },
        r if r.starts_with("req") => {
            let k: u8 = r[3..].parse().unwrap();
            let req = FileStoreRequest { action_code: action(k), first_filename: a.into(), second_filename: b.into() };
            let rep = store.process_request(&req);
            format!("status={:#04x}", rep.action_and_status.as_u8())
        }
        other => panic!("path: unknown operation {other}"),
    };
    (res, leak)
}

pub fn run(ops: &str, out: &mut impl Write, orc: &mut impl Write) {
    for (hdr, lines) in cases(ops) {
        let id = &hdr[0];
        writeln!(out, "CASE {id}").unwrap();
        let root_param = hdr.iter().find_map(|t| t.strip_prefix("root=")).unwrap_or("sandbox");
        let sandbox = if root_param == "sandbox" { Some(Sandbox::new()) } else { None };
        let root: String = match &sandbox {
            Some(sb) => sb.root.to_string(),
            None => unescape("", root_param),
        };
        let store = NativeFileStore::new(&root);
        // the oracle's root: absolute and normal, so the raw string resolution applies
        for (i, l) in lines.iter().enumerate() {
            let t: Vec<&str> = l.split_whitespace().collect();
            match t[0] {
                "N" => {
                    let name = unescape(&root, t[1]);
                    match native(&store, &name) {
                        Some(p) => {
                            let pb = Utf8PathBuf::from(&p);
                            let after = match pb.strip_prefix(&root) {
                                Ok(rest) => fmt_comps(rest.components()),
                                Err(_) => format!("!{}", fmt_comps(pb.components())),
                            };
                            writeln!(out, "{} {}", relativise(&root, &p), after).unwrap();
                            if !is_under(&p, &root) {
                                writeln!(orc, "FAIL C12 case={id} op={i} get_native_path({}) = {} which resolves outside the root {}", escape(&name), escape(&p), escape(&root)).unwrap();
                            }
                        }
                        None => {
                            writeln!(out, "PANIC").unwrap();
                            writeln!(orc, "FAIL C12 case={id} op={i} get_native_path({}) panicked", escape(&name)).unwrap();
                        }
                    }
                }
                "C" => {
                    let name = unescape(&root, t[1]);
                    writeln!(out, "{}", fmt_comps(Utf8Path::new(&name).components())).unwrap();
                }
                "F" => {
                    let sb = sandbox.as_ref().expect("F ops need root=sandbox");
                    let (op, a, b) = (t[1], unescape(&root, t[2]), unescape(&root, t[3]));
                    let is_req = op.starts_with("req");
                    let two = is_req || DOUBLE_OPS.contains(&op);
                    let na = native(&store, &a);
                    let nb = native(&store, &b);
                    let na2 = na.as_ref().and_then(|p| native(&store, p));
                    let nb2 = nb.as_ref().and_then(|p| native(&store, p));
                    if is_req {
                        writeln!(out, "{} {} {} {}", fmt_native(&root, &na), fmt_native(&root, &nb), fmt_native(&root, &na2), fmt_native(&root, &nb2)).unwrap();
                    } else if two {
                        writeln!(out, "{} {}", fmt_native(&root, &na), fmt_native(&root, &nb)).unwrap();
                    } else {
                        writeln!(out, "{}", fmt_native(&root, &na)).unwrap();
                    }
                    // paths the operation will hand to std::fs
                    let mut used: Vec<&Option<String>> = vec![&na];
                    if two {
                        used.push(&nb);
                    }
                    if is_req {
                        used.push(&na2);
                        used.push(&nb2);
                    }
                    let mut escaped_root = false;
                    let mut safe = true;
                    for p in &used {
                        match p {
                            Some(p) => {
                                if !is_under(p, &root) {
                                    escaped_root = true;
                                    writeln!(orc, "FAIL C12 case={id} op={i} {op}({}, {}) uses the native path {} which resolves outside the root", relativise(&root, &a), relativise(&root, &b), relativise(&root, p)).unwrap();
                                }
                                if !is_under(p, sb.t.as_str()) {
                                    safe = false; // would act outside the temporary sandbox: never executed
                                }
                            }
                            None => {
                                safe = false;
                                writeln!(orc, "FAIL C12 case={id} op={i} get_native_path panicked for an argument of {op}").unwrap();
                            }
                        }
                    }
                    if !safe {
                        continue;
                    }
                    let before = sb.snapshot();
                    let r = catch_unwind(AssertUnwindSafe(|| exec(&store, op, &a, &b)));
                    let after = sb.snapshot();
                    let mut dirty = false;
                    if before != after {
                        dirty = true;
                        writeln!(orc, "FAIL C12 case={id} op={i} {op}({}, {}) changed the filesystem outside the root: {}", relativise(&root, &a), relativise(&root, &b), describe_change(&before, &after)).unwrap();
                    }
                    match r {
                        Ok((res, leak)) => {
                            let text = String::from_utf8_lossy(&leak);
                            if text.contains("OUTSIDE-SECRET") {
                                writeln!(orc, "FAIL C12 case={id} op={i} {op}({}) returned the content of a file outside the root", relativise(&root, &a)).unwrap();
                            }
                            if op == "list_directory" {
                                for line in text.lines().skip(2) {
                                    let f: Vec<&str> = line.split(',').collect();
                                    if f.len() >= 2 && ["outside", "rootx", "top", "o", "od", "og", "s"].contains(&f[1]) {
                                        writeln!(orc, "FAIL C12 case={id} op={i} list_directory({}) listed the entry {} which is outside the root", relativise(&root, &a), f[1]).unwrap();
                                    }
                                }
                            }
                            if let Some(n) = res.strip_prefix("size=") {
                                if OUTSIDE_FILES.iter().any(|(_, l)| l.to_string() == n) {
                                    writeln!(orc, "FAIL C12 case={id} op={i} get_size({}) returned the size {n} of a file outside the root", relativise(&root, &a)).unwrap();
                                }
                            }
                        }
                        Err(_) => {
                            writeln!(orc, "FAIL C12 case={id} op={i} {op}({}, {}) panicked", relativise(&root, &a), relativise(&root, &b)).unwrap();
                        }
                    }
                    let _ = escaped_root;
                    if dirty {
                        sb.build_outside();
                    }
                    sb.reset_inside();
                }
                other => panic!("path: unknown op {other}"),
            }
        }
    }
}

// ---------------------------------------------------------------- generator

/// all sequences of 1..=max tokens, joined with '/'
fn enumerate(tokens: &[&str], max: usize, f: &mut dyn FnMut(String, usize)) {
    let k = tokens.len();
    for len in 1..=max {
        let count = k.pow(len as u32);
        for c in 0..count {
            let mut x = c;
            let mut parts = Vec::with_capacity(len);
            for _ in 0..len {
                parts.push(tokens[x % k]);
                x /= k;
            }
            f(parts.join("/"), len);
        }
    }
}
/// all sequences of 1..=max tokens, concatenated without separators
fn enumerate_concat(tokens: &[&str], max: usize, f: &mut dyn FnMut(String)) {
    let k = tokens.len();
    for len in 1..=max {
        for c in 0..k.pow(len as u32) {
            let mut x = c;
            let mut s = String::new();
            for _ in 0..len {
                s.push_str(tokens[x % k]);
                x /= k;
            }
            f(s);
        }
    }
}
fn tok(s: &str) -> String {
    // a name as written in an ops file (the generator only produces printable names; %R stays)
    if s.is_empty() {
        "-".to_string()
    } else if s == "-" {
        "%2d".to_string()
    } else {
        s.to_string()
    }
}

struct CaseWriter<'a, W: Write> {
    w: &'a mut W,
    case: u64,
    in_case: usize,
    per_case: usize,
    hdr: String,
}
impl<'a, W: Write> CaseWriter<'a, W> {
    fn start(&mut self, prefix: &str, hdr: &str, per_case: usize) {
        self.hdr = format!("{prefix} {hdr}");
        self.per_case = per_case;
        self.in_case = usize::MAX;
    }
    fn op(&mut self, line: &str) {
        if self.in_case >= self.per_case {
            let (prefix, rest) = self.hdr.split_once(' ').unwrap();
            writeln!(self.w, "CASE {prefix}{} {rest}", self.case).unwrap();
            self.case += 1;
            self.in_case = 0;
        }
        writeln!(self.w, "{line}").unwrap();
        self.in_case += 1;
    }
}

pub fn gen(seed: u64, tier: &str, w: &mut impl Write, stats: &mut Stats) {
    let mut rng = Rng::new(seed ^ 0xC12);
    let thorough = tier == "thorough";
    let mut cw = CaseWriter { w, case: 0, in_case: 0, per_case: 256, hdr: String::new() };

    // (1a) the property's alphabet, every sequence of up to 5 (thorough 6) components, root /vr/root
    let alphabet = ["a", "b", ".", "..", "", "/", "%R", "%Rx"];
    cw.start("e", "root=/vr/root exhaustive", 512);
    enumerate(&alphabet, if thorough { 6 } else { 5 }, &mut |s, len| {
        cw.op(&format!("N {}", tok(&s)));
        stats.inc(&format!("native_exhaustive_len{len}"));
        if len <= 3 {
            cw.op(&format!("C {}", tok(&s)));
            stats.inc("components_exhaustive");
        }
    });
    // (1b) other roots: "/" and a root written with a trailing separator and a doubled one
    for root in ["/", "/r/", "//vr//root"] {
        cw.start("o", &format!("root={root} exhaustive"), 512);
        enumerate(&alphabet, 4, &mut |s, _| {
            cw.op(&format!("N {}", tok(&s)));
            stats.inc("native_other_roots");
        });
    }
    // (1c) concatenations without separators ("..a", "a..", ".//", "<root>.." ...)
    cw.start("c", "root=/vr/root concatenated", 512);
    enumerate_concat(&["a", ".", "/", "%R"], if thorough { 7 } else { 6 }, &mut |s| {
        cw.op(&format!("N {}", tok(&s)));
        cw.op(&format!("C {}", tok(&s)));
        stats.inc("native_concat");
    });
    // (1d) random names, 20% malformed (control bytes, spaces, '%', '-', non-ASCII UTF-8, long runs of "../")
    cw.start("r", "root=/vr/root random", 256);
    let pieces = ["a", "b", ".", "..", "/", "//", "%R", "%Rx", "%R/..", "...", ".a", "a.", "%c3%a9", "%e6%97%a5", "%20", "%25", "%2d", "%01", "%7f", ",", ":"];
    for _ in 0..(if thorough { 20000 } else { 3000 }) {
        let malformed = rng.chance(1, 5);
        let n = 1 + rng.below(if malformed { 12 } else { 7 });
        let mut s = String::new();
        for _ in 0..n {
            let p = if malformed { *rng.pick(&pieces) } else { *rng.pick(&pieces[..11]) };
            s.push_str(&match p {
                "," => "%2c".to_string(),
                ":" => "%3a".to_string(),
                x => x.to_string(),
            });
            if rng.chance(2, 3) {
                s.push('/');
            }
        }
        cw.op(&format!("N {}", tok(&s)));
        cw.op(&format!("C {}", tok(&s)));
        stats.inc(if malformed { "native_random_malformed" } else { "native_random" });
    }

    // (2) every operation, executed in the sandbox
    let fs_tokens = ["", ".", "..", "f", "d", "o", "outside", "%R", "%Rx", "s", "new"];
    let depth = if thorough { 4 } else { 3 };
    let mut names: Vec<String> = Vec::new();
    enumerate(&fs_tokens, depth, &mut |s, _| names.push(s));
    // hand-written attacks (deeper than the enumeration)
    for s in [
        "%R/../outside/o", "%R/../outside", "%R/../outside/od/og", "%R/../rootx/s", "%R/../top", "%R/../new", "%R/..",
        "%R/d/../../outside/o", "%R/./../outside/o", "%R//..//outside//o", "%R/../root/../outside/o",
        "d/../../outside/o", "../outside/o", "/../outside/o", "./../outside/o", "%Rx/s", "%Rx", "%Rx/../outside/o",
        "%R/d/g", "%R/f", "%R", "%R/", "d/g", "f", "d", "d/../f", "%R/d/../f",
    ] {
        names.push(s.to_string());
    }
    cw.start("s", "root=sandbox operations", 200);
    for name in &names {
        for op in SINGLE_OPS {
            cw.op(&format!("F {op} {} -", tok(name)));
            stats.inc(&format!("fsop_{op}"));
        }
    }
    // two-name operations and requests: second name drawn at random, both orders
    let inside = ["f", "d/g", "new", "d", "%R/f"];
    for name in &names {
        for op in DOUBLE_OPS {
            let other = *rng.pick(&inside);
            if rng.chance(1, 2) {
                cw.op(&format!("F {op} {} {}", tok(name), tok(other)));
            } else {
                cw.op(&format!("F {op} {} {}", tok(other), tok(name)));
            }
            stats.inc(&format!("fsop_{op}"));
        }
        for k in 0..9u8 {
            let other = *rng.pick(&inside);
            let two = (2..=4).contains(&k);
            if two && rng.chance(1, 2) {
                cw.op(&format!("F req{k} {} {}", tok(other), tok(name)));
            } else {
                cw.op(&format!("F req{k} {} {}", tok(name), if two { tok(other) } else { "-".to_string() }));
            }
            stats.inc(&format!("fsop_request_{k}"));
        }
    }
    // both names hostile
    for _ in 0..(if thorough { 4000 } else { 600 }) {
        let a = rng.pick(&names).clone();
        let b = rng.pick(&names).clone();
        let op = if rng.chance(1, 2) { rng.pick(&DOUBLE_OPS).to_string() } else { format!("req{}", 2 + rng.below(3)) };
        cw.op(&format!("F {op} {} {}", tok(&a), tok(&b)));
        stats.inc("fsop_two_hostile_names");
    }
}
