//! Correspondence harness: runs the real cfdp-rs code on generated inputs / operation
//! sequences and prints one observation line per operation, in the same textual format
//! as the OCaml driver of the extracted Coq model.
//!
//!   harness <component> gen <seed> <tier> <outdir>   writes <outdir>/ops.txt, gen_stats.json
//!   harness <component> run <opsfile> <outdir>       writes <outdir>/impl.txt, oracle.txt
mod checksum;
mod fsmodel;
mod link;
mod path;
mod crc;
mod daemon;
mod codec;
mod rng;
mod segments;
mod tx;
mod txgen;
mod udp;
mod util;

use std::fs;
use std::io::{BufWriter, Write};

fn main() {
    let args: Vec<String> = std::env::args().collect();
    if args.len() < 5 {
        eprintln!("usage: harness <component> gen <seed> <tier> <outdir> | <component> run <ops> <outdir>");
        std::process::exit(2);
    }
    // panics of the code under test are caught and reported as PANIC; keep stderr quiet
    std::panic::set_hook(Box::new(|_| {}));
    // a logger that accepts every level and discards the text: the arguments of the log statements of the
    // code under test are evaluated as they are in a deployed daemon (a panic inside one is a panic)
    struct Sink;
    impl log::Log for Sink {
        fn enabled(&self, _: &log::Metadata) -> bool {
            true
        }
        fn log(&self, record: &log::Record) {
            let _ = format!("{}", record.args());
        }
        fn flush(&self) {}
    }
    static SINK: Sink = Sink;
    let _ = log::set_logger(&SINK);
    log::set_max_level(log::LevelFilter::Trace);
    let comp = args[1].as_str();
    match args[2].as_str() {
        "gen" => {
            let seed: u64 = args[3].parse().expect("seed");
            let tier = args[4].as_str();
            let outdir = &args[5];
            fs::create_dir_all(outdir).unwrap();
            let mut w = BufWriter::new(fs::File::create(format!("{outdir}/ops.txt")).unwrap());
            let mut stats = util::Stats::default();
            match comp {
                "segments" => segments::gen(seed, tier, &mut w, &mut stats),
                "recv" => txgen::gen_recv(seed, tier, &mut w, &mut stats),
                "send" => txgen::gen_send(seed, tier, &mut w, &mut stats),
                "link" => link::gen(seed, tier, &mut w, &mut stats),
                "daemon" => daemon::gen(seed, tier, &mut w, &mut stats),
                "checksum" => checksum::gen(seed, tier, &mut w, &mut stats),
                "path" => path::gen(seed, tier, &mut w, &mut stats),
                "udp" => udp::gen(seed, tier, &mut w, &mut stats),
                "fsmodel" => fsmodel::gen(seed, tier, &mut w, &mut stats),
                "crc" => crc::gen(seed, tier, &mut w, &mut stats),
                "codec" => codec::gen(seed, tier, &mut w, &mut stats),
                _ => panic!("unknown component {comp}"),
            }
            w.flush().unwrap();
            fs::write(format!("{outdir}/gen_stats.json"), stats.to_json()).unwrap();
        }
        "run" => {
            let ops = fs::read_to_string(&args[3]).expect("ops file");
            let outdir = &args[4];
            fs::create_dir_all(outdir).unwrap();
            let mut out = BufWriter::new(fs::File::create(format!("{outdir}/impl.txt")).unwrap());
            let mut orc = BufWriter::new(fs::File::create(format!("{outdir}/oracle.txt")).unwrap());
            match comp {
                "segments" => segments::run(&ops, &mut out, &mut orc),
                "recv" => tx::run(&ops, true, &mut out, &mut orc),
                "send" => tx::run(&ops, false, &mut out, &mut orc),
                "link" => {
                    let mut rs = util::Stats::default();
                    link::run(&ops, &mut out, &mut orc, &mut rs);
                    fs::write(format!("{outdir}/run_stats.json"), rs.to_json()).unwrap();
                }
                "daemon" => {
                    // the handler calls actually made (with the run-time facts routing depends on) are
                    // what the model driver replays
                    let mut ev = BufWriter::new(fs::File::create(format!("{outdir}/events.ops")).unwrap());
                    let mut rs = util::Stats::default();
                    daemon::run(&ops, &mut out, &mut orc, &mut ev, &mut rs);
                    ev.flush().unwrap();
                    fs::write(format!("{outdir}/run_stats.json"), rs.to_json()).unwrap();
                }
                "checksum" => checksum::run(&ops, &mut out, &mut orc),
                "path" => path::run(&ops, &mut out, &mut orc),
                "udp" => udp::run(&ops, &mut out, &mut orc),
                "fsmodel" => fsmodel::run(&ops, &mut out, &mut orc),
                "crc" => crc::run(&ops, &mut out, &mut orc),
                "codec" => codec::run(&ops, &mut out, &mut orc),
                _ => panic!("unknown component {comp}"),
            }
            out.flush().unwrap();
            orc.flush().unwrap();
        }
        other => panic!("unknown mode {other}"),
    }
}
