(* model runner for component `fsmodel` (Model/FsModel.v)
   CASE <id>
   ops:  I                                  reset to the initial tree {f1="one", f2="two", d1/, d1/f="three"}
         Q <action> <name1> <name2>         one process_request on the current tree
         X <k> <a1> <n1> <m1> ... (k x)     reset, then the whole list through the fail-the-rest loop
   Names: printable text, `-` = empty, `%R` = the root, `%xx` = a byte (as in component `path`).
   Observation: statuses (hex of FileStoreStatus::as_u8) `|` sorted recursive listing. *)
open Model
open Conv

let root = "/sb1/sb2/root"
let bytes_of_string (s : string) : n list = List.init (String.length s) (fun i -> n_of_int (Char.code s.[i]))
let string_of_bytes (b : n list) : string = String.concat "" (List.map (fun x -> String.make 1 (Char.chr (int_of_n x))) b)

let unescape (s : string) : string =
  if s = "-" then ""
  else begin
    let b = Buffer.create 16 in
    let n = String.length s in
    let i = ref 0 in
    while !i < n do
      if s.[!i] = '%' && !i + 1 < n && s.[!i + 1] = 'R' then begin
        Buffer.add_string b root;
        i := !i + 2
      end
      else if s.[!i] = '%' && !i + 2 < n then begin
        Buffer.add_char b (Char.chr (int_of_string ("0x" ^ String.sub s (!i + 1) 2)));
        i := !i + 3
      end
      else begin
        Buffer.add_char b s.[!i];
        incr i
      end
    done;
    Buffer.contents b
  end

let esc_raw (s : string) : string =
  let b = Buffer.create 16 in
  String.iter
    (fun c ->
      let k = Char.code c in
      if k > 0x20 && k < 0x7f && c <> '%' && c <> ',' && c <> ':' && c <> '=' && c <> '|' then Buffer.add_char b c
      else Buffer.add_string b (Printf.sprintf "%%%02x" k))
    s;
  Buffer.contents b

let name s = bytes_of_string (unescape s)
let b s = bytes_of_string s

let initial () =
  fs_tree_of
    [ ([], None); ([ b "f1" ], Some (b "one")); ([ b "f2" ], Some (b "two")); ([ b "d1" ], None);
      ([ b "d1"; b "f" ], Some (b "three")) ]

let listing t =
  let es = fs_entries t in
  if not (List.exists (fun (p, _) -> p = []) es) then "NOROOT"
  else begin
    let lines =
      List.filter_map
        (fun (p, c) ->
          if p = [] then None
          else begin
            let path = String.concat "/" (List.map (fun x -> esc_raw (string_of_bytes x)) p) in
            Some (match c with None -> path ^ "/" | Some d -> path ^ "=" ^ hex_of_bytes d)
          end)
        es
    in
    if lines = [] then "EMPTY" else String.concat " " (List.sort compare lines)
  end

let request a n1 n2 =
  match fs_mk_request (n_of_string a) (name n1) (name n2) with
  | Some r -> r
  | None -> failwith ("fsmodel: bad action " ^ a)

let run path =
  List.iter
    (fun (hdr, ops) ->
      Printf.printf "CASE %s\n" (List.hd hdr);
      let t = ref (initial ()) in
      let rootb = b root in
      List.iter
        (fun l ->
          match split_ws l with
          | [ "I" ] ->
              t := initial ();
              print_endline (listing !t)
          | [ "Q"; a; n1; n2 ] -> (
              match fs_process_request rootb !t (request a n1 n2) with
              | Some (rep, t') ->
                  t := t';
                  Printf.printf "%02x | %s\n" (int_of_n (fs_resp_code rep)) (listing !t)
              | None -> print_endline "PANIC")
          | "X" :: _k :: rest -> (
              let rec reqs = function
                | a :: n1 :: n2 :: tl -> request a n1 n2 :: reqs tl
                | [] -> []
                | _ -> failwith "fsmodel: bad X op"
              in
              t := initial ();
              match fs_exec_requests rootb !t (reqs rest) with
              | Some (out, t') ->
                  t := t';
                  let sts = List.map (fun rep -> Printf.sprintf "%02x" (int_of_n (fs_resp_code rep))) out in
                  Printf.printf "%s | %s\n" (if sts = [] then "-" else String.concat "," sts) (listing !t)
              | None -> print_endline "PANIC")
          | _ -> failwith ("fsmodel: bad op " ^ l))
        ops)
    (read_cases path)
