(* model runner for component `path` (Model/Path.v)
   CASE <id> root=<escaped root | sandbox>
   ops:  N <name>                 native path of the name
         C <name>                 components of the name
         F <op> <name1> <name2>   a filestore operation: the native paths it uses
   Names are printable text: `-` = empty, `%R` = the root, `%xx` = a byte.
   Native paths are printed with the root string replaced by %R, so that the
   real run (temporary sandbox) and the model run (fixed root) are comparable. *)
open Model
open Conv

let bytes_of_string (s : string) : n list = List.init (String.length s) (fun i -> n_of_int (Char.code s.[i]))
let string_of_bytes (b : n list) : string = String.concat "" (List.map (fun x -> String.make 1 (Char.chr (int_of_n x))) b)

let unescape (root : string) (s : string) : string =
  if s = "-" then ""
  else begin
    let b = Buffer.create 16 in
    let n = String.length s in
    let i = ref 0 in
    while !i < n do
      if s.[!i] = '%' && !i + 1 < n && s.[!i + 1] = 'R' then begin
        Buffer.add_string b root;
        i := !i + 2
      end
      else if s.[!i] = '%' && !i + 2 < n then begin
        Buffer.add_char b (Char.chr (int_of_string ("0x" ^ String.sub s (!i + 1) 2)));
        i := !i + 3
      end
      else begin
        Buffer.add_char b s.[!i];
        incr i
      end
    done;
    Buffer.contents b
  end

let esc_raw (s : string) : string =
  let b = Buffer.create 16 in
  String.iter
    (fun c ->
      let k = Char.code c in
      if k > 0x20 && k < 0x7f && c <> '%' && c <> ',' && c <> ':' then Buffer.add_char b c
      else Buffer.add_string b (Printf.sprintf "%%%02x" k))
    s;
  Buffer.contents b

let escape (s : string) : string = if s = "" then "-" else if s = "-" then "%2d" else esc_raw s

(* a native path with the root made symbolic: a leading root string becomes %R, and any later
   path component equal to the i-th name of the root becomes %<i> *)
let relativise (root : string) (p : string) : string =
  let lr = String.length root in
  let pre, rest =
    if String.length p >= lr && String.sub p 0 lr = root then ("%R", String.sub p lr (String.length p - lr)) else ("", p)
  in
  let rc = List.filter (fun c -> c <> "") (String.split_on_char '/' root) in
  let index piece =
    let rec go i = function [] -> None | c :: t -> if c = piece then Some i else go (i + 1) t in
    go 1 rc
  in
  let body =
    String.concat "/"
      (List.map (fun piece -> match index piece with Some i -> Printf.sprintf "%%<%d>" i | None -> esc_raw piece)
         (String.split_on_char '/' rest))
  in
  let r = pre ^ body in
  if r = "" then "-" else if r = "-" then "%2d" else r

let fmt_comp = function
  | Root -> "R"
  | Cur -> "C"
  | Parent -> "P"
  | Normal n -> "N:" ^ escape (string_of_bytes n)

let fmt_comps cs = if cs = [] then "-" else String.concat "," (List.map fmt_comp cs)

let fmt_native root = function
  | None -> "PANIC"
  | Some p -> relativise root (string_of_bytes p)

let run path =
  List.iter
    (fun (hdr, ops) ->
      Printf.printf "CASE %s\n" (List.hd hdr);
      let root =
        List.fold_left
          (fun acc tok ->
            if String.length tok > 5 && String.sub tok 0 5 = "root=" then
              let v = String.sub tok 5 (String.length tok - 5) in
              if v = "sandbox" then "/sb1/sb2/sb3/root" else unescape "" v
            else acc)
          "/sb1/sb2/sb3/root" (List.tl hdr)
      in
      let rootb = bytes_of_string root in
      let name s = bytes_of_string (unescape root s) in
      List.iter
        (fun l ->
          match split_ws l with
          | [ "N"; a ] -> (
              match path_native rootb (name a) with
              | None -> print_endline "PANIC"
              | Some p ->
                  let after =
                    match path_strip_prefix (path_components p) (path_components rootb) with
                    | Some rest -> fmt_comps rest
                    | None -> "!" ^ fmt_comps (path_components p)
                  in
                  Printf.printf "%s %s\n" (relativise root (string_of_bytes p)) after)
          | [ "C"; a ] -> print_endline (fmt_comps (path_components (name a)))
          | [ "F"; op; a; b ] ->
              let na = fmt_native root (path_native rootb (name a)) in
              let nb = fmt_native root (path_native rootb (name b)) in
              if String.length op > 3 && String.sub op 0 3 = "req" then
                Printf.printf "%s %s %s %s\n" na nb
                  (fmt_native root (path_native2 rootb (name a)))
                  (fmt_native root (path_native2 rootb (name b)))
              else if op = "rename_file" || op = "append_file" || op = "replace_file" then Printf.printf "%s %s\n" na nb
              else print_endline na
          | _ -> failwith ("path: bad op " ^ l))
        ops)
    (read_cases path)
