(* model runner for component `udp` (Model/Udp.v)
   ops:  P <hex> = <res>         a full datagram
         T <hex> <k> = <res>     the first k bytes of <hex> as a datagram
         R <hex> = <res>         raw bytes as a datagram
   <res> = `OK <hex>` | `ERR` is what the real decoder returns for exactly these bytes IN
   ISOLATION (recorded by the generator). The model's decoder parameter is instantiated with
   that table; the model then says what the transport returns for each datagram of the
   history, given its reused receive buffer. *)
open Model
open Conv

let datagram toks =
  match toks with
  | "P" :: h :: _ | "R" :: h :: _ -> bytes_of_hex h
  | "T" :: h :: k :: _ ->
      let b = bytes_of_hex h in
      List.filteri (fun i _ -> i < int_of_string k) b
  | _ -> failwith "udp: bad op"

let result toks =
  let rec after = function [] -> [] | "=" :: t -> t | _ :: t -> after t in
  String.concat " " (after toks)

let run path =
  let cases = read_cases path in
  let tbl : (string, string) Hashtbl.t = Hashtbl.create 1024 in
  List.iter
    (fun (_, ops) ->
      List.iter
        (fun l ->
          let toks = split_ws l in
          Hashtbl.replace tbl (hex_of_bytes (datagram toks)) (result toks))
        ops)
    cases;
  let decode (b : n list) : string option =
    match Hashtbl.find_opt tbl (hex_of_bytes b) with
    | Some "ERR" -> None
    | Some s -> Some s
    | None -> Some "UNKNOWN-VIEW"
  in
  List.iter
    (fun (hdr, ops) ->
      Printf.printf "CASE %s\n" (List.hd hdr);
      let buf = ref udp_initial_buffer in
      List.iter
        (fun l ->
          let d = datagram (split_ws l) in
          let buf', r = udp_recv decode !buf d in
          buf := buf';
          print_endline (match r with Some s -> s | None -> "ERR"))
        ops)
    cases
