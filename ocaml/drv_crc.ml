(* Model runner for component crc (property C15): see harness/src/crc.rs for the op format.
   The model's verdict on an arrival is CrcBits.receiver_frame_check: delimit the frame from the
   four fixed header octets (frame_span), then Crc.crc_frame_ok on exactly those octets. *)
open Model
open Conv

let bytes_of_hex_arr (s : string) : int array =
  if s = "-" then [||]
  else Array.init (String.length s / 2) (fun i -> int_of_string ("0x" ^ String.sub s (2 * i) 2))

(* the 256 octet values as model numbers, converted once *)
let octet : n array = Array.init 256 n_of_int
let nlist_of_arr (a : int array) : n list = Array.fold_right (fun x acc -> octet.(x) :: acc) a []

let rec int_of_nat = function O -> 0 | S k -> 1 + int_of_nat k

(* bit length of a pattern *)
let bitlen (p : int) : int =
  let rec go p k = if p = 0 then k else go (p lsr 1) (k + 1) in
  go p 0

(* xor the pattern onto a copy of the frame: most significant set bit lands on bit pos *)
let apply (frame : int array) (pos : int) (pat : int) : int array option =
  let len = bitlen pat in
  let out = Array.copy frame in
  let ok = ref true in
  for i = 0 to len - 1 do
    if (pat lsr (len - 1 - i)) land 1 = 1 then begin
      let k = pos + i in
      if k >= Array.length frame * 8 then ok := false
      else out.(k / 8) <- out.(k / 8) lxor (0x80 lsr (k mod 8))
    end
  done;
  if !ok then Some out else None

let run path =
  List.iter
    (fun (hdr, ops) ->
      Printf.printf "CASE %s\n" (List.hd hdr);
      let frame = ref [||] in
      let trailing = ref [||] in
      let check (a : int array) = receiver_frame_check (nlist_of_arr (Array.append a !trailing)) in
      List.iter
        (fun l ->
          match split_ws l with
          | [ "CRC"; h ] -> print_endline (string_of_n (crc16 (bytes_of_hex h)))
          | [ "SW"; b0; b1 ] ->
              let b0 = n_of_string b0 and b1 = n_of_string b1 in
              let buf = Buffer.create 1024 in
              for x = 0 to 255 do
                Buffer.add_string buf (Printf.sprintf "%04x" (int_of_n (crc16 [ b0; b1; n_of_int x ])))
              done;
              print_endline (Buffer.contents buf)
          | [ "F"; h ] ->
              frame := bytes_of_hex_arr h;
              print_endline (if check !frame then "SAME" else "REJECT")
          | [ "T"; h ] -> (
              trailing := bytes_of_hex_arr h;
              let all = nlist_of_arr (Array.append !frame !trailing) in
              match (receiver_frame_check all, receiver_consumed all) with
              | true, Some n -> Printf.printf "SAME %d\n" (int_of_nat n)
              | _ -> print_endline "REJECT")
          | [ "E"; pos; pat ] -> (
              match apply !frame (int_of_string pos) (int_of_string ("0x" ^ pat)) with
              | None -> print_endline "SKIP"
              | Some bad -> print_endline (if check bad then "ACCEPT" else "REJECT"))
          | [ "X"; h ] ->
              let mask = bytes_of_hex_arr h in
              let bad = Array.mapi (fun i x -> x lxor mask.(i)) !frame in
              print_endline (if check bad then "ACCEPT" else "REJECT")
          | [ "BA"; pos; len ] ->
              let pos = int_of_string pos and len = int_of_string len in
              let n = ref 0 and r = ref 0 and a = ref 0 and first = ref (-1) in
              for pat = 1 lsl (len - 1) to (1 lsl len) - 1 do
                match apply !frame pos pat with
                | None -> ()
                | Some bad ->
                    incr n;
                    if check bad then begin
                      incr a;
                      if !first < 0 then first := pat
                    end
                    else incr r
              done;
              if !a = 0 then Printf.printf "n=%d REJECT=%d SAME=0 DIFFERENT=0\n" !n !r
              else Printf.printf "n=%d REJECT=%d ACCEPT=%d first=%x\n" !n !r !a !first
          | _ -> failwith ("crc: bad op " ^ l))
        ops)
    (read_cases path)
