(* driver <component> <ops file>: runs the extracted Coq model on the ops and prints one
   observation line per operation, in the format of the Rust harness. *)
let () =
  match Array.to_list Sys.argv with
  | [ _; "segments"; path ] -> Drv_segments.run path
  | [ _; "recv"; path ] -> Drv_tx.run_recv path
  | [ _; "send"; path ] -> Drv_tx.run_send path
  | [ _; "link"; path ] -> Drv_zlink.run path
  | [ _; "daemon"; path ] -> Drv_zzdaemon.run path
  | [ _; "checksum"; path ] -> Drv_checksum.run path
  | [ _; "path"; path ] -> Drv_path.run path
  | [ _; "udp"; path ] -> Drv_udp.run path
  | [ _; "fsmodel"; path ] -> Drv_fsmodel.run path
  | [ _; "crc"; path ] -> Drv_crc.run path
  | [ _; "codec"; path ] -> Drv_codec.run path
  | _ ->
      prerr_endline "usage: driver <component> <ops>";
      exit 2
