(* driver <component> <ops file>: runs the extracted Coq model on the ops and prints one
   observation line per operation, in the format of the Rust harness. *)
let () =
  match Array.to_list Sys.argv with
  | [ _; "segments"; path ] -> Drv_segments.run path
  | [ _; "codec"; path ] -> Drv_codec.run path
  | _ ->
      prerr_endline "usage: driver <component> <ops>";
      exit 2
