(* Conversions between the extracted inductive numbers and Zarith, and text helpers.
   Trusted for the correspondence check only. *)
open Model

let rec pos_of_z (z : Z.t) : positive =
  if Z.equal z Z.one then XH
  else if Z.testbit z 0 then XI (pos_of_z (Z.shift_right z 1))
  else XO (pos_of_z (Z.shift_right z 1))

let n_of_z (z : Z.t) : n = if Z.sign z <= 0 then N0 else Npos (pos_of_z z)

let rec z_of_pos = function
  | XH -> Z.one
  | XO p -> Z.shift_left (z_of_pos p) 1
  | XI p -> Z.succ (Z.shift_left (z_of_pos p) 1)

let z_of_n = function N0 -> Z.zero | Npos p -> z_of_pos p
let n_of_string s = n_of_z (Z.of_string s)
let string_of_n x = Z.to_string (z_of_n x)
let n_of_int i = n_of_z (Z.of_int i)
let int_of_n x = Z.to_int (z_of_n x)

let split_ws s = List.filter (fun x -> x <> "") (String.split_on_char ' ' (String.trim s))

(* read all cases of an ops file: (header tokens, op lines) *)
let read_cases (path : string) : (string list * string list) list =
  let ic = open_in path in
  let cases = ref [] in
  let cur_hdr = ref None and cur_ops = ref [] in
  let flush () =
    match !cur_hdr with
    | Some h -> cases := (h, List.rev !cur_ops) :: !cases
    | None -> ()
  in
  (try
     while true do
       let line = String.trim (input_line ic) in
       if line = "" || line.[0] = '#' then ()
       else if String.length line > 5 && String.sub line 0 5 = "CASE " then begin
         flush ();
         cur_hdr := Some (split_ws (String.sub line 5 (String.length line - 5)));
         cur_ops := []
       end
       else cur_ops := line :: !cur_ops
     done
   with End_of_file -> ());
  flush ();
  close_in ic;
  List.rev !cases

let hex_of_bytes (b : n list) : string =
  if b = [] then "-"
  else String.concat "" (List.map (fun x -> Printf.sprintf "%02x" (int_of_n x)) b)

let bytes_of_hex (s : string) : n list =
  if s = "-" then []
  else List.init (String.length s / 2) (fun i -> n_of_int (int_of_string ("0x" ^ String.sub s (2 * i) 2)))
