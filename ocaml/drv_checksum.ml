(* model runner for component `checksum` (Model/Checksum.v)
   ops:  K <src> <type> <pos> <hex data> <script>      src = file | cursor | script
         D <type> <hex data> <idx> <newbyte> <scriptA> <scriptB>
   The chunk list handed to the model is what a BufReader (8192-byte buffer) sees when
   the k-th read call of the underlying reader returns min(script[k], 8192, remaining)
   bytes (8192 once the script is exhausted); a scripted size 0 is an early end of file. *)
open Model
open Conv

let buf_size = 8192

let parse_script s = if s = "-" then [] else List.map int_of_string (String.split_on_char ',' s)

let rec take k l acc =
  if k = 0 then (List.rev acc, l)
  else match l with [] -> (List.rev acc, []) | x :: t -> take (k - 1) t (x :: acc)

(* -> chunks (possibly with an empty one = early EOF, followed by what would have come) *)
let rec chunking data script =
  match data with
  | [] -> []
  | _ ->
      let want, script' = match script with [] -> (buf_size, []) | s :: t -> (min s buf_size, t) in
      let c, rest = take want data [] in
      c :: chunking rest script'

(* what the reader adaptor observes: sizes of the non-empty reads before the first empty one *)
let seen chunks =
  let rec go n h = function
    | [] | [] :: _ -> (n, h)
    | c :: t -> go (n + 1) (((h * 31) + List.length c) land 0xFFFFFFFF) t
  in
  go 0 0 chunks

let run path =
  List.iter
    (fun (hdr, ops) ->
      Printf.printf "CASE %s\n" (List.hd hdr);
      List.iter
        (fun l ->
          match split_ws l with
          | [ "K"; src; ty; _pos; data; script ] ->
              let data = bytes_of_hex data in
              let ty = n_of_string ty in
              let chunks = chunking data (if src = "script" then parse_script script else []) in
              let ck = file_checksum ty chunks in
              if src = "script" then begin
                let n, h = if string_of_n ty = "15" then (0, 0) else seen chunks in
                Printf.printf "%s n=%d h=%d\n" (string_of_n ck) n h
              end
              else print_endline (string_of_n ck)
          | [ "D"; ty; data; idx; nb; sa; sb ] ->
              let data = bytes_of_hex data in
              let ty = n_of_string ty in
              let idx = int_of_string idx in
              let data' = List.mapi (fun i x -> if i = idx then n_of_string nb else x) data in
              let c1 = file_checksum ty (chunking data (parse_script sa)) in
              let c2 = file_checksum ty (chunking data' (parse_script sb)) in
              Printf.printf "%s %s\n" (string_of_n c1) (string_of_n c2)
          | _ -> failwith ("checksum: bad op " ^ l))
        ops)
    (read_cases path)
