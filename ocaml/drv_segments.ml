open Model
open Conv

let fmt_list (v : (n * n) list) =
  if v = [] then "-"
  else String.concat "" (List.map (fun (a, b) -> Printf.sprintf "(%s,%s)" (string_of_n a) (string_of_n b)) v)

let run path =
  List.iter
    (fun (hdr, ops) ->
      Printf.printf "CASE %s\n" (List.hd hdr);
      let st = ref [] in
      List.iter
        (fun l ->
          match split_ws l with
          | [ "M"; a; b ] -> (
              match merge_seg !st (n_of_string a, n_of_string b) with
              | Some (v, n) ->
                  st := v;
                  print_endline (string_of_n n)
              | None -> print_endline "PANIC")
          | [ "G"; a; b ] -> print_endline (fmt_list (gaps !st (n_of_string a) (n_of_string b)))
          | [ "C"; a ] -> print_endline (if is_complete !st (n_of_string a) then "true" else "false")
          | [ "L" ] -> print_endline (string_of_n (seg_len !st))
          | [ "E" ] ->
              let e = match seg_end !st with Some e -> string_of_n e | None -> "none" in
              Printf.printf "%s %s\n" e (string_of_n (end_or_0 !st))
          | _ -> failwith ("segments: bad op " ^ l))
        ops)
    (read_cases path)
