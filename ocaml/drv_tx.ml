(* Runs the extracted Recv / Send models on the ops of the transaction-level streams and
   prints the same observation lines as harness/src/tx.rs. *)
open Model
open Conv

let cond_of_code c =
  match c with
  | 0 -> NoError | 1 -> PositiveLimitReached | 2 -> KeepAliveLimitReached
  | 3 -> InvalidTransmissionMode | 4 -> FileStoreRejectionC | 5 -> FileChecksumFailure
  | 6 -> FilesizeError | 7 -> NakLimitReached | 8 -> InactivityDetected
  | 9 -> InvalidFileStructure | 10 -> CheckLimitReached | 11 -> UnsupportedChecksumType
  | 14 -> SuspendReceived | 15 -> CancelReceived
  | _ -> failwith "condition code"

let code_of_cond c = int_of_n (cond_code c)

let action_of = function
  | "C" -> ACancel | "S" -> ASuspend | "I" -> AIgnore | "A" -> AAbandon
  | s -> failwith ("action " ^ s)

(* ---- configuration from the CASE header *)
type cfgx = {
  cfg : config;
  nakp : nakproc;
  closure : bool;
  ck : cktype;
  src : n list;
  dst : n list;
  file : n list;
  pre : int option;
}

let parse_cfg (hdr : string list) : cfgx =
  let mode = ref Acked and nakp = ref (Deferred N0) and seg = ref 32 and large = ref false
  and crc = ref false and maxc = ref 3 and ti = ref 10 and ta = ref 3 and tn = ref 4
  and handlers = ref [] and closure = ref false and ck = ref CkModular
  and src = ref (bytes_of_hex "73") and dst = ref (bytes_of_hex "64") and file = ref [] and idw = ref 1 and pre = ref None in
  List.iter
    (fun kv ->
      match String.index_opt kv '=' with
      | None -> ()
      | Some i -> (
          let k = String.sub kv 0 i and v = String.sub kv (i + 1) (String.length kv - i - 1) in
          match k with
          | "mode" -> mode := if v = "A" then Acked else Unacked
          | "nak" ->
              let d = n_of_string (String.sub v 1 (String.length v - 1)) in
              nakp := if v.[0] = 'I' then Immediate d else Deferred d
          | "seg" -> seg := int_of_string v
          | "large" -> large := v = "1"
          | "crc" -> crc := v = "1"
          | "maxc" -> maxc := int_of_string v
          | "ti" -> ti := int_of_string v
          | "ta" -> ta := int_of_string v
          | "tn" -> tn := int_of_string v
          | "h" ->
              handlers :=
                List.filter_map
                  (fun item ->
                    if item = "" then None
                    else
                      match String.split_on_char ':' item with
                      | [ a; b ] -> Some (cond_of_code (int_of_string a), action_of b)
                      | _ -> None)
                  (String.split_on_char ',' v)
          | "closure" -> closure := v = "1"
          | "ck" -> ck := if v = "M" then CkModular else CkNull
          | "src" -> src := bytes_of_hex v
          | "dst" -> dst := bytes_of_hex v
          | "file" -> file := bytes_of_hex v
          | "idw" -> idw := int_of_string v
          | "pre" -> pre := Some (int_of_string v)
          | _ -> ()))
    (List.tl hdr);
  let cfg =
    { cfg_mode = !mode; cfg_large = !large; cfg_crc = !crc; cfg_seg = n_of_int !seg;
      cfg_max = n_of_int !maxc; cfg_t_inact = n_of_int (!ti * 1000); cfg_t_ack = n_of_int (!ta * 1000);
      cfg_t_nak = n_of_int (!tn * 1000); cfg_handlers = !handlers; cfg_src = n_of_int 1;
      cfg_dst = n_of_int 2; cfg_seq = n_of_int 7; cfg_idw = n_of_int !idw; cfg_seqw = n_of_int !idw }
  in
  { cfg; nakp = !nakp; closure = !closure; ck = !ck; src = !src; dst = !dst; file = !file; pre = !pre }

(* the parameters of the models are instantiated in Coq (Model/TxInst.v) and extracted *)
type fsx = flat_fs

(* ---- text *)
let sn = string_of_n
let opt_n = function Some x -> sn x | None -> "-"
let state_ch = function TActive -> "A" | TSuspended -> "S" | TTerminated -> "T"
let status_code = function SUndefined -> 0 | SActive -> 1 | STerminated -> 2 | SUnrecognized -> 3
let dc_code = function DComplete -> 0 | DIncomplete -> 1
let fs_code = function FDiscarded -> 0 | FRejection -> 1 | FRetained -> 2 | FUnreported -> 3
let hexs l = String.concat "" (List.map (fun b -> " " ^ hex_of_bytes b) l)

let payload_text (p : payload) : string =
  match p with
  | PFileData (off, d) -> Printf.sprintf "FD %s %s" (sn off) (hex_of_bytes d)
  | PEof e -> Printf.sprintf "EOF %d %s %s %s" (code_of_cond e.eof_cond) (sn e.eof_ck) (sn e.eof_size) (opt_n e.eof_fault)
  | PFinished f ->
      Printf.sprintf "FIN %d %d %d %s %d%s" (code_of_cond f.fin_cond) (dc_code f.fin_dc) (fs_code f.fin_fs)
        (opt_n f.fin_fault) (List.length f.fin_resps) (hexs f.fin_resps)
  | PAck a ->
      Printf.sprintf "ACK %s %s %d %d"
        (match a.ack_dir with DirEoF -> "E" | DirFinished -> "F" | DirOther -> "X")
        (match a.ack_sub with SubFinished -> "F" | SubOther -> "O")
        (code_of_cond a.ack_cond) (status_code a.ack_tstatus)
  | PMetadata m ->
      Printf.sprintf "MD %d %s %s %s %s %d%s %d%s" (if m.md_closure then 1 else 0)
        (match m.md_ck with CkModular -> "M" | CkNull -> "N")
        (sn m.md_size) (hex_of_bytes m.md_src) (hex_of_bytes m.md_dst) (List.length m.md_reqs) (hexs m.md_reqs)
        (List.length m.md_msgs) (hexs m.md_msgs)
  | PNakP k ->
      Printf.sprintf "NAK %s %s %d%s" (sn k.nak_start) (sn k.nak_end) (List.length k.nak_reqs)
        (String.concat "" (List.map (fun (a, b) -> Printf.sprintf " %s-%s" (sn a) (sn b)) k.nak_reqs))
  | PPrompt p -> Printf.sprintf "PR %s" (match p with PNak -> "N" | PKeepAlive -> "K")
  | PKeepAliveP p -> Printf.sprintf "KA %s" (sn p)

let parse_payload (t : string list) : payload =
  let nth k = List.nth t k in
  let num k = n_of_string (nth k) in
  let cond k = cond_of_code (int_of_string (nth k)) in
  let opt k = if nth k = "-" then None else Some (num k) in
  match nth 0 with
  | "FD" -> PFileData (num 1, bytes_of_hex (nth 2))
  | "EOF" -> PEof { eof_cond = cond 1; eof_ck = num 2; eof_size = num 3; eof_fault = opt 4 }
  | "FIN" ->
      let k = int_of_string (nth 5) in
      PFinished
        { fin_cond = cond 1;
          fin_dc = (if nth 2 = "0" then DComplete else DIncomplete);
          fin_fs = (match nth 3 with "0" -> FDiscarded | "1" -> FRejection | "2" -> FRetained | _ -> FUnreported);
          fin_resps = List.init k (fun i -> bytes_of_hex (nth (6 + i)));
          fin_fault = opt 4 }
  | "ACK" ->
      PAck
        { ack_dir = (match nth 1 with "E" -> DirEoF | "F" -> DirFinished | _ -> DirOther);
          ack_sub = (if nth 2 = "F" then SubFinished else SubOther);
          ack_cond = cond 3;
          ack_tstatus = (match nth 4 with "0" -> SUndefined | "1" -> SActive | "2" -> STerminated | _ -> SUnrecognized) }
  | "MD" ->
      let nreq = int_of_string (nth 6) in
      let nmsg = int_of_string (nth (7 + nreq)) in
      PMetadata
        { md_closure = nth 1 = "1";
          md_ck = (if nth 2 = "M" then CkModular else CkNull);
          md_size = num 3;
          md_src = bytes_of_hex (nth 4);
          md_dst = bytes_of_hex (nth 5);
          md_reqs = List.init nreq (fun i -> bytes_of_hex (nth (7 + i)));
          md_msgs = List.init nmsg (fun i -> bytes_of_hex (nth (8 + nreq + i))) }
  | "NAK" ->
      let k = int_of_string (nth 3) in
      PNakP
        { nak_start = num 1; nak_end = num 2;
          nak_reqs =
            List.init k (fun i ->
                match String.split_on_char '-' (nth (4 + i)) with
                | [ a; b ] -> (n_of_string a, n_of_string b)
                | _ -> failwith "nak req") }
  | "PR" -> PPrompt (if nth 1 = "N" then PNak else PKeepAlive)
  | "KA" -> PKeepAliveP (num 1)
  | s -> failwith ("pdu kind " ^ s)

let ind_text (i : indication) : string =
  match i with
  | ITransaction -> "TX"
  | IEoFSent -> "EOFSENT"
  | IEoFRecv -> "EOFRECV"
  | IFinished (r, fs, dc, resps) ->
      Printf.sprintf "FIN %s %d %d %d %d %d%s" (state_ch r.trp_state) (status_code r.trp_status)
        (code_of_cond r.trp_cond) (fs_code fs) (dc_code dc) (List.length resps) (hexs resps)
  | IMetadataRecv (src, dst, size, msgs) ->
      Printf.sprintf "MDR %s %s %s %d%s" (hex_of_bytes src) (hex_of_bytes dst) (sn size) (List.length msgs) (hexs msgs)
  | IFileSegmentRecv (o, l) -> Printf.sprintf "SEG %s %s" (sn o) (sn l)
  | ISuspended c -> Printf.sprintf "SUSP %d" (code_of_cond c)
  | IResumed p -> Printf.sprintf "RES %s" (sn p)
  | IReport r -> Printf.sprintf "REP %s %d %d" (state_ch r.trp_state) (status_code r.trp_status) (code_of_cond r.trp_cond)
  | IFault (c, p) -> Printf.sprintf "FAULT %d %s" (code_of_cond c) (sn p)
  | IAbandon (c, p) -> Printf.sprintf "ABANDON %d %s" (code_of_cond c) (sn p)

let obs_line ?(idle = "") res (outs : out list) st hp ut pr dest =
  let outs = List.rev outs in
  let pdus =
    List.filter_map
      (function
        | OPdu p ->
            Some
              (Printf.sprintf "%s,%s,%s,%s" (if p.o_to_receiver then "R" else "S") (sn p.o_len) (sn p.o_dest)
                 (payload_text p.o_payload))
        | OInd _ -> None)
      outs
  in
  let inds = List.filter_map (function OInd i -> Some (ind_text i) | OPdu _ -> None) outs in
  Printf.printf "%s%s P[%s] I[%s] st=%s hp=%d ut=%s pr=%s D=%s\n"
    (match res with ROk -> "ok" | RUnexpected -> "unexpected" | RErr -> "err") idle
    (String.concat ";" pdus) (String.concat ";" inds) (state_ch st) (if hp then 1 else 0)
    (match ut with None -> "MAX" | Some x -> sn x)
    (sn pr)
    (match dest with Some b -> hex_of_bytes b | None -> "none")

let run_recv path =
  List.iter
    (fun (hdr, ops) ->
      Printf.printf "CASE %s\n" (List.hd hdr);
      let c = parse_cfg hdr in
      let now = ref Z.zero in
      let fs0 : fsx = match c.pre with Some k when not (List.mem (n_of_int 47) c.dst) -> [ (c.dst, List.init k (fun _ -> n_of_int 0xEE)) ] | _ -> [] in
      let st = ref (r_new N0 c.cfg c.nakp fs0) in
      let stop = ref false in
      let idle = ref "" in
      List.iter
        (fun l ->
          if !stop then print_endline "skipped"
          else
            let t = split_ws l in
            let nown () = n_of_z !now in
            let step op =
              let s', r = inst_rstep (nown ()) op !st in
              st := s';
              (r, s'.r_out)
            in
            let res, outs =
              match t with
              | [ "ADV"; d ] ->
                  now := Z.add !now (Z.of_string d);
                  (ROk, [])
              | "PDU" :: rest -> step (RPdu (parse_payload rest))
              | [ "SEND" ] -> step RSend
              | [ "TIMEOUT" ] -> step RTimeout
              | [ "CANCEL" ] -> step RCancelOp
              | [ "SUSPEND" ] -> step RSuspendOp
              | [ "RESUME" ] -> step RResumeOp
              | [ "REPORT" ] -> step RReportOp
              | [ "ABANDON" ] -> step RAbandonOp
              | [ "PROMPT"; _ ] -> (ROk, [])
              | [ "IDLE"; k ] ->
                  let k = int_of_string k in
                  let it = ref 0 and acc = ref [] and r = ref ROk and t0 = !now in
                  (try
                     while !it < k do
                       let s = !st in
                       if s.r_state = TTerminated then raise Exit;
                       (if has_pdu_to_send s then begin
                          let rr, o = step RSend in
                          r := rr;
                          acc := o @ !acc
                        end
                        else
                          match until_timeout (nown ()) s with
                          | Some d ->
                              now := Z.add !now (z_of_n d);
                              let rr, o = step RTimeout in
                              r := rr;
                              acc := o @ !acc
                          | None -> raise Exit);
                       incr it;
                       if !r <> ROk then raise Exit
                     done
                   with Exit -> ());
                  idle := Printf.sprintf " idle=%d/%s" !it (Z.to_string (Z.sub !now t0));
                  (!r, !acc)
              | _ -> failwith ("recv: bad op " ^ l)
            in
            let s = !st in
            let dest = flat_lookup s.r_fs c.dst in
            obs_line ~idle:!idle res outs s.r_state (has_pdu_to_send s) (until_timeout (nown ()) s) s.r_recvd dest;
            idle := "";
            if res = RErr || s.r_state = TTerminated then stop := true)
        ops)
    (read_cases path)

let run_send path =
  List.iter
    (fun (hdr, ops) ->
      Printf.printf "CASE %s\n" (List.hd hdr);
      let c = parse_cfg hdr in
      let now = ref Z.zero in
      let md =
        { md_src = c.src; md_dst = c.dst; md_size = n_of_int (List.length c.file); md_ck = c.ck;
          md_closure = c.closure; md_reqs = []; md_msgs = [] }
      in
      let st = ref (s_new N0 c.cfg md c.file) in
      let stop = ref false in
      let idle = ref "" in
      List.iter
        (fun l ->
          if !stop then print_endline "skipped"
          else
            let t = split_ws l in
            let nown () = n_of_z !now in
            let step op =
              let s', r = inst_sstep (nown ()) op !st in
              st := s';
              (r, s'.s_out)
            in
            let res, outs =
              match t with
              | [ "ADV"; d ] ->
                  now := Z.add !now (Z.of_string d);
                  (ROk, [])
              | "PDU" :: rest -> step (SPdu (parse_payload rest))
              | [ "SEND" ] -> step SSend
              | [ "TIMEOUT" ] -> step STimeout
              | [ "CANCEL" ] -> step SCancelOp
              | [ "SUSPEND" ] -> step SSuspendOp
              | [ "RESUME" ] -> step SResumeOp
              | [ "REPORT" ] -> step SReportOp
              | [ "ABANDON" ] -> step SAbandonOp
              | [ "PROMPT"; p ] -> step (SPromptOp (if p = "N" then PNak else PKeepAlive))
              | [ "IDLE"; k ] ->
                  let k = int_of_string k in
                  let it = ref 0 and acc = ref [] and r = ref ROk and t0 = !now in
                  (try
                     while !it < k do
                       let s = !st in
                       if s.s_state = TTerminated then raise Exit;
                       (if s_has_pdu_to_send s then begin
                          let rr, o = step SSend in
                          r := rr;
                          acc := o @ !acc
                        end
                        else
                          match s_until_timeout (nown ()) s with
                          | Some d ->
                              now := Z.add !now (z_of_n d);
                              let rr, o = step STimeout in
                              r := rr;
                              acc := o @ !acc
                          | None -> raise Exit);
                       incr it;
                       if !r <> ROk then raise Exit
                     done
                   with Exit -> ());
                  idle := Printf.sprintf " idle=%d/%s" !it (Z.to_string (Z.sub !now t0));
                  (!r, !acc)
              | _ -> failwith ("send: bad op " ^ l)
            in
            let s = !st in
            obs_line ~idle:!idle res outs s.s_state (s_has_pdu_to_send s) (s_until_timeout (nown ()) s) s.s_sent None;
            idle := "";
            if res = RErr || s.s_state = TTerminated then stop := true)
        ops)
    (read_cases path)
