(* Runs the extracted two-machine system (Model/Link.v) on the ops of the `link` streams and
   prints the same observation lines as harness/src/link.rs. All of the system's logic -
   queues, cuts, the loop left alone - is the extracted Coq function [lstep]; this file only
   parses operations and prints. *)
open Model
open Conv
open Drv_tx

let side_text (outs : out list) st hp ut pr =
  let pdus =
    List.filter_map
      (function
        | OPdu p ->
            Some
              (Printf.sprintf "%s,%s,%s,%s" (if p.o_to_receiver then "R" else "S") (sn p.o_len) (sn p.o_dest)
                 (payload_text p.o_payload))
        | OInd _ -> None)
      outs
  in
  let inds = List.filter_map (function OInd i -> Some (ind_text i) | OPdu _ -> None) outs in
  Printf.sprintf "P[%s] I[%s] st=%s hp=%d ut=%s pr=%s" (String.concat ";" pdus) (String.concat ";" inds)
    (state_ch st) (if hp then 1 else 0)
    (match ut with None -> "MAX" | Some x -> sn x)
    (sn pr)

let res_text = function ROk -> "ok" | RUnexpected -> "unexpected" | RErr -> "err"

let uop_of (t : string list) : uop =
  match t with
  | [ "SEND" ] -> USend
  | [ "TIMEOUT" ] -> UTimeout
  | [ "CANCEL" ] -> UCancel
  | [ "SUSPEND" ] -> USuspend
  | [ "RESUME" ] -> UResume
  | [ "REPORT" ] -> UReport
  | [ "PROMPT"; p ] -> UPrompt (if p = "N" then PNak else PKeepAlive)
  | _ -> failwith "link: user op"

let run path =
  List.iter
    (fun (hdr, ops) ->
      Printf.printf "CASE %s\n" (List.hd hdr);
      let c = parse_cfg hdr in
      let md =
        { md_src = c.src; md_dst = c.dst; md_size = n_of_int (List.length c.file); md_ck = c.ck;
          md_closure = c.closure; md_reqs = []; md_msgs = [] }
      in
      let st = ref (l_new N0 c.cfg c.nakp md c.file) in
      List.iter
        (fun l ->
          let t = split_ws l in
          let op =
            match t with
            | "S" :: rest -> LS (uop_of rest)
            | "R" :: rest -> LR (uop_of rest)
            | [ "DELIVER"; d; k ] -> LDeliver (d = "R", n_of_string k)
            | [ "DUP"; d; k ] -> LDup (d = "R", n_of_string k)
            | [ "DROP"; d; k ] -> LDrop (d = "R", n_of_string k)
            | [ "CUT"; d ] -> LCut (d = "R")
            | [ "ADV"; ms ] -> LAdv (n_of_string ms)
            | [ "RUN"; f ] -> LRun (n_of_string f)
            | _ -> failwith ("link: bad op " ^ l)
          in
          let s = lstep op !st in
          st := s;
          let dest = flat_lookup s.l_r.r_fs c.dst in
          Printf.printf "%s/%s it=%s q=%d/%d S[%s] R[%s D=%s]\n" (res_text s.l_sres) (res_text s.l_rres) (sn s.l_iters)
            (List.length s.l_sr) (List.length s.l_rs)
            (side_text s.l_sacc s.l_s.s_state (s_has_pdu_to_send s.l_s) (s_until_timeout s.l_now s.l_s) s.l_s.s_sent)
            (side_text s.l_racc s.l_r.r_state (has_pdu_to_send s.l_r) (until_timeout s.l_now s.l_r) s.l_r.r_recvd)
            (match dest with Some b -> hex_of_bytes b | None -> "none"))
        ops)
    (read_cases path)
