(* Component `codec`: runs the extracted PDU / user-operation / report codec model on an ops
   file and prints one observation line per op line, in the text protocol shared with
   harness/src/codec.rs (canonical s-expressions; ops E, D, EU, DU, ER, DR).
   Trusted for the correspondence check only. *)
open Model
open Conv

(* ------------------------------------------------------------------ bytes <-> hex (fast paths) *)

(* the 256 byte values as shared model numbers *)
let byte_tab : n array = Array.init 256 n_of_int

let small_int_of_n (x : n) : int =
  let rec pos p = match p with XH -> 1 | XO q -> 2 * pos q | XI q -> (2 * pos q) + 1 in
  match x with N0 -> 0 | Npos p -> pos p

let hex_digit c =
  match c with
  | '0' .. '9' -> Char.code c - 48
  | 'a' .. 'f' -> Char.code c - 87
  | 'A' .. 'F' -> Char.code c - 55
  | _ -> failwith "codec: bad hex digit"

let bytes_of_hex_fast (s : string) : n list =
  if s = "-" then []
  else begin
    let len = String.length s in
    if len land 1 <> 0 then failwith ("codec: odd hex length: " ^ s);
    let acc = ref [] in
    let i = ref (len - 2) in
    while !i >= 0 do
      acc := byte_tab.((hex_digit s.[!i] lsl 4) lor hex_digit s.[!i + 1]) :: !acc;
      i := !i - 2
    done;
    !acc
  end

let hexchars = "0123456789abcdef"

let add_hex (buf : Buffer.t) (b : n list) : unit =
  match b with
  | [] -> Buffer.add_char buf '-'
  | _ ->
      List.iter
        (fun x ->
          let v = small_int_of_n x in
          if v > 255 then failwith "codec: model produced a byte > 255";
          Buffer.add_char buf hexchars.[v lsr 4];
          Buffer.add_char buf hexchars.[v land 15])
        b

(* ------------------------------------------------------------------ s-expressions *)

type sx = A of string | L of sx list

let parse_sx (s : string) : sx =
  let len = String.length s in
  (* returns the elements up to the closing paren (or end of string at top level) and the next index *)
  let rec elems i acc top =
    if i >= len then if top then (List.rev acc, i) else failwith "sexp: unbalanced ("
    else
      match s.[i] with
      | ' ' | '\t' | '\r' | '\n' -> elems (i + 1) acc top
      | '(' ->
          let l, j = elems (i + 1) [] false in
          elems j (L l :: acc) top
      | ')' -> if top then failwith "sexp: unbalanced )" else (List.rev acc, i + 1)
      | _ ->
          let j = ref i in
          while
            !j < len && match s.[!j] with ' ' | '\t' | '\r' | '\n' | '(' | ')' -> false | _ -> true
          do
            incr j
          done;
          elems !j (A (String.sub s i (!j - i)) :: acc) top
  in
  match elems 0 [] true with [ x ], _ -> x | _ -> failwith "sexp: expected exactly one expression"

let at = function A x -> x | L _ -> failwith "sexp: atom expected"
let li = function L v -> v | A x -> failwith ("sexp: list expected, got " ^ x)

(* ------------------------------------------------------------------ text -> value *)

let v_num s = n_of_string (at s)

let v_bool s = match at s with "0" -> false | "1" -> true | o -> failwith ("codec: bool expected: " ^ o)

let v_bytes s = bytes_of_hex_fast (at s)

let v_enum (name : string) (from : n -> 'a option) (s : sx) : 'a =
  match from (v_num s) with
  | Some x -> x
  | None -> failwith ("codec: " ^ name ^ ": no variant with discriminant " ^ at s)

let v_cond = v_enum "Condition" condition_from_u8
let v_u3 = v_enum "U3" u3_from_u8
let v_ptype = v_enum "PDUType" pDUType_from_u8
let v_dir = v_enum "Direction" direction_from_u8
let v_mode = v_enum "TransmissionMode" transmissionMode_from_u8
let v_trace = v_enum "TraceControl" traceControl_from_u8
let v_crc = v_enum "CRCFlag" cRCFlag_from_u8
let v_fsize = v_enum "FileSizeFlag" fileSizeFlag_from_u8
let v_segctl = v_enum "SegmentationControl" segmentationControl_from_u8
let v_segmeta = v_enum "SegmentedData" segmentedData_from_u8
let v_prompt = v_enum "NakOrKeepAlive" nakOrKeepAlive_from_u8
let v_deliv = v_enum "DeliveryCode" deliveryCode_from_u8
let v_fstat = v_enum "FileStatusCode" fileStatusCode_from_u8
let v_txstatus = v_enum "TransactionStatus" transactionStatus_from_u8
let v_directive = v_enum "PDUDirective" pDUDirective_from_u8
let v_subdir = v_enum "ACKSubDirective" aCKSubDirective_from_u8
let v_rcs = v_enum "RecordContinuationState" recordContinuationState_from_u8
let v_action = v_enum "FileStoreAction" fileStoreAction_from_u8
let v_handler = v_enum "HandlerCode" handlerCode_from_u8
let v_listing = v_enum "ListingResponseCode" listingResponseCode_from_u8
let v_cksum = v_enum "ChecksumType" checksumType_from_u8
let v_txstate = v_enum "TransactionState" transactionState_from_u8

let split_colon (what : string) (x : string) : string * string =
  match String.index_opt x ':' with
  | Some i -> (String.sub x 0 i, String.sub x (i + 1) (String.length x - i - 1))
  | None -> failwith ("codec: " ^ what ^ " expected: " ^ x)

let v_id (s : sx) : varid =
  let w, v = split_colon "id" (at s) in
  let v = n_of_string v in
  match w with
  | "1" -> VU8 v
  | "2" -> VU16 v
  | "4" -> VU32 v
  | "8" -> VU64 v
  | _ -> failwith ("codec: bad id width: " ^ at s)

let v_optid (s : sx) : varid option = match s with A "none" -> None | _ -> Some (v_id s)

let tagged (s : sx) (tag : string) (k : int) : sx list =
  match li s with
  | A t :: rest when t = tag && List.length rest = k -> rest
  | _ -> failwith ("codec: (" ^ tag ^ " ...) with " ^ string_of_int k ^ " fields expected")

let v_hdr (s : sx) : pdu_header =
  match tagged s "h" 12 with
  | [ ver; pt; dir; mode; crc; large; len; segctl; segmeta; src; seq; dst ] ->
      {
        h_version = v_u3 ver;
        h_pdu_type = v_ptype pt;
        h_direction = v_dir dir;
        h_mode = v_mode mode;
        h_crc = v_crc crc;
        h_large = v_fsize large;
        h_len = v_num len;
        h_segctl = v_segctl segctl;
        h_segmeta = v_segmeta segmeta;
        h_src = v_id src;
        h_seq = v_id seq;
        h_dst = v_id dst;
      }
  | _ -> assert false

let v_fsq (s : sx) : fs_request =
  match tagged s "fsq" 3 with
  | [ a; f1; f2 ] -> { fq_action = v_action a; fq_first = v_bytes f1; fq_second = v_bytes f2 }
  | _ -> assert false

let v_fs_status (s : sx) : fs_status =
  let v = int_of_string (at s) in
  let bad () = failwith ("codec: FileStoreStatus: no (action,status) pair with code " ^ at s) in
  if v < 0 || v > 255 then bad ();
  match fileStoreAction_from_u8 (n_of_int (v lsr 4)) with
  | None -> bad ()
  | Some action -> ( match fs_get_status action (n_of_int (v land 15)) with Some st -> st | None -> bad ())

let v_fsr (s : sx) : fs_response =
  match tagged s "fsr" 4 with
  | [ st; f1; f2; msg ] ->
      { fr_status = v_fs_status st; fr_first = v_bytes f1; fr_second = v_bytes f2; fr_message = v_bytes msg }
  | _ -> assert false

let v_tlv (s : sx) : metadata_tlv =
  match li s with
  | A "fsq" :: _ -> Tlv_FileStoreRequest (v_fsq s)
  | A "fsr" :: _ -> Tlv_FileStoreResponse (v_fsr s)
  | [ A "msg"; b ] -> Tlv_MessageToUser (v_bytes b)
  | [ A "fho"; c ] -> Tlv_FaultHandlerOverride (v_handler c)
  | [ A "flow"; b ] -> Tlv_FlowLabel (v_bytes b)
  | [ A "eid"; i ] -> Tlv_EntityID (v_id i)
  | _ -> failwith "codec: bad TLV"

let v_seg (s : sx) : n * n =
  let a, b = split_colon "segment" (at s) in
  (n_of_string a, n_of_string b)

let v_payload (s : sx) : pdu_payload =
  match li s with
  | [ A "eof"; c; ck; sz; fl ] ->
      Pl_Directive
        (Op_EoF { eof_condition = v_cond c; eof_checksum = v_num ck; eof_file_size = v_num sz; eof_fault_location = v_optid fl })
  | [ A "fin"; c; d; fs; rs; fl ] ->
      Pl_Directive
        (Op_Finished
           {
             fin_condition = v_cond c;
             fin_delivery_code = v_deliv d;
             fin_file_status = v_fstat fs;
             fin_filestore_response = List.map v_fsr (li rs);
             fin_fault_location = v_optid fl;
           })
  | [ A "ack"; d; sd; c; st ] ->
      Pl_Directive
        (Op_Ack { ack_directive = v_directive d; ack_subtype = v_subdir sd; ack_condition = v_cond c; ack_status = v_txstatus st })
  | [ A "md"; cl; ck; sz; src; dst; opts ] ->
      Pl_Directive
        (Op_Metadata
           {
             md_closure_requested = v_bool cl;
             md_checksum_type = v_cksum ck;
             md_file_size = v_num sz;
             md_source_filename = v_bytes src;
             md_destination_filename = v_bytes dst;
             md_options = List.map v_tlv (li opts);
           })
  | [ A "nak"; st; en; segs ] ->
      Pl_Directive
        (Op_Nak
           {
             nak_start_of_scope = v_num st;
             nak_end_of_scope = v_num en;
             nak_segment_requests = List.rev (List.rev_map v_seg (li segs));
           })
  | [ A "prompt"; p ] -> Pl_Directive (Op_Prompt (v_prompt p))
  | [ A "ka"; p ] -> Pl_Directive (Op_KeepAlive (v_num p))
  | [ A "fd"; off; data ] -> Pl_FileData (Fd_Unsegmented (v_num off, v_bytes data))
  | [ A "sfd"; st; meta; off; data ] -> Pl_FileData (Fd_Segmented (v_rcs st, v_bytes meta, v_num off, v_bytes data))
  | _ -> failwith "codec: bad payload"

let v_pdu (s : sx) : pdu =
  match tagged s "pdu" 2 with [ h; p ] -> { pdu_hdr = v_hdr h; pdu_pl = v_payload p } | _ -> assert false

let v_uo (s : sx) : user_operation =
  match li s with
  | [ A "uo-otid"; src; seq ] -> Uo_OriginatingTransactionID (v_id src, v_id seq)
  | [ A "uo-proxy-put"; dst; sname; dname ] -> Uo_Proxy (Px_PutRequest (v_id dst, v_bytes sname, v_bytes dname))
  | [ A "uo-proxy-msg"; b ] -> Uo_Proxy (Px_MessageToUser (v_bytes b))
  | [ A "uo-proxy-fsq"; q ] -> Uo_Proxy (Px_FileStoreRequest (v_fsq q))
  | [ A "uo-proxy-fho"; c ] -> Uo_Proxy (Px_FaultHandlerOverride (v_handler c))
  | [ A "uo-proxy-mode"; m ] -> Uo_Proxy (Px_TransmissionMode (v_mode m))
  | [ A "uo-proxy-flow"; b ] -> Uo_Proxy (Px_FlowLabel (v_bytes b))
  | [ A "uo-proxy-segctl"; c ] -> Uo_Proxy (Px_SegmentationControl (v_segctl c))
  | [ A "uo-proxy-cancel" ] -> Uo_Proxy Px_PutCancel
  | [ A "uo-resp-put"; c; d; fs ] -> Uo_Response (Rs_ProxyPut (v_cond c, v_deliv d, v_fstat fs))
  | [ A "uo-resp-fsr"; r ] -> Uo_Response (Rs_ProxyFileStore (v_fsr r))
  | [ A "uo-resp-dir"; c; dn; df ] -> Uo_Response (Rs_DirectoryListing (v_listing c, v_bytes dn, v_bytes df))
  | [ A "uo-resp-status"; st; rc; src; seq ] ->
      Uo_Response (Rs_RemoteStatusReport (v_txstatus st, v_bool rc, v_id src, v_id seq))
  | [ A "uo-resp-suspend"; ind; st; src; seq ] ->
      Uo_Response (Rs_RemoteSuspend (v_bool ind, v_txstatus st, v_id src, v_id seq))
  | [ A "uo-resp-resume"; ind; st; src; seq ] ->
      Uo_Response (Rs_RemoteResume (v_bool ind, v_txstatus st, v_id src, v_id seq))
  | [ A "uo-req-dir"; dn; df ] -> Uo_Request (Rq_DirectoryListing (v_bytes dn, v_bytes df))
  | [ A "uo-req-status"; src; seq; f ] -> Uo_Request (Rq_RemoteStatusReport (v_id src, v_id seq, v_bytes f))
  | [ A "uo-req-suspend"; src; seq ] -> Uo_Request (Rq_RemoteSuspend (v_id src, v_id seq))
  | [ A "uo-req-resume"; src; seq ] -> Uo_Request (Rq_RemoteResume (v_id src, v_id seq))
  | [ A "uo-sfo-req"; trace; mode; segctl; closure; prior; label; src; dst; sname; dname ] ->
      Uo_SFORequest
        {
          sq_trace_control = v_trace trace;
          sq_transmission_mode = v_mode mode;
          sq_segment_control = v_segctl segctl;
          sq_closure_request = v_bool closure;
          sq_prior_waypoints_count = v_num prior;
          sq_request_label = v_bytes label;
          sq_source_entity_id = v_id src;
          sq_destination_entity_id = v_id dst;
          sq_source_filename = v_bytes sname;
          sq_destination_filename = v_bytes dname;
        }
  | [ A "uo-sfo-msg"; b ] -> Uo_SFOMessageToUser (v_bytes b)
  | [ A "uo-sfo-flow"; b ] -> Uo_SFOFlowLabel (v_bytes b)
  | [ A "uo-sfo-fho"; c ] -> Uo_SFOFaultHandlerOverride (v_handler c)
  | [ A "uo-sfo-fsq"; q ] -> Uo_SFOFileStoreRequest (v_fsq q)
  | [ A "uo-sfo-fsr"; r ] -> Uo_SFOFileStoreResponse (v_fsr r)
  | [ A "uo-sfo-report"; label; src; dst; rep; prior; code; cond; dir; deliv; fstat ] ->
      Uo_SFOReport
        {
          sr_request_label = v_bytes label;
          sr_source_entity_id = v_id src;
          sr_destination_entity_id = v_id dst;
          sr_reporting_entity_id = v_id rep;
          sr_prior_waypoints = v_num prior;
          sr_report_code = v_num code;
          sr_condition = v_cond cond;
          sr_direction = v_dir dir;
          sr_delivery_code = v_deliv deliv;
          sr_file_status = v_fstat fstat;
        }
  | _ -> failwith "codec: bad user operation"

let v_report (s : sx) : report =
  match tagged s "report" 5 with
  | [ e; q; state; status; cond ] ->
      { rp_entity = v_id e; rp_sequence = v_id q; rp_state = v_txstate state; rp_status = v_txstatus status; rp_condition = v_cond cond }
  | _ -> assert false

(* ------------------------------------------------------------------ value -> text (into a Buffer) *)

let add_n buf (x : n) = Buffer.add_string buf (string_of_n x)
let sp buf = Buffer.add_char buf ' '

(* (tag f1 f2 ...) where each field is a printer *)
let add_list buf (tag : string) (fields : (Buffer.t -> unit) list) =
  Buffer.add_char buf '(';
  Buffer.add_string buf tag;
  List.iter
    (fun f ->
      sp buf;
      f buf)
    fields;
  Buffer.add_char buf ')'

(* (e1 e2 ...) without tag *)
let add_seq buf (pr : Buffer.t -> 'a -> unit) (l : 'a list) =
  Buffer.add_char buf '(';
  List.iteri
    (fun i x ->
      if i > 0 then sp buf;
      pr buf x)
    l;
  Buffer.add_char buf ')'

let p_n (x : n) buf = add_n buf x
let p_bool (b : bool) buf = Buffer.add_char buf (if b then '1' else '0')
let p_bytes (b : n list) buf = add_hex buf b

let add_id buf (i : varid) =
  let w, v = match i with VU8 v -> ('1', v) | VU16 v -> ('2', v) | VU32 v -> ('4', v) | VU64 v -> ('8', v) in
  Buffer.add_char buf w;
  Buffer.add_char buf ':';
  add_n buf v

let p_id i buf = add_id buf i
let p_optid o buf = match o with None -> Buffer.add_string buf "none" | Some i -> add_id buf i

let add_hdr buf (h : pdu_header) =
  add_list buf "h"
    [
      p_n (u3_to_u8 h.h_version);
      p_n (pDUType_to_u8 h.h_pdu_type);
      p_n (direction_to_u8 h.h_direction);
      p_n (transmissionMode_to_u8 h.h_mode);
      p_n (cRCFlag_to_u8 h.h_crc);
      p_n (fileSizeFlag_to_u8 h.h_large);
      p_n h.h_len;
      p_n (segmentationControl_to_u8 h.h_segctl);
      p_n (segmentedData_to_u8 h.h_segmeta);
      p_id h.h_src;
      p_id h.h_seq;
      p_id h.h_dst;
    ]

let add_fsq buf (q : fs_request) =
  add_list buf "fsq" [ p_n (fileStoreAction_to_u8 q.fq_action); p_bytes q.fq_first; p_bytes q.fq_second ]

let add_fsr buf (r : fs_response) =
  add_list buf "fsr" [ p_n (fs_status_u8 r.fr_status); p_bytes r.fr_first; p_bytes r.fr_second; p_bytes r.fr_message ]

let p_fsq q buf = add_fsq buf q
let p_fsr r buf = add_fsr buf r

let add_tlv buf (t : metadata_tlv) =
  match t with
  | Tlv_FileStoreRequest q -> add_fsq buf q
  | Tlv_FileStoreResponse r -> add_fsr buf r
  | Tlv_MessageToUser b -> add_list buf "msg" [ p_bytes b ]
  | Tlv_FaultHandlerOverride c -> add_list buf "fho" [ p_n (handlerCode_to_u8 c) ]
  | Tlv_FlowLabel b -> add_list buf "flow" [ p_bytes b ]
  | Tlv_EntityID i -> add_list buf "eid" [ p_id i ]

let add_seg buf ((a, b) : n * n) =
  add_n buf a;
  Buffer.add_char buf ':';
  add_n buf b

let add_payload buf (p : pdu_payload) =
  match p with
  | Pl_Directive (Op_EoF e) ->
      add_list buf "eof"
        [ p_n (condition_to_u8 e.eof_condition); p_n e.eof_checksum; p_n e.eof_file_size; p_optid e.eof_fault_location ]
  | Pl_Directive (Op_Finished f) ->
      add_list buf "fin"
        [
          p_n (condition_to_u8 f.fin_condition);
          p_n (deliveryCode_to_u8 f.fin_delivery_code);
          p_n (fileStatusCode_to_u8 f.fin_file_status);
          (fun buf -> add_seq buf add_fsr f.fin_filestore_response);
          p_optid f.fin_fault_location;
        ]
  | Pl_Directive (Op_Ack k) ->
      add_list buf "ack"
        [
          p_n (pDUDirective_to_u8 k.ack_directive);
          p_n (aCKSubDirective_to_u8 k.ack_subtype);
          p_n (condition_to_u8 k.ack_condition);
          p_n (transactionStatus_to_u8 k.ack_status);
        ]
  | Pl_Directive (Op_Metadata m) ->
      add_list buf "md"
        [
          p_bool m.md_closure_requested;
          p_n (checksumType_to_u8 m.md_checksum_type);
          p_n m.md_file_size;
          p_bytes m.md_source_filename;
          p_bytes m.md_destination_filename;
          (fun buf -> add_seq buf add_tlv m.md_options);
        ]
  | Pl_Directive (Op_Nak k) ->
      add_list buf "nak"
        [ p_n k.nak_start_of_scope; p_n k.nak_end_of_scope; (fun buf -> add_seq buf add_seg k.nak_segment_requests) ]
  | Pl_Directive (Op_Prompt p) -> add_list buf "prompt" [ p_n (nakOrKeepAlive_to_u8 p) ]
  | Pl_Directive (Op_KeepAlive p) -> add_list buf "ka" [ p_n p ]
  | Pl_FileData (Fd_Unsegmented (off, data)) -> add_list buf "fd" [ p_n off; p_bytes data ]
  | Pl_FileData (Fd_Segmented (st, meta, off, data)) ->
      add_list buf "sfd" [ p_n (recordContinuationState_to_u8 st); p_bytes meta; p_n off; p_bytes data ]

let add_pdu buf (p : pdu) =
  add_list buf "pdu" [ (fun buf -> add_hdr buf p.pdu_hdr); (fun buf -> add_payload buf p.pdu_pl) ]

let add_uo buf (u : user_operation) =
  match u with
  | Uo_OriginatingTransactionID (src, seq) -> add_list buf "uo-otid" [ p_id src; p_id seq ]
  | Uo_Proxy (Px_PutRequest (dst, sname, dname)) -> add_list buf "uo-proxy-put" [ p_id dst; p_bytes sname; p_bytes dname ]
  | Uo_Proxy (Px_MessageToUser b) -> add_list buf "uo-proxy-msg" [ p_bytes b ]
  | Uo_Proxy (Px_FileStoreRequest q) -> add_list buf "uo-proxy-fsq" [ p_fsq q ]
  | Uo_Proxy (Px_FaultHandlerOverride c) -> add_list buf "uo-proxy-fho" [ p_n (handlerCode_to_u8 c) ]
  | Uo_Proxy (Px_TransmissionMode m) -> add_list buf "uo-proxy-mode" [ p_n (transmissionMode_to_u8 m) ]
  | Uo_Proxy (Px_FlowLabel b) -> add_list buf "uo-proxy-flow" [ p_bytes b ]
  | Uo_Proxy (Px_SegmentationControl c) -> add_list buf "uo-proxy-segctl" [ p_n (segmentationControl_to_u8 c) ]
  | Uo_Proxy Px_PutCancel -> add_list buf "uo-proxy-cancel" []
  | Uo_Response (Rs_ProxyPut (c, d, fs)) ->
      add_list buf "uo-resp-put" [ p_n (condition_to_u8 c); p_n (deliveryCode_to_u8 d); p_n (fileStatusCode_to_u8 fs) ]
  | Uo_Response (Rs_ProxyFileStore r) -> add_list buf "uo-resp-fsr" [ p_fsr r ]
  | Uo_Response (Rs_DirectoryListing (c, dn, df)) ->
      add_list buf "uo-resp-dir" [ p_n (listingResponseCode_to_u8 c); p_bytes dn; p_bytes df ]
  | Uo_Response (Rs_RemoteStatusReport (st, rc, src, seq)) ->
      add_list buf "uo-resp-status" [ p_n (transactionStatus_to_u8 st); p_bool rc; p_id src; p_id seq ]
  | Uo_Response (Rs_RemoteSuspend (ind, st, src, seq)) ->
      add_list buf "uo-resp-suspend" [ p_bool ind; p_n (transactionStatus_to_u8 st); p_id src; p_id seq ]
  | Uo_Response (Rs_RemoteResume (ind, st, src, seq)) ->
      add_list buf "uo-resp-resume" [ p_bool ind; p_n (transactionStatus_to_u8 st); p_id src; p_id seq ]
  | Uo_Request (Rq_DirectoryListing (dn, df)) -> add_list buf "uo-req-dir" [ p_bytes dn; p_bytes df ]
  | Uo_Request (Rq_RemoteStatusReport (src, seq, f)) -> add_list buf "uo-req-status" [ p_id src; p_id seq; p_bytes f ]
  | Uo_Request (Rq_RemoteSuspend (src, seq)) -> add_list buf "uo-req-suspend" [ p_id src; p_id seq ]
  | Uo_Request (Rq_RemoteResume (src, seq)) -> add_list buf "uo-req-resume" [ p_id src; p_id seq ]
  | Uo_SFORequest r ->
      add_list buf "uo-sfo-req"
        [
          p_n (traceControl_to_u8 r.sq_trace_control);
          p_n (transmissionMode_to_u8 r.sq_transmission_mode);
          p_n (segmentationControl_to_u8 r.sq_segment_control);
          p_bool r.sq_closure_request;
          p_n r.sq_prior_waypoints_count;
          p_bytes r.sq_request_label;
          p_id r.sq_source_entity_id;
          p_id r.sq_destination_entity_id;
          p_bytes r.sq_source_filename;
          p_bytes r.sq_destination_filename;
        ]
  | Uo_SFOMessageToUser b -> add_list buf "uo-sfo-msg" [ p_bytes b ]
  | Uo_SFOFlowLabel b -> add_list buf "uo-sfo-flow" [ p_bytes b ]
  | Uo_SFOFaultHandlerOverride c -> add_list buf "uo-sfo-fho" [ p_n (handlerCode_to_u8 c) ]
  | Uo_SFOFileStoreRequest q -> add_list buf "uo-sfo-fsq" [ p_fsq q ]
  | Uo_SFOFileStoreResponse r -> add_list buf "uo-sfo-fsr" [ p_fsr r ]
  | Uo_SFOReport r ->
      add_list buf "uo-sfo-report"
        [
          p_bytes r.sr_request_label;
          p_id r.sr_source_entity_id;
          p_id r.sr_destination_entity_id;
          p_id r.sr_reporting_entity_id;
          p_n r.sr_prior_waypoints;
          p_n r.sr_report_code;
          p_n (condition_to_u8 r.sr_condition);
          p_n (direction_to_u8 r.sr_direction);
          p_n (deliveryCode_to_u8 r.sr_delivery_code);
          p_n (fileStatusCode_to_u8 r.sr_file_status);
        ]

let add_report buf (r : report) =
  add_list buf "report"
    [
      p_id r.rp_entity;
      p_id r.rp_sequence;
      p_n (transactionState_to_u8 r.rp_state);
      p_n (transactionStatus_to_u8 r.rp_status);
      p_n (condition_to_u8 r.rp_condition);
    ]

(* ------------------------------------------------------------------ ops *)

(* "OP rest" -> (OP, trimmed rest) *)
let split_op (l : string) : string * string =
  match String.index_opt l ' ' with
  | Some i -> (String.sub l 0 i, String.trim (String.sub l (i + 1) (String.length l - i - 1)))
  | None -> (l, "")

(* per-type decoder ops (DH, DO, DF, DT, DV, DQ, DS): `<value> <consumed>` | ERR | PANIC,
   consumed = length of the input - length of the remaining slice *)
let run_rd buf (dec : 'a rd) (pr : Buffer.t -> 'a -> unit) (hex : string) : unit =
  let input = bytes_of_hex_fast hex in
  match dec input with
  | Ok (v, rest) ->
      pr buf v;
      sp buf;
      Buffer.add_string buf (string_of_int (List.length input - List.length rest))
  | Err -> Buffer.add_string buf "ERR"
  | Panic -> Buffer.add_string buf "PANIC"

let v_large_flag (s : string) : fileSizeFlag =
  match s with "0" -> FileSizeFlag_Small | "1" -> FileSizeFlag_Large | _ -> failwith ("codec: <large> must be 0/1: " ^ s)

let v_seg_flag (s : string) : segmentedData =
  match s with
  | "0" -> SegmentedData_NotPresent
  | "1" -> SegmentedData_Present
  | _ -> failwith ("codec: <seg> must be 0/1: " ^ s)

let run_op buf (l : string) : unit =
  let op, arg = split_op l in
  (match op with
  | "DH" -> run_rd buf header_decode add_hdr arg
  | "DO" -> (
      match split_ws arg with
      | [ large; hex ] ->
          run_rd buf (operations_decode (v_large_flag large)) (fun buf o -> add_payload buf (Pl_Directive o)) hex
      | _ -> failwith ("codec: bad op " ^ l))
  | "DF" -> (
      match split_ws arg with
      | [ seg; large; hex ] ->
          run_rd buf
            (file_data_decode (v_seg_flag seg) (v_large_flag large))
            (fun buf d -> add_payload buf (Pl_FileData d))
            hex
      | _ -> failwith ("codec: bad op " ^ l))
  | "DT" -> run_rd buf tlv_decode add_tlv arg
  | "DV" -> run_rd buf varid_decode add_id arg
  | "DQ" -> run_rd buf fs_request_decode add_fsq arg
  | "DS" -> run_rd buf fs_response_decode add_fsr arg
  | "E" ->
      let p = v_pdu (parse_sx arg) in
      add_hex buf (pdu_encode p);
      sp buf;
      add_n buf (payload_encoded_len p.pdu_hdr.h_large p.pdu_pl);
      sp buf;
      add_n buf (pdu_encoded_len p)
  | "D" -> (
      match pdu_decode (bytes_of_hex_fast arg) with
      | Ok p ->
          add_pdu buf p;
          sp buf;
          add_hex buf (pdu_encode (fix_len p))
      | Err -> Buffer.add_string buf "ERR"
      | Panic -> Buffer.add_string buf "PANIC")
  | "EU" ->
      let u = v_uo (parse_sx arg) in
      add_hex buf (uo_encode u);
      sp buf;
      add_n buf (uo_encoded_len u)
  | "DU" -> (
      match uo_decode (bytes_of_hex_fast arg) with
      | Ok (u, _) ->
          add_uo buf u;
          sp buf;
          add_hex buf (uo_encode u)
      | Err -> Buffer.add_string buf "ERR"
      | Panic -> Buffer.add_string buf "PANIC")
  | "ER" -> add_hex buf (report_encode (v_report (parse_sx arg)))
  | "DR" -> (
      match report_decode (bytes_of_hex_fast arg) with
      | Ok (r, _) ->
          add_report buf r;
          sp buf;
          add_hex buf (report_encode r)
      | Err -> Buffer.add_string buf "ERR"
      | Panic -> Buffer.add_string buf "PANIC")
  | _ -> failwith ("codec: bad op " ^ l));
  Buffer.add_char buf '\n'

let run path =
  let buf = Buffer.create 65536 in
  List.iter
    (fun (hdr, ops) ->
      Printf.printf "CASE %s\n" (List.hd hdr);
      List.iter
        (fun l ->
          Buffer.clear buf;
          (* an op line the current model cannot even parse (e.g. a discriminant that the
             regenerated enum table no longer / not yet contains) is a disagreement on that line,
             not a reason to lose the rest of the stream *)
          (try run_op buf l
           with Failure msg ->
             Buffer.clear buf;
             Buffer.add_string buf ("MODEL-CANNOT-READ " ^ msg ^ "\n"));
          Buffer.output_buffer stdout buf)
        ops)
    (read_cases path)
