(* Replays the daemon-handler events recorded by harness/src/daemon.rs through the extracted
   routing model (Model/Daemon.v) and prints the same observation lines. *)
open Model
open Conv

let keys_text (l : (n * n) list) =
  let l = List.sort compare (List.map (fun (a, b) -> (z_of_n a, z_of_n b)) l) in
  String.concat "," (List.map (fun (a, b) -> Z.to_string a ^ ":" ^ Z.to_string b) l)

let res_text = function DOk -> "ok" | DUnable -> "unable" | DComm -> "comm"

let run path =
  List.iter
    (fun (hdr, evs) ->
      Printf.printf "CASE %s\n" (List.hd hdr);
      let get k d =
        List.fold_left
          (fun acc kv ->
            let p = k ^ "=" in
            let lp = String.length p in
            if String.length kv > lp && String.sub kv 0 lp = p then String.sub kv lp (String.length kv - lp) else acc)
          d (List.tl hdr)
      in
      let w = n_of_string (get "w" "1") in
      let a = ref (d_new (n_of_int 1) w (n_of_string (get "s1" "0")) [ n_of_int 2 ]) in
      let b = ref (d_new (n_of_int 2) w (n_of_string (get "s2" "0")) [ n_of_int 1 ]) in
      let node d = if d = "1" then a else b in
      let obs res id =
        Printf.printf "%s id=%s A[%s] B[%s] nA=%s nB=%s\n" (res_text res)
          (match id with Some (x, y) -> string_of_n x ^ ":" ^ string_of_n y | None -> "-")
          (keys_text !a.d_tbl) (keys_text !b.d_tbl) (string_of_n !a.d_next) (string_of_n !b.d_next)
      in
      List.iter
        (fun l ->
          match split_ws l with
          | [ "PUT"; d; dest; ok ] ->
              let r = node d in
              let (s', res), id = d_put (n_of_string dest) (ok = "1") !r in
              r := s';
              obs res id
          | [ "FWD"; d; dir; src; dst; seq; closed ] ->
              let r = node d in
              let (s', res), _target = d_forward (dir = "S") (n_of_string src) (n_of_string dst) (n_of_string seq) (closed = "1") !r in
              r := s';
              obs res None
          | [ "CMD"; d; src; seq; closed ] ->
              let r = node d in
              let (s', res), _ = d_command (n_of_string src, n_of_string seq) (closed = "1") !r in
              r := s';
              obs res None
          | [ "CLEANUP"; d; ks ] ->
              let r = node d in
              let keys =
                if ks = "-" then []
                else
                  List.map
                    (fun k ->
                      match String.split_on_char ':' k with
                      | [ x; y ] -> (n_of_string x, n_of_string y)
                      | _ -> failwith "key")
                    (String.split_on_char ';' ks)
              in
              r := d_cleanup keys !r;
              obs DOk None
          | _ -> failwith ("daemon: bad event " ^ l))
        evs)
    (read_cases path)
