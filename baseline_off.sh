#!/bin/sh
# the repository's own test suite with the verification guard OFF (no --cfg cfdp_verif)
cd /repo && unset RUSTFLAGS && CARGO_NET_OFFLINE=true cargo nextest run --workspace --no-fail-fast --tool-config-file pb:/w/lib/nextest.toml --profile pb --test-threads 8 --offline || CARGO_NET_OFFLINE=true cargo test --workspace --no-fail-fast --offline
