#!/bin/sh
# development helper: build targets under a timeout and say clearly what happened
cd "$(dirname "$0")"
T=${T:-600}
timeout $T make -j16 "$@" > /tmp/mk.log 2>&1
rc=$?
if [ $rc -eq 0 ]; then echo "BUILD OK"; elif [ $rc -eq 124 ]; then echo "BUILD TIMEOUT after ${T}s"; ps aux | grep "coqc -q" | grep -v grep | awk '{print $NF}'; else echo "BUILD FAILED rc=$rc"; grep -E "^File|Error" -B2 -A25 /tmp/mk.log | head -${L:-60}; fi
