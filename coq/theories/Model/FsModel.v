(* Model of the filestore request machinery:
     FileStore::process_request      cfdp-core/src/filestore.rs:131-226
     the NativeFileStore operations  cfdp-core/src/filestore.rs:253-325
     the fail-the-rest loop          cfdp-daemon/src/transaction/recv.rs:808-827
   over an abstract directory tree.  The behaviour of std::fs on that tree
   (File::create, remove_file, rename, append, read, write, create_dir,
   remove_dir_all, Path::exists / is_file / is_dir; Linux, no symbolic links, no
   permission failures) is the trusted oracle of DESIGN.md section 3; it is
   compared with the real filesystem on every run.
   Definitions only; proofs are in Proofs/FsModelP.v. *)
From CFDP Require Import Base.Prelude Model.Path.

(* a location below the filestore root: the names walked from the root; [] is the root itself *)
Definition fpath := list (list N).

Inductive node : Type :=
| File (content : list N)
| Dir.

(* the directory tree: a finite map from locations to nodes (first binding wins) *)
Definition tree := list (fpath * node).

Fixpoint fpath_eqb (a b : fpath) : bool :=
  match a, b with
  | [], [] => true
  | x :: a', y :: b' => bytes_eqb x y && fpath_eqb a' b'
  | _, _ => false
  end.

(* q lies in the subtree of p (p itself included) *)
Fixpoint is_prefix (p q : fpath) : bool :=
  match p with
  | [] => true
  | x :: p' => match q with
               | y :: q' => bytes_eqb x y && is_prefix p' q'
               | [] => false
               end
  end.

Fixpoint lookup (t : tree) (p : fpath) : option node :=
  match t with
  | [] => None
  | (q, n) :: t' => if fpath_eqb q p then Some n else lookup t' p
  end.

(* Path::exists / is_file / is_dir *)
Definition exists_ (t : tree) (p : fpath) : bool :=
  match lookup t p with Some _ => true | None => false end.
Definition is_file (t : tree) (p : fpath) : bool :=
  match lookup t p with Some (File _) => true | _ => false end.
Definition is_dir (t : tree) (p : fpath) : bool :=
  match lookup t p with Some Dir => true | _ => false end.

(* the directory that would hold a new entry p exists; the directory that
   contains the root itself is assumed to exist *)
Definition parent_is_dir (t : tree) (p : fpath) : bool :=
  match p with
  | [] => true
  | _ :: _ => is_dir t (removelast p)
  end.

Definition content (t : tree) (p : fpath) : list N :=
  match lookup t p with Some (File c) => c | _ => [] end.

Definition remove_key (p : fpath) (t : tree) : tree :=
  filter (fun e => negb (fpath_eqb (fst e) p)) t.
Definition remove_subtree (p : fpath) (t : tree) : tree :=
  filter (fun e => negb (is_prefix p (fst e))) t.
Definition set_node (t : tree) (p : fpath) (n : node) : tree :=
  (p, n) :: remove_key p t.

(* ------------------------------------------------------------------ *)
(* The NativeFileStore operations (each is get_native_path + std::fs). *)
(* None = Err(_).                                                      *)

(* File::create(path)?.sync_all(): creates or truncates; a path with a trailing
   separator (the root itself) can never be opened for writing *)
Definition create_file (t : tree) (p : fpath) : option tree :=
  match p with
  | [] => None
  | _ :: _ =>
      match lookup t p with
      | Some (File _) => Some (set_node t p (File []))
      | Some Dir => None
      | None => if parent_is_dir t p then Some (set_node t p (File [])) else None
      end
  end.

(* fs::remove_file *)
Definition delete_file (t : tree) (p : fpath) : option tree :=
  match lookup t p with
  | Some (File _) => Some (remove_key p t)
  | _ => None
  end.

(* q = p ++ rest *)
Fixpoint strip (p q : fpath) : option fpath :=
  match p with
  | [] => Some q
  | x :: p' => match q with
               | y :: q' => if bytes_eqb x y then strip p' q' else None
               | [] => None
               end
  end.
Definition rekey (from to : fpath) (e : fpath * node) : fpath * node :=
  match strip from (fst e) with
  | Some rest => (to ++ rest, snd e)
  | None => e
  end.

(* rename_file: refuses an existing target, then fs::rename *)
Definition rename_file (t : tree) (from to : fpath) : option tree :=
  if exists_ t to then None
  else match lookup t from with
       | None => None
       | Some (File c) =>
           if parent_is_dir t to then Some (set_node (remove_key from t) to (File c)) else None
       | Some Dir =>
           if is_prefix from to then None                      (* EINVAL *)
           else if parent_is_dir t to then Some (map (rekey from to) t) else None
       end.

(* File::options().append(true).open(p1)?.write_all(fs::read(p2)?) *)
Definition append_file (t : tree) (p1 p2 : fpath) : option tree :=
  match lookup t p1 with
  | Some (File c1) =>
      match lookup t p2 with
      | Some (File c2) => Some (set_node t p1 (File (c1 ++ c2)))
      | _ => None
      end
  | _ => None
  end.

(* exists(p1) then fs::write(p1, fs::read(p2)?) *)
Definition replace_file (t : tree) (p1 p2 : fpath) : option tree :=
  match lookup t p1 with
  | None => None
  | Some n1 =>
      match lookup t p2 with
      | Some (File c2) =>
          match n1 with
          | File _ => Some (set_node t p1 (File c2))
          | Dir => None
          end
      | _ => None
      end
  end.

(* fs::create_dir *)
Definition create_directory (t : tree) (p : fpath) : option tree :=
  match lookup t p with
  | Some _ => None
  | None => if parent_is_dir t p then Some (set_node t p Dir) else None
  end.

(* fs::remove_dir_all *)
Definition remove_directory (t : tree) (p : fpath) : option tree :=
  match lookup t p with
  | Some Dir => Some (remove_subtree p t)
  | _ => None
  end.

(* ------------------------------------------------------------------ *)
(* process_request                                                     *)

Inductive action : Type :=
| ACreateFile | ADeleteFile | ARenameFile | AAppendFile | AReplaceFile
| ACreateDirectory | ARemoveDirectory | ADenyFile | ADenyDirectory.

(* FileStoreAction as u8 *)
Definition action_code (a : action) : N :=
  match a with
  | ACreateFile => 0 | ADeleteFile => 1 | ARenameFile => 2 | AAppendFile => 3
  | AReplaceFile => 4 | ACreateDirectory => 5 | ARemoveDirectory => 6
  | ADenyFile => 7 | ADenyDirectory => 8
  end.

(* status codes (the low nibble of FileStoreStatus::as_u8) *)
Definition st_successful : N := 0.
Definition st_not_performed : N := 15.

(* process_request on resolved locations: status code and new tree *)
Definition process_keys (t : tree) (a : action) (p p2 : fpath) : N * tree :=
  match a with
  | ACreateFile =>
      if exists_ t p then (1, t)                                   (* NotAllowed *)
      else match create_file t p with
           | Some t' => (0, t')
           | None => (1, t)
           end
  | ADeleteFile =>
      if is_file t p then
        match delete_file t p with
        | Some t' => (0, t')
        | None => (2, t)                                           (* DeleteNotAllowed *)
        end
      else (1, t)                                                  (* FileDoesNotExist *)
  | ARenameFile =>
      if is_file t p then
        if is_file t p2 then (2, t)                                (* NewFilenameAlreadyExists *)
        else match rename_file t p p2 with
             | Some t' => (0, t')
             | None => (3, t)                                      (* RenameNotAllowed *)
             end
      else (1, t)                                                  (* OldFilenameDoesNotExist *)
  | AAppendFile =>
      if is_file t p then
        if is_file t p2 then
          match append_file t p p2 with
          | Some t' => (0, t')
          | None => (3, t)                                         (* NotAllowed *)
          end
        else (2, t)                                                (* Filename2DoesNotExist *)
      else (1, t)                                                  (* Filename1DoesNotExist *)
  | AReplaceFile =>
      if is_file t p then
        if is_file t p2 then
          match replace_file t p p2 with
          | Some t' => (0, t')
          | None => (3, t)
          end
        else (2, t)
      else (1, t)
  | ACreateDirectory =>
      if is_dir t p then (1, t)                                    (* DirectoryCannotBeCreated *)
      else match create_directory t p with
           | Some t' => (0, t')
           | None => (1, t)
           end
  | ARemoveDirectory =>
      if is_dir t p then
        match remove_directory t p with
        | Some t' => (0, t')
        | None => (6, t)                                           (* DeleteNotAllowed *)
        end
      else (1, t)                                                  (* DirectoryDoesNotExist *)
  | ADenyFile =>
      if is_file t p then
        match delete_file t p with
        | Some t' => (0, t')
        | None => (2, t)                                           (* NotAllowed *)
        end
      else (2, t)
  | ADenyDirectory =>
      if is_dir t p then
        match remove_directory t p with
        | Some t' => (0, t')
        | None => (2, t)
        end
      else (2, t)
  end.

(* the location a name denotes: get_native_path without the final join (Path.native) *)
Definition native_names (root name : list N) : option fpath :=
  let p := components name in
  let rel := match strip_prefix p (components root) with
             | Some rest => rest
             | None => p
             end in
  normalize_path rel.

Record request : Type := mk_request {
  req_action : action;
  req_name1 : list N;
  req_name2 : list N
}.

(* FileStoreResponse: action, status code, the two names echoed, empty message *)
Record response : Type := mk_response {
  resp_action : action;
  resp_status : N;
  resp_name1 : list N;
  resp_name2 : list N
}.

Definition is_fail (r : response) : bool := negb (resp_status r =? st_successful).

(* FileStoreResponse::not_performed(request) *)
Definition not_performed (r : request) : response :=
  mk_response (req_action r) st_not_performed (req_name1 r) (req_name2 r).

(* None = the unreachable!() of normalize_path (a panic) *)
Definition process_request (root : list N) (t : tree) (r : request) : option (response * tree) :=
  match native_names root (req_name1 r), native_names root (req_name2 r) with
  | Some p, Some p2 =>
      let '(st, t') := process_keys t (req_action r) p p2 in
      Some (mk_response (req_action r) st (req_name1 r) (req_name2 r), t')
  | _, _ => None
  end.

(* recv.rs:808-827
     let mut fail_rest = false;
     for request in requests {
         let response = match fail_rest {
             false => { let rep = process_request(request); fail_rest = rep.is_fail(); rep }
             true => FileStoreResponse::not_performed(request) };
         out.push(response) }                                           *)
Fixpoint exec_loop (root : list N) (fail_rest : bool) (t : tree) (reqs : list request)
  : option (list response * tree) :=
  match reqs with
  | [] => Some ([], t)
  | r :: rest =>
      if fail_rest then
        match exec_loop root true t rest with
        | Some (out, t') => Some (not_performed r :: out, t')
        | None => None
        end
      else
        match process_request root t r with
        | None => None
        | Some (rep, t1) =>
            match exec_loop root (is_fail rep) t1 rest with
            | Some (out, t2) => Some (rep :: out, t2)
            | None => None
            end
        end
  end.

Definition exec_requests (root : list N) (t : tree) (reqs : list request) :=
  exec_loop root false t reqs.

(* ------------------------------------------------------------------ *)
(* The declarative specification (CCSDS 727.0-B-5 table 5-18 and the    *)
(* action definitions of 4.x; Deny on a missing target reports          *)
(* NotAllowed, as the repository's own tests pin).                      *)

Definition spec_status (t : tree) (a : action) (p p2 : fpath) : N :=
  match a with
  | ACreateFile =>
      match lookup t p with
      | Some _ => 1
      | None => match p with
                | [] => 1                       (* the root itself can only be a directory *)
                | _ :: _ => if parent_is_dir t p then 0 else 1
                end
      end
  | ACreateDirectory =>
      match lookup t p with
      | Some _ => 1
      | None => if parent_is_dir t p then 0 else 1
      end
  | ADeleteFile =>
      match lookup t p with Some (File _) => 0 | _ => 1 end
  | ARenameFile =>
      match lookup t p with
      | Some (File _) =>
          match lookup t p2 with
          | Some (File _) => 2
          | Some Dir => 3
          | None => if parent_is_dir t p2 then 0 else 3
          end
      | _ => 1
      end
  | AAppendFile | AReplaceFile =>
      match lookup t p with
      | Some (File _) => match lookup t p2 with Some (File _) => 0 | _ => 2 end
      | _ => 1
      end
  | ARemoveDirectory =>
      match lookup t p with Some Dir => 0 | _ => 1 end
  | ADenyFile =>
      match lookup t p with Some (File _) => 0 | _ => 2 end
  | ADenyDirectory =>
      match lookup t p with Some Dir => 0 | _ => 2 end
  end.

(* the tree after a successful request, location by location *)
Definition spec_lookup (t : tree) (a : action) (p p2 : fpath) (q : fpath) : option node :=
  match a with
  | ACreateFile => if fpath_eqb p q then Some (File []) else lookup t q
  | ADeleteFile | ADenyFile => if fpath_eqb p q then None else lookup t q
  | ARenameFile =>
      if fpath_eqb p2 q then lookup t p
      else if fpath_eqb p q then None
      else lookup t q
  | AAppendFile => if fpath_eqb p q then Some (File (content t p ++ content t p2)) else lookup t q
  | AReplaceFile => if fpath_eqb p q then Some (File (content t p2)) else lookup t q
  | ACreateDirectory => if fpath_eqb p q then Some Dir else lookup t q
  | ARemoveDirectory | ADenyDirectory => if is_prefix p q then None else lookup t q
  end.

(* entry points of the extracted driver (no constructor of this file is named by the driver) *)
Definition action_of_code (c : N) : option action :=
  if c =? 0 then Some ACreateFile else if c =? 1 then Some ADeleteFile
  else if c =? 2 then Some ARenameFile else if c =? 3 then Some AAppendFile
  else if c =? 4 then Some AReplaceFile else if c =? 5 then Some ACreateDirectory
  else if c =? 6 then Some ARemoveDirectory else if c =? 7 then Some ADenyFile
  else if c =? 8 then Some ADenyDirectory else None.
Definition fs_mk_request (code : N) (n1 n2 : list N) : option request :=
  match action_of_code code with
  | Some a => Some (mk_request a n1 n2)
  | None => None
  end.
(* FileStoreStatus::as_u8 *)
Definition fs_resp_code (r : response) : N := action_code (resp_action r) * 16 + resp_status r.
Definition fs_tree_of (entries : list (fpath * option (list N))) : tree :=
  map (fun e => (fst e, match snd e with Some c => File c | None => Dir end)) entries.
Definition fs_entries (t : tree) : list (fpath * option (list N)) :=
  map (fun e => (fst e, match snd e with File c => Some c | Dir => None end)) t.
Definition fs_process_request := process_request.
Definition fs_exec_requests := exec_requests.
