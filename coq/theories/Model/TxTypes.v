(* Types shared by the two transaction state-machine models (Recv.v, Send.v):
   configuration, the PDUs as the machines see them (values, not bytes), and the
   indications. Definitions only. *)
From CFDP Require Import Base.Prelude.

Definition tbytes := list N.
Notation bytes := tbytes.

Inductive cond :=
| NoError | PositiveLimitReached | KeepAliveLimitReached | InvalidTransmissionMode
| FileStoreRejectionC | FileChecksumFailure | FilesizeError | NakLimitReached
| InactivityDetected | InvalidFileStructure | CheckLimitReached | UnsupportedChecksumType
| SuspendReceived | CancelReceived.

Definition cond_code (c : cond) : N :=
  match c with
  | NoError => 0 | PositiveLimitReached => 1 | KeepAliveLimitReached => 2
  | InvalidTransmissionMode => 3 | FileStoreRejectionC => 4 | FileChecksumFailure => 5
  | FilesizeError => 6 | NakLimitReached => 7 | InactivityDetected => 8
  | InvalidFileStructure => 9 | CheckLimitReached => 10 | UnsupportedChecksumType => 11
  | SuspendReceived => 14 | CancelReceived => 15
  end.
Definition cond_eqb (a b : cond) : bool := cond_code a =? cond_code b.

Inductive fault_action := ACancel | ASuspend | AIgnore | AAbandon.
Notation action := fault_action.
Inductive mode := Acked | Unacked.
Inductive nakproc := Immediate (delay : N) | Deferred (delay : N).
Definition nak_delay (p : nakproc) : N := match p with Immediate d => d | Deferred d => d end.
Definition is_immediate (p : nakproc) : bool := match p with Immediate _ => true | _ => false end.

Inductive tstate := TActive | TSuspended | TTerminated.
Inductive tstatus := SUndefined | SActive | STerminated | SUnrecognized.
Inductive delivery := DComplete | DIncomplete.
Inductive fstatus := FDiscarded | FRejection | FRetained | FUnreported.
Inductive cktype := CkModular | CkNull.
Inductive directive := DirEoF | DirFinished | DirOther.   (* what an ACK names: EOF, Finished, anything else *)
Inductive acksub := SubOther | SubFinished.
Inductive nak_or_ka := PNak | PKeepAlive.

Definition tstate_eqb (a b : tstate) : bool :=
  match a, b with
  | TActive, TActive | TSuspended, TSuspended | TTerminated, TTerminated => true
  | _, _ => false
  end.

(* Filestore requests/responses are opaque to the state machines: they are carried
   in Metadata / Finished and handed to the filestore (Section variables of Recv.v).
   They are represented by their canonical text (as printed by the harness). *)
Definition fsreq := bytes.
Definition fsresp := bytes.
Definition usermsg := bytes.

Record config := mkConfig {
  cfg_mode : mode;
  cfg_large : bool;               (* file_size_flag = Large *)
  cfg_crc : bool;
  cfg_seg : N;                    (* file_size_segment (u16) *)
  cfg_max : N;                    (* max_count *)
  cfg_t_inact : N;                (* ms *)
  cfg_t_ack : N;
  cfg_t_nak : N;
  cfg_handlers : list (cond * action);   (* fault_handler_override *)
  cfg_src : N; cfg_dst : N; cfg_seq : N; (* entity ids / sequence number, as numbers *)
  cfg_idw : N; cfg_seqw : N              (* their encoded widths in bytes *)
}.

Fixpoint lookup_action (c : cond) (l : list (cond * action)) : option action :=
  match l with
  | [] => None
  | (c', a) :: t => if cond_eqb c c' then Some a else lookup_action c t
  end.
Definition handler (cfg : config) (c : cond) : action :=
  match lookup_action c (cfg_handlers cfg) with Some a => a | None => ACancel end.

Definition fss (cfg : config) : N := if cfg_large cfg then 8 else 4.

Record metadata := mkMeta {
  md_src : bytes;
  md_dst : bytes;
  md_size : N;
  md_ck : cktype;
  md_closure : bool;
  md_reqs : list fsreq;
  md_msgs : list usermsg
}.

Record eof := mkEof { eof_cond : cond; eof_ck : N; eof_size : N; eof_fault : option N }.
Record fin := mkFin { fin_cond : cond; fin_dc : delivery; fin_fs : fstatus;
                      fin_resps : list fsresp; fin_fault : option N }.
Record ack := mkAck { ack_dir : directive; ack_sub : acksub; ack_cond : cond; ack_tstatus : tstatus }.
Record nak := mkNak { nak_start : N; nak_end : N; nak_reqs : list (N * N) }.

(* payloads *)
Inductive payload :=
| PFileData (offset : N) (data : bytes)
| PEof (e : eof)
| PFinished (f : fin)
| PAck (a : ack)
| PMetadata (m : metadata)
| PNakP (n : nak)
| PPrompt (p : nak_or_ka)
| PKeepAliveP (progress : N).

(* what a machine emits: payload plus the header fields that vary *)
Record opdu := mkOpdu {
  o_to_receiver : bool;         (* Direction *)
  o_len : N;                    (* pdu_data_field_length the machine computed *)
  o_dest : N;                   (* entity the PDU is handed to the transport for *)
  o_payload : payload
}.

Record treport := mkReport { trp_state : tstate; trp_status : tstatus; trp_cond : cond }.
Notation report := treport.

Inductive indication :=
| ITransaction
| IEoFSent
| IEoFRecv
| IFinished (r : report) (fs : fstatus) (dc : delivery) (resps : list fsresp)
| IMetadataRecv (src dst : bytes) (size : N) (msgs : list usermsg)
| IFileSegmentRecv (offset len : N)
| ISuspended (c : cond)
| IResumed (progress : N)
| IReport (r : report)
| IFault (c : cond) (progress : N)
| IAbandon (c : cond) (progress : N).

(* result class of a call *)
Inductive result := ROk | RUnexpected | RErr.

(* payload.encoded_len(file_size_flag) for the PDUs the machines emit
   (cfdp-core/src/pdu/ops.rs encoded_len functions) *)
Definition lv_len (b : bytes) : N := 1 + N.of_nat (length b).
Definition tlv_len (b : bytes) : N := 2 + N.of_nat (length b).
Fixpoint sum_tlv (l : list bytes) : N :=
  match l with [] => 0 | b :: t => tlv_len b + sum_tlv t end.
Definition idw_of (cfg : config) : N := cfg_idw cfg.

Definition payload_len (cfg : config) (resp_len : fsresp -> N) (req_len : fsreq -> N) (p : payload) : N :=
  match p with
  | PFileData _ d => fss cfg + N.of_nat (length d)
  | PEof e => 1 + 1 + 4 + fss cfg + match eof_fault e with Some _ => 2 + idw_of cfg | None => 0 end
  | PFinished f => 1 + 1 + fold_right (fun r acc => resp_len r + acc) 0 (fin_resps f)
                   + match fin_fault f with Some _ => 2 + idw_of cfg | None => 0 end
  | PAck _ => 1 + 2
  | PMetadata m => 1 + 1 + fss cfg + lv_len (md_src m) + lv_len (md_dst m)
                   + fold_right (fun r acc => req_len r + acc) 0 (md_reqs m) + sum_tlv (md_msgs m)
  | PNakP n => 1 + 2 * fss cfg + N.of_nat (length (nak_reqs n)) * (2 * fss cfg)
  | PPrompt _ => 1 + 1
  | PKeepAliveP _ => 1 + fss cfg
  end.
