(* The two-machine system: one send transaction, one receive transaction and the link between
   them (component `link`). Definitions only.

   The link carries PDUs as values (justified by C05: encode/decode is the identity on them; by
   C15/C16/C06 a corrupted or truncated datagram is a drop). It can deliver any PDU in flight
   (reordering, arbitrary delay), deliver a copy (duplication), drop one, or be cut in one
   direction for good (the peer falls silent). Each machine is driven exactly like its select!
   loop in lib.rs drives it: the send arm when has_pdu_to_send, the timeout arm when the sleep
   has elapsed, the command arm for a delivered PDU or a user request; a machine whose loop has
   ended (state Terminated, or a fatal error returned) executes nothing more and PDUs delivered
   to it are discarded.  [LRun] is the loop left alone on a loss-free link: send arms first,
   then deliveries in order, then sleep until the earliest deadline and run the timeout arms. *)
From CFDP Require Import Base.Prelude Model.Timer Model.TxTypes Model.Recv Model.Send Model.TxInst.

Inductive uop := USend | UTimeout | UCancel | USuspend | UResume | UReport | UPrompt (p : nak_or_ka).

Definition sop_of (u : uop) : sop :=
  match u with
  | USend => SSend | UTimeout => STimeout | UCancel => SCancelOp | USuspend => SSuspendOp
  | UResume => SResumeOp | UReport => SReportOp | UPrompt p => SPromptOp p
  end.
(* Command::Prompt is a no-op for a receive transaction *)
Definition rop_of (u : uop) : option rop :=
  match u with
  | USend => Some RSend | UTimeout => Some RTimeout | UCancel => Some RCancelOp | USuspend => Some RSuspendOp
  | UResume => Some RResumeOp | UReport => Some RReportOp | UPrompt _ => None
  end.

Record lstate := mkL {
  l_s : sstate;
  l_r : rstate flat_fs;
  l_sr : list payload;        (* in flight towards the receiver, oldest first *)
  l_rs : list payload;        (* in flight towards the sender *)
  l_sdead : bool;             (* the sender's loop has ended *)
  l_rdead : bool;
  l_cut_sr : bool;            (* blackout: whatever is sent in that direction is lost *)
  l_cut_rs : bool;
  l_now : N;
  l_sacc : list out;          (* what each machine emitted during the current operation, in order *)
  l_racc : list out;
  l_sres : result;            (* result class of the last call on each machine *)
  l_rres : result;
  l_iters : N                 (* loop iterations executed by the last LRun *)
}.

Definition l_new (now : N) (cfg : config) (np : nakproc) (m : metadata) (file : bytes) : lstate :=
  let s := s_new now cfg m file in
  mkL s (r_new now cfg np ([] : flat_fs)) [] [] false false false false now (rev (s_out s)) [] ROk ROk 0.

Definition pdus_of (outs : list out) : list payload :=
  flat_map (fun o => match o with OPdu p => [o_payload p] | OInd _ => [] end) outs.

Definition is_err (r : result) : bool := match r with RErr => true | _ => false end.

(* one call on the sender *)
Definition l_sstep (o : sop) (l : lstate) : lstate :=
  if l_sdead l then l
  else
    let '(s', r) := inst_sstep (l_now l) o (l_s l) in
    let outs := rev (s_out s') in
    mkL s' (l_r l)
        (if l_cut_sr l then l_sr l else l_sr l ++ pdus_of outs) (l_rs l)
        (is_err r || tstate_eqb (s_state s') TTerminated) (l_rdead l)
        (l_cut_sr l) (l_cut_rs l) (l_now l) (l_sacc l ++ outs) (l_racc l) r (l_rres l) (l_iters l).

Definition l_rstep (o : rop) (l : lstate) : lstate :=
  if l_rdead l then l
  else
    let '(r', res) := inst_rstep (l_now l) o (l_r l) in
    let outs := rev (r_out r') in
    mkL (l_s l) r'
        (l_sr l) (if l_cut_rs l then l_rs l else l_rs l ++ pdus_of outs)
        (l_sdead l) (is_err res || tstate_eqb (r_state r') TTerminated)
        (l_cut_sr l) (l_cut_rs l) (l_now l) (l_sacc l) (l_racc l ++ outs) (l_sres l) res (l_iters l).

Definition set_queues (sr rs : list payload) (l : lstate) : lstate :=
  mkL (l_s l) (l_r l) sr rs (l_sdead l) (l_rdead l) (l_cut_sr l) (l_cut_rs l) (l_now l)
      (l_sacc l) (l_racc l) (l_sres l) (l_rres l) (l_iters l).
Definition set_cuts (a b : bool) (l : lstate) : lstate :=
  mkL (l_s l) (l_r l) (l_sr l) (l_rs l) (l_sdead l) (l_rdead l) a b (l_now l)
      (l_sacc l) (l_racc l) (l_sres l) (l_rres l) (l_iters l).
Definition set_now (t : N) (l : lstate) : lstate :=
  mkL (l_s l) (l_r l) (l_sr l) (l_rs l) (l_sdead l) (l_rdead l) (l_cut_sr l) (l_cut_rs l) t
      (l_sacc l) (l_racc l) (l_sres l) (l_rres l) (l_iters l).
Definition set_iters (k : N) (l : lstate) : lstate :=
  mkL (l_s l) (l_r l) (l_sr l) (l_rs l) (l_sdead l) (l_rdead l) (l_cut_sr l) (l_cut_rs l) (l_now l)
      (l_sacc l) (l_racc l) (l_sres l) (l_rres l) k.
Definition clear_acc (l : lstate) : lstate :=
  mkL (l_s l) (l_r l) (l_sr l) (l_rs l) (l_sdead l) (l_rdead l) (l_cut_sr l) (l_cut_rs l) (l_now l)
      [] [] ROk ROk 0.

(* the k-th PDU in flight (k taken modulo the queue length) and the queue without it *)
Definition pick {A} (k : N) (q : list A) : option (A * list A) :=
  match q with
  | [] => None
  | _ =>
      let i := N.to_nat (k mod N.of_nat (length q)) in
      match nth_error q i with
      | Some x => Some (x, firstn i q ++ skipn (S i) q)
      | None => None
      end
  end.

Inductive lop :=
| LS (u : uop)                         (* an arm of the sender's loop / a user request to it *)
| LR (u : uop)
| LDeliver (to_recv : bool) (k : N)    (* the link delivers the k-th PDU in flight in that direction *)
| LDup (to_recv : bool) (k : N)        (* ... delivers a copy of it and keeps it in flight *)
| LDrop (to_recv : bool) (k : N)       (* ... loses it *)
| LCut (to_recv : bool)                (* that direction goes dark for good *)
| LAdv (ms : N)
| LRun (fuel : N).

Definition deliver (to_recv : bool) (p : payload) (l : lstate) : lstate :=
  if to_recv then l_rstep (RPdu p) l else l_sstep (SPdu p) l.

Definition s_alive (l : lstate) : bool := negb (l_sdead l).
Definition r_alive (l : lstate) : bool := negb (l_rdead l).

Definition omin2 (a b : option N) : option N :=
  match a, b with
  | None, x => x
  | x, None => x
  | Some x, Some y => Some (N.min x y)
  end.
Definition is_zero (o : option N) : bool := match o with Some 0 => true | _ => false end.

(* one iteration of the system left alone; None = quiescent (nothing to send, nothing in flight,
   no timer running) *)
Definition run1 (l : lstate) : option lstate :=
  if s_alive l && s_has_pdu_to_send (l_s l) then Some (l_sstep SSend l)
  else if r_alive l && has_pdu_to_send (l_r l) then Some (l_rstep RSend l)
  else match l_sr l with
  | p :: q => Some (deliver true p (set_queues q (l_rs l) l))
  | [] =>
  match l_rs l with
  | p :: q => Some (deliver false p (set_queues (l_sr l) q l))
  | [] =>
      let ds := if s_alive l then s_until_timeout (l_now l) (l_s l) else None in
      let dr := if r_alive l then until_timeout (l_now l) (l_r l) else None in
      match omin2 ds dr with
      | None => None
      | Some d =>
          let l := set_now (l_now l + d) l in
          let l := if s_alive l && is_zero (s_until_timeout (l_now l) (l_s l)) then l_sstep STimeout l else l in
          let l := if r_alive l && is_zero (until_timeout (l_now l) (l_r l)) then l_rstep RTimeout l else l in
          Some l
      end
  end end.

Fixpoint run (fuel : nat) (l : lstate) : lstate :=
  match fuel with
  | O => l
  | S f => match run1 l with
           | None => l
           | Some l' => run f (set_iters (l_iters l' + 1) l')
           end
  end.

Definition lstep (o : lop) (l : lstate) : lstate :=
  let l := clear_acc l in
  match o with
  | LS u => l_sstep (sop_of u) l
  | LR u => match rop_of u with Some o => l_rstep o l | None => l end
  | LDeliver to_recv k =>
      if to_recv then match pick k (l_sr l) with
                      | Some (p, q) => deliver true p (set_queues q (l_rs l) l)
                      | None => l end
      else match pick k (l_rs l) with
           | Some (p, q) => deliver false p (set_queues (l_sr l) q l)
           | None => l end
  | LDup to_recv k =>
      match pick k (if to_recv then l_sr l else l_rs l) with
      | Some (p, _) => deliver to_recv p l
      | None => l
      end
  | LDrop to_recv k =>
      if to_recv then match pick k (l_sr l) with Some (_, q) => set_queues q (l_rs l) l | None => l end
      else match pick k (l_rs l) with Some (_, q) => set_queues (l_sr l) q l | None => l end
  | LCut to_recv => if to_recv then set_cuts true (l_cut_rs l) l else set_cuts (l_cut_sr l) true l
  | LAdv ms => set_now (l_now l + ms) l
  | LRun fuel => run (N.to_nat fuel) l
  end.

Definition lrun (ops : list lop) (l : lstate) : lstate := fold_left (fun l o => lstep o l) ops l.
