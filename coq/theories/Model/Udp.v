(* Model of UdpTransport::receive, cfdp-daemon/src/transport.rs:124-135.
   The transport owns ONE receive buffer of 65 535 bytes which is reused for every
   datagram: recv_from overwrites its first n bytes with the datagram and leaves
   the rest as it was.  The PDU decoder is a parameter: the model (and its
   theorems) hold for any decoder.  Definitions only; proofs in Proofs/UdpP.v. *)
From CFDP Require Import Base.Prelude.

Section Udp.
  Variable A : Type.
  Variable decode : list N -> option A.   (* PDU::decode; None = Err *)

  (* socket.recv_from(&mut buffer): the datagram (cut to the buffer size) replaces
     the beginning of the buffer *)
  Definition overlay (d buf : list N) : list N :=
    firstn (length buf) d ++ skipn (length d) buf.

  (* the n returned by recv_from *)
  Definition received_len (d buf : list N) : nat := Nat.min (length d) (length buf).

  (* what is handed to the decoder (after the fix): &self.buffer[..n] *)
  Definition view (d buf : list N) : list N :=
    firstn (received_len d buf) (overlay d buf).

  (* one call of receive(): new buffer contents and the result *)
  Definition recv (buf d : list N) : list N * option A :=
    (overlay d buf, decode (view d buf)).

  (* a history of datagrams received one after the other through the same transport *)
  Fixpoint run (buf : list N) (ds : list (list N)) : list (option A) :=
    match ds with
    | [] => []
    | d :: t => let '(buf', r) := recv buf d in r :: run buf' t
    end.

  (* ---- the pinned (pre-fix) code: the decoder is handed the whole buffer ---- *)
  Definition pinned_recv (buf d : list N) : list N * option A :=
    (overlay d buf, decode (overlay d buf)).
  Fixpoint pinned_run (buf : list N) (ds : list (list N)) : list (option A) :=
    match ds with
    | [] => []
    | d :: t => let '(buf', r) := pinned_recv buf d in r :: pinned_run buf' t
    end.
End Udp.

Arguments overlay d buf : assert.
Arguments received_len d buf : assert.
Arguments view d buf : assert.
Arguments recv {A} decode buf d.
Arguments run {A} decode buf ds.
Arguments pinned_recv {A} decode buf d.
Arguments pinned_run {A} decode buf ds.

(* vec![0_u8; u16::MAX as usize] *)
Definition udp_buffer_len : N := 65535.
Definition udp_initial_buffer : list N := repeat 0 (N.to_nat udp_buffer_len).

(* entry point of the extracted driver *)
Definition udp_recv {A : Type} (decode : list N -> option A) (buf d : list N) := recv decode buf d.
