(* Model of cfdp-daemon/src/transaction/recv.rs (RecvTransaction), function by
   function and branch by branch, for the code as fixed (see known_findings.json).
   Definitions only; theorems are in Proofs/RecvP.v.

   Virtual time [now] (ms) is an explicit argument of every function that reads the
   clock in Rust. Outputs (PDUs handed to the transport, indications to the user)
   are appended to the [r_out] log in call order; [rstep] clears the log first.

   Parameters (Section variables; the theorems hold for every instantiation):
   the filestore (state, write of the delivered file, execution of one filestore
   request), the file checksum, and the encoded lengths of filestore TLVs. *)
From CFDP Require Import Base.Prelude Model.Segments Model.Timer Model.TxTypes.

Inductive out := OPdu (p : opdu) | OInd (i : indication).
Inductive rphase := RecvData | RFinished | RCancelled.
Definition rphase_eqb (a b : rphase) : bool :=
  match a, b with
  | RecvData, RecvData | RFinished, RFinished | RCancelled, RCancelled => true
  | _, _ => false
  end.

(* write [d] at offset [off] of a sparse file: holes read as zero *)
Definition write_at (f : bytes) (off : N) (d : bytes) : bytes :=
  let n := N.to_nat off in
  let f' := f ++ repeat 0 (n - length f) in
  firstn n f' ++ d ++ skipn (n + length d) f'.

Definition is_some {A} (o : option A) : bool := match o with Some _ => true | None => false end.
Definition is_nil {A} (l : list A) : bool := match l with [] => true | _ => false end.

Section Recv.
Variable FS : Type.
Variable fs_write_file : FS -> bytes -> bytes -> option FS.  (* open(create,truncate) + copy; None = error *)
Variable fs_exec : FS -> fsreq -> FS * fsresp.              (* FileStore::process_request *)
Variable resp_fail : fsresp -> bool.                         (* action_and_status.is_fail() *)
Variable not_performed : fsreq -> fsresp.                    (* FileStoreResponse::not_performed *)
Variable cksum : cktype -> bytes -> N.                       (* FileChecksum::checksum *)
Variable resp_len : fsresp -> N.                             (* TLV length of a response in Finished *)
Variable req_len : fsreq -> N.

Record rstate := mkR {
  r_cfg : config;
  r_nakproc : nakproc;
  r_status : tstatus;
  r_state : tstate;
  r_phase : rphase;
  r_meta : option metadata;
  r_segs : segs;
  r_recvd : N;                        (* received_file_size *)
  r_staged : option bytes;            (* file_handle: the temporary file, None = not open *)
  r_cond : cond;
  r_dc : delivery;
  r_fstat : fstatus;
  r_resps : list fsresp;
  r_timer : timer;
  r_cksum : option N;
  r_fsize : option N;                 (* file size from the EOF; Some = EOF received *)
  r_ack : option ack;
  r_fin : option (fin * bool);
  r_prompt : option nak_or_ka;
  r_naks : list (N * N);
  r_nak_recvd : N;                    (* nak_received_file_size *)
  r_delayed : list (counter * N * N); (* delayed_nack_timers *)
  r_fs : FS;
  r_out : list out                    (* outputs of the current step, newest first *)
}.

Definition set_r_cfg v (s : rstate) : rstate := mkR v (r_nakproc s) (r_status s) (r_state s) (r_phase s) (r_meta s) (r_segs s) (r_recvd s) (r_staged s) (r_cond s) (r_dc s) (r_fstat s) (r_resps s) (r_timer s) (r_cksum s) (r_fsize s) (r_ack s) (r_fin s) (r_prompt s) (r_naks s) (r_nak_recvd s) (r_delayed s) (r_fs s) (r_out s).
Definition set_r_nakproc v (s : rstate) : rstate := mkR (r_cfg s) v (r_status s) (r_state s) (r_phase s) (r_meta s) (r_segs s) (r_recvd s) (r_staged s) (r_cond s) (r_dc s) (r_fstat s) (r_resps s) (r_timer s) (r_cksum s) (r_fsize s) (r_ack s) (r_fin s) (r_prompt s) (r_naks s) (r_nak_recvd s) (r_delayed s) (r_fs s) (r_out s).
Definition set_r_status v (s : rstate) : rstate := mkR (r_cfg s) (r_nakproc s) v (r_state s) (r_phase s) (r_meta s) (r_segs s) (r_recvd s) (r_staged s) (r_cond s) (r_dc s) (r_fstat s) (r_resps s) (r_timer s) (r_cksum s) (r_fsize s) (r_ack s) (r_fin s) (r_prompt s) (r_naks s) (r_nak_recvd s) (r_delayed s) (r_fs s) (r_out s).
Definition set_r_state v (s : rstate) : rstate := mkR (r_cfg s) (r_nakproc s) (r_status s) v (r_phase s) (r_meta s) (r_segs s) (r_recvd s) (r_staged s) (r_cond s) (r_dc s) (r_fstat s) (r_resps s) (r_timer s) (r_cksum s) (r_fsize s) (r_ack s) (r_fin s) (r_prompt s) (r_naks s) (r_nak_recvd s) (r_delayed s) (r_fs s) (r_out s).
Definition set_r_phase v (s : rstate) : rstate := mkR (r_cfg s) (r_nakproc s) (r_status s) (r_state s) v (r_meta s) (r_segs s) (r_recvd s) (r_staged s) (r_cond s) (r_dc s) (r_fstat s) (r_resps s) (r_timer s) (r_cksum s) (r_fsize s) (r_ack s) (r_fin s) (r_prompt s) (r_naks s) (r_nak_recvd s) (r_delayed s) (r_fs s) (r_out s).
Definition set_r_meta v (s : rstate) : rstate := mkR (r_cfg s) (r_nakproc s) (r_status s) (r_state s) (r_phase s) v (r_segs s) (r_recvd s) (r_staged s) (r_cond s) (r_dc s) (r_fstat s) (r_resps s) (r_timer s) (r_cksum s) (r_fsize s) (r_ack s) (r_fin s) (r_prompt s) (r_naks s) (r_nak_recvd s) (r_delayed s) (r_fs s) (r_out s).
Definition set_r_segs v (s : rstate) : rstate := mkR (r_cfg s) (r_nakproc s) (r_status s) (r_state s) (r_phase s) (r_meta s) v (r_recvd s) (r_staged s) (r_cond s) (r_dc s) (r_fstat s) (r_resps s) (r_timer s) (r_cksum s) (r_fsize s) (r_ack s) (r_fin s) (r_prompt s) (r_naks s) (r_nak_recvd s) (r_delayed s) (r_fs s) (r_out s).
Definition set_r_recvd v (s : rstate) : rstate := mkR (r_cfg s) (r_nakproc s) (r_status s) (r_state s) (r_phase s) (r_meta s) (r_segs s) v (r_staged s) (r_cond s) (r_dc s) (r_fstat s) (r_resps s) (r_timer s) (r_cksum s) (r_fsize s) (r_ack s) (r_fin s) (r_prompt s) (r_naks s) (r_nak_recvd s) (r_delayed s) (r_fs s) (r_out s).
Definition set_r_staged v (s : rstate) : rstate := mkR (r_cfg s) (r_nakproc s) (r_status s) (r_state s) (r_phase s) (r_meta s) (r_segs s) (r_recvd s) v (r_cond s) (r_dc s) (r_fstat s) (r_resps s) (r_timer s) (r_cksum s) (r_fsize s) (r_ack s) (r_fin s) (r_prompt s) (r_naks s) (r_nak_recvd s) (r_delayed s) (r_fs s) (r_out s).
Definition set_r_cond v (s : rstate) : rstate := mkR (r_cfg s) (r_nakproc s) (r_status s) (r_state s) (r_phase s) (r_meta s) (r_segs s) (r_recvd s) (r_staged s) v (r_dc s) (r_fstat s) (r_resps s) (r_timer s) (r_cksum s) (r_fsize s) (r_ack s) (r_fin s) (r_prompt s) (r_naks s) (r_nak_recvd s) (r_delayed s) (r_fs s) (r_out s).
Definition set_r_dc v (s : rstate) : rstate := mkR (r_cfg s) (r_nakproc s) (r_status s) (r_state s) (r_phase s) (r_meta s) (r_segs s) (r_recvd s) (r_staged s) (r_cond s) v (r_fstat s) (r_resps s) (r_timer s) (r_cksum s) (r_fsize s) (r_ack s) (r_fin s) (r_prompt s) (r_naks s) (r_nak_recvd s) (r_delayed s) (r_fs s) (r_out s).
Definition set_r_fstat v (s : rstate) : rstate := mkR (r_cfg s) (r_nakproc s) (r_status s) (r_state s) (r_phase s) (r_meta s) (r_segs s) (r_recvd s) (r_staged s) (r_cond s) (r_dc s) v (r_resps s) (r_timer s) (r_cksum s) (r_fsize s) (r_ack s) (r_fin s) (r_prompt s) (r_naks s) (r_nak_recvd s) (r_delayed s) (r_fs s) (r_out s).
Definition set_r_resps v (s : rstate) : rstate := mkR (r_cfg s) (r_nakproc s) (r_status s) (r_state s) (r_phase s) (r_meta s) (r_segs s) (r_recvd s) (r_staged s) (r_cond s) (r_dc s) (r_fstat s) v (r_timer s) (r_cksum s) (r_fsize s) (r_ack s) (r_fin s) (r_prompt s) (r_naks s) (r_nak_recvd s) (r_delayed s) (r_fs s) (r_out s).
Definition set_r_timer v (s : rstate) : rstate := mkR (r_cfg s) (r_nakproc s) (r_status s) (r_state s) (r_phase s) (r_meta s) (r_segs s) (r_recvd s) (r_staged s) (r_cond s) (r_dc s) (r_fstat s) (r_resps s) v (r_cksum s) (r_fsize s) (r_ack s) (r_fin s) (r_prompt s) (r_naks s) (r_nak_recvd s) (r_delayed s) (r_fs s) (r_out s).
Definition set_r_cksum v (s : rstate) : rstate := mkR (r_cfg s) (r_nakproc s) (r_status s) (r_state s) (r_phase s) (r_meta s) (r_segs s) (r_recvd s) (r_staged s) (r_cond s) (r_dc s) (r_fstat s) (r_resps s) (r_timer s) v (r_fsize s) (r_ack s) (r_fin s) (r_prompt s) (r_naks s) (r_nak_recvd s) (r_delayed s) (r_fs s) (r_out s).
Definition set_r_fsize v (s : rstate) : rstate := mkR (r_cfg s) (r_nakproc s) (r_status s) (r_state s) (r_phase s) (r_meta s) (r_segs s) (r_recvd s) (r_staged s) (r_cond s) (r_dc s) (r_fstat s) (r_resps s) (r_timer s) (r_cksum s) v (r_ack s) (r_fin s) (r_prompt s) (r_naks s) (r_nak_recvd s) (r_delayed s) (r_fs s) (r_out s).
Definition set_r_ack v (s : rstate) : rstate := mkR (r_cfg s) (r_nakproc s) (r_status s) (r_state s) (r_phase s) (r_meta s) (r_segs s) (r_recvd s) (r_staged s) (r_cond s) (r_dc s) (r_fstat s) (r_resps s) (r_timer s) (r_cksum s) (r_fsize s) v (r_fin s) (r_prompt s) (r_naks s) (r_nak_recvd s) (r_delayed s) (r_fs s) (r_out s).
Definition set_r_fin v (s : rstate) : rstate := mkR (r_cfg s) (r_nakproc s) (r_status s) (r_state s) (r_phase s) (r_meta s) (r_segs s) (r_recvd s) (r_staged s) (r_cond s) (r_dc s) (r_fstat s) (r_resps s) (r_timer s) (r_cksum s) (r_fsize s) (r_ack s) v (r_prompt s) (r_naks s) (r_nak_recvd s) (r_delayed s) (r_fs s) (r_out s).
Definition set_r_prompt v (s : rstate) : rstate := mkR (r_cfg s) (r_nakproc s) (r_status s) (r_state s) (r_phase s) (r_meta s) (r_segs s) (r_recvd s) (r_staged s) (r_cond s) (r_dc s) (r_fstat s) (r_resps s) (r_timer s) (r_cksum s) (r_fsize s) (r_ack s) (r_fin s) v (r_naks s) (r_nak_recvd s) (r_delayed s) (r_fs s) (r_out s).
Definition set_r_naks v (s : rstate) : rstate := mkR (r_cfg s) (r_nakproc s) (r_status s) (r_state s) (r_phase s) (r_meta s) (r_segs s) (r_recvd s) (r_staged s) (r_cond s) (r_dc s) (r_fstat s) (r_resps s) (r_timer s) (r_cksum s) (r_fsize s) (r_ack s) (r_fin s) (r_prompt s) v (r_nak_recvd s) (r_delayed s) (r_fs s) (r_out s).
Definition set_r_nak_recvd v (s : rstate) : rstate := mkR (r_cfg s) (r_nakproc s) (r_status s) (r_state s) (r_phase s) (r_meta s) (r_segs s) (r_recvd s) (r_staged s) (r_cond s) (r_dc s) (r_fstat s) (r_resps s) (r_timer s) (r_cksum s) (r_fsize s) (r_ack s) (r_fin s) (r_prompt s) (r_naks s) v (r_delayed s) (r_fs s) (r_out s).
Definition set_r_delayed v (s : rstate) : rstate := mkR (r_cfg s) (r_nakproc s) (r_status s) (r_state s) (r_phase s) (r_meta s) (r_segs s) (r_recvd s) (r_staged s) (r_cond s) (r_dc s) (r_fstat s) (r_resps s) (r_timer s) (r_cksum s) (r_fsize s) (r_ack s) (r_fin s) (r_prompt s) (r_naks s) (r_nak_recvd s) v (r_fs s) (r_out s).
Definition set_r_fs v (s : rstate) : rstate := mkR (r_cfg s) (r_nakproc s) (r_status s) (r_state s) (r_phase s) (r_meta s) (r_segs s) (r_recvd s) (r_staged s) (r_cond s) (r_dc s) (r_fstat s) (r_resps s) (r_timer s) (r_cksum s) (r_fsize s) (r_ack s) (r_fin s) (r_prompt s) (r_naks s) (r_nak_recvd s) (r_delayed s) v (r_out s).
Definition set_r_out v (s : rstate) : rstate := mkR (r_cfg s) (r_nakproc s) (r_status s) (r_state s) (r_phase s) (r_meta s) (r_segs s) (r_recvd s) (r_staged s) (r_cond s) (r_dc s) (r_fstat s) (r_resps s) (r_timer s) (r_cksum s) (r_fsize s) (r_ack s) (r_fin s) (r_prompt s) (r_naks s) (r_nak_recvd s) (r_delayed s) (r_fs s) v.


Definition emit_ind (i : indication) (s : rstate) : rstate := set_r_out (OInd i :: r_out s) s.
Definition emit_pdu (p : payload) (s : rstate) : rstate :=
  let cfg := r_cfg s in
  set_r_out (OPdu (mkOpdu false (payload_len cfg resp_len req_len p) (cfg_src cfg) p) :: r_out s) s.

Definition upd_inact (f : counter -> counter) (s : rstate) := set_r_timer (set_inact (r_timer s) (f (t_inact (r_timer s)))) s.
Definition upd_ack (f : counter -> counter) (s : rstate) := set_r_timer (set_ack (r_timer s) (f (t_ack (r_timer s)))) s.
Definition upd_nak (f : counter -> counter) (s : rstate) := set_r_timer (set_nak (r_timer s) (f (t_nak (r_timer s)))) s.

(* RecvTransaction::new *)
Definition r_new (now : N) (cfg : config) (np : nakproc) (fs : FS) : rstate :=
  let t := t_new now (cfg_t_inact cfg) (cfg_max cfg) (cfg_t_ack cfg) (cfg_max cfg) (cfg_t_nak cfg) (cfg_max cfg) in
  upd_inact (c_restart now)
    (mkR cfg np SUndefined TActive RecvData None [] 0 None NoError DIncomplete FUnreported []
         t None None None None None [] 0 [] fs []).

Definition fin_flag (s : rstate) : bool := match r_fin s with Some (_, true) => true | _ => false end.
Definition set_fin_flag (b : bool) (s : rstate) : rstate :=
  match r_fin s with Some (f, _) => set_r_fin (Some (f, b)) s | None => s end.
Definition suspended (s : rstate) : bool := tstate_eqb (r_state s) TSuspended.
Definition eof_received (s : rstate) : bool := is_some (r_fsize s).
Definition closure (s : rstate) : bool := match r_meta s with Some m => md_closure m | None => false end.
Definition is_file_transfer (s : rstate) : bool :=
  match r_meta s with Some m => negb (is_nil (md_src m)) | None => false end.

Definition has_pdu_to_send (s : rstate) : bool :=
  if suspended s then false
  else match r_phase s with
       | RecvData => is_some (r_ack s) || is_some (r_prompt s) || negb (is_nil (r_naks s))
       | _ => fin_flag s
       end.

Definition until_timeout (now : N) (s : rstate) : option N :=
  if suspended s then None
  else let d := t_until now (r_timer s) in
       match r_delayed s with
       | [] => d
       | (c, _, _) :: _ => omin d (c_until now c)
       end.

Definition generate_report (s : rstate) : report := mkReport (r_state s) (r_status s) (r_cond s).
Definition send_report (s : rstate) : rstate := emit_ind (IReport (generate_report s)) s.

Definition shutdown (now : N) (s : rstate) : rstate :=
  upd_inact (c_pause now) (upd_nak (c_pause now) (upd_ack (c_pause now) (set_r_state TTerminated s))).

Definition abandon (now : N) (s : rstate) : rstate :=
  let s := set_r_status STerminated s in
  let s := emit_ind (IAbandon (r_cond s) (r_recvd s)) s in
  shutdown now s.

Definition prepare_finished (fault : option N) (s : rstate) : rstate :=
  set_r_fin (Some (mkFin (r_cond s) (r_dc s) (r_fstat s) (r_resps s) fault, true)) s.

Definition cancel_ (now : N) (s : rstate) : rstate :=
  let s := set_r_phase RCancelled s in
  let s := upd_nak (c_pause now) s in
  let s := match cfg_mode (r_cfg s) with
           | Acked => prepare_finished None s
           | Unacked => shutdown now (if closure s then prepare_finished None s else s)
           end in
  emit_ind (IFinished (generate_report s) (r_fstat s) (r_dc s) []) s.

Definition cancel (now : N) (s : rstate) : rstate := cancel_ now (set_r_cond CancelReceived s).

Definition suspend (now : N) (s : rstate) : rstate :=
  let s := upd_inact (c_pause now) (upd_nak (c_pause now) (upd_ack (c_pause now) s)) in
  let s := set_r_state TSuspended s in
  emit_ind (ISuspended (r_cond s)) s.

Definition get_all_naks (s : rstate) : list (N * N) :=
  (if is_some (r_meta s) then [] else [(0, 0)])
  ++ gaps (r_segs s) 0 (match r_fsize s with Some f => f | None => end_or_0 (r_segs s) end).

Definition resume (now : N) (s : rstate) : rstate :=
  let s := upd_inact (c_reset now) s in
  let s := match r_phase s with
           | RecvData =>
               if match cfg_mode (r_cfg s) with Acked => true | Unacked => false end
                  && (is_immediate (r_nakproc s) || eof_received s)
               then let s := upd_nak (c_reset now) s in set_r_naks (get_all_naks s) s
               else s
           | _ => upd_ack (c_reset now) s
           end in
  let s := set_r_state TActive s in
  emit_ind (IResumed (r_recvd s)) s.

(* handle_fault: returns (state, continue?) *)
Definition handle_fault (now : N) (c : cond) (s : rstate) : rstate * bool :=
  let s := set_r_cond c s in
  let s := emit_ind (IFault c (r_recvd s)) s in
  match handler (r_cfg s) c with
  | AIgnore => (s, true)
  | ACancel => (cancel_ now s, false)
  | ASuspend => (suspend now s, false)
  | AAbandon => (abandon now s, false)
  end.

Definition prepare_ack_eof (s : rstate) : rstate :=
  set_r_ack (Some (mkAck DirEoF SubOther (r_cond s) (r_status s))) s.

Definition send_ack_eof (s : rstate) : rstate :=
  match r_ack s with
  | Some a => set_r_ack None (emit_pdu (PAck a) s)
  | None => s
  end.

Definition check_file_size (now : N) (size : N) (s : rstate) : rstate :=
  if size <? end_or_0 (r_segs s) then fst (handle_fault now FilesizeError s) else s.
(* the boolean check_file_size returns: should the caller continue? (false when the FilesizeError
   fault handler cancelled, suspended or abandoned the transaction) *)
Definition cfs_go (now : N) (size : N) (s : rstate) : bool :=
  if size <? end_or_0 (r_segs s) then snd (handle_fault now FilesizeError s) else true.

Definition send_finished (now : N) (s : rstate) : rstate :=
  let s := upd_ack (c_restart now) s in
  match r_fin s with
  | Some (f, true) => set_fin_flag false (emit_pdu (PFinished f) s)
  | _ => s
  end.

(* NegativeAcknowledgmentPDU::max_nak_num(file_size_flag, file_size_segment) *)
Definition max_nak_num (cfg : config) : N := (cfg_seg cfg - 2 * fss cfg) / (2 * fss cfg).

Definition min_list (l : list N) (d : N) : N :=
  match l with [] => d | x :: t => fold_left N.min t x end.
Definition max_list (l : list N) (d : N) : N :=
  match l with [] => d | x :: t => fold_left N.max t x end.

Definition send_naks (now : N) (s : rstate) : rstate :=
  let '(s, go) :=
    if r_nak_recvd s =? r_recvd s then
      let '(c, lim) := c_limit_reached now (t_nak (r_timer s)) in
      let s := upd_nak (fun _ => c) s in
      if lim then
        let '(s, cont) := handle_fault now NakLimitReached s in
        if cont then (upd_nak (c_restart now) s, true) else (s, false)
      else (upd_nak (c_restart now) s, true)
    else
      (set_r_nak_recvd (r_recvd s) (upd_nak (c_reset now) s), true) in
  if go then
    let n := N.to_nat (N.min (N.of_nat (length (r_naks s))) (max_nak_num (r_cfg s))) in
    let reqs := firstn n (r_naks s) in
    let s := set_r_naks (skipn n (r_naks s)) s in
    let scope_start := min_list (map fst reqs) 0 in
    let scope_end := max_list (map snd reqs) (end_or_0 (r_segs s)) in
    emit_pdu (PNakP (mkNak scope_start scope_end reqs)) s
  else s.

Definition answer_prompt (now : N) (s : rstate) : rstate :=
  match r_prompt s with
  | Some p =>
      let s := set_r_prompt None s in
      match p with
      | PNak => send_naks now (set_r_naks (get_all_naks s) s)
      | PKeepAlive => emit_pdu (PKeepAliveP (r_recvd s)) s
      end
  | None => s
  end.

Definition send_pdu (now : N) (s : rstate) : rstate :=
  if is_some (r_prompt s) then answer_prompt now s
  else match r_phase s with
       | RecvData =>
           if is_some (r_ack s) then send_ack_eof s
           else if negb (is_nil (r_naks s)) then send_naks now s
           else s
       | _ =>
           if is_some (r_ack s) then send_ack_eof s
           else if fin_flag s then send_finished now s
           else s
       end.

Definition has_naks (s : rstate) : bool :=
  negb (is_some (r_meta s)) ||
  match r_fsize s with
  | Some f => negb (is_complete (r_segs s) f)
  | None => 1 <? seg_len (r_segs s)
  end.

(* the fail-the-rest loop of finalize_receive *)
Fixpoint run_requests (fs : FS) (fail_rest : bool) (reqs : list fsreq) : FS * list fsresp :=
  match reqs with
  | [] => (fs, [])
  | r :: t =>
      if fail_rest then
        let '(fs', rs) := run_requests fs true t in (fs', not_performed r :: rs)
      else
        let '(fs1, rep) := fs_exec fs r in
        let '(fs', rs) := run_requests fs1 (resp_fail rep) t in (fs', rep :: rs)
  end.

(* small accessors used by finalize_receive *)
Definition staged_content (s : rstate) : bytes := match r_staged s with Some b => b | None => [] end.
Definition expected_cksum (s : rstate) : N := match r_cksum s with Some c => c | None => 0 end.
Definition meta_ck (s : rstate) : cktype := match r_meta s with Some m => md_ck m | None => CkNull end.
Definition meta_dst (s : rstate) : bytes := match r_meta s with Some m => md_dst m | None => [] end.
Definition meta_reqs (s : rstate) : list fsreq := match r_meta s with Some m => md_reqs m | None => [] end.
Definition delivery_complete (s : rstate) : bool :=
  is_some (r_meta s) &&
  (negb (is_file_transfer s) ||
   match r_fsize s with Some f => is_complete (r_segs s) f | None => false end).

(* finalize_receive, part 1: checksum verification; returns (state, continue?) *)
Definition fr_verify (now : N) (s : rstate) : rstate * bool :=
  let content := staged_content s in
  let s := set_r_staged (Some content) s in            (* get_handle opens the tempfile *)
  if cksum (meta_ck s) content =? expected_cksum s then (s, true)
  else handle_fault now FileChecksumFailure s.

(* part 2: copy the staged file to its destination *)
Definition fr_store (s : rstate) : rstate :=
  match fs_write_file (r_fs s) (meta_dst s) (staged_content s) with
  | Some fs' => set_r_fstat FRetained (set_r_staged None (set_r_fs fs' s))
  | None => set_r_fstat FRejection s
  end.

(* part 3: a filestore rejection is a fault; returns (state, continue?) *)
Definition fr_rejection (now : N) (s : rstate) : rstate * bool :=
  match r_fstat s with
  | FRejection => handle_fault now FileStoreRejectionC s
  | _ => (s, true)
  end.

(* part 4: the filestore requests, then the Finished indication *)
Definition fr_requests (s : rstate) : rstate :=
  let '(fs', resps) := run_requests (r_fs s) false (meta_reqs s) in
  let s := set_r_resps resps (set_r_fs fs' s) in
  emit_ind (IFinished (generate_report s) (r_fstat s) (r_dc s) resps) s.

Definition finalize_receive (now : N) (s : rstate) : rstate :=
  let s := set_r_dc (if delivery_complete s then DComplete else DIncomplete) s in
  let '(s, go) :=
    if is_file_transfer s then
      let '(s, go) := fr_verify now s in
      if go then (fr_store s, true) else (s, false)
    else (set_r_fstat FUnreported s, true) in
  if go then
    let '(s, go) := fr_rejection now s in
    if go then fr_requests s else s
  else s.

Definition check_finished (now : N) (s : rstate) : rstate :=
  if rphase_eqb (r_phase s) RecvData && is_some (r_meta s) && eof_received s
     && negb (is_file_transfer s && has_naks s)
  then
    let s := finalize_receive now s in
    let s := set_r_phase RFinished s in
    let s := prepare_finished None s in
    upd_nak (c_pause now) s
  else s.

Definition store_file_data (offset : N) (data : bytes) (s : rstate) : rstate :=
  if is_nil data then s
  else
    let content := match r_staged s with Some b => b | None => [] end in
    let s := set_r_staged (Some (write_at content offset data)) s in
    let '(v, n) := ins offset (offset + N.of_nat (length data)) (r_segs s) in
    set_r_recvd (r_recvd s + n) (set_r_segs v s).

Definition new_delay_counter (now delay : N) : counter := c_startc (c_new now delay 1).

Definition set_metadata (m : metadata) (s : rstate) : rstate :=
  let s := emit_ind (IMetadataRecv (md_src m) (md_dst m) (md_size m) (md_msgs m)) s in
  set_r_meta (Some m) s.

(* ---- process_pdu, one handler per PDU kind and mode ---- *)
Definition pdu_filedata_acked (now : N) (offset : N) (data : bytes) (s : rstate) : rstate :=
  if negb (rphase_eqb (r_phase s) RecvData) then s
  else
    let prev_end := match seg_end (r_segs s) with Some e => e | None => 0 end in
    let s := store_file_data offset data s in
    let s := emit_ind (IFileSegmentRecv offset (N.of_nat (length data))) s in
    let s :=
      match r_nakproc s with
      | Immediate delay =>
          if eof_received s then s
          else
            let '(c, occ) := c_timeout_occurred now (t_nak (r_timer s)) in
            let s := upd_nak (fun _ => c) s in
            if occ then upd_nak (c_restart now) (set_r_naks (get_all_naks s) s)
            else if prev_end <? offset then
              if delay =? 0 then set_r_naks (r_naks s ++ [(prev_end, offset)]) s
              else set_r_delayed (r_delayed s ++ [(new_delay_counter now delay, prev_end, offset)]) s
            else s
      | Deferred _ => s
      end in
    check_finished now s.

Definition pdu_eof_acked (now : N) (e : eof) (s : rstate) : rstate :=
  if negb (rphase_eqb (r_phase s) RecvData) then prepare_ack_eof s
  else
    let s := set_r_cond (eof_cond e) s in
    let s := prepare_ack_eof s in
    let s := set_r_cksum (Some (eof_ck e)) s in
    let s := emit_ind IEoFRecv s in
    if cond_eqb (r_cond s) NoError then
      let s := check_file_size now (eof_size e) s in
      let s := set_r_fsize (Some (eof_size e)) s in
      let s := check_finished now s in
      if has_naks s then
        let delay := nak_delay (r_nakproc s) in
        if delay =? 0 then set_r_naks (get_all_naks s) s
        else set_r_delayed (r_delayed s ++ [(new_delay_counter now delay, 0, eof_size e)]) s
      else s
    else cancel_ now s.

Definition pdu_ack_acked (now : N) (a : ack) (s : rstate) : rstate * result :=
  match r_phase s, ack_dir a, ack_sub a with
  | RFinished, DirFinished, SubFinished
  | RCancelled, DirFinished, SubFinished => (shutdown now (upd_ack (c_pause now) s), ROk)
  | _, _, _ => (s, RUnexpected)
  end.

Definition pdu_metadata_acked (now : N) (m : metadata) (s : rstate) : rstate :=
  if is_some (r_meta s) then s
  else
    let s := set_metadata m s in
    let s := set_r_naks (filter (fun x => negb ((fst x =? 0) && (snd x =? 0))) (r_naks s)) s in
    check_finished now s.

Definition pdu_filedata_unacked (offset : N) (data : bytes) (s : rstate) : rstate :=
  if negb (rphase_eqb (r_phase s) RecvData) then s
  else
    let s := store_file_data offset data s in
    emit_ind (IFileSegmentRecv offset (N.of_nat (length data))) s.

Definition pdu_ack_unacked (now : N) (a : ack) (s : rstate) : rstate * result :=
  match ack_dir a, ack_sub a with
  | DirFinished, SubFinished =>
      if cond_eqb (ack_cond a) NoError && closure s then (shutdown now s, ROk)
      else (s, RUnexpected)
  | _, _ => (s, RUnexpected)
  end.

Definition pdu_eof_unacked (now : N) (e : eof) (s : rstate) : rstate :=
  if negb (rphase_eqb (r_phase s) RecvData) then s
  else
    let s := set_r_cond (eof_cond e) s in
    let s := set_r_cksum (Some (eof_ck e)) s in
    let s := emit_ind IEoFRecv s in
    if cond_eqb (r_cond s) NoError then
      let go := cfs_go now (eof_size e) s in
      let s := check_file_size now (eof_size e) s in
      if go then
        let s := set_r_fsize (Some (eof_size e)) s in
        let s := finalize_receive now s in
        if closure s then
          let s := set_r_phase RFinished s in
          prepare_finished (if cond_eqb (r_cond s) NoError then None else Some (cfg_dst (r_cfg s))) s
        else shutdown now s
      else s
    else cancel_ now s.

Definition pdu_metadata_unacked (m : metadata) (s : rstate) : rstate :=
  if is_some (r_meta s) then s else set_metadata m s.

Definition process_pdu (now : N) (p : payload) (s : rstate) : rstate * result :=
  let s := if suspended s then s else upd_inact (c_reset now) s in
  match cfg_mode (r_cfg s) with
  | Acked =>
      match p with
      | PFileData offset data => (pdu_filedata_acked now offset data s, ROk)
      | PEof e => (pdu_eof_acked now e s, ROk)
      | PAck a => pdu_ack_acked now a s
      | PMetadata m => (pdu_metadata_acked now m s, ROk)
      | PPrompt p => (set_r_prompt (Some p) s, ROk)
      | PFinished _ | PNakP _ | PKeepAliveP _ => (s, RUnexpected)
      end
  | Unacked =>
      match p with
      | PFileData offset data => (pdu_filedata_unacked offset data s, ROk)
      | PAck a => pdu_ack_unacked now a s
      | PEof e => (pdu_eof_unacked now e s, ROk)
      | PMetadata m => (pdu_metadata_unacked m s, ROk)
      | PFinished _ | PKeepAliveP _ | PPrompt _ | PNakP _ => (s, RUnexpected)
      end
  end.

(* handle_timeout: expired delayed-NAK timers (a prefix of the list) *)
Fixpoint expire_delayed (now : N) (l : list (counter * N * N)) : list (N * N) * list (counter * N * N) :=
  match l with
  | [] => ([], [])
  | (c, a, b) :: t =>
      let '(c', occ) := c_timeout_occurred now c in
      if occ then let '(ex, rest) := expire_delayed now t in ((a, b) :: ex, rest)
      else ([], (c', a, b) :: t)
  end.

(* handle_timeout, part 1: expired delayed-NAK timers *)
Definition ht_delayed (now : N) (s : rstate) : rstate :=
  let '(expired, rest) := expire_delayed now (r_delayed s) in
  let s := set_r_delayed rest s in
  if is_nil expired then s
  else
    let q := r_naks s ++ (if is_some (r_meta s) then [] else [(0, 0)]) in
    let clip e := match r_fsize s with Some f => N.min e f | None => e end in
    set_r_naks (q ++ flat_map (fun w => gaps (r_segs s) (fst w) (clip (snd w))) expired) s.

(* part 2: the inactivity timer; returns (state, continue?) *)
Definition ht_inactivity (now : N) (s : rstate) : rstate * bool :=
  let '(ci, lim) := c_limit_reached now (t_inact (r_timer s)) in
  let s := upd_inact (fun _ => ci) s in
  if lim then
    if rphase_eqb (r_phase s) RCancelled then (abandon now s, false)
    else handle_fault now InactivityDetected s
  else
    ((if c_occurred ci then upd_inact (c_restart now) s else s), true).

Definition is_recvdata (p : rphase) : bool := match p with RecvData => true | _ => false end.

(* part 3: the NAK timer: on expiry the list of what is missing is rebuilt (receive-data phase,
   immediate procedure or EOF received); with nothing to ask for the timer stops *)
Definition ht_nak (now : N) (s : rstate) : rstate :=
  let '(c, occ) := c_timeout_occurred now (t_nak (r_timer s)) in
  let s := upd_nak (fun _ => c) s in
  if occ then
    let s := if is_recvdata (r_phase s) && (is_immediate (r_nakproc s) || eof_received s)
             then set_r_naks (get_all_naks s) s else s in
    if is_nil (r_naks s) then upd_nak (c_pause now) s else s
  else s.

(* part 4: the ACK timer (Finished / Cancelled) *)
Definition ht_ackphase (now : N) (s : rstate) : rstate :=
  match r_phase s with
  | RecvData => s
  | RFinished =>
      let '(c, lim) := c_limit_reached now (t_ack (r_timer s)) in
      let s := upd_ack (fun _ => c) s in
      if lim then fst (handle_fault now PositiveLimitReached s)
      else if c_occurred c then upd_ack (c_restart now) (set_fin_flag true s)
      else s
  | RCancelled =>
      let '(c, lim) := c_limit_reached now (t_ack (r_timer s)) in
      let s := upd_ack (fun _ => c) s in
      if lim then abandon now s
      else if c_occurred c then upd_ack (c_restart now) (set_fin_flag true s)
      else s
  end.

Definition ht_phase (now : N) (s : rstate) : rstate := ht_ackphase now (ht_nak now s).

Definition handle_timeout (now : N) (s : rstate) : rstate :=
  let '(s, go) := ht_inactivity now (ht_delayed now s) in
  if go then ht_phase now s else s.

(* ---- one operation of the lock-step interface ---- *)
Inductive rop :=
| RPdu (p : payload)
| RSend            (* the send arm of the select! loop: only if has_pdu_to_send *)
| RTimeout         (* the timeout arm of the select! loop: only if the sleep has elapsed *)
| RCancelOp | RSuspendOp | RResumeOp | RReportOp | RAbandonOp.

Definition rstep (now : N) (o : rop) (s : rstate) : rstate * result :=
  let s := set_r_out [] s in
  match o with
  | RPdu p => process_pdu now p s
  | RSend => (if has_pdu_to_send s then send_pdu now s else s, ROk)
  | RTimeout => (match until_timeout now s with Some 0 => handle_timeout now s | _ => s end, ROk)
  | RCancelOp => (cancel now s, ROk)
  | RSuspendOp => (suspend now s, ROk)
  | RResumeOp => (resume now s, ROk)
  | RReportOp => (send_report s, ROk)
  | RAbandonOp => (shutdown now s, ROk)
  end.

End Recv.

Arguments r_cfg {FS}.
Arguments r_nakproc {FS}.
Arguments r_status {FS}.
Arguments r_state {FS}.
Arguments r_phase {FS}.
Arguments r_meta {FS}.
Arguments r_segs {FS}.
Arguments r_recvd {FS}.
Arguments r_staged {FS}.
Arguments r_cond {FS}.
Arguments r_dc {FS}.
Arguments r_fstat {FS}.
Arguments r_resps {FS}.
Arguments r_timer {FS}.
Arguments r_cksum {FS}.
Arguments r_fsize {FS}.
Arguments r_ack {FS}.
Arguments r_fin {FS}.
Arguments r_prompt {FS}.
Arguments r_naks {FS}.
Arguments r_nak_recvd {FS}.
Arguments r_delayed {FS}.
Arguments r_fs {FS}.
Arguments r_out {FS}.
Arguments set_r_cfg {FS}.
Arguments set_r_nakproc {FS}.
Arguments set_r_status {FS}.
Arguments set_r_state {FS}.
Arguments set_r_phase {FS}.
Arguments set_r_meta {FS}.
Arguments set_r_segs {FS}.
Arguments set_r_recvd {FS}.
Arguments set_r_staged {FS}.
Arguments set_r_cond {FS}.
Arguments set_r_dc {FS}.
Arguments set_r_fstat {FS}.
Arguments set_r_resps {FS}.
Arguments set_r_timer {FS}.
Arguments set_r_cksum {FS}.
Arguments set_r_fsize {FS}.
Arguments set_r_ack {FS}.
Arguments set_r_fin {FS}.
Arguments set_r_prompt {FS}.
Arguments set_r_naks {FS}.
Arguments set_r_nak_recvd {FS}.
Arguments set_r_delayed {FS}.
Arguments set_r_fs {FS}.
Arguments set_r_out {FS}.
Arguments emit_ind {FS}.
Arguments upd_inact {FS}.
Arguments upd_ack {FS}.
Arguments upd_nak {FS}.
Arguments r_new {FS}.
Arguments fin_flag {FS}.
Arguments set_fin_flag {FS}.
Arguments suspended {FS}.
Arguments eof_received {FS}.
Arguments closure {FS}.
Arguments is_file_transfer {FS}.
Arguments has_pdu_to_send {FS}.
Arguments until_timeout {FS}.
Arguments generate_report {FS}.
Arguments send_report {FS}.
Arguments shutdown {FS}.
Arguments abandon {FS}.
Arguments prepare_finished {FS}.
Arguments cancel_ {FS}.
Arguments cancel {FS}.
Arguments suspend {FS}.
Arguments get_all_naks {FS}.
Arguments resume {FS}.
Arguments handle_fault {FS}.
Arguments prepare_ack_eof {FS}.
Arguments check_file_size {FS}.
Arguments has_naks {FS}.
Arguments store_file_data {FS}.
Arguments set_metadata {FS}.
Arguments handle_timeout {FS}.
Arguments ht_nak {FS}.
Arguments ht_ackphase {FS}.
Arguments mkR {FS}.
Arguments emit_pdu {FS}.
Arguments send_ack_eof {FS}.
Arguments send_finished {FS}.
Arguments send_naks {FS}.
Arguments cfs_go {FS}.
Arguments answer_prompt {FS}.
Arguments send_pdu {FS}.
Arguments staged_content {FS}.
Arguments expected_cksum {FS}.
Arguments meta_ck {FS}.
Arguments meta_dst {FS}.
Arguments meta_reqs {FS}.
Arguments delivery_complete {FS}.
Arguments fr_rejection {FS}.
Arguments ht_delayed {FS}.
Arguments ht_inactivity {FS}.
Arguments ht_phase {FS}.
Arguments pdu_ack_acked {FS}.
Arguments pdu_ack_unacked {FS}.
Arguments pdu_metadata_unacked {FS}.
Arguments pdu_filedata_unacked {FS}.
