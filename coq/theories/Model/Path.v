(* Model of the path handling of cfdp-core/src/filestore.rs:
     normalize_path (lines 26-55) and NativeFileStore::get_native_path (242-251),
   together with the Unix rules of std::path (as used through camino) that they
   rely on: components, starts_with / strip_prefix, push (join), pop.
   Paths are byte strings (list N); '/' = 47, '.' = 46.
   Definitions only; proofs are in Proofs/PathP.v. *)
From CFDP Require Import Base.Prelude.

Definition slash : N := 47.
Definition dot : N := 46.

(* std::path::Component on Unix (there is no Prefix) *)
Inductive comp : Type :=
| Root
| Cur
| Parent
| Normal (name : list N).

(* ---- std::path::Path::components ---- *)

(* the pieces between separators; "" -> [""], "a//b" -> ["a"; ""; "b"] *)
Fixpoint split_slash (s : list N) : list (list N) :=
  match s with
  | [] => [[]]
  | c :: t =>
      if c =? slash then [] :: split_slash t
      else match split_slash t with
           | seg :: rest => (c :: seg) :: rest
           | [] => [[c]]
           end
  end.

(* Components::parse_single_component: "" and "." are skipped, ".." is ParentDir *)
Definition parse_seg (seg : list N) : list comp :=
  match seg with
  | [] => []
  | [a] => if a =? dot then [] else [Normal seg]
  | [a; b] => if (a =? dot) && (b =? dot) then [Parent] else [Normal seg]
  | _ => [Normal seg]
  end.

Definition body (segs : list (list N)) : list comp := flat_map parse_seg segs.

(* the first component: RootDir for a leading '/', CurDir for a leading "." that is
   the whole first piece of a relative path (Components::include_cur_dir) *)
Definition start (s : list N) : list comp :=
  match s with
  | [] => []
  | a :: t =>
      if a =? slash then [Root]
      else if a =? dot then
        match t with
        | [] => [Cur]
        | b :: _ => if b =? slash then [Cur] else []
        end
      else []
  end.

Definition components (s : list N) : list comp := start s ++ body (split_slash s).

(* ---- Path::starts_with / strip_prefix: component-wise ---- *)
Fixpoint bytes_eqb (a b : list N) : bool :=
  match a, b with
  | [], [] => true
  | x :: a', y :: b' => (x =? y) && bytes_eqb a' b'
  | _, _ => false
  end.

Definition comp_eqb (a b : comp) : bool :=
  match a, b with
  | Root, Root => true
  | Cur, Cur => true
  | Parent, Parent => true
  | Normal x, Normal y => bytes_eqb x y
  | _, _ => false
  end.

(* iter_after(path.components(), base.components()) *)
Fixpoint strip_prefix (p base : list comp) {struct base} : option (list comp) :=
  match base with
  | [] => Some p
  | bc :: base' =>
      match p with
      | pc :: p' => if comp_eqb pc bc then strip_prefix p' base' else None
      | [] => None
      end
  end.

Definition starts_with (p base : list comp) : bool :=
  match strip_prefix p base with Some _ => true | None => false end.

(* ---- filestore.rs normalize_path ----
   ret is a PathBuf built only by push(Normal name) and pop(); it is represented
   by the stack of names pushed, most recent first. *)
Fixpoint drop_roots (cs : list comp) : list comp :=
  match cs with
  | Root :: t => drop_roots t
  | _ => cs
  end.

Fixpoint norm_loop (stack : list (list N)) (cs : list comp) : option (list (list N)) :=
  match cs with
  | [] => Some (rev stack)
  | Root :: _ => None                      (* unreachable!() : a panic *)
  | Cur :: t => norm_loop stack t
  | Parent :: t => norm_loop (tl stack) t  (* ret.pop(): no effect on an empty path *)
  | Normal n :: t => norm_loop (n :: stack) t
  end.

Definition normalize_path (cs : list comp) : option (list (list N)) :=
  norm_loop [] (drop_roots cs).

(* the string of a PathBuf obtained by pushing the names onto an empty path *)
Fixpoint render (names : list (list N)) : list N :=
  match names with
  | [] => []
  | a :: t => match t with [] => a | _ :: _ => a ++ slash :: render t end
  end.

(* PathBuf::push on Unix: an absolute argument replaces the path; otherwise a
   separator is added unless the path is empty or already ends with one *)
Definition has_root (p : list N) : bool :=
  match p with a :: _ => a =? slash | [] => false end.
Definition need_sep (base : list N) : bool := negb (last base slash =? slash).
Definition join (base p : list N) : list N :=
  if has_root p then p
  else if need_sep base then base ++ slash :: p
  else base ++ p.

(* ---- NativeFileStore::get_native_path (after the fix) ----
     let rest = path.strip_prefix(&self.root_path).unwrap_or(path);
     self.root_path.join(normalize_path(rest))
   None = the unreachable!() of normalize_path was reached. *)
Definition native (root name : list N) : option (list N) :=
  let p := components name in
  let rel := match strip_prefix p (components root) with
             | Some rest => rest
             | None => p
             end in
  match normalize_path rel with
  | Some names => Some (join root (render names))
  | None => None
  end.

(* ---- lexical resolution of a path by the kernel (no symbolic links): the list
   of directory entries walked from "/" ---- *)
Fixpoint resolve_loop (stack : list (list N)) (cs : list comp) : list (list N) :=
  match cs with
  | [] => rev stack
  | Root :: t => resolve_loop [] t
  | Cur :: t => resolve_loop stack t
  | Parent :: t => resolve_loop (tl stack) t   (* ".." of "/" is "/" *)
  | Normal n :: t => resolve_loop (n :: stack) t
  end.
Definition resolve (cs : list comp) : list (list N) := resolve_loop [] cs.

(* ---- the paths handed to std::fs by each operation of NativeFileStore ----
   every operation maps each of its path arguments through get_native_path;
   process_request maps both names first and then calls the operation, which
   maps the (already native) path a second time. *)
Inductive fs_call : Type :=
| CallCreateFile (p : list N) | CallDeleteFile (p : list N)
| CallRenameFile (p q : list N) | CallAppendFile (p q : list N) | CallReplaceFile (p q : list N)
| CallCreateDirectory (p : list N) | CallRemoveDirectory (p : list N)
| CallListDirectory (p : list N) | CallOpenFile (p : list N) | CallGetSize (p : list N)
| CallProcessRequest (action : N) (p q : list N).

Definition native2 (root name : list N) : option (list N) :=
  match native root name with
  | Some p => native root p
  | None => None
  end.

Definition call_paths (root : list N) (c : fs_call) : list (option (list N)) :=
  match c with
  | CallCreateFile p | CallDeleteFile p | CallCreateDirectory p | CallRemoveDirectory p
  | CallListDirectory p | CallOpenFile p | CallGetSize p => [native root p]
  | CallRenameFile p q | CallAppendFile p q | CallReplaceFile p q => [native root p; native root q]
  | CallProcessRequest _ p q =>
      (* the existence tests use the native paths, the operation maps them again *)
      [native root p; native root q; native2 root p; native2 root q]
  end.

(* entry points used by the extracted driver (unique names in the flat model.ml) *)
Definition path_components := components.
Definition path_strip_prefix := strip_prefix.
Definition path_native := native.
Definition path_native2 := native2.

(* ---- the pinned (pre-fix) code: a name that starts with the root is returned
   verbatim, un-normalised ---- *)
Module Pinned.
  Definition native (root name : list N) : option (list N) :=
    let p := components name in
    if starts_with p (components root) then Some name
    else match normalize_path p with
         | Some names => Some (join root (render names))
         | None => None
         end.
End Pinned.
