(* The routing core of the daemon (cfdp-daemon/src/lib.rs): the table of live transactions, the
   sequence counter, and the three handlers of manage_transactions as functions on them.
   Definitions only.

   A transaction is known to the daemon under the key (source entity id, transaction sequence
   number) - for PDUs in both directions. What the transactions themselves do is NOT part of this
   model (that is Recv.v / Send.v / Link.v); the two facts about them that routing depends on are
   inputs of the handlers: whether the channel to the task registered under the key is closed
   (the task has ended) and whether a send transaction could be spawned (the file exists).
   Ids are numbers; all ids of one configuration have the same encoded width (VariableID equality
   distinguishes widths; the harness keeps them equal). *)
From CFDP Require Import Base.Prelude.

Definition dkey := (N * N)%type.
Definition key_eqb (a b : dkey) : bool := (fst a =? fst b) && (snd a =? snd b).
Definition kmem (k : dkey) (l : list dkey) : bool := existsb (key_eqb k) l.
(* HashMap::insert: the key is present afterwards (its value - the channel - is replaced) *)
Definition kinsert (k : dkey) (l : list dkey) : list dkey := if kmem k l then l else l ++ [k].
Definition kremove (k : dkey) (l : list dkey) : list dkey := filter (fun x => negb (key_eqb k x)) l.

Record dstate := mkD {
  d_entity : N;               (* entity id of this daemon *)
  d_width : N;                (* width of the sequence number, bytes *)
  d_next : N;                 (* sequence_num *)
  d_tbl : list dkey;          (* keys of transaction_channels *)
  d_transports : list N       (* entities with a transport (transport_tx_map) *)
}.

Inductive dres := DOk | DUnable | DComm.   (* Ok(()), UnableToResume, TransactionCommunication *)

Definition has_transport (e : N) (s : dstate) : bool := existsb (N.eqb e) (d_transports s).
Definition seq_modulus (w : N) : N := 2 ^ (8 * w).

(* process_primitive(Put): the sequence number is consumed whether or not a transaction starts *)
Definition d_put (dest : N) (spawn_ok : bool) (s : dstate) : dstate * dres * option dkey :=
  let seq := d_next s in
  let s1 := mkD (d_entity s) (d_width s) ((seq + 1) mod seq_modulus (d_width s)) (d_tbl s) (d_transports s) in
  if has_transport dest s then
    if spawn_ok then
      let id := (d_entity s, seq) in
      (mkD (d_entity s1) (d_width s1) (d_next s1) (kinsert id (d_tbl s1)) (d_transports s1), DOk, Some id)
    else (s1, DComm, None)          (* SpawnSend error: logged, nothing registered *)
  else (s1, DOk, None).

(* process_primitive(Cancel | Suspend | Resume | Report | Prompt): forwarded to the transaction
   registered under exactly that id, if any *)
Definition d_command (id : dkey) (closed : bool) (s : dstate) : dstate * dres * option dkey :=
  if kmem id (d_tbl s) then (if closed then (s, DComm, None) else (s, DOk, Some id))
  else (s, DOk, None).

(* forward_pdu. [closed]: the channel registered under the PDU's key (if any) is closed.
   Result: new state, result class, and the transaction (key) the PDU was handed to, if any *)
Definition d_forward (to_sender : bool) (src dst seq : N) (closed : bool) (s : dstate) : dstate * dres * option dkey :=
  let transport_entity := if to_sender then dst else src in
  let key := (src, seq) in
  if kmem key (d_tbl s) then
    if negb closed then (s, DOk, Some key)
    else if to_sender then (s, DUnable, None)
    else if has_transport transport_entity s then (s, DOk, Some key)     (* a new receive transaction replaces it *)
    else (s, DOk, None)
  else if has_transport transport_entity s then
    if to_sender then (s, DUnable, None)
    else (mkD (d_entity s) (d_width s) (d_next s) (kinsert key (d_tbl s)) (d_transports s), DOk, Some key)
  else (s, DOk, None).

(* cleanup_transactions: the entries of the tasks that ended with Ok(id) are removed *)
Definition d_cleanup (ended : list dkey) (s : dstate) : dstate :=
  mkD (d_entity s) (d_width s) (d_next s) (fold_left (fun t k => kremove k t) ended (d_tbl s)) (d_transports s).

Definition d_new (entity width first : N) (transports : list N) : dstate := mkD entity width first [] transports.
