(* Model of cfdp-daemon/src/segments.rs (struct Segments).
   Definitions only; proofs are in Proofs/SegmentsP.v.

   The Rust code keeps a Vec<(u64,u64)> that is strictly sorted and locates the
   insertion point by two fast paths on the last element plus a binary search.
   On a sorted vector these select the same position as the list walk below; the
   lock-step correspondence check compares every return value. *)
From CFDP Require Import Base.Prelude.

Definition seg := (N * N)%type.
Definition segs := list seg.

(* fn merge(v, k): v[k] has been enlarged to the right up to [b]; swallow the
   following segments it now touches/overlaps.
   Returns (new end, remaining tail, number of overlapping bytes). *)
Fixpoint absorb (b : N) (v : segs) : N * segs * N :=
  match v with
  | [] => (b, [], 0)
  | (s, e) :: t =>
      if s <=? b then
        if b <? e then (e, t, b - s)
        else let '(b', t', ov) := absorb b t in (b', t', ov + (e - s))
      else (b, v, 0)
  end.

(* Segments::merge(seg = (a,b)) with a < b; returns (new list, newly received) *)
Fixpoint ins (a b : N) (v : segs) : segs * N :=
  match v with
  | [] => ([(a, b)], b - a)
  | (s, e) :: t =>
      if e <? a then let '(t', n) := ins a b t in ((s, e) :: t', n)
      else if b <? s then ((a, b) :: v, b - a)
      else
        let lo := N.min a s in
        if b <=? e then ((lo, e) :: t, s - lo)
        else let '(b', t', ov) := absorb b t in
             ((lo, b') :: t', (s - lo) + (b - e) - ov)
  end.

(* the Rust asserts seg.0 < seg.1 and panics otherwise *)
Definition merge_seg (v : segs) (sg : seg) : option (segs * N) :=
  let '(a, b) := sg in if a <? b then Some (ins a b v) else None.

Definition seg_len (v : segs) : N := N.of_nat (length v).
Definition seg_end (v : segs) : option N :=
  match rev v with [] => None | (_, e) :: _ => Some e end.
Definition end_or_0 (v : segs) : N :=
  match seg_end v with Some e => e | None => 0 end.

(* Segments::is_complete(size) *)
Definition is_complete (v : segs) (n : N) : bool :=
  (n =? 0) || match v with
              | (s, e) :: _ => (s =? 0) && (n <=? e)
              | [] => false
              end.

(* Segments::gaps(start, end): the binary search skips every segment whose
   start is <= [start]; the pointer is the end of the last skipped one (or start) *)
Fixpoint gskip (v : segs) (start p : N) : segs * N :=
  match v with
  | (s, t) :: r => if s <=? start then gskip r start (N.max t start) else (v, p)
  | [] => ([], p)
  end.

Fixpoint gloop (v : segs) (p e : N) : segs :=
  match v with
  | [] => if p <? e then [(p, e)] else []
  | (s, t) :: r =>
      if e <=? s then (if p <? e then [(p, e)] else [])
      else (p, s) :: (if e <? t then [] else gloop r t e)
  end.

Definition gaps (v : segs) (start e : N) : segs :=
  let '(r, p) := gskip v start start in gloop r p e.

(* ---- the behaviour of the pinned (pre-fix) code, kept for the refutation
   examples in Proofs/SegmentsP.v ---- *)
Module Pinned.
  Definition is_complete (v : segs) (n : N) : bool :=
    match v with [(_, e)] => e =? n | _ => false end.

  (* segments.rs:72-80 before the fix: the overlap swallowed by merge(v,0) is
     not subtracted when the new segment starts before the first stored one *)
  Definition ins_first (a b : N) (v : segs) : segs * N :=
    match v with
    | (s, e) :: t =>
        if (a <? s) && negb (b <? s) then
          if b <=? e then ((a, e) :: t, s - a)
          else let '(b', t', _) := absorb b t in ((a, b') :: t', (s - a) + (b - e))
        else ins a b v
    | [] => ins a b v
    end.

  Fixpoint gloop (v : segs) (p e : N) : segs :=
    match v with
    | [] => if p <? e then [(p, e)] else []
    | (s, t) :: r =>
        if e <=? s then [(p, e)]
        else (p, s) :: (if e <? t then [] else gloop r t e)
    end.
  Definition gaps (v : segs) (start e : N) : segs :=
    let '(r, p) := gskip v start start in gloop r p e.
End Pinned.
