(* Datatypes of the PDU codec model (cfdp-core/src/pdu.rs, pdu/header.rs, pdu/ops.rs,
   pdu/filestore.rs, pdu/fault_handler.rs).  Types only: the codec functions are in
   Model/Codec.v, so that the transaction-machine models can import the PDU types alone.
   The enumerations (Condition, PDUDirective, ...) are the generated ones of Gen/Enums.v.

   Integers are N; a Rust uK field carries its range in the well-formedness predicates of
   Model/Codec.v.  Byte strings and file names are lists of N (each < 256); file names are
   additionally valid UTF-8 (Utf8PathBuf). *)
From CFDP Require Import Base.Prelude.
From CFDP Require Export Gen.Enums.

Definition bytes := list N.

(* pdu/ops.rs: enum VariableID { U8(u8), U16(u16), U32(u32), U64(u64) } *)
Inductive varid : Set :=
  | VU8 (v : N)
  | VU16 (v : N)
  | VU32 (v : N)
  | VU64 (v : N).

(* pdu/header.rs: struct PDUHeader *)
Record pdu_header : Set := mk_header {
  h_version : U3;
  h_pdu_type : PDUType;
  h_direction : Direction;
  h_mode : TransmissionMode;
  h_crc : CRCFlag;
  h_large : FileSizeFlag;
  h_len : N;                        (* pdu_data_field_length : u16 (without the CRC) *)
  h_segctl : SegmentationControl;
  h_segmeta : SegmentedData;
  h_src : varid;
  h_seq : varid;
  h_dst : varid
}.

(* pdu/filestore.rs *)
Record fs_request : Set := mk_fs_request {
  fq_action : FileStoreAction;
  fq_first : bytes;
  fq_second : bytes
}.

Inductive fs_status : Set :=
  | St_CreateFile (s : CreateFileStatus)
  | St_DeleteFile (s : DeleteFileStatus)
  | St_RenameFile (s : RenameStatus)
  | St_AppendFile (s : AppendStatus)
  | St_ReplaceFile (s : ReplaceStatus)
  | St_CreateDirectory (s : CreateDirectoryStatus)
  | St_RemoveDirectory (s : RemoveDirectoryStatus)
  | St_DenyFile (s : DenyStatus)
  | St_DenyDirectory (s : DenyStatus).

Record fs_response : Set := mk_fs_response {
  fr_status : fs_status;
  fr_first : bytes;
  fr_second : bytes;
  fr_message : bytes
}.

(* pdu/ops.rs: enum MetadataTLV.  MessageToUser / FlowLabel carry their byte string,
   FaultHandlerOverride its handler code *)
Inductive metadata_tlv : Set :=
  | Tlv_FileStoreRequest (r : fs_request)
  | Tlv_FileStoreResponse (r : fs_response)
  | Tlv_MessageToUser (text : bytes)
  | Tlv_FaultHandlerOverride (code : HandlerCode)
  | Tlv_FlowLabel (value : bytes)
  | Tlv_EntityID (id : varid).

Record eof_pdu : Set := mk_eof {
  eof_condition : Condition;
  eof_checksum : N;                 (* u32 *)
  eof_file_size : N;                (* u64 *)
  eof_fault_location : option varid
}.

Record finished_pdu : Set := mk_finished {
  fin_condition : Condition;
  fin_delivery_code : DeliveryCode;
  fin_file_status : FileStatusCode;
  fin_filestore_response : list fs_response;
  fin_fault_location : option varid
}.

Record ack_pdu : Set := mk_ack {
  ack_directive : PDUDirective;
  ack_subtype : ACKSubDirective;
  ack_condition : Condition;
  ack_status : TransactionStatus
}.

Record metadata_pdu : Set := mk_metadata {
  md_closure_requested : bool;
  md_checksum_type : ChecksumType;
  md_file_size : N;                 (* u64 *)
  md_source_filename : bytes;
  md_destination_filename : bytes;
  md_options : list metadata_tlv
}.

(* SegmentRequestForm = (start_offset, end_offset) *)
Record nak_pdu : Set := mk_nak {
  nak_start_of_scope : N;
  nak_end_of_scope : N;
  nak_segment_requests : list (N * N)
}.

(* enum Operations *)
Inductive operations : Set :=
  | Op_EoF (e : eof_pdu)
  | Op_Finished (f : finished_pdu)
  | Op_Ack (a : ack_pdu)
  | Op_Metadata (m : metadata_pdu)
  | Op_Nak (n : nak_pdu)
  | Op_Prompt (p : NakOrKeepAlive)
  | Op_KeepAlive (progress : N).

(* enum FileDataPDU *)
Inductive file_data : Set :=
  | Fd_Unsegmented (offset : N) (data : bytes)
  | Fd_Segmented (state : RecordContinuationState) (segment_metadata : bytes) (offset : N) (data : bytes).

(* pdu.rs: enum PDUPayload, struct PDU *)
Inductive pdu_payload : Set :=
  | Pl_Directive (o : operations)
  | Pl_FileData (f : file_data).

Record pdu : Set := mk_pdu {
  pdu_hdr : pdu_header;
  pdu_pl : pdu_payload
}.
