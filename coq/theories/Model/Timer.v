(* Model of cfdp-daemon/src/timer.rs (Counter, Timer). Definitions only.
   Time is an explicit argument [now], in milliseconds of virtual time.
   Counter::update's `while` loop is modelled by its closed form, which requires
   timeout > 0 (with a zero timeout the Rust loop never terminates; every theorem
   carries 0 < timeout for running timers - see DESIGN.md section 4). *)
From CFDP Require Import Base.Prelude.

Record counter := mkCounter {
  c_start : N;      (* start_time *)
  c_timeout : N;    (* timeout, ms *)
  c_max : N;        (* max_count *)
  c_count : N;
  c_occurred : bool;
  c_paused : bool
}.

(* Counter::new *)
Definition c_new (now timeout max : N) : counter :=
  mkCounter now timeout max 0 false true.

(* Counter::update: k = number of whole timeouts elapsed since start *)
Definition c_update (now : N) (c : counter) : counter :=
  if c_paused c then c
  else
    let k := (now - c_start c) / c_timeout c in
    if k =? 0 then c
    else mkCounter (c_start c + k * c_timeout c) (c_timeout c) (c_max c)
                   (N.min (c_max c) (c_count c + k)) true false.

(* Counter::restart: update, start now, un-pause, clear occurred; count kept *)
Definition c_restart (now : N) (c : counter) : counter :=
  let c' := c_update now c in
  mkCounter now (c_timeout c') (c_max c') (c_count c') false false.

(* Counter::reset: start now, un-pause, clear occurred, count := 0 *)
Definition c_reset (now : N) (c : counter) : counter :=
  mkCounter now (c_timeout c) (c_max c) 0 false false.

(* Counter::pause *)
Definition c_pause (now : N) (c : counter) : counter :=
  let c' := c_update now c in
  mkCounter (c_start c') (c_timeout c') (c_max c') (c_count c') (c_occurred c') true.

(* Counter::start *)
Definition c_startc (c : counter) : counter :=
  mkCounter (c_start c) (c_timeout c) (c_max c) (c_count c) (c_occurred c) false.

(* Counter::limit_reached / timeout_occurred: both update first (they take &mut self) *)
Definition c_limit_reached (now : N) (c : counter) : counter * bool :=
  let c' := c_update now c in (c', c_count c' =? c_max c').
Definition c_timeout_occurred (now : N) (c : counter) : counter * bool :=
  let c' := c_update now c in (c', c_occurred c').

(* Counter::until_timeout (does not update) *)
Definition c_until (now : N) (c : counter) : N :=
  let next := c_start c + c_timeout c in
  if now <? next then next - now else 0.

Record timer := mkTimer { t_inact : counter; t_ack : counter; t_nak : counter }.

Definition t_new (now ti mi ta ma tn mn : N) : timer :=
  mkTimer (c_new now ti mi) (c_new now ta ma) (c_new now tn mn).

Definition set_inact (t : timer) (c : counter) := mkTimer c (t_ack t) (t_nak t).
Definition set_ack (t : timer) (c : counter) := mkTimer (t_inact t) c (t_nak t).
Definition set_nak (t : timer) (c : counter) := mkTimer (t_inact t) (t_ack t) c.

(* Timer::until_timeout: None = Duration::MAX (all three paused) *)
Definition omin (a : option N) (b : N) : option N :=
  match a with None => Some b | Some x => Some (N.min x b) end.
Definition t_until (now : N) (t : timer) : option N :=
  let m0 := None in
  let m1 := if c_paused (t_ack t) then m0 else omin m0 (c_until now (t_ack t)) in
  let m2 := if c_paused (t_nak t) then m1 else omin m1 (c_until now (t_nak t)) in
  if c_paused (t_inact t) then m2 else omin m2 (c_until now (t_inact t)).
