(* Vocabulary of property C15 on top of Model/Crc.v: the bit-serial view of the CRC
   register, error patterns (xor of byte strings), the error classes the CRC-16 is
   designed to catch, and how the receiver delimits a frame from the first four
   octets of the fixed header (cfdp-core/src/pdu/header.rs, PDUHeader::decode and
   PDU::decode). Definitions only. *)
From CFDP Require Import Base.Prelude Model.Crc.

(* ---- byte strings and error patterns ---- *)

Definition is_bytes (l : list N) : Prop := Forall (fun b => b < 256) l.

(* the received string = the transmitted string xor the error pattern, octet by octet *)
Fixpoint xor_bytes (a b : list N) : list N :=
  match a, b with
  | x :: a', y :: b' => N.lxor x y :: xor_bytes a' b'
  | _, _ => []
  end.

(* the CRC register run over a byte string from an arbitrary initial value
   (crc16 = crc_run mask16) *)
Definition crc_run (s : N) (l : list N) : N := fold_left crc_byte l s.

(* ---- bits in transmission order (most significant bit of each octet first; this is the
   order in which crc16 consumes them) ---- *)

Definition bits_of_byte (b : N) : list bool :=
  [N.testbit b 7; N.testbit b 6; N.testbit b 5; N.testbit b 4;
   N.testbit b 3; N.testbit b 2; N.testbit b 1; N.testbit b 0].

Definition bits_of (l : list N) : list bool := flat_map bits_of_byte l.

(* bit k of a byte string (false beyond its end) *)
Definition bit_at (e : list N) (k : nat) : bool := nth k (bits_of e) false.

(* number of set bits *)
Fixpoint weight (l : list bool) : nat :=
  match l with
  | [] => O
  | b :: t => ((if b then 1 else 0) + weight t)%nat
  end.

(* ---- the bit-serial register: one message bit enters at the top, then one shift ---- *)

Definition bit_mask (b : bool) : N := if b then 32768 else 0.
Definition bstep (s : N) (b : bool) : N := crc_shift (N.lxor s (bit_mask b)).
Definition brun (s : N) (l : list bool) : N := fold_left bstep l s.

Definition zeros (n : nat) : list bool := repeat false n.

(* ---- error classes, as predicates on the error pattern e (a byte string that is
   xor-ed onto the transmitted one) ---- *)

(* exactly one bit is flipped *)
Definition single_bit_error (e : list N) : Prop :=
  exists i : nat, forall k, bit_at e k = true <-> k = i.

(* exactly two bits are flipped, less than w bit positions apart *)
Definition double_bit_error (w : N) (e : list N) : Prop :=
  exists i j : nat, (i < j)%nat /\ N.of_nat (j - i) < w /\
    forall k, bit_at e k = true <-> (k = i \/ k = j).

(* at least one bit is flipped and all flipped bits lie within len consecutive positions *)
Definition burst_error (len : nat) (e : list N) : Prop :=
  (exists i, bit_at e i = true) /\
  exists p : nat, forall k, bit_at e k = true -> (p <= k < p + len)%nat.

(* an odd number of bits is flipped *)
Definition odd_weight_error (e : list N) : Prop := Nat.odd (weight (bits_of e)) = true.

(* the error leaves the first four octets (flags, length, id-length octet) alone *)
Definition fixed_header_untouched (e : list N) : Prop := firstn 4 e = [0; 0; 0; 0].

(* ---- how the receiver delimits the frame ----
   PDUHeader::decode reads octet 0 (flags; bit 1 = CRC flag), octets 1-2 (PDU data field
   length, which for a CRC-bearing PDU already includes the two CRC octets: encode writes
   pdu_data_field_length + 2, decode subtracts 2), octet 3 (bits 6-4 = entity-id length - 1,
   bits 2-0 = sequence-number length - 1), then source id, sequence number, destination id.
   PDU::decode then reads (length field - 2) octets of data field and the 2 CRC octets.
   Without the CRC flag it reads (length field) octets of data field. In both cases the
   number of octets consumed is the following function of octets 1-3. *)
Definition frame_len_of_header (b : list N) : option nat :=
  match b with
  | _ :: l1 :: l2 :: b3 :: _ =>
      let eid := N.land (N.shiftr b3 4) 7 + 1 in
      let seq := N.land b3 7 + 1 in
      Some (N.to_nat (4 + 2 * eid + seq + (l1 * 256 + l2)))
  | _ => None
  end.

Definition crc_flag_of_header (b : list N) : bool :=
  match b with
  | b0 :: _ => N.testbit b0 1
  | [] => false
  end.

(* the octets the receiver takes as the frame (header, data field, CRC) out of what arrived *)
Definition frame_span (b : list N) : option (list N) :=
  match frame_len_of_header b with
  | Some n => if (n <=? length b)%nat then Some (firstn n b) else None
  | None => None
  end.

(* the errors a CRC-16 with generator x^16+x^12+x^5+1 is designed to catch; 32767 is the
   order of x modulo the generator, beyond which some double-bit errors are invisible *)
Definition crc16_detectable (e : list N) : Prop :=
  single_bit_error e \/ double_bit_error 32767 e \/ burst_error 16 e \/ odd_weight_error e.

(* what the correspondence check runs on every (corrupted) arrival: delimit the frame from the
   header, then - if the CRC flag is set - check it. (Whether the data field then parses as a PDU
   is the codec model's business; a frame that fails here is rejected whatever it contains.) *)
Definition receiver_frame_check (b : list N) : bool :=
  match frame_span b with
  | Some f => if crc_flag_of_header b then crc_frame_ok f else true
  | None => false
  end.

(* number of octets the receiver consumes, when enough arrived *)
Definition receiver_consumed (b : list N) : option nat :=
  match frame_span b with
  | Some f => Some (length f)
  | None => None
  end.
