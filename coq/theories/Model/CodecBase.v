(* Reader primitives of the codec model: the three-way outcome of a decode function
   (value | error | what the dev profile's overflow / index / unwrap checks would do),
   the counterparts of std::io::Read::read_exact / read_to_end on a byte slice, big-endian
   integers, String::from_utf8.  Definitions only. *)
From CFDP Require Import Base.Prelude Model.Pdu.

Inductive outcome (A : Type) : Type :=
  | Ok (a : A)
  | Err
  | Panic.
Arguments Ok {A} a.
Arguments Err {A}.
Arguments Panic {A}.

Definition bind {A B : Type} (m : outcome A) (f : A -> outcome B) : outcome B :=
  match m with
  | Ok a => f a
  | Err => Err
  | Panic => Panic
  end.

Notation "'let*' x ':=' m 'in' k" := (bind m (fun x => k))
  (at level 200, x pattern, m at level 100, k at level 200, right associativity).

(* a reader: consumes a prefix of the buffer, returns the value and the rest *)
Definition rd (A : Type) : Type := bytes -> outcome (A * bytes).

Definition blen (b : bytes) : N := N.of_nat (length b).

Definition is_byte (x : N) : Prop := x < 256.
Definition is_bytes (b : bytes) : Prop := Forall is_byte b.

(* the largest buffer a length field of the wire format can announce *)
Definition max_alloc : N := 65535.

(* `let mut v = vec![0u8; n]; buffer.read_exact(&mut v)?` on a slice.
   Instrumented: a request for more than [max_alloc] bytes is reported as Panic, so that
   "decode never returns Panic" includes "decode never allocates a buffer larger than a 1- or
   2-byte length field can announce". *)
Definition read_exact (n : N) : rd bytes := fun b =>
  if max_alloc <? n then Panic
  else if n <=? blen b then Ok (firstn (N.to_nat n) b, skipn (N.to_nat n) b)
  else Err.

Definition read_u8 : rd N := fun b =>
  match b with
  | x :: r => Ok (x, r)
  | [] => Err
  end.

(* Read::read_to_end on a slice *)
Definition read_to_end : rd bytes := fun b => Ok (b, []).

(* big-endian integers *)
Definition be_decode (c : bytes) : N := fold_left (fun acc x => acc * 256 + x) c 0.

(* the low k bytes of v, most significant first: uK::to_be_bytes of (v as uK) *)
Fixpoint be_encode (k : nat) (v : N) : bytes :=
  match k with
  | O => []
  | S k' => (v / 256 ^ N.of_nat k') mod 256 :: be_encode k' v
  end.

(* ReadBytesExt::read_u32 / read_u64 / from_be_bytes after read_exact *)
Definition read_be (k : nat) : rd N := fun b =>
  let* (c, r) := read_exact (N.of_nat k) b in Ok (be_decode c, r).

(* header.rs: read_length_value_pair *)
Definition read_lv : rd bytes := fun b =>
  let* (n, r) := read_u8 b in read_exact n r.

Definition of_option {A : Type} (o : option A) : outcome A :=
  match o with
  | Some a => Ok a
  | None => Err
  end.

(* `(byte & mask) >> shift` *)
Definition bits (b mask shift : N) : N := N.shiftr (N.land b mask) shift.

(* `x as u8` of a length *)
Definition as_u8 (x : N) : N := x mod 256.

(* ---- String::from_utf8: well-formed UTF-8 (Unicode table 3-7) ---- *)
Definition in_range (lo hi x : N) : bool := (lo <=? x) && (x <=? hi).
Definition cont (x : N) : bool := in_range 128 191 x.

Fixpoint utf8_valid (l : bytes) : bool :=
  match l with
  | [] => true
  | b0 :: t =>
      if b0 <? 128 then utf8_valid t
      else if in_range 194 223 b0 then
        match t with
        | b1 :: t1 => cont b1 && utf8_valid t1
        | _ => false
        end
      else if in_range 224 239 b0 then
        match t with
        | b1 :: b2 :: t2 =>
            (if b0 =? 224 then in_range 160 191 b1
             else if b0 =? 237 then in_range 128 159 b1
             else cont b1) && cont b2 && utf8_valid t2
        | _ => false
        end
      else if in_range 240 244 b0 then
        match t with
        | b1 :: b2 :: b3 :: t3 =>
            (if b0 =? 240 then in_range 144 191 b1
             else if b0 =? 244 then in_range 128 143 b1
             else cont b1) && cont b2 && cont b3 && utf8_valid t3
        | _ => false
        end
      else false
  end.

(* `Utf8PathBuf::from(String::from_utf8(v)?)` *)
Definition utf8_name (v : bytes) : outcome bytes :=
  if utf8_valid v then Ok v else Err.

Definition read_name : rd bytes := fun b =>
  let* (v, r) := read_lv b in
  let* n := utf8_name v in Ok (n, r).

(* [len as u8] ++ value *)
Definition lv_encode (v : bytes) : bytes := as_u8 (blen v) :: v.

(* `while !remaining.is_empty() { v.push(decode(remaining)?) }`: the loop body consumes at
   least one byte per iteration, so the length of the buffer bounds the iterations; running
   out of fuel (never happens, see Proofs) is an error, not a divergence. *)
Fixpoint repeat_dec {A : Type} (fuel : nat) (d : rd A) (b : bytes) : outcome (list A) :=
  match b with
  | [] => Ok []
  | _ :: _ =>
      match fuel with
      | O => Err
      | S f =>
          let* (x, r) := d b in
          let* xs := repeat_dec f d r in Ok (x :: xs)
      end
  end.

Definition repeat_until_empty {A : Type} (d : rd A) (b : bytes) : outcome (list A) :=
  repeat_dec (length b) d b.
