(* Model of the CCSDS modular file checksum, cfdp-core/src/filestore.rs
   (impl<R: Read + Seek> FileChecksum for R).  Definitions only; proofs are in
   Proofs/ChecksumP.v.

   The Rust code wraps the reader in a BufReader and loops over the buffers that
   fill_buf hands out.  How the reader chunks the data is not under the control
   of the code, so the chunk list is an explicit argument of the model:
   [impl_chunks chunks] is the value computed when fill_buf returns the
   non-empty buffers [chunks] one after the other and then the empty buffer. *)
From CFDP Require Import Base.Prelude.

(* u32::from_be_bytes([b0,b1,b2,b3]) *)
Definition be32 (b0 b1 b2 b3 : N) : N :=
  b0 * 16777216 + b1 * 65536 + b2 * 256 + b3.

(* u32::wrapping_add *)
Definition wadd (a b : N) : N := (a + b) mod two32.

(* ------------------------------------------------------------------ *)
(* The definition of the checksum (CCSDS 727.0-B-5, 4.2.2 / annex F): the
   content is zero-padded to a multiple of four bytes, cut into big-endian
   32-bit words, and the words are added modulo 2^32.                  *)

Definition pad4 (data : list N) : list N :=
  data ++ repeat 0 ((4 - length data mod 4) mod 4)%nat.

(* the big-endian words of a byte string whose length is a multiple of four *)
Fixpoint be_words (data : list N) : list N :=
  match data with
  | b0 :: b1 :: b2 :: b3 :: t => be32 b0 b1 b2 b3 :: be_words t
  | _ => []
  end.

Definition sum32 (ws : list N) : N := fold_left wadd ws 0.

Definition spec (data : list N) : N := sum32 (be_words (pad4 data)).

(* ------------------------------------------------------------------ *)
(* The code.                                                           *)

(* buffer.chunks_exact(4).for_each(add); returns the sum and iter.remainder() *)
Fixpoint add_words (acc : N) (data : list N) : N * list N :=
  match data with
  | b0 :: b1 :: b2 :: b3 :: t => add_words (wadd acc (be32 b0 b1 b2 b3)) t
  | r => (acc, r)
  end.

(* a partial word (1..3 bytes) resized to 4 bytes with zeros *)
Definition pad_word (r : list N) : N :=
  match r with
  | [] => 0
  | [b0] => be32 b0 0 0 0
  | [b0; b1] => be32 b0 b1 0 0
  | [b0; b1; b2] => be32 b0 b1 b2 0
  | b0 :: b1 :: b2 :: b3 :: _ => be32 b0 b1 b2 b3
  end.

(* One iteration of the loop on a non-empty buffer.  State: the running sum
   and [carry], the bytes (fewer than 4) of a word whose remaining bytes have
   not been read yet.
     if !carry.is_empty() {
         let take = (4 - carry.len()).min(data.len());
         carry.extend_from_slice(&data[..take]);  data = &data[take..];
         if carry.len() == 4 { checksum += word(carry); carry.clear(); }
     }
     add the full words of data;  carry.extend_from_slice(remainder)          *)
Definition step (st : N * list N) (chunk : list N) : N * list N :=
  let '(acc, carry) := st in
  match carry with
  | [] => add_words acc chunk
  | _ :: _ =>
      let take := Nat.min (4 - length carry) (length chunk) in
      let c := carry ++ firstn take chunk in
      let data := skipn take chunk in
      let '(acc1, carry1) :=
        if Nat.eqb (length c) 4 then (wadd acc (pad_word c), []) else (acc, c) in
      let '(acc2, r) := add_words acc1 data in
      (acc2, carry1 ++ r)
  end.

(* the loop: an empty buffer from fill_buf means end of file *)
Fixpoint loop (st : N * list N) (chunks : list (list N)) : N * list N :=
  match chunks with
  | [] => st
  | [] :: _ => st
  | c :: rest => loop (step st c) rest
  end.

(* after the loop: the trailing partial word, if any, is zero-padded and added *)
Definition finish (st : N * list N) : N :=
  let '(acc, carry) := st in
  match carry with
  | [] => acc
  | _ :: _ => wadd acc (pad_word carry)
  end.

Definition impl_chunks (chunks : list (list N)) : N := finish (loop (0, []) chunks).

(* FileChecksum::checksum(checksum_type): ChecksumType::Modular = 0, Null = 15 *)
Definition checksum_null : N := 15.
Definition file_checksum (ty : N) (chunks : list (list N)) : N :=
  if ty =? checksum_null then 0 else impl_chunks chunks.

(* ---- the pinned (pre-fix) code: the remainder of EVERY buffer is padded and
   added, not only the remainder at end of file ---- *)
Module Pinned.
  Definition step (acc : N) (chunk : list N) : N :=
    let '(acc', r) := add_words acc chunk in
    match r with [] => acc' | _ :: _ => wadd acc' (pad_word r) end.
  Fixpoint loop (acc : N) (chunks : list (list N)) : N :=
    match chunks with
    | [] => acc
    | [] :: _ => acc
    | c :: rest => loop (step acc c) rest
    end.
  Definition impl_chunks (chunks : list (list N)) : N := loop 0 chunks.
End Pinned.
