(* Executable model of the user-operation codec (cfdp-core/src/pdu/user_ops.rs) and of
   daemon::Report::{encode, decode} (cfdp-core/src/daemon.rs).  Definitions only.
   Module PinnedUser keeps the behaviour of the code before the `fix:` commits. *)
From CFDP Require Import Base.Prelude Model.PduUser Model.CodecBase Model.Codec.

(* "cfdp" *)
Definition user_ops_identifier : bytes := [99; 102; 100; 112].

(* the byte holding the two id lengths, each minus one, in 3-bit fields *)
Definition id_lens_byte (src seq : varid) : N :=
  N.lor (N.shiftl (N.land (varid_len src - 1) 7) 4) (N.land (varid_len seq - 1) 7).

(* `entity_id_len = ((b & 0x70) >> 4) + 1; transaction_seq_len = (b & 0x7) + 1;` then two ids *)
Definition read_id_pair : rd (varid * varid) := fun b =>
  let* (lens, r) := read_u8 b in
  let* (src, r) := read_varid (bits lens 112 4 + 1) r in
  let* (seq, r) := read_varid (bits lens 7 0 + 1) r in
  Ok ((src, seq), r).

Definition id_pair_encode (src seq : varid) : bytes :=
  id_lens_byte src seq :: varid_be src ++ varid_be seq.

(* `[id.encoded_len() as u8] ++ id.to_be_bytes()`, read back with read_length_value_pair + try_from *)
Definition lv_id_encode (i : varid) : bytes := varid_len i :: varid_be i.
Definition read_lv_id : rd varid := fun b =>
  let* (c, r) := read_lv b in
  let* i := varid_of_bytes c in Ok (i, r).

Definition bool_of_bit (x : N) : bool := negb (x =? 0).

(* ------------------------------------------------------------------ proxy operations *)

Definition proxy_message_type (p : proxy_operation) : MessageType :=
  match p with
  | Px_PutRequest _ _ _ => MessageType_ProxyPutRequest
  | Px_MessageToUser _ => MessageType_ProxyMessageToUser
  | Px_FileStoreRequest _ => MessageType_ProxyFileStoreRequest
  | Px_FaultHandlerOverride _ => MessageType_ProxyFaultHandlerOverride
  | Px_TransmissionMode _ => MessageType_ProxyTransmissionMode
  | Px_FlowLabel _ => MessageType_ProxyFlowLabel
  | Px_SegmentationControl _ => MessageType_ProxySegmentationControl
  | Px_PutCancel => MessageType_ProxyPutCancel
  end.

Definition proxy_encoded_len (p : proxy_operation) : N :=
  match p with
  | Px_PutRequest d s t => 1 + varid_len d + 1 + blen s + 1 + blen t
  | Px_MessageToUser m => 1 + blen m
  | Px_FileStoreRequest q => 1 + fs_request_encoded_len q
  | Px_FaultHandlerOverride _ => 1
  | Px_TransmissionMode _ => 1
  | Px_FlowLabel v => 1 + blen v
  | Px_SegmentationControl _ => 1
  | Px_PutCancel => 0
  end.

(* `bytes.insert(0, bytes.len() as u8)` *)
Definition with_len_byte (msg : bytes) : bytes := as_u8 (blen msg) :: msg.

Definition proxy_encode (p : proxy_operation) : bytes :=
  match p with
  | Px_PutRequest d s t => lv_id_encode d ++ lv_encode s ++ lv_encode t
  | Px_MessageToUser m => lv_encode m
  | Px_FileStoreRequest q => with_len_byte (fs_request_encode q)
  | Px_FaultHandlerOverride c => [HandlerCode_to_u8 c]
  | Px_TransmissionMode m => [TransmissionMode_to_u8 m]
  | Px_FlowLabel v => lv_encode v
  | Px_SegmentationControl c => [SegmentationControl_to_u8 c]
  | Px_PutCancel => []
  end.

(* ------------------------------------------------------------------ responses *)

Definition response_message_type (p : user_response) : MessageType :=
  match p with
  | Rs_ProxyPut _ _ _ => MessageType_ProxyPutResponse
  | Rs_ProxyFileStore _ => MessageType_ProxyFileStoreResponse
  | Rs_DirectoryListing _ _ _ => MessageType_DirectoryListingResponse
  | Rs_RemoteStatusReport _ _ _ _ => MessageType_RemoteStatusReportResponse
  | Rs_RemoteSuspend _ _ _ _ => MessageType_RemoteSuspendResponse
  | Rs_RemoteResume _ _ _ _ => MessageType_RemoteResumeResponse
  end.

Definition response_encoded_len (p : user_response) : N :=
  match p with
  | Rs_ProxyPut _ _ _ => 1
  | Rs_ProxyFileStore q => 1 + fs_response_encoded_len q
  | Rs_DirectoryListing _ d f => 1 + 1 + blen d + 1 + blen f
  | Rs_RemoteStatusReport _ _ s q => 1 + 1 + varid_len s + varid_len q
  | Rs_RemoteResume _ _ s q => 1 + 1 + varid_len s + varid_len q
  | Rs_RemoteSuspend _ _ s q => 1 + 1 + varid_len q + varid_len s
  end.

Definition put_response_byte (c : Condition) (d : DeliveryCode) (s : FileStatusCode) : N :=
  N.lor (N.lor (N.shiftl (Condition_to_u8 c) 4) (N.shiftl (DeliveryCode_to_u8 d) 2)) (FileStatusCode_to_u8 s).

Definition response_encode (p : user_response) : bytes :=
  match p with
  | Rs_ProxyPut c d s => [put_response_byte c d s]
  | Rs_ProxyFileStore q => with_len_byte (fs_response_encode q)
  | Rs_DirectoryListing c d f => ListingResponseCode_to_u8 c :: lv_encode d ++ lv_encode f
  | Rs_RemoteStatusReport st code s q =>
      N.lor (N.shiftl (TransactionStatus_to_u8 st) 6) (bool_u8 code) :: id_pair_encode s q
  | Rs_RemoteResume ind st s q | Rs_RemoteSuspend ind st s q =>
      N.lor (N.shiftl (bool_u8 ind) 7) (N.shiftl (TransactionStatus_to_u8 st) 5) :: id_pair_encode s q
  end.

Definition put_response_decode : rd user_response := fun b =>
  let* (x, r) := read_u8 b in
  let* c := of_option (Condition_from_u8 (bits x 240 4)) in
  let* d := of_option (DeliveryCode_from_u8 (bits x 4 2)) in
  let* s := of_option (FileStatusCode_from_u8 (bits x 3 0)) in
  Ok (Rs_ProxyPut c d s, r).

Definition listing_response_decode : rd user_response := fun b =>
  let* (x, r) := read_u8 b in
  let* c := of_option (ListingResponseCode_from_u8 x) in
  let* (d, r) := read_name r in
  let* (f, r) := read_name r in
  Ok (Rs_DirectoryListing c d f, r).

Definition status_response_decode : rd user_response := fun b =>
  let* (x, r) := read_u8 b in
  let* st := of_option (TransactionStatus_from_u8 (bits x 192 6)) in
  let code := bool_of_bit (bits x 1 0) in
  let* (ids, r) := read_id_pair r in
  Ok (Rs_RemoteStatusReport st code (fst ids) (snd ids), r).

(* RemoteSuspendResponse::decode and (after the fix) RemoteResumeResponse::decode: status mask 0x60 *)
Definition suspend_like_decode (mask : N) (mk : bool -> TransactionStatus -> varid -> varid -> user_response)
  : rd user_response := fun b =>
  let* (x, r) := read_u8 b in
  let ind := bool_of_bit (bits x 128 7) in
  let* st := of_option (TransactionStatus_from_u8 (bits x mask 5)) in
  let* (ids, r) := read_id_pair r in
  Ok (mk ind st (fst ids) (snd ids), r).

(* ------------------------------------------------------------------ requests *)

Definition request_message_type (p : user_request) : MessageType :=
  match p with
  | Rq_DirectoryListing _ _ => MessageType_DirectoryListingRequest
  | Rq_RemoteStatusReport _ _ _ => MessageType_RemoteStatusReportRequest
  | Rq_RemoteSuspend _ _ => MessageType_RemoteSuspendRequest
  | Rq_RemoteResume _ _ => MessageType_RemoteResumeRequest
  end.

Definition request_encoded_len (p : user_request) : N :=
  match p with
  | Rq_DirectoryListing d f => 1 + blen d + 1 + blen f
  | Rq_RemoteStatusReport s q f => 1 + varid_len s + varid_len q + 1 + blen f
  | Rq_RemoteSuspend s q | Rq_RemoteResume s q => 1 + varid_len s + varid_len q
  end.

Definition request_encode (p : user_request) : bytes :=
  match p with
  | Rq_DirectoryListing d f => lv_encode d ++ lv_encode f
  | Rq_RemoteStatusReport s q f => id_pair_encode s q ++ lv_encode f
  | Rq_RemoteSuspend s q | Rq_RemoteResume s q => id_pair_encode s q
  end.

Definition listing_request_decode : rd user_request := fun b =>
  let* (d, r) := read_name b in
  let* (f, r) := read_name r in
  Ok (Rq_DirectoryListing d f, r).

Definition status_request_decode : rd user_request := fun b =>
  let* (ids, r) := read_id_pair b in
  let* (f, r) := read_name r in
  Ok (Rq_RemoteStatusReport (fst ids) (snd ids) f, r).

(* ------------------------------------------------------------------ SFO *)

Definition sfo_request_encoded_len (q : sfo_request) : N :=
  1 + 1 + 1 + blen (sq_request_label q) + 1 + varid_len (sq_source_entity_id q)
    + 1 + varid_len (sq_destination_entity_id q) + 1 + blen (sq_source_filename q)
    + 1 + blen (sq_destination_filename q).

Definition sfo_request_first_byte (q : sfo_request) : N :=
  N.lor (N.lor (N.lor (N.shiftl (TraceControl_to_u8 (sq_trace_control q)) 6)
                      (N.shiftl (TransmissionMode_to_u8 (sq_transmission_mode q)) 5))
               (N.shiftl (SegmentationControl_to_u8 (sq_segment_control q)) 4))
        (N.shiftl (bool_u8 (sq_closure_request q)) 3).

Definition sfo_request_encode (q : sfo_request) : bytes :=
  sfo_request_first_byte q :: sq_prior_waypoints_count q
    :: lv_encode (sq_request_label q) ++ lv_id_encode (sq_source_entity_id q)
    ++ lv_id_encode (sq_destination_entity_id q) ++ lv_encode (sq_source_filename q)
    ++ lv_encode (sq_destination_filename q).

Definition sfo_request_decode : rd sfo_request := fun b =>
  let* (x, r) := read_u8 b in
  let* trace := of_option (TraceControl_from_u8 (bits x 192 6)) in
  let* mode := of_option (TransmissionMode_from_u8 (bits x 32 5)) in
  let* segctl := of_option (SegmentationControl_from_u8 (bits x 16 4)) in
  let closure := bool_of_bit (bits x 8 3) in
  let* (prior, r) := read_u8 r in
  let* (label, r) := read_lv r in
  let* (src, r) := read_lv_id r in
  let* (dst, r) := read_lv_id r in
  let* (sname, r) := read_name r in
  let* (dname, r) := read_name r in
  Ok (mk_sfo_request trace mode segctl closure prior label src dst sname dname, r).

Definition sfo_report_encoded_len (p : sfo_report) : N :=
  1 + blen (sr_request_label p) + 1 + varid_len (sr_source_entity_id p)
    + 1 + varid_len (sr_destination_entity_id p) + 1 + varid_len (sr_reporting_entity_id p)
    + 1 + 1 + 1.

Definition sfo_report_last_byte (p : sfo_report) : N :=
  N.lor (N.lor (N.lor (N.shiftl (Condition_to_u8 (sr_condition p)) 4)
                      (N.shiftl (Direction_to_u8 (sr_direction p)) 3))
               (N.shiftl (DeliveryCode_to_u8 (sr_delivery_code p)) 2))
        (FileStatusCode_to_u8 (sr_file_status p)).

Definition sfo_report_encode (p : sfo_report) : bytes :=
  lv_encode (sr_request_label p) ++ lv_id_encode (sr_source_entity_id p)
    ++ lv_id_encode (sr_destination_entity_id p) ++ lv_id_encode (sr_reporting_entity_id p)
    ++ [sr_prior_waypoints p; sr_report_code p; sfo_report_last_byte p].

Definition sfo_report_decode : rd sfo_report := fun b =>
  let* (label, r) := read_lv b in
  let* (src, r) := read_lv_id r in
  let* (dst, r) := read_lv_id r in
  let* (rep, r) := read_lv_id r in
  let* (prior, r) := read_u8 r in
  let* (code, r) := read_u8 r in
  let* (x, r) := read_u8 r in
  let* c := of_option (Condition_from_u8 (bits x 240 4)) in
  let* d := of_option (Direction_from_u8 (bits x 8 3)) in
  let* dc := of_option (DeliveryCode_from_u8 (bits x 4 2)) in
  let* fs := of_option (FileStatusCode_from_u8 (bits x 3 0)) in
  Ok (mk_sfo_report label src dst rep prior code c d dc fs, r).

(* ------------------------------------------------------------------ UserOperation *)

Definition uo_message_type (u : user_operation) : MessageType :=
  match u with
  | Uo_OriginatingTransactionID _ _ => MessageType_OriginatingTransactionIDMessage
  | Uo_Proxy p => proxy_message_type p
  | Uo_Response p => response_message_type p
  | Uo_Request p => request_message_type p
  | Uo_SFORequest _ => MessageType_SFORequest
  | Uo_SFOMessageToUser _ => MessageType_SFOMessageToUser
  | Uo_SFOFlowLabel _ => MessageType_SFOFlowLabel
  | Uo_SFOFaultHandlerOverride _ => MessageType_SFOFaultHandlerOverride
  | Uo_SFOFileStoreRequest _ => MessageType_SFOFileStoreRequest
  | Uo_SFOFileStoreResponse _ => MessageType_SFOFileStoreResponse
  | Uo_SFOReport _ => MessageType_SFOReport
  end.

Definition uo_encoded_len (u : user_operation) : N :=
  4 + 1 + match u with
          | Uo_OriginatingTransactionID s q => 1 + varid_len s + varid_len q
          | Uo_Proxy p => proxy_encoded_len p
          | Uo_Response p => response_encoded_len p
          | Uo_Request p => request_encoded_len p
          | Uo_SFORequest q => sfo_request_encoded_len q
          | Uo_SFOMessageToUser m => 1 + blen m
          | Uo_SFOFlowLabel v => 1 + blen v
          | Uo_SFOFaultHandlerOverride _ => 1
          | Uo_SFOFileStoreRequest q => 1 + fs_request_encoded_len q
          | Uo_SFOFileStoreResponse p => 1 + fs_response_encoded_len p
          | Uo_SFOReport p => sfo_report_encoded_len p
          end.

Definition uo_body_encode (u : user_operation) : bytes :=
  match u with
  | Uo_OriginatingTransactionID s q => id_pair_encode s q
  | Uo_Proxy p => proxy_encode p
  | Uo_Response p => response_encode p
  | Uo_Request p => request_encode p
  | Uo_SFORequest q => sfo_request_encode q
  | Uo_SFOMessageToUser m => lv_encode m
  | Uo_SFOFlowLabel v => lv_encode v
  | Uo_SFOFaultHandlerOverride c => [HandlerCode_to_u8 c]
  | Uo_SFOFileStoreRequest q => with_len_byte (fs_request_encode q)
  | Uo_SFOFileStoreResponse p => with_len_byte (fs_response_encode p)
  | Uo_SFOReport p => sfo_report_encode p
  end.

Definition uo_encode (u : user_operation) : bytes :=
  user_ops_identifier ++ MessageType_to_u8 (uo_message_type u) :: uo_body_encode u.

Definition bytes_eqb (a b : bytes) : bool :=
  (length a =? length b)%nat && forallb (fun p => fst p =? snd p) (combine a b).

(* a one-byte enum read with from_u8 *)
Definition read_enum {A : Type} (from_u8 : N -> option A) : rd A := fun b =>
  let* (x, r) := read_u8 b in
  let* a := of_option (from_u8 x) in Ok (a, r).

(* the length byte in front of a FileStoreRequest / FileStoreResponse is read and ignored *)
Definition skip_len_byte : rd unit := fun b =>
  let* (_, r) := read_u8 b in Ok (tt, r).

Definition uo_decode_with (resume_mask : N) : rd user_operation := fun b =>
  let* (ident, r) := read_exact 4 b in
  if negb (bytes_eqb ident user_ops_identifier) then Err else
  let* (t, r) := read_u8 r in
  let* message_type := of_option (MessageType_from_u8 t) in
  match message_type with
  | MessageType_ProxyPutRequest =>
      let* (d, r) := read_lv_id r in
      let* (s, r) := read_name r in
      let* (n, r) := read_name r in
      Ok (Uo_Proxy (Px_PutRequest d s n), r)
  | MessageType_ProxyMessageToUser =>
      let* (m, r) := read_lv r in Ok (Uo_Proxy (Px_MessageToUser m), r)
  | MessageType_ProxyFileStoreRequest =>
      let* (_, r) := skip_len_byte r in
      let* (q, r) := fs_request_decode r in Ok (Uo_Proxy (Px_FileStoreRequest q), r)
  | MessageType_ProxyFileStoreResponse =>
      let* (_, r) := skip_len_byte r in
      let* (p, r) := fs_response_decode r in Ok (Uo_Response (Rs_ProxyFileStore p), r)
  | MessageType_ProxyFaultHandlerOverride =>
      let* (c, r) := handler_decode r in Ok (Uo_Proxy (Px_FaultHandlerOverride c), r)
  | MessageType_ProxyTransmissionMode =>
      let* (m, r) := read_enum TransmissionMode_from_u8 r in Ok (Uo_Proxy (Px_TransmissionMode m), r)
  | MessageType_ProxyFlowLabel =>
      let* (v, r) := read_lv r in Ok (Uo_Proxy (Px_FlowLabel v), r)
  | MessageType_ProxySegmentationControl =>
      let* (c, r) := read_enum SegmentationControl_from_u8 r in Ok (Uo_Proxy (Px_SegmentationControl c), r)
  | MessageType_ProxyPutResponse =>
      let* (p, r) := put_response_decode r in Ok (Uo_Response p, r)
  | MessageType_ProxyPutCancel => Ok (Uo_Proxy Px_PutCancel, r)
  | MessageType_OriginatingTransactionIDMessage =>
      let* (ids, r) := read_id_pair r in Ok (Uo_OriginatingTransactionID (fst ids) (snd ids), r)
  | MessageType_ProxyClosureRequest => Err
  | MessageType_DirectoryListingRequest =>
      let* (p, r) := listing_request_decode r in Ok (Uo_Request p, r)
  | MessageType_RemoteStatusReportRequest =>
      let* (p, r) := status_request_decode r in Ok (Uo_Request p, r)
  | MessageType_RemoteSuspendRequest =>
      let* (ids, r) := read_id_pair r in Ok (Uo_Request (Rq_RemoteSuspend (fst ids) (snd ids)), r)
  | MessageType_RemoteResumeRequest =>
      let* (ids, r) := read_id_pair r in Ok (Uo_Request (Rq_RemoteResume (fst ids) (snd ids)), r)
  | MessageType_DirectoryListingResponse =>
      let* (p, r) := listing_response_decode r in Ok (Uo_Response p, r)
  | MessageType_RemoteStatusReportResponse =>
      let* (p, r) := status_response_decode r in Ok (Uo_Response p, r)
  | MessageType_RemoteSuspendResponse =>
      let* (p, r) := suspend_like_decode 96 Rs_RemoteSuspend r in Ok (Uo_Response p, r)
  | MessageType_RemoteResumeResponse =>
      let* (p, r) := suspend_like_decode resume_mask Rs_RemoteResume r in Ok (Uo_Response p, r)
  | MessageType_SFORequest =>
      let* (q, r) := sfo_request_decode r in Ok (Uo_SFORequest q, r)
  | MessageType_SFOMessageToUser =>
      let* (m, r) := read_lv r in Ok (Uo_SFOMessageToUser m, r)
  | MessageType_SFOFlowLabel =>
      let* (v, r) := read_lv r in Ok (Uo_SFOFlowLabel v, r)
  | MessageType_SFOFaultHandlerOverride =>
      let* (c, r) := handler_decode r in Ok (Uo_SFOFaultHandlerOverride c, r)
  | MessageType_SFOFileStoreRequest =>
      let* (_, r) := skip_len_byte r in
      let* (q, r) := fs_request_decode r in Ok (Uo_SFOFileStoreRequest q, r)
  | MessageType_SFOReport =>
      let* (p, r) := sfo_report_decode r in Ok (Uo_SFOReport p, r)
  | MessageType_SFOFileStoreResponse =>
      let* (_, r) := skip_len_byte r in
      let* (p, r) := fs_response_decode r in Ok (Uo_SFOFileStoreResponse p, r)
  end.

(* UserOperation::decode (RemoteResumeResponse status mask 0x60) *)
Definition uo_decode : rd user_operation := uo_decode_with 96.

(* ------------------------------------------------------------------ daemon::Report *)

Definition report_encode (p : report) : bytes :=
  varid_encode (rp_entity p) ++ varid_encode (rp_sequence p)
    ++ [TransactionState_to_u8 (rp_state p); TransactionStatus_to_u8 (rp_status p);
        Condition_to_u8 (rp_condition p)].

Definition report_encoded_len (p : report) : N :=
  1 + varid_len (rp_entity p) + 1 + varid_len (rp_sequence p) + 3.

Definition report_decode : rd report := fun b =>
  let* (e, r) := varid_decode b in
  let* (s, r) := varid_decode r in
  let* (state, r) := read_enum TransactionState_from_u8 r in
  let* (status, r) := read_enum TransactionStatus_from_u8 r in
  let* (condition, r) := read_enum Condition_from_u8 r in
  Ok (mk_report e s state status condition, r).

(* ------------------------------------------------------------------ well-formedness *)

Definition wf_proxy (p : proxy_operation) : Prop :=
  match p with
  | Px_PutRequest d s t => wf_varid d /\ wf_name s /\ wf_name t
  | Px_MessageToUser m => wf_lv m
  | Px_FileStoreRequest q => wf_fs_request q
  | Px_FlowLabel v => wf_lv v
  | _ => True
  end.

Definition wf_response (p : user_response) : Prop :=
  match p with
  | Rs_ProxyPut _ _ _ => True
  | Rs_ProxyFileStore q => wf_fs_response q
  | Rs_DirectoryListing _ d f => wf_name d /\ wf_name f
  | Rs_RemoteStatusReport _ _ s q | Rs_RemoteResume _ _ s q | Rs_RemoteSuspend _ _ s q =>
      wf_varid s /\ wf_varid q
  end.

Definition wf_request (p : user_request) : Prop :=
  match p with
  | Rq_DirectoryListing d f => wf_name d /\ wf_name f
  | Rq_RemoteStatusReport s q f => wf_varid s /\ wf_varid q /\ wf_name f
  | Rq_RemoteSuspend s q | Rq_RemoteResume s q => wf_varid s /\ wf_varid q
  end.

Definition wf_sfo_request (q : sfo_request) : Prop :=
  sq_prior_waypoints_count q < 256 /\ wf_lv (sq_request_label q) /\
  wf_varid (sq_source_entity_id q) /\ wf_varid (sq_destination_entity_id q) /\
  wf_name (sq_source_filename q) /\ wf_name (sq_destination_filename q).

Definition wf_sfo_report (p : sfo_report) : Prop :=
  wf_lv (sr_request_label p) /\ wf_varid (sr_source_entity_id p) /\
  wf_varid (sr_destination_entity_id p) /\ wf_varid (sr_reporting_entity_id p) /\
  sr_prior_waypoints p < 256 /\ sr_report_code p < 256.

Definition wf_uo (u : user_operation) : Prop :=
  match u with
  | Uo_OriginatingTransactionID s q => wf_varid s /\ wf_varid q
  | Uo_Proxy p => wf_proxy p
  | Uo_Response p => wf_response p
  | Uo_Request p => wf_request p
  | Uo_SFORequest q => wf_sfo_request q
  | Uo_SFOMessageToUser m => wf_lv m
  | Uo_SFOFlowLabel v => wf_lv v
  | Uo_SFOFaultHandlerOverride _ => True
  | Uo_SFOFileStoreRequest q => wf_fs_request q
  | Uo_SFOFileStoreResponse p => wf_fs_response p
  | Uo_SFOReport p => wf_sfo_report p
  end.

Definition wf_report (p : report) : Prop := wf_varid (rp_entity p) /\ wf_varid (rp_sequence p).

(* ------------------------------------------------------------------ the code before the fixes *)
Module PinnedUser.
  (* user_ops.rs:375-376 and five more sites: `& 0x3` on encode *)
  Definition id_lens_byte (src seq : varid) : N :=
    N.lor (N.shiftl (N.land (varid_len src - 1) 3) 4) (N.land (varid_len seq - 1) 3).
  Definition id_pair_encode (src seq : varid) : bytes :=
    id_lens_byte src seq :: varid_be src ++ varid_be seq.
  (* RemoteResumeResponse::decode: `(first_byte & 0x30) >> 5` *)
  Definition uo_decode : rd user_operation := uo_decode_with 48.
End PinnedUser.
