(* Model of cfdp-daemon/src/transaction/send.rs (SendTransaction), function by
   function and branch by branch, for the code as fixed (see known_findings.json).
   Definitions only; theorems are in Proofs/SendP.v.

   The source file is its content at the time of the Put request ([s_file]); the
   file handle is modelled by its cursor [s_pos]. Parameter: the file checksum. *)
From CFDP Require Import Base.Prelude Model.Timer Model.TxTypes Model.Recv.

Inductive sphase := SendMetadata | SendData | SendEof | SCancelled | SFinished.
Definition sphase_eqb (a b : sphase) : bool :=
  match a, b with
  | SendMetadata, SendMetadata | SendData, SendData | SendEof, SendEof
  | SCancelled, SCancelled | SFinished, SFinished => true
  | _, _ => false
  end.

Definition slice (f : bytes) (off len : N) : bytes := firstn (N.to_nat len) (skipn (N.to_nat off) f).

Definition pair_eqb (a b : N * N) : bool := (fst a =? fst b) && (snd a =? snd b).
(* HashSet-based de-duplication of send.rs: keep first occurrences *)
Fixpoint dedup_acc (seen : list (N * N)) (l : list (N * N)) : list (N * N) :=
  match l with
  | [] => []
  | x :: t => if existsb (pair_eqb x) seen then dedup_acc seen t else x :: dedup_acc (x :: seen) t
  end.
Definition dedup (l : list (N * N)) : list (N * N) := dedup_acc [] l.

Fixpoint nseq (start : N) (n : nat) : list N :=
  match n with O => [] | S k => start :: nseq (start + 1) k end.

(* the splitting of one NAK request (send.rs, Operations::Nak): the part of
   [start,end) inside the file, cut to the segment size *)
Definition split_request (seg fsize : N) (r : N * N) : list (N * N) :=
  let '(start, e0) := r in
  if (start =? 0) && (e0 =? 0) then [(0, 0)]
  else
    let e := N.min e0 fsize in
    if e <=? start then []
    else
      let count := N.to_nat ((e - start + seg - 1) / seg) in
      map (fun k => let num := start + k * seg in
                    if num <? e - seg then (num, num + seg) else (num, e))
          (nseq 0 count).

Section Send.
Variable cksum : cktype -> bytes -> N.
Variable resp_len : fsresp -> N.
Variable req_len : fsreq -> N.

Record sstate := mkS {
  s_cfg : config;
  s_status : tstatus;
  s_state : tstate;
  s_phase : sphase;
  s_meta : metadata;
  s_file : bytes;             (* content of the source file *)
  s_pos : N;                  (* cursor of the file handle *)
  s_naks : list (N * N);
  s_sent : N;                 (* sent_file_size *)
  s_recvd : N;                (* received_file_size (from KeepAlive) *)
  s_cond : cond;
  s_dc : delivery;
  s_fstat : fstatus;
  s_timer : timer;
  s_cksum : option N;
  s_eof : option (eof * bool);
  s_ack : option ack;
  s_prompt : option nak_or_ka;
  s_eof_ind : bool;           (* send_eof_indication *)
  s_out : list out
}.

Definition set_s_cfg v (s : sstate) : sstate := mkS v (s_status s) (s_state s) (s_phase s) (s_meta s) (s_file s) (s_pos s) (s_naks s) (s_sent s) (s_recvd s) (s_cond s) (s_dc s) (s_fstat s) (s_timer s) (s_cksum s) (s_eof s) (s_ack s) (s_prompt s) (s_eof_ind s) (s_out s).
Definition set_s_status v (s : sstate) : sstate := mkS (s_cfg s) v (s_state s) (s_phase s) (s_meta s) (s_file s) (s_pos s) (s_naks s) (s_sent s) (s_recvd s) (s_cond s) (s_dc s) (s_fstat s) (s_timer s) (s_cksum s) (s_eof s) (s_ack s) (s_prompt s) (s_eof_ind s) (s_out s).
Definition set_s_state v (s : sstate) : sstate := mkS (s_cfg s) (s_status s) v (s_phase s) (s_meta s) (s_file s) (s_pos s) (s_naks s) (s_sent s) (s_recvd s) (s_cond s) (s_dc s) (s_fstat s) (s_timer s) (s_cksum s) (s_eof s) (s_ack s) (s_prompt s) (s_eof_ind s) (s_out s).
Definition set_s_phase v (s : sstate) : sstate := mkS (s_cfg s) (s_status s) (s_state s) v (s_meta s) (s_file s) (s_pos s) (s_naks s) (s_sent s) (s_recvd s) (s_cond s) (s_dc s) (s_fstat s) (s_timer s) (s_cksum s) (s_eof s) (s_ack s) (s_prompt s) (s_eof_ind s) (s_out s).
Definition set_s_meta v (s : sstate) : sstate := mkS (s_cfg s) (s_status s) (s_state s) (s_phase s) v (s_file s) (s_pos s) (s_naks s) (s_sent s) (s_recvd s) (s_cond s) (s_dc s) (s_fstat s) (s_timer s) (s_cksum s) (s_eof s) (s_ack s) (s_prompt s) (s_eof_ind s) (s_out s).
Definition set_s_file v (s : sstate) : sstate := mkS (s_cfg s) (s_status s) (s_state s) (s_phase s) (s_meta s) v (s_pos s) (s_naks s) (s_sent s) (s_recvd s) (s_cond s) (s_dc s) (s_fstat s) (s_timer s) (s_cksum s) (s_eof s) (s_ack s) (s_prompt s) (s_eof_ind s) (s_out s).
Definition set_s_pos v (s : sstate) : sstate := mkS (s_cfg s) (s_status s) (s_state s) (s_phase s) (s_meta s) (s_file s) v (s_naks s) (s_sent s) (s_recvd s) (s_cond s) (s_dc s) (s_fstat s) (s_timer s) (s_cksum s) (s_eof s) (s_ack s) (s_prompt s) (s_eof_ind s) (s_out s).
Definition set_s_naks v (s : sstate) : sstate := mkS (s_cfg s) (s_status s) (s_state s) (s_phase s) (s_meta s) (s_file s) (s_pos s) v (s_sent s) (s_recvd s) (s_cond s) (s_dc s) (s_fstat s) (s_timer s) (s_cksum s) (s_eof s) (s_ack s) (s_prompt s) (s_eof_ind s) (s_out s).
Definition set_s_sent v (s : sstate) : sstate := mkS (s_cfg s) (s_status s) (s_state s) (s_phase s) (s_meta s) (s_file s) (s_pos s) (s_naks s) v (s_recvd s) (s_cond s) (s_dc s) (s_fstat s) (s_timer s) (s_cksum s) (s_eof s) (s_ack s) (s_prompt s) (s_eof_ind s) (s_out s).
Definition set_s_recvd v (s : sstate) : sstate := mkS (s_cfg s) (s_status s) (s_state s) (s_phase s) (s_meta s) (s_file s) (s_pos s) (s_naks s) (s_sent s) v (s_cond s) (s_dc s) (s_fstat s) (s_timer s) (s_cksum s) (s_eof s) (s_ack s) (s_prompt s) (s_eof_ind s) (s_out s).
Definition set_s_cond v (s : sstate) : sstate := mkS (s_cfg s) (s_status s) (s_state s) (s_phase s) (s_meta s) (s_file s) (s_pos s) (s_naks s) (s_sent s) (s_recvd s) v (s_dc s) (s_fstat s) (s_timer s) (s_cksum s) (s_eof s) (s_ack s) (s_prompt s) (s_eof_ind s) (s_out s).
Definition set_s_dc v (s : sstate) : sstate := mkS (s_cfg s) (s_status s) (s_state s) (s_phase s) (s_meta s) (s_file s) (s_pos s) (s_naks s) (s_sent s) (s_recvd s) (s_cond s) v (s_fstat s) (s_timer s) (s_cksum s) (s_eof s) (s_ack s) (s_prompt s) (s_eof_ind s) (s_out s).
Definition set_s_fstat v (s : sstate) : sstate := mkS (s_cfg s) (s_status s) (s_state s) (s_phase s) (s_meta s) (s_file s) (s_pos s) (s_naks s) (s_sent s) (s_recvd s) (s_cond s) (s_dc s) v (s_timer s) (s_cksum s) (s_eof s) (s_ack s) (s_prompt s) (s_eof_ind s) (s_out s).
Definition set_s_timer v (s : sstate) : sstate := mkS (s_cfg s) (s_status s) (s_state s) (s_phase s) (s_meta s) (s_file s) (s_pos s) (s_naks s) (s_sent s) (s_recvd s) (s_cond s) (s_dc s) (s_fstat s) v (s_cksum s) (s_eof s) (s_ack s) (s_prompt s) (s_eof_ind s) (s_out s).
Definition set_s_cksum v (s : sstate) : sstate := mkS (s_cfg s) (s_status s) (s_state s) (s_phase s) (s_meta s) (s_file s) (s_pos s) (s_naks s) (s_sent s) (s_recvd s) (s_cond s) (s_dc s) (s_fstat s) (s_timer s) v (s_eof s) (s_ack s) (s_prompt s) (s_eof_ind s) (s_out s).
Definition set_s_eof v (s : sstate) : sstate := mkS (s_cfg s) (s_status s) (s_state s) (s_phase s) (s_meta s) (s_file s) (s_pos s) (s_naks s) (s_sent s) (s_recvd s) (s_cond s) (s_dc s) (s_fstat s) (s_timer s) (s_cksum s) v (s_ack s) (s_prompt s) (s_eof_ind s) (s_out s).
Definition set_s_ack v (s : sstate) : sstate := mkS (s_cfg s) (s_status s) (s_state s) (s_phase s) (s_meta s) (s_file s) (s_pos s) (s_naks s) (s_sent s) (s_recvd s) (s_cond s) (s_dc s) (s_fstat s) (s_timer s) (s_cksum s) (s_eof s) v (s_prompt s) (s_eof_ind s) (s_out s).
Definition set_s_prompt v (s : sstate) : sstate := mkS (s_cfg s) (s_status s) (s_state s) (s_phase s) (s_meta s) (s_file s) (s_pos s) (s_naks s) (s_sent s) (s_recvd s) (s_cond s) (s_dc s) (s_fstat s) (s_timer s) (s_cksum s) (s_eof s) (s_ack s) v (s_eof_ind s) (s_out s).
Definition set_s_eof_ind v (s : sstate) : sstate := mkS (s_cfg s) (s_status s) (s_state s) (s_phase s) (s_meta s) (s_file s) (s_pos s) (s_naks s) (s_sent s) (s_recvd s) (s_cond s) (s_dc s) (s_fstat s) (s_timer s) (s_cksum s) (s_eof s) (s_ack s) (s_prompt s) v (s_out s).
Definition set_s_out v (s : sstate) : sstate := mkS (s_cfg s) (s_status s) (s_state s) (s_phase s) (s_meta s) (s_file s) (s_pos s) (s_naks s) (s_sent s) (s_recvd s) (s_cond s) (s_dc s) (s_fstat s) (s_timer s) (s_cksum s) (s_eof s) (s_ack s) (s_prompt s) (s_eof_ind s) v.


Definition semit_ind (i : indication) (s : sstate) : sstate := set_s_out (OInd i :: s_out s) s.
Definition semit_pdu (p : payload) (s : sstate) : sstate :=
  let cfg := s_cfg s in
  set_s_out (OPdu (mkOpdu true (payload_len cfg resp_len req_len p) (cfg_dst cfg) p) :: s_out s) s.

Definition supd_inact (f : counter -> counter) (s : sstate) := set_s_timer (set_inact (s_timer s) (f (t_inact (s_timer s)))) s.
Definition supd_ack (f : counter -> counter) (s : sstate) := set_s_timer (set_ack (s_timer s) (f (t_ack (s_timer s)))) s.

(* SendTransaction::new *)
Definition s_new (now : N) (cfg : config) (m : metadata) (file : bytes) : sstate :=
  let t := t_new now (cfg_t_inact cfg) (cfg_max cfg) (cfg_t_ack cfg) (cfg_max cfg) (cfg_t_nak cfg) (cfg_max cfg) in
  semit_ind ITransaction
    (mkS cfg SUndefined TActive SendMetadata m file 0 [] 0 0 NoError DIncomplete FUnreported
         t None None None None true []).

Definition eof_flag (s : sstate) : bool := match s_eof s with Some (_, true) => true | _ => false end.
Definition set_eof_flag (b : bool) (s : sstate) : sstate :=
  match s_eof s with Some (e, _) => set_s_eof (Some (e, b)) s | None => s end.
Definition ssuspended (s : sstate) : bool := tstate_eqb (s_state s) TSuspended.
Definition s_is_file_transfer (s : sstate) : bool := negb (is_nil (md_src (s_meta s))).

Definition s_has_pdu_to_send (s : sstate) : bool :=
  if ssuspended s then false
  else is_some (s_prompt s) ||
       match s_phase s with
       | SendMetadata | SendData => true
       | SendEof => negb (is_nil (s_naks s)) || eof_flag s
       | SCancelled => eof_flag s
       | SFinished => is_some (s_ack s)
       end.

Definition s_until_timeout (now : N) (s : sstate) : option N :=
  if ssuspended s then None
  else match s_phase s with
       | SendEof | SCancelled => t_until now (s_timer s)
       | _ => None
       end.

Definition s_generate_report (s : sstate) : report := mkReport (s_state s) (s_status s) (s_cond s).
Definition s_send_report (s : sstate) : sstate := semit_ind (IReport (s_generate_report s)) s.

Definition s_shutdown (now : N) (s : sstate) : sstate :=
  supd_inact (c_pause now) (supd_ack (c_pause now) (set_s_state TTerminated s)).

Definition s_abandon (now : N) (s : sstate) : sstate :=
  let s := semit_ind (IAbandon (s_cond s) (s_sent s)) s in
  s_shutdown now (set_s_status STerminated s).

(* get_checksum: cached; computing the modular checksum leaves the cursor at the end *)
Definition get_checksum (s : sstate) : sstate * N :=
  match s_cksum s with
  | Some v => (s, v)
  | None =>
      if s_is_file_transfer s then
        let ckt := md_ck (s_meta s) in
        let v := cksum ckt (s_file s) in
        let s := match ckt with CkModular => set_s_pos (N.of_nat (length (s_file s))) s | CkNull => s end in
        (set_s_cksum (Some v) s, v)
      else (set_s_cksum (Some 0) s, 0)
  end.

Definition prepare_eof (fault : option N) (s : sstate) : sstate :=
  let c := s_cond s in
  let '(s, ck) := get_checksum s in
  set_s_eof (Some (mkEof c ck (md_size (s_meta s)) fault, true)) s.

Definition s_cancel_ (now : N) (c : cond) (s : sstate) : sstate :=
  let s := supd_inact (c_restart now) s in
  let s := set_s_cond c s in
  let s := set_s_phase SCancelled s in
  prepare_eof (Some (cfg_src (s_cfg s))) s.

Definition s_cancel (now : N) (s : sstate) : sstate := s_cancel_ now CancelReceived s.

Definition s_suspend (now : N) (s : sstate) : sstate :=
  let s := supd_inact (c_pause now) (supd_ack (c_pause now) s) in
  let s := set_s_state TSuspended s in
  semit_ind (ISuspended (s_cond s)) s.

Definition s_resume (now : N) (s : sstate) : sstate :=
  let s := match s_phase s with
           | SendEof | SCancelled => supd_inact (c_reset now) (supd_ack (c_reset now) s)
           | _ => s
           end in
  let s := set_s_state TActive s in
  semit_ind (IResumed (s_sent s)) s.

Definition s_handle_fault (now : N) (c : cond) (s : sstate) : sstate :=
  let s := set_s_cond c s in
  let s := semit_ind (IFault c (s_sent s)) s in
  match handler (s_cfg s) c with
  | AIgnore => s
  | ACancel => s_cancel_ now c s
  | ASuspend => s_suspend now s
  | AAbandon => s_abandon now s
  end.

Definition send_metadata (s : sstate) : sstate := semit_pdu (PMetadata (s_meta s)) s.

(* get_file_segment + send_file_segment: read [len] bytes at [offset], emit, cursor after the read *)
Definition send_file_segment (offset len : N) (s : sstate) : sstate :=
  let data := slice (s_file s) offset len in
  let n := N.of_nat (length data) in
  let s := set_s_pos (offset + n) s in
  let s := set_s_sent (N.max (s_sent s) (offset + n)) s in
  semit_pdu (PFileData offset data) s.

Definition send_missing_data (now : N) (s : sstate) : sstate * result :=
  match s_naks s with
  | [] => (s, ROk)
  | (a, b) :: t =>
      let s := set_s_naks t s in
      let s := supd_inact (c_restart now) s in
      if 65535 <? b - a then (s, RErr)               (* u64 -> u16 try_into()? *)
      else if (a =? 0) && (b - a =? 0) then (send_metadata s, ROk)
      else
        let cur := s_pos s in
        let s := send_file_segment a (b - a) s in
        (set_s_pos cur s, ROk)
  end.

Definition send_eof (now : N) (s : sstate) : sstate :=
  match s_eof s with
  | Some (e, true) =>
      let s := supd_ack (c_restart now) s in
      set_eof_flag false (semit_pdu (PEof e) s)
  | _ => s
  end.

Definition send_prompt (now : N) (s : sstate) : sstate :=
  match s_prompt s with
  | Some p =>
      let s := set_s_prompt None s in
      let s := supd_ack (c_restart now) s in
      semit_pdu (PPrompt p) s
  | None => s
  end.

Definition prepare_ack (s : sstate) : sstate :=
  set_s_ack (Some (mkAck DirFinished SubFinished (s_cond s) (s_status s))) s.

Definition send_ack (now : N) (s : sstate) : sstate :=
  match s_ack s with
  | Some a => s_shutdown now (set_s_ack None (semit_pdu (PAck a) s))
  | None => s
  end.

(* enter_send_eof: the first pass is over; stale inactivity expirations are cleared *)
Definition enter_send_eof (now : N) (s : sstate) : sstate :=
  supd_inact (c_pause now) (supd_inact (c_reset now) (set_s_phase SendEof s)).

Definition s_send_pdu (now : N) (s : sstate) : sstate * result :=
  if is_some (s_prompt s) then (send_prompt now s, ROk)
  else
    match s_phase s with
    | SendMetadata =>
        let s := send_metadata s in
        if s_is_file_transfer s && (0 <? md_size (s_meta s)) then (set_s_phase SendData s, ROk)
        else (enter_send_eof now (prepare_eof None s), ROk)
    | SendData =>
        let '(s, r) :=
          if negb (is_nil (s_naks s)) then send_missing_data now s
          else (send_file_segment (s_pos s) (cfg_seg (s_cfg s)) s, ROk) in
        match r with
        | ROk =>
            if s_pos s =? N.of_nat (length (s_file s))
            then (enter_send_eof now (prepare_eof None s), ROk)
            else (s, ROk)
        | _ => (s, r)
        end
    | SendEof =>
        if negb (is_nil (s_naks s)) then send_missing_data now s
        else
          let s := send_eof now s in
          let s := if s_eof_ind s then set_s_eof_ind false (semit_ind IEoFSent s) else s in
          match cfg_mode (s_cfg s) with
          | Unacked =>
              if md_closure (s_meta s) then (s, ROk)
              else
                let s := semit_ind (IFinished (s_generate_report s) (s_fstat s) (s_dc s) []) s in
                (s_shutdown now s, ROk)
          | Acked => (s, ROk)
          end
    | SCancelled => (send_eof now s, ROk)
    | SFinished => (send_ack now s, ROk)
    end.

(* handle_timeout, SendEof state, ACK timer part *)
Definition ht_ack_eof (now : N) (s : sstate) : sstate :=
  let '(ca, occ) := c_timeout_occurred now (t_ack (s_timer s)) in
  let s := supd_ack (fun _ => ca) s in
  if occ then
    if c_count ca =? c_max ca then s_handle_fault now PositiveLimitReached s
    else set_eof_flag true s
  else s.

Definition s_handle_timeout (now : N) (s : sstate) : sstate :=
  match s_phase s with
  | SendEof =>
      let '(ci, lim) := c_limit_reached now (t_inact (s_timer s)) in
      let s := supd_inact (fun _ => ci) s in
      let s := if lim then s_handle_fault now InactivityDetected s else s in
      if lim && (negb (sphase_eqb (s_phase s) SendEof) || negb (tstate_eqb (s_state s) TActive)) then s
      else ht_ack_eof now s
  | SCancelled =>
      let '(ci, lim) := c_limit_reached now (t_inact (s_timer s)) in
      let s := supd_inact (fun _ => ci) s in
      if lim then s_abandon now s
      else
        let '(ca, occ) := c_timeout_occurred now (t_ack (s_timer s)) in
        let s := supd_ack (fun _ => ca) s in
        if occ then
          if c_count ca =? c_max ca then s_abandon now s
          else set_eof_flag true s
        else s
  | _ => s
  end.

Definition s_process_pdu (now : N) (p : payload) (s : sstate) : sstate * result :=
  let s := if sphase_eqb (s_phase s) SendEof && negb (ssuspended s)
           then supd_inact (c_reset now) s else s in
  match cfg_mode (s_cfg s) with
  | Acked =>
      match p with
      | PFinished f =>
          let s := set_s_dc (fin_dc f) s in
          let s := set_s_fstat (fin_fs f) s in
          let s := prepare_ack s in
          let s := set_s_phase SFinished s in
          let s := set_s_cond (fin_cond f) s in
          (semit_ind (IFinished (s_generate_report s) (s_fstat s) (s_dc s) (fin_resps f)) s, ROk)
      | PNakP n =>
          let fsize := md_size (s_meta s) in
          let add := flat_map (split_request (cfg_seg (s_cfg s)) fsize) (nak_reqs n) in
          (set_s_naks (dedup (s_naks s ++ add)) s, ROk)
      | PAck a =>
          match ack_dir a with
          | DirEoF => (supd_ack (c_pause now) (supd_ack (c_reset now) s), ROk)
          | _ => (s, RUnexpected)
          end
      | PKeepAliveP progress => (set_s_recvd progress s, ROk)
      | PFileData _ _ | PEof _ | PMetadata _ | PPrompt _ => (s, RUnexpected)
      end
  | Unacked =>
      match p with
      | PFinished f =>
          if md_closure (s_meta s) then
            let s := set_s_cond (fin_cond f) s in
            let s := set_s_dc (fin_dc f) s in
            let s := set_s_fstat (fin_fs f) s in
            let s := semit_ind (IFinished (s_generate_report s) (s_fstat s) (s_dc s) (fin_resps f)) s in
            (s_shutdown now s, ROk)
          else (s, RUnexpected)
      | _ => (s, RUnexpected)
      end
  end.

Inductive sop :=
| SPdu (p : payload)
| SSend
| STimeout
| SCancelOp | SSuspendOp | SResumeOp | SReportOp | SAbandonOp
| SPromptOp (p : nak_or_ka).

Definition sstep (now : N) (o : sop) (s : sstate) : sstate * result :=
  let s := set_s_out [] s in
  match o with
  | SPdu p => s_process_pdu now p s
  | SSend => if s_has_pdu_to_send s then s_send_pdu now s else (s, ROk)
  | STimeout => (match s_until_timeout now s with Some 0 => s_handle_timeout now s | _ => s end, ROk)
  | SCancelOp => (s_cancel now s, ROk)
  | SSuspendOp => (s_suspend now s, ROk)
  | SResumeOp => (s_resume now s, ROk)
  | SReportOp => (s_send_report s, ROk)
  | SAbandonOp => (s_shutdown now s, ROk)
  | SPromptOp p => (set_s_prompt (Some p) s, ROk)
  end.

End Send.
