(* Executable model of the PDU codec: cfdp-core/src/pdu.rs, pdu/header.rs, pdu/ops.rs,
   pdu/filestore.rs, pdu/fault_handler.rs (encode, decode and encoded_len of the header, every
   file directive, file data, the metadata TLVs and the whole PDU with the CRC on or off).
   Definitions only; the function bodies follow the Rust functions statement by statement.
   Rust's bounded arithmetic is explicit: `as u8` / `as u32` truncations, `u16 - 2`, `u8 + 1`.
   Module Pinned (end of file) keeps the behaviour of the code before the `fix:` commits. *)
From CFDP Require Import Base.Prelude Model.Pdu Model.CodecBase Model.Crc.

(* ------------------------------------------------------------------ VariableID (ops.rs) *)

(* PDUEncode::encoded_len for VariableID *)
Definition varid_len (i : varid) : N :=
  match i with VU8 _ => 1 | VU16 _ => 2 | VU32 _ => 4 | VU64 _ => 8 end.

Definition varid_val (i : varid) : N :=
  match i with VU8 v | VU16 v | VU32 v | VU64 v => v end.

(* VariableID::to_be_bytes *)
Definition varid_be (i : varid) : bytes :=
  match i with
  | VU8 v => be_encode 1 v
  | VU16 v => be_encode 2 v
  | VU32 v => be_encode 4 v
  | VU64 v => be_encode 8 v
  end.

(* TryFrom<Vec<u8>> for VariableID *)
Definition varid_of_bytes (c : bytes) : outcome varid :=
  match length c with
  | 1%nat => Ok (VU8 (be_decode c))
  | 2%nat => Ok (VU16 (be_decode c))
  | 4%nat => Ok (VU32 (be_decode c))
  | 8%nat => Ok (VU64 (be_decode c))
  | _ => Err
  end.

(* VariableID::encode: [len - 1] ++ big-endian bytes *)
Definition varid_encode (i : varid) : bytes := (varid_len i - 1) :: varid_be i.

(* VariableID::decode: the length byte is widened before the addition *)
Definition varid_decode : rd varid := fun b =>
  let* (l, r) := read_u8 b in
  let* (c, r) := read_exact (l + 1) r in
  let* i := varid_of_bytes c in Ok (i, r).

(* `let mut buff = vec![0; n]; read_exact; VariableID::try_from(buff)` *)
Definition read_varid (n : N) : rd varid := fun b =>
  let* (c, r) := read_exact n b in
  let* i := varid_of_bytes c in Ok (i, r).

Definition fss_len (f : FileSizeFlag) : N :=
  match f with FileSizeFlag_Small => 4 | FileSizeFlag_Large => 8 end.
Definition fss_bytes (f : FileSizeFlag) : nat :=
  match f with FileSizeFlag_Small => 4%nat | FileSizeFlag_Large => 8%nat end.

(* `(x as u32).to_be_bytes()` / `x.to_be_bytes()` selected by the file size flag *)
Definition fss_encode (f : FileSizeFlag) (v : N) : bytes := be_encode (fss_bytes f) v.
Definition read_fss (f : FileSizeFlag) : rd N := read_be (fss_bytes f).

(* ------------------------------------------------------------------ header (header.rs) *)

Definition header_encoded_len (h : pdu_header) : N :=
  1 + 2 + 1 + varid_len (h_src h) + varid_len (h_seq h) + varid_len (h_dst h).

Definition header_first_byte (h : pdu_header) : N :=
  N.lor (N.lor (N.lor (N.lor (N.lor
    (N.shiftl (U3_to_u8 (h_version h)) 5)
    (N.shiftl (PDUType_to_u8 (h_pdu_type h)) 4))
    (N.shiftl (Direction_to_u8 (h_direction h)) 3))
    (N.shiftl (TransmissionMode_to_u8 (h_mode h)) 2))
    (N.shiftl (CRCFlag_to_u8 (h_crc h)) 1))
    (FileSizeFlag_to_u8 (h_large h)).

Definition header_fourth_byte (h : pdu_header) : N :=
  N.lor (N.lor (N.lor
    (N.shiftl (SegmentationControl_to_u8 (h_segctl h)) 7)
    (N.shiftl (varid_len (h_src h) - 1) 4))
    (N.shiftl (SegmentedData_to_u8 (h_segmeta h)) 3))
    (varid_len (h_seq h) - 1).

(* the length field on the wire: with a CRC two more (u16 addition; the dev profile panics
   above 65533, which is outside the wire format and outside wf) *)
Definition header_wire_len (h : pdu_header) : N :=
  match h_crc h with
  | CRCFlag_NotPresent => h_len h
  | CRCFlag_Present => h_len h + 2
  end.

Definition header_encode (h : pdu_header) : bytes :=
  header_first_byte h :: be_encode 2 (header_wire_len h)
    ++ header_fourth_byte h :: varid_be (h_src h) ++ varid_be (h_seq h) ++ varid_be (h_dst h).

Definition header_decode : rd pdu_header := fun b =>
  let* (b0, r) := read_u8 b in
  let* version := of_option (U3_from_u8 (bits b0 224 5)) in
  let* pdu_type := of_option (PDUType_from_u8 (bits b0 16 4)) in
  let* direction := of_option (Direction_from_u8 (bits b0 8 3)) in
  let* mode := of_option (TransmissionMode_from_u8 (bits b0 4 2)) in
  let* crc := of_option (CRCFlag_from_u8 (bits b0 2 1)) in
  let* large := of_option (FileSizeFlag_from_u8 (bits b0 1 0)) in
  let* (wire_len, r) := read_be 2 r in
  let* len :=
    match crc with
    | CRCFlag_NotPresent => Ok wire_len
    | CRCFlag_Present => if wire_len <? 2 then Err else Ok (wire_len - 2)   (* checked_sub *)
    end in
  let* (b3, r) := read_u8 r in
  let* segctl := of_option (SegmentationControl_from_u8 (bits b3 128 7)) in
  let* segmeta := of_option (SegmentedData_from_u8 (bits b3 8 3)) in
  let entity_id_length := bits b3 112 4 + 1 in
  let transaction_sequence_length := bits b3 7 0 + 1 in
  let* (src, r) := read_varid entity_id_length r in
  let* (seq, r) := read_varid transaction_sequence_length r in
  let* (dst, r) := read_varid entity_id_length r in
  Ok (mk_header version pdu_type direction mode crc large len segctl segmeta src seq dst, r).

(* ------------------------------------------------------------------ filestore.rs *)

Definition fs_request_encoded_len (q : fs_request) : N :=
  1 + 1 + blen (fq_first q) + 1 + blen (fq_second q).

Definition fs_request_encode (q : fs_request) : bytes :=
  N.shiftl (FileStoreAction_to_u8 (fq_action q)) 4
    :: lv_encode (fq_first q) ++ lv_encode (fq_second q).

Definition fs_request_decode : rd fs_request := fun b =>
  let* (b0, r) := read_u8 b in
  let* action := of_option (FileStoreAction_from_u8 (bits b0 240 4)) in
  let* (first, r) := read_name r in
  let* (second, r) := read_name r in
  Ok (mk_fs_request action first second, r).

(* FileStoreStatus::as_u8 *)
Definition fs_status_u8 (s : fs_status) : N :=
  match s with
  | St_CreateFile v => N.lor (N.shiftl (FileStoreAction_to_u8 FileStoreAction_CreateFile) 4) (CreateFileStatus_to_u8 v)
  | St_DeleteFile v => N.lor (N.shiftl (FileStoreAction_to_u8 FileStoreAction_DeleteFile) 4) (DeleteFileStatus_to_u8 v)
  | St_RenameFile v => N.lor (N.shiftl (FileStoreAction_to_u8 FileStoreAction_RenameFile) 4) (RenameStatus_to_u8 v)
  | St_AppendFile v => N.lor (N.shiftl (FileStoreAction_to_u8 FileStoreAction_AppendFile) 4) (AppendStatus_to_u8 v)
  | St_ReplaceFile v => N.lor (N.shiftl (FileStoreAction_to_u8 FileStoreAction_ReplaceFile) 4) (ReplaceStatus_to_u8 v)
  | St_CreateDirectory v => N.lor (N.shiftl (FileStoreAction_to_u8 FileStoreAction_CreateDirectory) 4) (CreateDirectoryStatus_to_u8 v)
  | St_RemoveDirectory v => N.lor (N.shiftl (FileStoreAction_to_u8 FileStoreAction_RemoveDirectory) 4) (RemoveDirectoryStatus_to_u8 v)
  | St_DenyFile v => N.lor (N.shiftl (FileStoreAction_to_u8 FileStoreAction_DenyFile) 4) (DenyStatus_to_u8 v)
  | St_DenyDirectory v => N.lor (N.shiftl (FileStoreAction_to_u8 FileStoreAction_DenyDirectory) 4) (DenyStatus_to_u8 v)
  end.

Definition omap {A B : Type} (f : A -> B) (o : option A) : option B :=
  match o with Some a => Some (f a) | None => None end.

(* FileStoreStatus::get_status *)
Definition fs_get_status (a : FileStoreAction) (status : N) : option fs_status :=
  match a with
  | FileStoreAction_CreateFile => omap St_CreateFile (CreateFileStatus_from_u8 status)
  | FileStoreAction_DeleteFile => omap St_DeleteFile (DeleteFileStatus_from_u8 status)
  | FileStoreAction_RenameFile => omap St_RenameFile (RenameStatus_from_u8 status)
  | FileStoreAction_AppendFile => omap St_AppendFile (AppendStatus_from_u8 status)
  | FileStoreAction_ReplaceFile => omap St_ReplaceFile (ReplaceStatus_from_u8 status)
  | FileStoreAction_CreateDirectory => omap St_CreateDirectory (CreateDirectoryStatus_from_u8 status)
  | FileStoreAction_RemoveDirectory => omap St_RemoveDirectory (RemoveDirectoryStatus_from_u8 status)
  | FileStoreAction_DenyFile => omap St_DenyFile (DenyStatus_from_u8 status)
  | FileStoreAction_DenyDirectory => omap St_DenyDirectory (DenyStatus_from_u8 status)
  end.

Definition fs_response_encoded_len (p : fs_response) : N :=
  1 + 1 + blen (fr_first p) + 1 + blen (fr_second p) + 1 + blen (fr_message p).

Definition fs_response_encode (p : fs_response) : bytes :=
  fs_status_u8 (fr_status p)
    :: lv_encode (fr_first p) ++ lv_encode (fr_second p) ++ lv_encode (fr_message p).

Definition fs_response_decode : rd fs_response := fun b =>
  let* (b0, r) := read_u8 b in
  let* action := of_option (FileStoreAction_from_u8 (bits b0 240 4)) in
  let* status := of_option (fs_get_status action (bits b0 15 0)) in
  let* (first, r) := read_name r in
  let* (second, r) := read_name r in
  let* (message, r) := read_lv r in
  Ok (mk_fs_response status first second message, r).

(* ------------------------------------------------------------------ metadata TLVs (ops.rs) *)

Definition tlv_code (t : metadata_tlv) : MetadataTLVFieldCode :=
  match t with
  | Tlv_FileStoreRequest _ => MetadataTLVFieldCode_FileStoreRequest
  | Tlv_FileStoreResponse _ => MetadataTLVFieldCode_FileStoreResponse
  | Tlv_MessageToUser _ => MetadataTLVFieldCode_MessageToUser
  | Tlv_FaultHandlerOverride _ => MetadataTLVFieldCode_FaultHandlerOverride
  | Tlv_FlowLabel _ => MetadataTLVFieldCode_FlowLabel
  | Tlv_EntityID _ => MetadataTLVFieldCode_EntityID
  end.

Definition tlv_encoded_len (t : metadata_tlv) : N :=
  1 + match t with
      | Tlv_FileStoreRequest q => fs_request_encoded_len q
      | Tlv_FileStoreResponse p => fs_response_encoded_len p
      | Tlv_MessageToUser m => 1 + blen m
      | Tlv_FaultHandlerOverride _ => 1
      | Tlv_FlowLabel v => 1 + blen v
      | Tlv_EntityID i => 1 + varid_len i     (* the length byte written by VariableID::encode *)
      end.

Definition tlv_encode (t : metadata_tlv) : bytes :=
  MetadataTLVFieldCode_to_u8 (tlv_code t)
    :: match t with
       | Tlv_FileStoreRequest q => fs_request_encode q
       | Tlv_FileStoreResponse p => fs_response_encode p
       | Tlv_MessageToUser m => lv_encode m
       | Tlv_FaultHandlerOverride c => [HandlerCode_to_u8 c]
       | Tlv_FlowLabel v => lv_encode v
       | Tlv_EntityID i => varid_encode i
       end.

Definition handler_decode : rd HandlerCode := fun b =>
  let* (c, r) := read_u8 b in
  let* h := of_option (HandlerCode_from_u8 c) in Ok (h, r).

Definition tlv_decode : rd metadata_tlv := fun b =>
  let* (c, r) := read_u8 b in
  let* code := of_option (MetadataTLVFieldCode_from_u8 c) in
  match code with
  | MetadataTLVFieldCode_FileStoreRequest =>
      let* (q, r) := fs_request_decode r in Ok (Tlv_FileStoreRequest q, r)
  | MetadataTLVFieldCode_FileStoreResponse =>
      let* (p, r) := fs_response_decode r in Ok (Tlv_FileStoreResponse p, r)
  | MetadataTLVFieldCode_MessageToUser =>
      let* (m, r) := read_lv r in Ok (Tlv_MessageToUser m, r)
  | MetadataTLVFieldCode_FaultHandlerOverride =>
      let* (h, r) := handler_decode r in Ok (Tlv_FaultHandlerOverride h, r)
  | MetadataTLVFieldCode_FlowLabel =>
      let* (v, r) := read_lv r in Ok (Tlv_FlowLabel v, r)
  | MetadataTLVFieldCode_EntityID =>
      let* (i, r) := varid_decode r in Ok (Tlv_EntityID i, r)
  end.

(* the fault-location TLV of EOF and Finished: [EntityID code] ++ VariableID::encode *)
Definition fault_encoded_len (f : option varid) : N :=
  match f with Some i => 2 + varid_len i | None => 0 end.
Definition fault_encode (f : option varid) : bytes :=
  match f with
  | Some i => MetadataTLVFieldCode_to_u8 MetadataTLVFieldCode_EntityID :: varid_encode i
  | None => []
  end.

(* ------------------------------------------------------------------ EOF *)

Definition eof_encoded_len (f : FileSizeFlag) (e : eof_pdu) : N :=
  5 + fss_len f + fault_encoded_len (eof_fault_location e).

Definition eof_encode (f : FileSizeFlag) (e : eof_pdu) : bytes :=
  N.shiftl (Condition_to_u8 (eof_condition e)) 4
    :: be_encode 4 (eof_checksum e) ++ fss_encode f (eof_file_size e)
    ++ fault_encode (eof_fault_location e).

Definition eof_decode (f : FileSizeFlag) : rd eof_pdu := fun b =>
  let* (b0, r) := read_u8 b in
  let* condition := of_option (Condition_from_u8 (bits b0 240 4)) in
  let* (checksum, r) := read_be 4 r in
  let* (file_size, r) := read_fss f r in
  let* (fault, r) :=
    match condition with
    | Condition_NoError => Ok (None, r)
    | _ =>
        let* (t, r) := read_u8 r in
        let* code := of_option (MetadataTLVFieldCode_from_u8 t) in
        match code with
        | MetadataTLVFieldCode_EntityID =>
            let* (i, r) := varid_decode r in Ok (Some i, r)
        | _ => Err
        end
    end in
  Ok (mk_eof condition checksum file_size fault, r).

(* ------------------------------------------------------------------ Finished *)

Definition finished_encoded_len (p : finished_pdu) : N :=
  1 + fold_left (fun acc q => acc + 1 + 1 + fs_response_encoded_len q) (fin_filestore_response p) 0
    + fault_encoded_len (fin_fault_location p).

(* [FileStoreResponse code; msg.len() as u8] ++ msg *)
Definition fin_response_encode (q : fs_response) : bytes :=
  MetadataTLVFieldCode_to_u8 MetadataTLVFieldCode_FileStoreResponse
    :: lv_encode (fs_response_encode q).

Definition finished_first_byte (p : finished_pdu) : N :=
  N.lor (N.lor (N.shiftl (Condition_to_u8 (fin_condition p)) 4)
               (N.shiftl (DeliveryCode_to_u8 (fin_delivery_code p)) 2))
        (FileStatusCode_to_u8 (fin_file_status p)).

Definition finished_encode (p : finished_pdu) : bytes :=
  finished_first_byte p
    :: flat_map fin_response_encode (fin_filestore_response p)
    ++ fault_encode (fin_fault_location p).

(* the `while !remaining_buffer.is_empty()` loop of Finished::decode.  The Rust loop pushes
   responses in order and overwrites fault_location each time an entity-id TLV is met (the
   last one wins); the recursion returns what the rest of the buffer yields and puts the
   current element in front of it, which is the same result and the same first error. *)
(* the `match (&condition, field_code)` of the loop body *)
Inductive fin_tlv_kind : Set := Fin_response | Fin_fault | Fin_unexpected.
Definition fin_classify (condition : Condition) (code : MetadataTLVFieldCode) : fin_tlv_kind :=
  match condition, code with
  | Condition_NoError, MetadataTLVFieldCode_FileStoreResponse => Fin_response
  | Condition_NoError, _ => Fin_unexpected
  | _, MetadataTLVFieldCode_FileStoreResponse => Fin_response
  | _, MetadataTLVFieldCode_EntityID => Fin_fault
  | _, _ => Fin_unexpected
  end.

Fixpoint finished_loop (fuel : nat) (condition : Condition) (b : bytes)
  : outcome (list fs_response * option varid) :=
  match b with
  | [] => Ok ([], None)
  | _ :: _ =>
      match fuel with
      | O => Err
      | S fuel' =>
          let* (t, r) := read_u8 b in
          let* code := of_option (MetadataTLVFieldCode_from_u8 t) in
          match fin_classify condition code with
          | Fin_response =>
              let* (v, r) := read_lv r in
              let* (q, _) := fs_response_decode v in
              let* (qs, fl) := finished_loop fuel' condition r in
              Ok (q :: qs, fl)
          | Fin_fault =>
              let* (i, r) := varid_decode r in
              let* (qs, fl) := finished_loop fuel' condition r in
              Ok (qs, match fl with Some j => Some j | None => Some i end)
          | Fin_unexpected => Err
          end
      end
  end.

Definition finished_decode : rd finished_pdu := fun b =>
  let* (b0, r) := read_u8 b in
  let* condition := of_option (Condition_from_u8 (bits b0 240 4)) in
  let* delivery := of_option (DeliveryCode_from_u8 (bits b0 4 2)) in
  let* status := of_option (FileStatusCode_from_u8 (bits b0 3 0)) in
  let* (rest, r) := read_to_end r in
  let* (qs, fl) := finished_loop (length rest) condition rest in
  Ok (mk_finished condition delivery status qs fl, r).

(* ------------------------------------------------------------------ ACK *)

Definition ack_encode (a : ack_pdu) : bytes :=
  [ N.lor (N.shiftl (PDUDirective_to_u8 (ack_directive a)) 4) (ACKSubDirective_to_u8 (ack_subtype a));
    N.lor (N.shiftl (Condition_to_u8 (ack_condition a)) 4) (TransactionStatus_to_u8 (ack_status a)) ].

Definition ack_decode : rd ack_pdu := fun b =>
  let* (b0, r) := read_u8 b in
  let* major := of_option (PDUDirective_from_u8 (bits b0 240 4)) in
  let* minor := of_option (ACKSubDirective_from_u8 (bits b0 15 0)) in
  let* (directive, subtype) :=
    match major, minor with
    | PDUDirective_EoF, ACKSubDirective_Other => Ok (PDUDirective_EoF, ACKSubDirective_Other)
    | PDUDirective_Finished, ACKSubDirective_Finished => Ok (PDUDirective_Finished, ACKSubDirective_Finished)
    | _, _ => Err
    end in
  let* (b1, r) := read_u8 r in
  let* condition := of_option (Condition_from_u8 (bits b1 240 4)) in
  let* status := of_option (TransactionStatus_from_u8 (bits b1 3 0)) in
  Ok (mk_ack directive subtype condition status, r).

(* ------------------------------------------------------------------ Metadata *)

Definition metadata_encoded_len (f : FileSizeFlag) (m : metadata_pdu) : N :=
  1 + fss_len f + 1 + blen (md_source_filename m) + 1 + blen (md_destination_filename m)
    + fold_left (fun acc t => acc + tlv_encoded_len t) (md_options m) 0.

Definition bool_u8 (x : bool) : N := if x then 1 else 0.

Definition metadata_encode (f : FileSizeFlag) (m : metadata_pdu) : bytes :=
  N.lor (N.shiftl (bool_u8 (md_closure_requested m)) 6) (ChecksumType_to_u8 (md_checksum_type m))
    :: fss_encode f (md_file_size m)
    ++ lv_encode (md_source_filename m) ++ lv_encode (md_destination_filename m)
    ++ flat_map tlv_encode (md_options m).

Definition metadata_decode (f : FileSizeFlag) : rd metadata_pdu := fun b =>
  let* (b0, r) := read_u8 b in
  let closure := negb (bits b0 64 6 =? 0) in
  let* checksum_type := of_option (ChecksumType_from_u8 (bits b0 15 0)) in
  let* (file_size, r) := read_fss f r in
  let* (source, r) := read_name r in
  let* (destination, r) := read_name r in
  let* (rest, r) := read_to_end r in
  let* options := repeat_until_empty tlv_decode rest in
  Ok (mk_metadata closure checksum_type file_size source destination options, r).

(* ------------------------------------------------------------------ NAK, Prompt, KeepAlive *)

Definition segment_encode (f : FileSizeFlag) (s : N * N) : bytes :=
  fss_encode f (fst s) ++ fss_encode f (snd s).
Definition segment_decode (f : FileSizeFlag) : rd (N * N) := fun b =>
  let* (s, r) := read_fss f b in
  let* (e, r) := read_fss f r in Ok ((s, e), r).

Definition nak_encoded_len (f : FileSizeFlag) (n : nak_pdu) : N :=
  fold_left (fun acc _ => acc + 2 * fss_len f) (nak_segment_requests n) 0 + 2 * fss_len f.

Definition nak_encode (f : FileSizeFlag) (n : nak_pdu) : bytes :=
  fss_encode f (nak_start_of_scope n) ++ fss_encode f (nak_end_of_scope n)
    ++ flat_map (segment_encode f) (nak_segment_requests n).

Definition nak_decode (f : FileSizeFlag) : rd nak_pdu := fun b =>
  let* (s, r) := read_fss f b in
  let* (e, r) := read_fss f r in
  let* (rest, r) := read_to_end r in
  let* segs := repeat_until_empty (segment_decode f) rest in
  Ok (mk_nak s e segs, r).

Definition prompt_encode (p : NakOrKeepAlive) : bytes := [N.shiftl (NakOrKeepAlive_to_u8 p) 7].
Definition prompt_decode : rd NakOrKeepAlive := fun b =>
  let* (b0, r) := read_u8 b in
  let* p := of_option (NakOrKeepAlive_from_u8 (bits b0 128 7)) in Ok (p, r).

Definition keepalive_encode (f : FileSizeFlag) (progress : N) : bytes := fss_encode f progress.
Definition keepalive_decode (f : FileSizeFlag) : rd N := read_fss f.

(* ------------------------------------------------------------------ Operations *)

Definition op_directive (o : operations) : PDUDirective :=
  match o with
  | Op_EoF _ => PDUDirective_EoF
  | Op_Finished _ => PDUDirective_Finished
  | Op_Ack _ => PDUDirective_Ack
  | Op_Metadata _ => PDUDirective_Metadata
  | Op_Nak _ => PDUDirective_Nak
  | Op_Prompt _ => PDUDirective_Prompt
  | Op_KeepAlive _ => PDUDirective_KeepAlive
  end.

Definition operations_encoded_len (f : FileSizeFlag) (o : operations) : N :=
  1 + match o with
      | Op_EoF e => eof_encoded_len f e
      | Op_Finished p => finished_encoded_len p
      | Op_Ack _ => 2
      | Op_Metadata m => metadata_encoded_len f m
      | Op_Nak n => nak_encoded_len f n
      | Op_Prompt _ => 1
      | Op_KeepAlive _ => fss_len f
      end.

Definition operations_encode (f : FileSizeFlag) (o : operations) : bytes :=
  PDUDirective_to_u8 (op_directive o)
    :: match o with
       | Op_EoF e => eof_encode f e
       | Op_Finished p => finished_encode p
       | Op_Ack a => ack_encode a
       | Op_Metadata m => metadata_encode f m
       | Op_Nak n => nak_encode f n
       | Op_Prompt p => prompt_encode p
       | Op_KeepAlive p => keepalive_encode f p
       end.

Definition operations_decode (f : FileSizeFlag) : rd operations := fun b =>
  let* (c, r) := read_u8 b in
  let* directive := of_option (PDUDirective_from_u8 c) in
  match directive with
  | PDUDirective_EoF => let* (e, r) := eof_decode f r in Ok (Op_EoF e, r)
  | PDUDirective_Finished => let* (p, r) := finished_decode r in Ok (Op_Finished p, r)
  | PDUDirective_Ack => let* (a, r) := ack_decode r in Ok (Op_Ack a, r)
  | PDUDirective_Metadata => let* (m, r) := metadata_decode f r in Ok (Op_Metadata m, r)
  | PDUDirective_Nak => let* (n, r) := nak_decode f r in Ok (Op_Nak n, r)
  | PDUDirective_Prompt => let* (p, r) := prompt_decode r in Ok (Op_Prompt p, r)
  | PDUDirective_KeepAlive => let* (p, r) := keepalive_decode f r in Ok (Op_KeepAlive p, r)
  end.

(* ------------------------------------------------------------------ file data *)

Definition file_data_encoded_len (f : FileSizeFlag) (d : file_data) : N :=
  match d with
  | Fd_Unsegmented _ data => blen data + fss_len f
  | Fd_Segmented _ meta _ data => 1 + blen meta + fss_len f + blen data
  end.

Definition file_data_encode (f : FileSizeFlag) (d : file_data) : bytes :=
  match d with
  | Fd_Unsegmented offset data => fss_encode f offset ++ data
  | Fd_Segmented state meta offset data =>
      N.lor (N.shiftl (RecordContinuationState_to_u8 state) 6) (as_u8 (blen meta))
        :: meta ++ fss_encode f offset ++ data
  end.

Definition unsegmented_decode (f : FileSizeFlag) : rd file_data := fun b =>
  let* (offset, r) := read_fss f b in
  let* (data, r) := read_to_end r in
  Ok (Fd_Unsegmented offset data, r).

(* RecordContinuationState::from_u8(..).unwrap() *)
Definition unwrap {A : Type} (o : option A) : outcome A :=
  match o with Some a => Ok a | None => Panic end.

Definition segmented_decode (f : FileSizeFlag) : rd file_data := fun b =>
  let* (b0, r) := read_u8 b in
  let* state := unwrap (RecordContinuationState_from_u8 (bits b0 192 6)) in
  let* (meta, r) := read_exact (bits b0 63 0) r in
  let* (offset, r) := read_fss f r in
  let* (data, r) := read_to_end r in
  Ok (Fd_Segmented state meta offset data, r).

Definition file_data_decode (seg : SegmentedData) (f : FileSizeFlag) : rd file_data :=
  match seg with
  | SegmentedData_Present => segmented_decode f
  | SegmentedData_NotPresent => unsegmented_decode f
  end.

(* ------------------------------------------------------------------ PDUPayload, PDU (pdu.rs) *)

Definition payload_encoded_len (f : FileSizeFlag) (p : pdu_payload) : N :=
  match p with
  | Pl_Directive o => operations_encoded_len f o
  | Pl_FileData d => file_data_encoded_len f d
  end.

Definition payload_encode (f : FileSizeFlag) (p : pdu_payload) : bytes :=
  match p with
  | Pl_Directive o => operations_encode f o
  | Pl_FileData d => file_data_encode f d
  end.

Definition payload_decode (t : PDUType) (f : FileSizeFlag) (seg : SegmentedData) : rd pdu_payload :=
  fun b =>
  match t with
  | PDUType_FileDirective => let* (o, r) := operations_decode f b in Ok (Pl_Directive o, r)
  | PDUType_FileData => let* (d, r) := file_data_decode seg f b in Ok (Pl_FileData d, r)
  end.

(* PDU::encoded_len: header + payload; with the CRC flag two more bytes are produced *)
Definition crc_len (c : CRCFlag) : N :=
  match c with CRCFlag_Present => 2 | CRCFlag_NotPresent => 0 end.

Definition pdu_encoded_len (p : pdu) : N :=
  header_encoded_len (pdu_hdr p) + payload_encoded_len (h_large (pdu_hdr p)) (pdu_pl p)
    + crc_len (h_crc (pdu_hdr p)).

Definition pdu_encode (p : pdu) : bytes :=
  let body := header_encode (pdu_hdr p) ++ payload_encode (h_large (pdu_hdr p)) (pdu_pl p) in
  match h_crc (pdu_hdr p) with
  | CRCFlag_Present => body ++ crc_bytes body
  | CRCFlag_NotPresent => body
  end.

(* PDU::decode.  [received] is RecordingReader::seen at the point of the check: every byte
   consumed so far, i.e. the header and the whole data field as they arrived. *)
Definition pdu_decode (b : bytes) : outcome pdu :=
  let* (h, r) := header_decode b in
  let* (data, r2) := read_exact (h_len h) r in
  let* (pl, _) := payload_decode (h_pdu_type h) (h_large h) (h_segmeta h) data in
  match h_crc h with
  | CRCFlag_NotPresent => Ok (mk_pdu h pl)
  | CRCFlag_Present =>
      let received := firstn (length b - length r2) b in
      let* (c, _) := read_exact 2 r2 in
      if crc16 received =? be_decode c then Ok (mk_pdu h pl) else Err
  end.

(* the decoded PDU with its length field recomputed from the payload *)
Definition set_len (h : pdu_header) (n : N) : pdu_header :=
  mk_header (h_version h) (h_pdu_type h) (h_direction h) (h_mode h) (h_crc h) (h_large h) n
            (h_segctl h) (h_segmeta h) (h_src h) (h_seq h) (h_dst h).
Definition fix_len (p : pdu) : pdu :=
  mk_pdu (set_len (pdu_hdr p) (payload_encoded_len (h_large (pdu_hdr p)) (pdu_pl p))) (pdu_pl p).

(* ------------------------------------------------------------------ well-formedness:
   the wire format's own limits, nothing else *)

Definition wf_varid (i : varid) : Prop :=
  match i with
  | VU8 v => v < 256
  | VU16 v => v < 65536
  | VU32 v => v < two32
  | VU64 v => v < two64
  end.

(* a length-value string: at most 255 bytes *)
Definition wf_lv (v : bytes) : Prop := is_bytes v /\ blen v <= 255.
(* a file name (Utf8PathBuf) in an LV field *)
Definition wf_name (v : bytes) : Prop := wf_lv v /\ utf8_valid v = true.

(* a file offset / size under the file size flag *)
Definition wf_fss (f : FileSizeFlag) (v : N) : Prop :=
  match f with FileSizeFlag_Small => v < two32 | FileSizeFlag_Large => v < two64 end.

Definition wf_header (h : pdu_header) : Prop :=
  wf_varid (h_src h) /\ wf_varid (h_seq h) /\ wf_varid (h_dst h) /\
  varid_len (h_src h) = varid_len (h_dst h) /\          (* one id-length field for both entities *)
  h_len h + crc_len (h_crc h) <= 65535.

Definition wf_fs_request (q : fs_request) : Prop :=
  wf_name (fq_first q) /\ wf_name (fq_second q).
Definition wf_fs_response (p : fs_response) : Prop :=
  wf_name (fr_first p) /\ wf_name (fr_second p) /\ wf_lv (fr_message p).

Definition wf_tlv (t : metadata_tlv) : Prop :=
  match t with
  | Tlv_FileStoreRequest q => wf_fs_request q
  | Tlv_FileStoreResponse p => wf_fs_response p
  | Tlv_MessageToUser m => wf_lv m
  | Tlv_FaultHandlerOverride _ => True
  | Tlv_FlowLabel v => wf_lv v
  | Tlv_EntityID i => wf_varid i
  end.

Definition wf_fault (f : option varid) : Prop :=
  match f with Some i => wf_varid i | None => True end.

(* EOF: the fault location is present iff the condition is an error *)
Definition wf_eof (f : FileSizeFlag) (e : eof_pdu) : Prop :=
  eof_checksum e < two32 /\ wf_fss f (eof_file_size e) /\ wf_fault (eof_fault_location e) /\
  (eof_condition e = Condition_NoError <-> eof_fault_location e = None).

(* Finished: each filestore response is the value of a TLV (<= 255 bytes); no fault location
   without an error (the decoder tolerates its absence with an error condition) *)
Definition wf_finished (p : finished_pdu) : Prop :=
  Forall (fun q => wf_fs_response q /\ fs_response_encoded_len q <= 255) (fin_filestore_response p) /\
  wf_fault (fin_fault_location p) /\
  (fin_condition p = Condition_NoError -> fin_fault_location p = None).

(* ACK: only EOF (subtype Other) and Finished (subtype Finished) are acknowledged *)
Definition wf_ack (a : ack_pdu) : Prop :=
  (ack_directive a = PDUDirective_EoF /\ ack_subtype a = ACKSubDirective_Other) \/
  (ack_directive a = PDUDirective_Finished /\ ack_subtype a = ACKSubDirective_Finished).

Definition wf_metadata (f : FileSizeFlag) (m : metadata_pdu) : Prop :=
  wf_fss f (md_file_size m) /\ wf_name (md_source_filename m) /\
  wf_name (md_destination_filename m) /\ Forall wf_tlv (md_options m).

Definition wf_nak (f : FileSizeFlag) (n : nak_pdu) : Prop :=
  wf_fss f (nak_start_of_scope n) /\ wf_fss f (nak_end_of_scope n) /\
  Forall (fun s => wf_fss f (fst s) /\ wf_fss f (snd s)) (nak_segment_requests n).

Definition wf_operations (f : FileSizeFlag) (o : operations) : Prop :=
  match o with
  | Op_EoF e => wf_eof f e
  | Op_Finished p => wf_finished p
  | Op_Ack a => wf_ack a
  | Op_Metadata m => wf_metadata f m
  | Op_Nak n => wf_nak f n
  | Op_Prompt _ => True
  | Op_KeepAlive p => wf_fss f p
  end.

Definition wf_file_data (f : FileSizeFlag) (d : file_data) : Prop :=
  match d with
  | Fd_Unsegmented offset data => wf_fss f offset /\ is_bytes data
  | Fd_Segmented _ meta offset data =>
      is_bytes meta /\ blen meta <= 63 /\ wf_fss f offset /\ is_bytes data
  end.

Definition wf_payload (f : FileSizeFlag) (p : pdu_payload) : Prop :=
  match p with
  | Pl_Directive o => wf_operations f o
  | Pl_FileData d => wf_file_data f d
  end.

(* the header announces what the payload is *)
Definition payload_matches (h : pdu_header) (p : pdu_payload) : Prop :=
  match p with
  | Pl_Directive _ => h_pdu_type h = PDUType_FileDirective
  | Pl_FileData (Fd_Unsegmented _ _) =>
      h_pdu_type h = PDUType_FileData /\ h_segmeta h = SegmentedData_NotPresent
  | Pl_FileData (Fd_Segmented _ _ _ _) =>
      h_pdu_type h = PDUType_FileData /\ h_segmeta h = SegmentedData_Present
  end.

Definition wf_pdu (p : pdu) : Prop :=
  wf_header (pdu_hdr p) /\
  wf_payload (h_large (pdu_hdr p)) (pdu_pl p) /\
  payload_matches (pdu_hdr p) (pdu_pl p) /\
  h_len (pdu_hdr p) = payload_encoded_len (h_large (pdu_hdr p)) (pdu_pl p).

(* ------------------------------------------------------------------ the code before the fixes *)
Module Pinned.
  (* ops.rs:139 before the fix: `let length: u8 = u8_buff[0] + 1;` *)
  Definition varid_decode : rd varid := fun b =>
    let* (l, r) := read_u8 b in
    let* len := (if l + 1 <? 256 then Ok (l + 1) else Panic) in
    let* (c, r) := read_exact len r in
    let* i := varid_of_bytes c in Ok (i, r).

  (* header.rs:395 before the fix: `u16::from_be_bytes(u16_buff) - 2` *)
  Definition data_field_length (crc : CRCFlag) (wire_len : N) : outcome N :=
    match crc with
    | CRCFlag_NotPresent => Ok wire_len
    | CRCFlag_Present => if wire_len <? 2 then Panic else Ok (wire_len - 2)
    end.

  (* ops.rs, MetadataTLV::encoded_len before the fix: the EntityID arm forgot the length byte *)
  Definition tlv_encoded_len (t : metadata_tlv) : N :=
    match t with
    | Tlv_EntityID i => 1 + varid_len i
    | _ => tlv_encoded_len t
    end.

  (* pdu.rs: PDU::encoded_len before the fix did not count the two CRC bytes *)
  Definition pdu_encoded_len (p : pdu) : N :=
    header_encoded_len (pdu_hdr p) + payload_encoded_len (h_large (pdu_hdr p)) (pdu_pl p).
End Pinned.
