(* Model of the CRC-16 (CCITT-FALSE / IBM-3740) routine of cfdp-core/src/pdu.rs
   (fn crc16, fn crc16_ibm_3740) over N, mirroring the Rust bit operations.
   Definitions only. *)
From CFDP Require Import Base.Prelude.

Definition crc_poly : N := 4129.      (* 0x1021 *)
Definition mask16 : N := 65535.       (* 0xffff *)

(* one iteration of the inner loop: if crc & 0x8000 then (crc << 1) ^ poly else crc << 1, in u16 *)
Definition crc_shift (crc : N) : N :=
  if N.testbit crc 15
  then N.lxor (N.land (N.shiftl crc 1) mask16) crc_poly
  else N.land (N.shiftl crc 1) mask16.

(* fn crc16(in_char, crc) *)
Definition crc_byte (crc byte : N) : N :=
  let c0 := N.lxor crc (N.shiftl (N.land byte 255) 8) in
  crc_shift (crc_shift (crc_shift (crc_shift (crc_shift (crc_shift (crc_shift (crc_shift c0))))))).

(* fn crc16_ibm_3740(message) *)
Definition crc16 (msg : list N) : N := fold_left crc_byte msg mask16.

(* big-endian two bytes appended by PDU::encode *)
Definition crc_bytes (msg : list N) : list N :=
  let c := crc16 msg in [N.shiftr c 8; N.land c 255].

(* the receiver's check (after the fix dded641): CRC over the received bytes *)
Definition crc_frame_ok (frame : list N) : bool :=
  let n := length frame in
  match skipn (n - 2) frame with
  | [hi; lo] => (crc16 (firstn (n - 2) frame) =? hi * 256 + lo) && (2 <=? N.of_nat n)
  | _ => false
  end.

Example crc_check_value : crc16 [49; 50; 51; 52; 53; 54; 55; 56; 57] = 10673. (* "123456789" -> 0x29B1 *)
Proof. vm_compute. reflexivity. Qed.
