(* A concrete instantiation of the parameters of the transaction models, used by the
   correspondence driver and by the non-vacuity examples:
   - flat filestore (name -> content); a name containing '/' lies in a directory that does
     not exist, so writing it fails (FileStoreRejection path);
   - filestore requests are echoed: the state machines only decide WHEN and in WHICH ORDER requests
     are executed and how the responses are reported; what a request does to the filestore is
     component `fsmodel` (property C13);
   - the file checksum is Checksum.spec (component `checksum`, property C14). *)
From CFDP Require Import Base.Prelude Model.Checksum Model.Timer Model.TxTypes Model.Recv Model.Send.

Definition flat_fs := list (bytes * bytes).

Fixpoint name_eqb (a b : bytes) : bool :=
  match a, b with
  | [], [] => true
  | x :: a', y :: b' => (x =? y) && name_eqb a' b'
  | _, _ => false
  end.

Fixpoint flat_lookup (fs : flat_fs) (name : bytes) : option bytes :=
  match fs with
  | [] => None
  | (k, v) :: t => if name_eqb k name then Some v else flat_lookup t name
  end.

Definition flat_write (fs : flat_fs) (name content : bytes) : option flat_fs :=
  if existsb (fun c => c =? 47) name then None
  else Some ((name, content) :: filter (fun kv => negb (name_eqb (fst kv) name)) fs).

Definition inst_exec (fs : flat_fs) (r : fsreq) : flat_fs * fsresp := (fs, r).
Definition inst_resp_fail (_ : fsresp) : bool := false.
Definition inst_not_performed (r : fsreq) : fsresp := r.
Definition inst_tlv_len (r : bytes) : N := 2 + N.of_nat (length r).
Definition inst_cksum (t : cktype) (b : bytes) : N :=
  match t with CkNull => 0 | CkModular => Checksum.spec b end.

(* a filestore response TLV is one octet longer than the request it answers (the empty message LV);
   the harness prints a response as the request it answers - action, names - and checks its status
   in the C13 oracle *)
Definition inst_resp_len (r : bytes) : N := inst_tlv_len r + 1.

Definition inst_rstep :=
  rstep flat_fs flat_write inst_exec inst_resp_fail inst_not_performed inst_cksum inst_resp_len inst_tlv_len.
Definition inst_sstep := sstep inst_cksum inst_tlv_len inst_tlv_len.
