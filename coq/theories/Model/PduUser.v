(* Datatypes of the reserved CFDP user operations (cfdp-core/src/pdu/user_ops.rs) carried in a
   MessageToUser, and of the daemon's status Report (cfdp-core/src/daemon.rs).  Types only. *)
From CFDP Require Import Base.Prelude.
From CFDP Require Export Model.Pdu.

(* enum ProxyOperation *)
Inductive proxy_operation : Set :=
  | Px_PutRequest (destination : varid) (source_filename destination_filename : bytes)
  | Px_MessageToUser (text : bytes)
  | Px_FileStoreRequest (q : fs_request)
  | Px_FaultHandlerOverride (code : HandlerCode)
  | Px_TransmissionMode (mode : TransmissionMode)
  | Px_FlowLabel (value : bytes)
  | Px_SegmentationControl (control : SegmentationControl)
  | Px_PutCancel.

(* enum UserResponse *)
Inductive user_response : Set :=
  | Rs_ProxyPut (condition : Condition) (delivery : DeliveryCode) (file_status : FileStatusCode)
  | Rs_ProxyFileStore (p : fs_response)
  | Rs_DirectoryListing (code : ListingResponseCode) (directory_name directory_filename : bytes)
  | Rs_RemoteStatusReport (status : TransactionStatus) (response_code : bool) (src seq : varid)
  | Rs_RemoteResume (suspend_indication : bool) (status : TransactionStatus) (src seq : varid)
  | Rs_RemoteSuspend (suspend_indication : bool) (status : TransactionStatus) (src seq : varid).

(* enum UserRequest *)
Inductive user_request : Set :=
  | Rq_DirectoryListing (directory_name directory_filename : bytes)
  | Rq_RemoteStatusReport (src seq : varid) (report_filename : bytes)
  | Rq_RemoteSuspend (src seq : varid)
  | Rq_RemoteResume (src seq : varid).

Record sfo_request : Set := mk_sfo_request {
  sq_trace_control : TraceControl;
  sq_transmission_mode : TransmissionMode;
  sq_segment_control : SegmentationControl;
  sq_closure_request : bool;
  sq_prior_waypoints_count : N;          (* u8 *)
  sq_request_label : bytes;
  sq_source_entity_id : varid;
  sq_destination_entity_id : varid;
  sq_source_filename : bytes;
  sq_destination_filename : bytes
}.

Record sfo_report : Set := mk_sfo_report {
  sr_request_label : bytes;
  sr_source_entity_id : varid;
  sr_destination_entity_id : varid;
  sr_reporting_entity_id : varid;
  sr_prior_waypoints : N;                (* u8 *)
  sr_report_code : N;                    (* u8 *)
  sr_condition : Condition;
  sr_direction : Direction;
  sr_delivery_code : DeliveryCode;
  sr_file_status : FileStatusCode
}.

(* enum UserOperation *)
Inductive user_operation : Set :=
  | Uo_OriginatingTransactionID (src seq : varid)
  | Uo_Proxy (p : proxy_operation)
  | Uo_Response (r : user_response)
  | Uo_Request (r : user_request)
  | Uo_SFORequest (r : sfo_request)
  | Uo_SFOMessageToUser (text : bytes)
  | Uo_SFOFlowLabel (value : bytes)
  | Uo_SFOFaultHandlerOverride (code : HandlerCode)
  | Uo_SFOFileStoreRequest (q : fs_request)
  | Uo_SFOFileStoreResponse (p : fs_response)
  | Uo_SFOReport (r : sfo_report).

(* daemon.rs: struct Report { id: TransactionID(EntityID, TransactionSeqNum), state, status, condition } *)
Record report : Set := mk_report {
  rp_entity : varid;
  rp_sequence : varid;
  rp_state : TransactionState;
  rp_status : TransactionStatus;
  rp_condition : Condition
}.
