(* Common imports and arithmetic settings for the whole development. *)
From Coq Require Export List NArith ZArith Lia Bool.
Export ListNotations.
Open Scope N_scope.

Global Arguments N.add : simpl never.
Global Arguments N.sub : simpl never.
Global Arguments N.mul : simpl never.
Global Arguments N.div : simpl never.
Global Arguments N.modulo : simpl never.
Global Arguments N.ltb : simpl never.
Global Arguments N.leb : simpl never.
Global Arguments N.eqb : simpl never.
Global Arguments N.min : simpl never.
Global Arguments N.max : simpl never.
Global Arguments N.pow : simpl never.

Ltac splits := repeat match goal with |- _ /\ _ => split end.

(* 2^64, written without a large nat numeral *)
Definition two64 : N := 18446744073709551616.
Definition two32 : N := 4294967296.
Definition two16 : N := 65536.
