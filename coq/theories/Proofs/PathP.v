(* Proofs about Model/Path.v: the native path computed for ANY name lies inside
   the filestore root (for an absolute, normal root); idempotence. *)
From CFDP Require Import Base.Prelude Model.Path.

(* ---------------------------------------------------------------- basics *)
Lemma slash_eqb_refl : (slash =? slash) = true.
Proof. apply N.eqb_refl. Qed.

Definition noslash (a : list N) : Prop := Forall (fun c => c <> slash) a.

(* a name as std::path yields it in a Normal component *)
Definition valid (n : list N) : Prop := noslash n /\ parse_seg n = [Normal n].

Lemma valid_nonempty n : valid n -> n <> [].
Proof. intros [_ H] E. subst n. cbn in H. discriminate. Qed.

Lemma split_slash_nonnil s : split_slash s <> [].
Proof.
  destruct s as [|c t]; cbn [split_slash]; [discriminate|].
  destruct (c =? slash); [discriminate|].
  destruct (split_slash t); discriminate.
Qed.

Lemma split_slash_noslash a : noslash a -> split_slash a = [a].
Proof.
  induction a as [|c t IH]; intros H; [reflexivity|].
  inversion H as [|c' t' Hc Ht]; subst.
  cbn [split_slash]. destruct (N.eqb_spec c slash) as [E|E]; [contradiction|].
  rewrite (IH Ht). reflexivity.
Qed.

Lemma split_slash_app a b : split_slash (a ++ slash :: b) = split_slash a ++ split_slash b.
Proof.
  induction a as [|c t IH].
  - cbn [app split_slash]. rewrite slash_eqb_refl. reflexivity.
  - cbn [app split_slash]. destruct (c =? slash).
    + rewrite IH. reflexivity.
    + rewrite IH. destruct (split_slash t) as [|seg rest] eqn:E.
      * exfalso. apply (split_slash_nonnil t). exact E.
      * reflexivity.
Qed.

Lemma split_slash_segs s : Forall noslash (split_slash s).
Proof.
  induction s as [|c t IH]; cbn [split_slash].
  - constructor; constructor.
  - destruct (N.eqb_spec c slash) as [E|E].
    + constructor; [constructor | exact IH].
    + destruct (split_slash t) as [|seg rest].
      * constructor; [|constructor]. constructor; [exact E | constructor].
      * inversion IH as [|x l Hseg Hrest]; subst. constructor; [|exact Hrest].
        constructor; [exact E | exact Hseg].
Qed.

Lemma body_app l1 l2 : body (l1 ++ l2) = body l1 ++ body l2.
Proof. unfold body. apply flat_map_app. Qed.

Lemma parse_seg_cases seg :
  parse_seg seg = [] \/ parse_seg seg = [Parent] \/ parse_seg seg = [Normal seg].
Proof.
  destruct seg as [|a [|b [|c t]]]; cbn [parse_seg].
  - left; reflexivity.
  - destruct (a =? dot); [left | right; right]; reflexivity.
  - destruct ((a =? dot) && (b =? dot)); [right; left | right; right]; reflexivity.
  - right; right; reflexivity.
Qed.

(* what a body can contain *)
Lemma body_in segs c : In c (body segs) ->
  c = Parent \/ exists n, c = Normal n /\ In n segs /\ parse_seg n = [Normal n].
Proof.
  unfold body. rewrite in_flat_map. intros (seg & Hin & Hc).
  destruct (parse_seg_cases seg) as [E|[E|E]]; rewrite E in Hc.
  - destruct Hc.
  - destruct Hc as [Hc|[]]. left. symmetry. exact Hc.
  - destruct Hc as [Hc|[]]. right. exists seg. subst c. auto.
Qed.

Lemma body_no_root segs : ~ In Root (body segs).
Proof.
  intros H. destruct (body_in _ _ H) as [E|(n & E & _)]; discriminate.
Qed.

Lemma start_cases s : start s = [] \/ start s = [Root] \/ start s = [Cur].
Proof.
  destruct s as [|a t]; cbn [start]; [left; reflexivity|].
  destruct (a =? slash); [right; left; reflexivity|].
  destruct (a =? dot); [|left; reflexivity].
  destruct t as [|b u]; [right; right; reflexivity|].
  destruct (b =? slash); [right; right | left]; reflexivity.
Qed.

Lemma components_normal_valid s n : In (Normal n) (components s) -> valid n.
Proof.
  unfold components. rewrite in_app_iff. intros [H|H].
  - destruct (start_cases s) as [E|[E|E]]; rewrite E in H; cbn in H;
      try contradiction; destruct H as [H|[]]; discriminate.
  - destruct (body_in _ _ H) as [E|(m & E & Hin & Hp)]; [discriminate|].
    inversion E; subst m. split; [|exact Hp].
    pose proof (split_slash_segs s) as Hall. rewrite Forall_forall in Hall. apply Hall. exact Hin.
Qed.

(* ---------------------------------------------------------------- render *)
Lemma render_cons2 a b t : render (a :: b :: t) = a ++ slash :: render (b :: t).
Proof. reflexivity. Qed.

Lemma body_render names : Forall valid names ->
  body (split_slash (render names)) = map Normal names.
Proof.
  induction names as [|a t IH]; intros H.
  - reflexivity.
  - inversion H as [|a' t' [Hns Hp] Ht]; subst.
    destruct t as [|b u].
    + cbn [render map]. rewrite (split_slash_noslash a Hns).
      unfold body. cbn [flat_map]. rewrite Hp. reflexivity.
    + rewrite render_cons2. rewrite split_slash_app. rewrite body_app.
      rewrite (IH Ht). rewrite (split_slash_noslash a Hns).
      unfold body at 1. cbn [flat_map]. rewrite Hp. reflexivity.
Qed.

Lemma has_root_render names : Forall valid names -> has_root (render names) = false.
Proof.
  intros H. destruct names as [|a t]; [reflexivity|].
  inversion H as [|a' t' Ha Ht]; subst.
  destruct Ha as [Hns Hp].
  destruct a as [|c a0]; [cbn in Hp; discriminate|].
  inversion Hns as [|c' a' Hc Ha0]; subst.
  assert (E : (c =? slash) = false) by (apply N.eqb_neq; exact Hc).
  destruct t as [|b u]; cbn [render has_root app]; exact E.
Qed.

(* ---------------------------------------------------------------- join *)
Lemma start_abs s x : has_root s = true -> start (s ++ x) = [Root].
Proof.
  destruct s as [|a t]; cbn [has_root]; [discriminate|].
  intros E. cbn [app start]. rewrite E. reflexivity.
Qed.

Lemma components_join root names : has_root root = true -> Forall valid names ->
  components (join root (render names)) = components root ++ map Normal names.
Proof.
  intros Habs Hv. unfold join. rewrite (has_root_render names Hv).
  pose proof (start_abs root [] Habs) as Hs0. rewrite app_nil_r in Hs0.
  unfold need_sep. destruct (N.eqb_spec (last root slash) slash) as [El|El]; cbn [negb].
  - (* the root ends with a separator *)
    assert (Hne : root <> []) by (intros E; subst root; cbn in Habs; discriminate).
    destruct (exists_last Hne) as (r0 & z & Er). subst root.
    rewrite last_last in El. subst z.
    unfold components.
    rewrite (start_abs _ (render names) Habs), Hs0.
    replace ((r0 ++ [slash]) ++ render names) with (r0 ++ slash :: render names)
      by (rewrite <- app_assoc; reflexivity).
    rewrite !split_slash_app, !body_app, (body_render names Hv).
    change (body (split_slash [])) with (@nil comp).
    rewrite app_nil_r, <- !app_assoc. reflexivity.
  - unfold components.
    rewrite (start_abs _ (slash :: render names) Habs), Hs0.
    rewrite split_slash_app, body_app, (body_render names Hv).
    rewrite app_assoc. reflexivity.
Qed.

(* ---------------------------------------------------------------- strip_prefix *)
Lemma bytes_eqb_refl a : bytes_eqb a a = true.
Proof. induction a as [|x t IH]; [reflexivity|]. cbn [bytes_eqb]. rewrite N.eqb_refl, IH. reflexivity. Qed.

Lemma comp_eqb_refl c : comp_eqb c c = true.
Proof. destruct c; cbn [comp_eqb]; try reflexivity. apply bytes_eqb_refl. Qed.

Lemma strip_prefix_app base x : strip_prefix (base ++ x) base = Some x.
Proof.
  induction base as [|c t IH]; [reflexivity|].
  cbn [app strip_prefix]. rewrite comp_eqb_refl. exact IH.
Qed.

Lemma strip_prefix_incl base : forall p rest, strip_prefix p base = Some rest -> incl rest p.
Proof.
  induction base as [|bc base' IH]; intros p rest H.
  - cbn in H. inversion H; subst. apply incl_refl.
  - destruct p as [|pc p']; cbn [strip_prefix] in H; [discriminate|].
    destruct (comp_eqb pc bc); [|discriminate].
    apply incl_tl. apply (IH p' rest H).
Qed.

Lemma strip_prefix_tail bc base p rest :
  strip_prefix p (bc :: base) = Some rest -> incl rest (tl p).
Proof.
  destruct p as [|pc p']; cbn [strip_prefix]; [discriminate|].
  destruct (comp_eqb pc bc); [|discriminate].
  intros H. cbn [tl]. apply (strip_prefix_incl base p' rest H).
Qed.

(* ---------------------------------------------------------------- normalize *)
Lemma drop_roots_incl cs : incl (drop_roots cs) cs.
Proof.
  induction cs as [|c t IH]; [apply incl_refl|].
  destruct c; cbn [drop_roots]; try apply incl_refl.
  apply incl_tl. exact IH.
Qed.

Lemma norm_loop_total cs : forall stack, ~ In Root cs -> exists names, norm_loop stack cs = Some names.
Proof.
  induction cs as [|c t IH]; intros stack Hnr.
  - eexists. reflexivity.
  - assert (Ht : ~ In Root t) by (intros H; apply Hnr; right; exact H).
    destruct c; cbn [norm_loop].
    + exfalso. apply Hnr. left. reflexivity.
    + apply IH. exact Ht.
    + apply IH. exact Ht.
    + apply IH. exact Ht.
Qed.

Lemma Forall_tl (A : Type) (P : A -> Prop) (l : list A) : Forall P l -> Forall P (tl l).
Proof. intros H. destruct l; [constructor|]. inversion H; assumption. Qed.

Lemma norm_loop_valid cs : forall stack names,
  norm_loop stack cs = Some names -> Forall valid stack ->
  (forall n, In (Normal n) cs -> valid n) -> Forall valid names.
Proof.
  induction cs as [|c t IH]; intros stack names H Hs Hc.
  - cbn in H. inversion H; subst. apply Forall_rev. exact Hs.
  - assert (Ht : forall n, In (Normal n) t -> valid n) by (intros n Hn; apply Hc; right; exact Hn).
    destruct c; cbn [norm_loop] in H.
    + discriminate.
    + apply (IH _ _ H Hs Ht).
    + apply (IH _ _ H (Forall_tl _ _ _ Hs) Ht).
    + apply (IH _ _ H); [|exact Ht]. constructor; [|exact Hs]. apply Hc. left. reflexivity.
Qed.

Lemma norm_loop_normals l : forall stack,
  norm_loop stack (map Normal l) = Some (rev (rev l ++ stack)).
Proof.
  induction l as [|a t IH]; intros stack.
  - reflexivity.
  - cbn [map norm_loop]. rewrite IH. cbn [rev]. rewrite <- app_assoc. reflexivity.
Qed.

Lemma drop_roots_normals l : drop_roots (map Normal l) = map Normal l.
Proof. destruct l; reflexivity. Qed.

Lemma normalize_normals l : normalize_path (map Normal l) = Some l.
Proof.
  unfold normalize_path. rewrite drop_roots_normals, norm_loop_normals.
  rewrite app_nil_r, rev_involutive. reflexivity.
Qed.

(* the components that normalize_path is applied to never contain RootDir after
   the leading ones have been skipped *)
Lemma components_drop_roots_no_root s : ~ In Root (drop_roots (components s)).
Proof.
  unfold components. destruct (start_cases s) as [E|[E|E]]; rewrite E; cbn [app drop_roots].
  - intros H. apply (body_no_root (split_slash s)). apply (drop_roots_incl _ _ H).
  - intros H. apply (body_no_root (split_slash s)). apply (drop_roots_incl _ _ H).
  - intros [H|H]; [discriminate|]. apply (body_no_root _ H).
Qed.

Lemma components_tail_no_root s : ~ In Root (tl (components s)).
Proof.
  unfold components. destruct (start_cases s) as [E|[E|E]]; rewrite E; cbn [app tl].
  - intros H. apply (body_no_root (split_slash s)).
    destruct (body (split_slash s)); [destruct H | right; exact H].
  - apply body_no_root.
  - apply body_no_root.
Qed.

(* ---------------------------------------------------------------- the root *)
(* absolute and already normal: "/" followed by names only *)
Definition root_ok (root : list N) : Prop :=
  exists ns, components root = Root :: map Normal ns.

Lemma root_ok_has_root root : root_ok root -> has_root root = true.
Proof.
  intros (ns & H). destruct root as [|a t]; [cbn in H; discriminate|].
  cbn [has_root]. destruct (a =? slash) eqn:E; [reflexivity|].
  exfalso. unfold components in H. cbn [start] in H. rewrite E in H.
  assert (Hin : In Root (body (split_slash (a :: t)))).
  { destruct (a =? dot).
    - destruct t as [|b u]; [cbn [app] in H; inversion H|].
      destruct (b =? slash); cbn [app] in H; [inversion H|]. rewrite H. left. reflexivity.
    - cbn [app] in H. rewrite H. left. reflexivity. }
  apply (body_no_root _ Hin).
Qed.

(* ---------------------------------------------------------------- main results *)
Lemma native_shape root name : root_ok root ->
  exists names, Forall valid names /\ native root name = Some (join root (render names)).
Proof.
  intros Hok. pose proof (root_ok_has_root root Hok) as Habs.
  destruct Hok as (ns & Hr).
  unfold native.
  set (rel := match strip_prefix (components name) (components root) with
              | Some rest => rest | None => components name end).
  assert (Hnr : ~ In Root (drop_roots rel) /\ forall n, In (Normal n) (drop_roots rel) -> valid n).
  { unfold rel. destruct (strip_prefix (components name) (components root)) as [rest|] eqn:E.
    - rewrite Hr in E. pose proof (strip_prefix_tail _ _ _ _ E) as Hincl. split.
      + intros H. apply (components_tail_no_root name). apply Hincl. apply (drop_roots_incl _ _ H).
      + intros n H. apply (components_normal_valid name).
        assert (Hin : In (Normal n) (tl (components name))) by (apply Hincl; apply (drop_roots_incl _ _ H)).
        destruct (components name); [destruct Hin | right; exact Hin].
    - split.
      + apply components_drop_roots_no_root.
      + intros n H. apply (components_normal_valid name). apply (drop_roots_incl _ _ H). }
  destruct Hnr as [Hnr Hval].
  unfold normalize_path.
  destruct (norm_loop_total (drop_roots rel) [] Hnr) as (names & Hn).
  rewrite Hn. exists names. split; [|reflexivity].
  apply (norm_loop_valid _ _ _ Hn); [constructor | exact Hval].
Qed.

Lemma resolve_loop_normals l : forall stack cs,
  resolve_loop stack (map Normal l ++ cs) = resolve_loop (rev l ++ stack) cs.
Proof.
  induction l as [|a t IH]; intros stack cs.
  - reflexivity.
  - cbn [map app resolve_loop]. rewrite IH. cbn [rev]. rewrite <- app_assoc. reflexivity.
Qed.

Lemma resolve_root_normals ns names :
  resolve (Root :: map Normal ns ++ map Normal names) = ns ++ names.
Proof.
  unfold resolve. cbn [resolve_loop].
  rewrite resolve_loop_normals. rewrite <- (app_nil_r (map Normal names)).
  rewrite resolve_loop_normals. cbn [resolve_loop].
  rewrite app_nil_r. rewrite rev_app_distr, !rev_involutive. reflexivity.
Qed.

(* The native path of ANY name: root components followed by plain names only
   (no "..", no "."), hence resolved inside the root. *)
Lemma native_inside root ns name : components root = Root :: map Normal ns ->
  exists p names,
    native root name = Some p /\
    components p = components root ++ map Normal names /\
    resolve (components p) = ns ++ names.
Proof.
  intros Hr. assert (Hok : root_ok root) by (exists ns; exact Hr).
  destruct (native_shape root name Hok) as (names & Hv & Hn).
  exists (join root (render names)), names.
  pose proof (components_join root names (root_ok_has_root root Hok) Hv) as Hc.
  split; [exact Hn|]. split; [exact Hc|].
  rewrite Hc, Hr. cbn [app]. apply resolve_root_normals.
Qed.

(* applying get_native_path to a native path returns the same string *)
Lemma native_idempotent root name p : root_ok root ->
  native root name = Some p -> native root p = Some p.
Proof.
  intros Hok Hn.
  destruct (native_shape root name Hok) as (names & Hv & Hn').
  rewrite Hn in Hn'. inversion Hn'; subst p.
  unfold native.
  rewrite (components_join root names (root_ok_has_root root Hok) Hv).
  rewrite strip_prefix_app. rewrite normalize_normals. reflexivity.
Qed.

Lemma native2_eq root name : root_ok root -> native2 root name = native root name.
Proof.
  intros Hok. unfold native2. destruct (native root name) as [p|] eqn:E; [|reflexivity].
  apply (native_idempotent root name p Hok E).
Qed.

Definition inside (ns : list (list N)) (p : option (list N)) : Prop :=
  exists s rest, p = Some s /\ resolve (components s) = ns ++ rest.

Lemma native_inside' root ns name : components root = Root :: map Normal ns ->
  inside ns (native root name).
Proof.
  intros Hr. destruct (native_inside root ns name Hr) as (p & names & H1 & _ & H3).
  exists p, names. auto.
Qed.

Lemma call_paths_inside root ns c p : components root = Root :: map Normal ns ->
  In p (call_paths root c) -> inside ns p.
Proof.
  intros Hr Hin. assert (Hok : root_ok root) by (exists ns; exact Hr).
  destruct c; cbn [call_paths In] in Hin;
    repeat match goal with
           | H : _ \/ _ |- _ => destruct H as [H|H]
           | H : False |- _ => destruct H
           end; subst p; try rewrite (native2_eq root _ Hok); apply native_inside'; exact Hr.
Qed.

(* ---- the pinned code's defect, as an executable witness ----
   root "/r", name "/r/../x": the pinned code returns the name unchanged, which
   resolves to "/x"; the fixed code returns "/r/x". *)
Example pinned_native_escape_refuted :
  Pinned.native [47; 114] [47; 114; 47; 46; 46; 47; 120] = Some [47; 114; 47; 46; 46; 47; 120] /\
  resolve (components [47; 114; 47; 46; 46; 47; 120]) = [[120]] /\
  native [47; 114] [47; 114; 47; 46; 46; 47; 120] = Some [47; 114; 47; 120] /\
  resolve (components [47; 114; 47; 120]) = [[114]; [120]].
Proof. vm_compute. auto. Qed.
