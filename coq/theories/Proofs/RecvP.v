(* Proofs about the receive-transaction model (Model/Recv.v). *)
From CFDP Require Import Base.Prelude Model.Segments Model.Timer Model.TxTypes Model.Recv
  Proofs.SegmentsP Proofs.Tac.

Ltac destr_hyp H :=
  match type of H with
  | context [match ?x with _ => _ end] => destruct x eqn:?
  end.

Section RecvP.
Variable FS : Type.
Variable fs_write_file : FS -> bytes -> bytes -> option FS.
Variable fs_exec : FS -> fsreq -> FS * fsresp.
Variable resp_fail : fsresp -> bool.
Variable not_performed : fsreq -> fsresp.
Variable cksum : cktype -> bytes -> N.
Variable resp_len : fsresp -> N.
Variable req_len : fsreq -> N.

Notation rstate := (rstate FS).
Notation rstep := (rstep FS fs_write_file fs_exec resp_fail not_performed cksum resp_len req_len).
Notation process_pdu := (process_pdu FS fs_write_file fs_exec resp_fail not_performed cksum).
Notation check_finished := (check_finished FS fs_write_file fs_exec resp_fail not_performed cksum).
Notation finalize_receive := (finalize_receive FS fs_write_file fs_exec resp_fail not_performed cksum).
Notation send_pdu := (send_pdu resp_len req_len).

(* ------------------------------------------------------------------ *)
(* a relation between the state before and after: what a step may never change
   once the transaction has left the receive-data phase *)
Definition frozen (s s' : rstate) : Prop :=
  r_fs s' = r_fs s /\ (r_phase s <> RecvData -> r_phase s' <> RecvData).

Definition not_recv (s : rstate) : Prop := r_phase s <> RecvData.

(* functions that never touch the filestore nor move the phase back to RecvData *)
Definition keeps (f : rstate -> rstate) : Prop :=
  forall s, r_fs (f s) = r_fs s /\ (not_recv s -> not_recv (f s)) /\ r_cfg (f s) = r_cfg s.

Lemma keeps_comp f g : keeps f -> keeps g -> keeps (fun s => g (f s)).
Proof.
  intros Hf Hg s. destruct (Hf s) as (F1 & F2 & F3). destruct (Hg (f s)) as (G1 & G2 & G3).
  splits; [congruence | auto | congruence].
Qed.

Ltac keeps_simple := intros s; unfold not_recv; cbn; splits; auto.

Lemma keeps_shutdown now : keeps (shutdown now).
Proof. keeps_simple. Qed.
Lemma keeps_abandon now : keeps (abandon now).
Proof. keeps_simple. Qed.
Lemma keeps_prepare_finished f : keeps (prepare_finished f).
Proof. keeps_simple. Qed.
Lemma keeps_suspend now : keeps (suspend now).
Proof. keeps_simple. Qed.

Lemma keeps_cancel_ now : keeps (cancel_ now).
Proof.
  intros s. unfold cancel_, not_recv. destruct (cfg_mode _) eqn:Em; cbn; rewrite ?Em; cbn.
  - splits; auto; intros; discriminate.
  - destruct (closure _); cbn; splits; auto; intros; discriminate.
Qed.

Lemma keeps_handle_fault now c : keeps (fun s => fst (handle_fault now c s)).
Proof.
  intros s. unfold handle_fault. cbn [r_cfg set_r_cond emit_ind set_r_out].
  destruct (handler _ c); cbn [fst].
  - destruct (keeps_cancel_ now (emit_ind (IFault c (r_recvd (set_r_cond c s))) (set_r_cond c s))) as (H1 & H2 & H3).
    unfold not_recv in *. cbn in *. splits; auto.
  - destruct (keeps_suspend now (emit_ind (IFault c (r_recvd (set_r_cond c s))) (set_r_cond c s))) as (H1 & H2 & H3).
    unfold not_recv in *. cbn in *. splits; auto.
  - unfold not_recv. cbn. splits; auto.
  - destruct (keeps_abandon now (emit_ind (IFault c (r_recvd (set_r_cond c s))) (set_r_cond c s))) as (H1 & H2 & H3).
    unfold not_recv in *. cbn in *. splits; auto.
Qed.


(* generic step: name the result of a call to a [keeps] function and record its facts;
   only when the argument is free of matches (inner scrutinees are destructed first) *)
Ltac use_keeps1 :=
  match goal with
  | |- context [handle_fault ?now ?c ?x] =>
      nomatch x;
      let H := fresh "K" in
      pose proof (keeps_handle_fault now c x) as H; cbv beta in H;
      let r := fresh "r" in let b := fresh "b" in
      destruct (handle_fault now c x) as [r b] eqn:?; cbn [fst snd] in H;
      unfold not_recv in H; cbn in H; destruct H as (? & ? & ?)
  | |- context [abandon ?now ?x] =>
      nomatch x;
      let H := fresh "K" in
      pose proof (keeps_abandon now x) as H;
      let r := fresh "r" in
      remember (abandon now x) as r eqn:?; unfold not_recv in H; cbn in H; destruct H as (? & ? & ?)
  | |- context [cancel_ ?now ?x] =>
      nomatch x;
      let H := fresh "K" in
      pose proof (keeps_cancel_ now x) as H;
      let r := fresh "r" in
      remember (cancel_ now x) as r eqn:?; unfold not_recv in H; cbn in H; destruct H as (? & ? & ?)
  end.
Ltac use_keeps := repeat use_keeps1.

Ltac keeps_finish :=
  unfold not_recv in *; cbn in *; splits; try congruence; auto;
  try (intros; repeat match goal with H : _ -> _ |- _ => specialize (H ltac:(assumption)) end; congruence);
  try (intros; match goal with H : _ -> ?g |- ?g => apply H; congruence end).

Ltac name_call f lem :=
  let H := fresh "K" in
  pose proof lem as H;
  let r := fresh "r" in
  remember f as r eqn:?; unfold not_recv in H; cbn in H; destruct H as (? & ? & ?).

Ltac solve_keeps := repeat (first [use_keeps1 | destr_inner]; cbn [fst snd]); keeps_finish.

Lemma keeps_send_naks now : keeps (send_naks resp_len req_len now).
Proof. intros s. unfold send_naks, c_limit_reached. solve_keeps. Qed.

Lemma keeps_send_ack_eof : keeps (send_ack_eof resp_len req_len).
Proof. intros s. unfold send_ack_eof. solve_keeps. Qed.

Lemma keeps_send_finished now : keeps (send_finished resp_len req_len now).
Proof. intros s. unfold send_finished, set_fin_flag. solve_keeps. Qed.

Lemma keeps_answer_prompt now : keeps (answer_prompt resp_len req_len now).
Proof.
  intros s. unfold answer_prompt. destruct (r_prompt s) as [[|]|]; [| keeps_finish | keeps_finish].
  name_call (send_naks resp_len req_len now (set_r_naks (get_all_naks (set_r_prompt None s)) (set_r_prompt None s)))
            (keeps_send_naks now (set_r_naks (get_all_naks (set_r_prompt None s)) (set_r_prompt None s))).
  keeps_finish.
Qed.

Lemma keeps_send_pdu now : keeps (send_pdu now).
Proof.
  intros s. unfold Recv.send_pdu.
  pose proof (keeps_answer_prompt now s). pose proof (keeps_send_ack_eof s).
  pose proof (keeps_send_naks now s). pose proof (keeps_send_finished now s).
  repeat destr_inner; auto; keeps_finish.
Qed.

Lemma keeps_resume now : keeps (resume now).
Proof. intros s. unfold resume. solve_keeps. Qed.

Lemma keeps_cancel now : keeps (cancel now).
Proof.
  intros s. unfold cancel. destruct (keeps_cancel_ now (set_r_cond CancelReceived s)) as (H1 & H2 & H3).
  unfold not_recv in *. cbn in *. splits; auto.
Qed.

Lemma keeps_send_report : keeps send_report.
Proof. keeps_simple. Qed.

Lemma keeps_ht_delayed now : keeps (ht_delayed now).
Proof.
  intros s. unfold ht_delayed. destruct (expire_delayed now (r_delayed s)) as [expired rest].
  solve_keeps.
Qed.

Lemma keeps_ht_inactivity now : keeps (fun s => fst (ht_inactivity now s)).
Proof. intros s. unfold ht_inactivity, c_limit_reached. solve_keeps. Qed.

Lemma keeps_ht_phase now : keeps (ht_phase now).
Proof. intros s. unfold ht_phase, c_limit_reached, c_timeout_occurred, set_fin_flag. solve_keeps. Qed.

Lemma keeps_handle_timeout now : keeps (handle_timeout now).
Proof.
  intros s. unfold handle_timeout.
  destruct (keeps_ht_delayed now s) as (A1 & A2 & A3).
  pose proof (keeps_ht_inactivity now (ht_delayed now s)) as (B1 & B2 & B3). cbv beta in *.
  destruct (ht_inactivity now (ht_delayed now s)) as [s1 go]. cbn [fst] in *.
  destruct (keeps_ht_phase now s1) as (C1 & C2 & C3).
  destruct go; splits; try congruence; auto.
Qed.

(* ---- once the receive-data phase is left, no operation touches the filestore or returns to it ---- *)
Lemma rphase_eqb_false (s : rstate) : not_recv s -> rphase_eqb (r_phase s) RecvData = false.
Proof. unfold not_recv. destruct (r_phase s); cbn; congruence. Qed.

Lemma check_finished_not_recv now (s : rstate) : not_recv s -> check_finished now s = s.
Proof. intros H. unfold Recv.check_finished. rewrite (rphase_eqb_false s H). reflexivity. Qed.

(* what the PDU handlers do once the receive-data phase has been left *)
Lemma late_filedata_acked now o d (s : rstate) : not_recv s ->
  pdu_filedata_acked FS fs_write_file fs_exec resp_fail not_performed cksum now o d s = s.
Proof. intros H. unfold pdu_filedata_acked. rewrite (rphase_eqb_false s H). reflexivity. Qed.
Lemma late_eof_acked now e (s : rstate) : not_recv s ->
  pdu_eof_acked FS fs_write_file fs_exec resp_fail not_performed cksum now e s = prepare_ack_eof s.
Proof. intros H. unfold pdu_eof_acked. rewrite (rphase_eqb_false s H). reflexivity. Qed.
Lemma late_metadata_acked now m (s : rstate) : not_recv s ->
  pdu_metadata_acked FS fs_write_file fs_exec resp_fail not_performed cksum now m s =
  if is_some (r_meta s) then s
  else set_r_naks (filter (fun x => negb ((fst x =? 0) && (snd x =? 0))) (r_naks (set_metadata m s))) (set_metadata m s).
Proof.
  intros H. unfold pdu_metadata_acked. destruct (is_some (r_meta s)); [reflexivity|].
  rewrite check_finished_not_recv; [reflexivity|]. unfold not_recv in *. exact H.
Qed.
Lemma late_filedata_unacked o d (s : rstate) : not_recv s -> pdu_filedata_unacked o d s = s.
Proof. intros H. unfold pdu_filedata_unacked. rewrite (rphase_eqb_false s H). reflexivity. Qed.
Lemma late_eof_unacked now e (s : rstate) : not_recv s ->
  pdu_eof_unacked FS fs_write_file fs_exec resp_fail not_performed cksum now e s = s.
Proof. intros H. unfold pdu_eof_unacked. rewrite (rphase_eqb_false s H). reflexivity. Qed.

Lemma process_pdu_frozen now p (s : rstate) : not_recv s ->
  let s' := fst (process_pdu now p s) in
  r_fs s' = r_fs s /\ not_recv s' /\ r_cfg s' = r_cfg s.
Proof.
  intros H. cbn zeta. unfold Recv.process_pdu.
  set (s0 := if suspended s then s else upd_inact (c_reset now) s).
  assert (H0 : not_recv s0 /\ r_fs s0 = r_fs s /\ r_cfg s0 = r_cfg s).
  { unfold s0, not_recv in *. destruct (suspended s); cbn; auto. }
  destruct H0 as (Hn & Hf & Hc). clearbody s0.
  destruct (cfg_mode (r_cfg s0)); destruct p; cbn [fst];
    rewrite ?late_filedata_acked, ?late_eof_acked, ?late_metadata_acked, ?late_filedata_unacked,
            ?late_eof_unacked by exact Hn;
    unfold pdu_ack_acked, pdu_ack_unacked, pdu_metadata_unacked;
    repeat (destr_inner; cbn [fst]);
    unfold not_recv in *; cbn; splits; auto; try congruence.
Qed.

Theorem rstep_frozen now o (s : rstate) : not_recv s ->
  let s' := fst (rstep now o s) in
  r_fs s' = r_fs s /\ not_recv s' /\ r_cfg s' = r_cfg s.
Proof.
  intros H. cbn zeta. unfold Recv.rstep.
  assert (H0 : not_recv (set_r_out [] s)) by (unfold not_recv in *; cbn; assumption).
  destruct o; cbn [fst].
  - destruct (process_pdu_frozen now p (set_r_out [] s) H0) as (A & B & C). cbn in A, C. auto.
  - destruct (has_pdu_to_send _).
    + destruct (keeps_send_pdu now (set_r_out [] s)) as (A & B & C). cbn in A, C. auto.
    + unfold not_recv in *; cbn; auto.
  - destruct (until_timeout now _) as [[|?]|].
    + destruct (keeps_handle_timeout now (set_r_out [] s)) as (A & B & C). cbn in A, C. auto.
    + unfold not_recv in *; cbn; auto.
    + unfold not_recv in *; cbn; auto.
  - destruct (keeps_cancel now (set_r_out [] s)) as (A & B & C). cbn in A, C. auto.
  - destruct (keeps_suspend now (set_r_out [] s)) as (A & B & C). cbn in A, C. auto.
  - destruct (keeps_resume now (set_r_out [] s)) as (A & B & C). cbn in A, C. auto.
  - destruct (keeps_send_report (set_r_out [] s)) as (A & B & C). cbn in A, C. auto.
  - destruct (keeps_shutdown now (set_r_out [] s)) as (A & B & C). cbn in A, C. auto.
Qed.


End RecvP.
