(* Proofs about the receive-transaction model (Model/Recv.v). *)
From CFDP Require Import Base.Prelude Model.Segments Model.Timer Model.TxTypes Model.Recv
  Proofs.SegmentsP Proofs.Tac.

Ltac destr_hyp H :=
  match type of H with
  | context [match ?x with _ => _ end] => destruct x eqn:?
  end.

Section RecvP.
Variable FS : Type.
Variable fs_write_file : FS -> bytes -> bytes -> option FS.
Variable fs_exec : FS -> fsreq -> FS * fsresp.
Variable resp_fail : fsresp -> bool.
Variable not_performed : fsreq -> fsresp.
Variable cksum : cktype -> bytes -> N.
Variable resp_len : fsresp -> N.
Variable req_len : fsreq -> N.

Notation rstate := (rstate FS).
Notation rstep := (rstep FS fs_write_file fs_exec resp_fail not_performed cksum resp_len req_len).
Notation process_pdu := (process_pdu FS fs_write_file fs_exec resp_fail not_performed cksum).
Notation check_finished := (check_finished FS fs_write_file fs_exec resp_fail not_performed cksum).
Notation finalize_receive := (finalize_receive FS fs_write_file fs_exec resp_fail not_performed cksum).
Notation send_pdu := (send_pdu resp_len req_len).

(* ------------------------------------------------------------------ *)
(* What most functions never change: the filestore, the configuration, the bookkeeping of
   received data, the metadata - and they never move the phase back to RecvData. *)
Definition not_recv (s : rstate) : Prop := r_phase s <> RecvData.

Definition same_data (s s' : rstate) : Prop :=
  r_segs s' = r_segs s /\ r_recvd s' = r_recvd s /\ r_staged s' = r_staged s /\
  r_meta s' = r_meta s /\ r_nakproc s' = r_nakproc s /\ r_fsize s' = r_fsize s /\ r_cksum s' = r_cksum s /\
  r_resps s' = r_resps s.

Definition Kp (s0 s' : rstate) : Prop :=
  r_fs s' = r_fs s0 /\ (not_recv s0 -> not_recv s') /\ r_cfg s' = r_cfg s0 /\ same_data s0 s'.

Definition keeps (f : rstate -> rstate) : Prop := forall s, Kp s (f s).

Lemma Kp_refl s : Kp s s.
Proof. unfold Kp, same_data. splits; auto. Qed.

Lemma Kp_ext s0 (s s' : rstate) : Kp s0 s -> r_fs s' = r_fs s -> r_phase s' = r_phase s ->
  r_cfg s' = r_cfg s -> r_segs s' = r_segs s -> r_recvd s' = r_recvd s -> r_staged s' = r_staged s ->
  r_meta s' = r_meta s -> r_nakproc s' = r_nakproc s -> r_fsize s' = r_fsize s -> r_cksum s' = r_cksum s ->
  r_resps s' = r_resps s -> Kp s0 s'.
Proof.
  unfold Kp, same_data, not_recv. intros (A & B & C & D1 & D2 & D3 & D4 & D5 & D6 & D7 & D8) E1 E2 E3 E4 E5 E6 E7 E8 E9 E10 E11.
  rewrite E1, E2, E3, E4, E5, E6, E7, E8, E9, E10, E11. splits; auto.
Qed.

(* leaving (or staying out of) the receive-data phase *)
Lemma Kp_phase s0 (s s' : rstate) : Kp s0 s -> r_fs s' = r_fs s -> r_phase s' <> RecvData ->
  r_cfg s' = r_cfg s -> r_segs s' = r_segs s -> r_recvd s' = r_recvd s -> r_staged s' = r_staged s ->
  r_meta s' = r_meta s -> r_nakproc s' = r_nakproc s -> r_fsize s' = r_fsize s -> r_cksum s' = r_cksum s ->
  r_resps s' = r_resps s -> Kp s0 s'.
Proof.
  unfold Kp, same_data, not_recv. intros (A & B & C & D1 & D2 & D3 & D4 & D5 & D6 & D7 & D8) E1 E2 E3 E4 E5 E6 E7 E8 E9 E10 E11.
  rewrite E1, E3, E4, E5, E6, E7, E8, E9, E10, E11. splits; auto.
Qed.

Ltac kp_leaf s0 :=
  lazymatch goal with
  | |- Kp s0 ?t =>
      let b := strip_r t in
      first [ eapply (Kp_ext s0 b); [ | reflexivity .. ]
            | eapply (Kp_phase s0 b); [ | reflexivity | cbn; discriminate | reflexivity .. ] ]
  end.

Lemma Kp_shutdown s0 now s : Kp s0 s -> Kp s0 (shutdown now s).
Proof. intros H. kp_leaf s0. exact H. Qed.
Lemma Kp_abandon s0 now s : Kp s0 s -> Kp s0 (abandon now s).
Proof. intros H. apply Kp_shutdown. unfold abandon. kp_leaf s0. exact H. Qed.
Lemma Kp_suspend s0 now s : Kp s0 s -> Kp s0 (suspend now s).
Proof. intros H. unfold suspend. kp_leaf s0. exact H. Qed.
Lemma Kp_prepare_finished s0 f s : Kp s0 s -> Kp s0 (prepare_finished f s).
Proof. intros H. kp_leaf s0. exact H. Qed.
Lemma Kp_cancel_ s0 now s : Kp s0 s -> Kp s0 (cancel_ now s).
Proof.
  intros H. unfold cancel_. cbv zeta.
  destruct (cfg_mode _); [|destruct (closure _)]; kp_leaf s0; exact H.
Qed.
Lemma Kp_handle_fault s0 now c s : Kp s0 s -> Kp s0 (fst (handle_fault now c s)).
Proof.
  intros H. unfold handle_fault.
  assert (H1 : Kp s0 (emit_ind (IFault c (r_recvd (set_r_cond c s))) (set_r_cond c s))) by (kp_leaf s0; exact H).
  destruct (handler _ c); cbn [fst];
    [apply Kp_cancel_ | apply Kp_suspend | | apply Kp_abandon]; exact H1.
Qed.

(* recursive solver: peel updates, apply callee lemmas *)
Ltac kp_calls s0 _ :=
  lazymatch goal with
  | |- Kp s0 (shutdown _ _) => apply Kp_shutdown
  | |- Kp s0 (abandon _ _) => apply Kp_abandon
  | |- Kp s0 (suspend _ _) => apply Kp_suspend
  | |- Kp s0 (prepare_finished _ _) => apply Kp_prepare_finished
  | |- Kp s0 (cancel_ _ _) => apply Kp_cancel_
  | |- Kp s0 (fst (handle_fault _ _ _)) => apply Kp_handle_fault
  end.
Ltac kp s0 :=
  lazymatch goal with
  | |- Kp s0 ?t =>
      first [ assumption | apply Kp_refl
            | kp_calls s0 tt; kp s0
            | let b := strip_r t in
              tryif constr_eq b t then fail
              else first [ eapply (Kp_ext s0 b); [ kp s0 | reflexivity .. ]
                         | eapply (Kp_phase s0 b); [ kp s0 | reflexivity | cbn; discriminate | reflexivity .. ] ] ]
  end.
Ltac pass_kp s0 := repeat (first [destr_pair_keep | destr_inner]; cbn [fst snd]); try kp s0.

Lemma Kp_send_naks s0 now s : Kp s0 s -> Kp s0 (send_naks resp_len req_len now s).
Proof. intros H. unfold send_naks, c_limit_reached. pass_kp s0. Qed.
Lemma Kp_send_ack_eof s0 s : Kp s0 s -> Kp s0 (send_ack_eof resp_len req_len s).
Proof. intros H. unfold send_ack_eof. pass_kp s0. Qed.
Lemma Kp_set_fin_flag s0 b s : Kp s0 s -> Kp s0 (set_fin_flag b s).
Proof. intros H. unfold set_fin_flag. pass_kp s0. Qed.
Lemma Kp_send_finished s0 now s : Kp s0 s -> Kp s0 (send_finished resp_len req_len now s).
Proof.
  intros H. unfold send_finished. repeat (destr_inner; cbn [fst snd]); try kp s0.
  apply Kp_set_fin_flag. kp s0.
Qed.
Lemma Kp_answer_prompt s0 now s : Kp s0 s -> Kp s0 (answer_prompt resp_len req_len now s).
Proof.
  intros H. unfold answer_prompt. destruct (r_prompt s) as [[|]|]; try kp s0.
  apply Kp_send_naks. kp s0.
Qed.
Lemma Kp_send_pdu s0 now s : Kp s0 s -> Kp s0 (send_pdu now s).
Proof.
  intros H. unfold Recv.send_pdu.
  pose proof (Kp_answer_prompt s0 now s H). pose proof (Kp_send_ack_eof s0 s H).
  pose proof (Kp_send_naks s0 now s H). pose proof (Kp_send_finished s0 now s H).
  repeat destr_inner; auto.
Qed.
Lemma Kp_resume s0 now s : Kp s0 s -> Kp s0 (resume now s).
Proof. intros H. unfold resume. pass_kp s0. Qed.
Lemma Kp_cancel s0 now s : Kp s0 s -> Kp s0 (cancel now s).
Proof. intros H. unfold cancel. apply Kp_cancel_. kp s0. Qed.
Lemma Kp_send_report s0 s : Kp s0 s -> Kp s0 (send_report s).
Proof. intros H. unfold send_report. kp s0. Qed.
Lemma Kp_ht_delayed s0 now s : Kp s0 s -> Kp s0 (ht_delayed now s).
Proof.
  intros H. unfold ht_delayed. destruct (expire_delayed now (r_delayed s)) as [expired rest]. pass_kp s0.
Qed.
Lemma Kp_ht_inactivity s0 now s : Kp s0 s -> Kp s0 (fst (ht_inactivity now s)).
Proof. intros H. unfold ht_inactivity, c_limit_reached. pass_kp s0. Qed.
Lemma Kp_ht_nak s0 now s : Kp s0 s -> Kp s0 (ht_nak now s).
Proof.
  intros H. unfold ht_nak, c_timeout_occurred.
  repeat (first [destr_pair_keep | destr_inner]; cbn [fst snd]); try kp s0.
Qed.
Lemma Kp_ht_ackphase s0 now s : Kp s0 s -> Kp s0 (ht_ackphase now s).
Proof.
  intros H. unfold ht_ackphase, c_limit_reached, c_timeout_occurred.
  repeat (first [destr_pair_keep | destr_inner]; cbn [fst snd]);
    try (apply Kp_set_fin_flag); try kp s0.
  all: try (eapply (Kp_ext s0 (set_fin_flag true _)); [apply Kp_set_fin_flag; kp s0 | reflexivity ..]).
Qed.
Lemma Kp_ht_phase s0 now s : Kp s0 s -> Kp s0 (ht_phase now s).
Proof. intros H. unfold ht_phase. apply Kp_ht_ackphase. apply Kp_ht_nak. exact H. Qed.
Lemma Kp_handle_timeout s0 now s : Kp s0 s -> Kp s0 (handle_timeout now s).
Proof.
  intros H. unfold handle_timeout.
  pose proof (Kp_ht_inactivity s0 now _ (Kp_ht_delayed s0 now s H)) as H1.
  destruct (ht_inactivity now (ht_delayed now s)) as [s1 go]. cbn [fst] in H1.
  destruct go; [apply Kp_ht_phase|]; exact H1.
Qed.

(* the old-style statements *)
Lemma keeps_of (f : rstate -> rstate) : (forall s0 s, Kp s0 s -> Kp s0 (f s)) -> keeps f.
Proof. intros H s. apply H. apply Kp_refl. Qed.
Lemma keeps_shutdown now : keeps (shutdown now). Proof. apply keeps_of. intros; apply Kp_shutdown; assumption. Qed.
Lemma keeps_abandon now : keeps (abandon now). Proof. apply keeps_of. intros; apply Kp_abandon; assumption. Qed.
Lemma keeps_suspend now : keeps (suspend now). Proof. apply keeps_of. intros; apply Kp_suspend; assumption. Qed.
Lemma keeps_cancel_ now : keeps (cancel_ now). Proof. apply keeps_of. intros; apply Kp_cancel_; assumption. Qed.
Lemma keeps_cancel now : keeps (cancel now). Proof. apply keeps_of. intros; apply Kp_cancel; assumption. Qed.
Lemma keeps_resume now : keeps (resume now). Proof. apply keeps_of. intros; apply Kp_resume; assumption. Qed.
Lemma keeps_send_report : keeps send_report. Proof. apply keeps_of. intros; apply Kp_send_report; assumption. Qed.
Lemma keeps_send_pdu now : keeps (send_pdu now). Proof. apply keeps_of. intros; apply Kp_send_pdu; assumption. Qed.
Lemma keeps_handle_timeout now : keeps (handle_timeout now). Proof. apply keeps_of. intros; apply Kp_handle_timeout; assumption. Qed.
Lemma keeps_handle_fault now c : keeps (fun s => fst (handle_fault now c s)).
Proof. apply keeps_of. intros; apply Kp_handle_fault; assumption. Qed.

(* ---- once the receive-data phase is left, no operation touches the filestore or returns to it ---- *)
Lemma rphase_eqb_false (s : rstate) : not_recv s -> rphase_eqb (r_phase s) RecvData = false.
Proof. unfold not_recv. destruct (r_phase s); cbn; congruence. Qed.

Lemma check_finished_not_recv now (s : rstate) : not_recv s -> check_finished now s = s.
Proof. intros H. unfold Recv.check_finished. rewrite (rphase_eqb_false s H). reflexivity. Qed.

(* what the PDU handlers do once the receive-data phase has been left *)
Lemma late_filedata_acked now o d (s : rstate) : not_recv s ->
  pdu_filedata_acked FS fs_write_file fs_exec resp_fail not_performed cksum now o d s = s.
Proof. intros H. unfold pdu_filedata_acked. rewrite (rphase_eqb_false s H). reflexivity. Qed.
Lemma late_eof_acked now e (s : rstate) : not_recv s ->
  pdu_eof_acked FS fs_write_file fs_exec resp_fail not_performed cksum now e s = prepare_ack_eof s.
Proof. intros H. unfold pdu_eof_acked. rewrite (rphase_eqb_false s H). reflexivity. Qed.
Lemma late_metadata_acked now m (s : rstate) : not_recv s ->
  pdu_metadata_acked FS fs_write_file fs_exec resp_fail not_performed cksum now m s =
  if is_some (r_meta s) then s
  else set_r_naks (filter (fun x => negb ((fst x =? 0) && (snd x =? 0))) (r_naks (set_metadata m s))) (set_metadata m s).
Proof.
  intros H. unfold pdu_metadata_acked. destruct (is_some (r_meta s)); [reflexivity|].
  rewrite check_finished_not_recv; [reflexivity|]. unfold not_recv in *. exact H.
Qed.
Lemma late_filedata_unacked o d (s : rstate) : not_recv s -> pdu_filedata_unacked o d s = s.
Proof. intros H. unfold pdu_filedata_unacked. rewrite (rphase_eqb_false s H). reflexivity. Qed.
Lemma late_eof_unacked now e (s : rstate) : not_recv s ->
  pdu_eof_unacked FS fs_write_file fs_exec resp_fail not_performed cksum now e s = s.
Proof. intros H. unfold pdu_eof_unacked. rewrite (rphase_eqb_false s H). reflexivity. Qed.

Lemma process_pdu_frozen now p (s : rstate) : not_recv s ->
  let s' := fst (process_pdu now p s) in
  r_fs s' = r_fs s /\ not_recv s' /\ r_cfg s' = r_cfg s.
Proof.
  intros H. cbn zeta. unfold Recv.process_pdu.
  set (s0 := if suspended s then s else upd_inact (c_reset now) s).
  assert (H0 : not_recv s0 /\ r_fs s0 = r_fs s /\ r_cfg s0 = r_cfg s).
  { unfold s0, not_recv in *. destruct (suspended s); cbn; auto. }
  destruct H0 as (Hn & Hf & Hc). clearbody s0.
  destruct (cfg_mode (r_cfg s0)); destruct p; cbn [fst];
    rewrite ?late_filedata_acked, ?late_eof_acked, ?late_metadata_acked, ?late_filedata_unacked,
            ?late_eof_unacked by exact Hn;
    unfold pdu_ack_acked, pdu_ack_unacked, pdu_metadata_unacked;
    repeat (destr_inner; cbn [fst]);
    unfold not_recv in *; cbn; splits; auto; try congruence.
Qed.

Theorem rstep_frozen now o (s : rstate) : not_recv s ->
  let s' := fst (rstep now o s) in
  r_fs s' = r_fs s /\ not_recv s' /\ r_cfg s' = r_cfg s.
Proof.
  intros H. cbn zeta. unfold Recv.rstep.
  assert (H0 : not_recv (set_r_out [] s)) by (unfold not_recv in *; cbn; assumption).
  destruct o; cbn [fst].
  - destruct (process_pdu_frozen now p (set_r_out [] s) H0) as (A & B & C). cbn in A, C. auto.
  - destruct (has_pdu_to_send _).
    + destruct (keeps_send_pdu now (set_r_out [] s)) as (A & B & C & _). cbn in A, C. auto.
    + unfold not_recv in *; cbn; auto.
  - destruct (until_timeout now _) as [[|?]|].
    + destruct (keeps_handle_timeout now (set_r_out [] s)) as (A & B & C & _). cbn in A, C. auto.
    + unfold not_recv in *; cbn; auto.
    + unfold not_recv in *; cbn; auto.
  - destruct (keeps_cancel now (set_r_out [] s)) as (A & B & C & _). cbn in A, C. auto.
  - destruct (keeps_suspend now (set_r_out [] s)) as (A & B & C & _). cbn in A, C. auto.
  - destruct (keeps_resume now (set_r_out [] s)) as (A & B & C & _). cbn in A, C. auto.
  - destruct (keeps_send_report (set_r_out [] s)) as (A & B & C & _). cbn in A, C. auto.
  - destruct (keeps_shutdown now (set_r_out [] s)) as (A & B & C & _). cbn in A, C. auto.
Qed.

(* ---- C13: once the receive-data phase is left, the filestore responses never change ---- *)
Lemma process_pdu_resps now p (s : rstate) : not_recv s -> r_resps (fst (process_pdu now p s)) = r_resps s.
Proof.
  intros H. unfold Recv.process_pdu.
  set (s0 := if suspended s then s else upd_inact (c_reset now) s).
  assert (H0 : not_recv s0 /\ r_resps s0 = r_resps s).
  { unfold s0, not_recv in *. destruct (suspended s); cbn; auto. }
  destruct H0 as (Hn & Hf). clearbody s0. rewrite <- Hf.
  destruct (cfg_mode (r_cfg s0)); destruct p; cbn [fst];
    rewrite ?late_filedata_acked, ?late_eof_acked, ?late_metadata_acked, ?late_filedata_unacked,
            ?late_eof_unacked by exact Hn;
    unfold pdu_ack_acked, pdu_ack_unacked, pdu_metadata_unacked;
    repeat (destr_inner; cbn [fst]); reflexivity.
Qed.

Theorem rstep_resps_frozen now o (s : rstate) : not_recv s -> r_resps (fst (rstep now o s)) = r_resps s.
Proof.
  intros H. unfold Recv.rstep.
  assert (H0 : not_recv (set_r_out [] s)) by (unfold not_recv in *; cbn; assumption).
  destruct o; cbn [fst].
  - rewrite (process_pdu_resps now p (set_r_out [] s) H0). reflexivity.
  - destruct (has_pdu_to_send _); [|reflexivity].
    destruct (keeps_send_pdu now (set_r_out [] s)) as (_ & _ & _ & D). apply D.
  - destruct (until_timeout now _) as [[|?]|]; try reflexivity.
    destruct (keeps_handle_timeout now (set_r_out [] s)) as (_ & _ & _ & D). apply D.
  - destruct (keeps_cancel now (set_r_out [] s)) as (_ & _ & _ & D). apply D.
  - destruct (keeps_suspend now (set_r_out [] s)) as (_ & _ & _ & D). apply D.
  - destruct (keeps_resume now (set_r_out [] s)) as (_ & _ & _ & D). apply D.
  - destruct (keeps_send_report (set_r_out [] s)) as (_ & _ & _ & D). apply D.
  - destruct (keeps_shutdown now (set_r_out [] s)) as (_ & _ & _ & D). apply D.
Qed.

(* ---- C13: the fail-the-rest loop of finalize_receive ---- *)
Notation run_requests := (run_requests FS fs_exec resp_fail not_performed).
Lemma run_requests_fail_rest fs reqs : run_requests fs true reqs = (fs, map not_performed reqs).
Proof.
  induction reqs as [|r t IH]; cbn [Recv.run_requests map]; [reflexivity|]. rewrite IH. reflexivity.
Qed.
(* one response per request, in order *)
Lemma run_requests_length fs b reqs : length (snd (run_requests fs b reqs)) = length reqs.
Proof.
  revert fs b. induction reqs as [|r t IH]; intros fs b; cbn [Recv.run_requests]; [reflexivity|].
  destruct b.
  - specialize (IH fs true). destruct (run_requests fs true t) as [fs' rs]. cbn in *. rewrite IH. reflexivity.
  - destruct (fs_exec fs r) as [fs1 rep]. specialize (IH fs1 (resp_fail rep)).
    destruct (run_requests fs1 (resp_fail rep) t) as [fs' rs]. cbn in *. rewrite IH. reflexivity.
Qed.
(* requests are executed left to right on the filestore the previous one left, up to and including
   the first that fails; the others are reported not-performed and do not touch the filestore *)
Fixpoint exec_prefix (fs : FS) (reqs : list fsreq) : FS * list fsresp * list fsreq :=
  match reqs with
  | [] => (fs, [], [])
  | r :: t => let '(fs1, rep) := fs_exec fs r in
              if resp_fail rep then (fs1, [rep], t)
              else let '(fs', rs, rest) := exec_prefix fs1 t in (fs', rep :: rs, rest)
  end.
Lemma run_requests_spec fs reqs :
  let '(fs', done, rest) := exec_prefix fs reqs in
  run_requests fs false reqs = (fs', done ++ map not_performed rest).
Proof.
  revert fs. induction reqs as [|r t IH]; intros fs; cbn [exec_prefix Recv.run_requests]; [reflexivity|].
  destruct (fs_exec fs r) as [fs1 rep]. destruct (resp_fail rep) eqn:Ef.
  - rewrite run_requests_fail_rest. reflexivity.
  - specialize (IH fs1). destruct (exec_prefix fs1 t) as [[fs' rs] rest]. rewrite IH. reflexivity.
Qed.

End RecvP.
