(* Histories of the receive-transaction model: any sequence of (time, operation),
   executed the way the transaction's select! loop does (it stops at Terminated). *)
From CFDP Require Import Base.Prelude Model.Segments Model.Timer Model.TxTypes Model.Recv
  Proofs.Tac Proofs.RecvP Proofs.RecvP4.

Section RecvRun.
Variable FS : Type.
Variable fs_write_file : FS -> bytes -> bytes -> option FS.
Variable fs_exec : FS -> fsreq -> FS * fsresp.
Variable resp_fail : fsresp -> bool.
Variable not_performed : fsreq -> fsresp.
Variable cksum : cktype -> bytes -> N.
Variable resp_len : fsresp -> N.
Variable req_len : fsreq -> N.

Notation rstate := (rstate FS).
Notation rstep := (rstep FS fs_write_file fs_exec resp_fail not_performed cksum resp_len req_len).

Definition live (s : rstate) : bool := negb (tstate_eqb (r_state s) TTerminated).

(* one loop iteration: nothing happens once the transaction is Terminated *)
Definition rstep1 (s : rstate) (e : N * rop) : rstate :=
  if live s then fst (rstep (fst e) (snd e) s) else set_r_out [] s.

Definition rrun (ops : list (N * rop)) (s : rstate) : rstate := fold_left rstep1 ops s.

(* everything emitted during a history *)
Fixpoint routs (ops : list (N * rop)) (s : rstate) : list out :=
  match ops with
  | [] => []
  | e :: t => let s' := rstep1 s e in rev (r_out s') ++ routs t s'
  end.

Lemma rrun_inv (P : rstate -> Prop) :
  (forall s e, P s -> P (rstep1 s e)) -> forall ops s, P s -> P (rrun ops s).
Proof.
  intros Hstep ops. induction ops as [|e t IH]; intros s H; cbn [rrun fold_left]; [exact H|].
  apply IH. apply Hstep. exact H.
Qed.

Lemma routs_inv (P : rstate -> Prop) (Q : out -> Prop) :
  (forall s e, P s -> P (rstep1 s e) /\ Forall Q (r_out (rstep1 s e))) ->
  forall ops s, P s -> Forall Q (routs ops s).
Proof.
  intros Hstep ops. induction ops as [|e t IH]; intros s H; cbn [routs]; [constructor|].
  destruct (Hstep s e H) as (H1 & H2). apply Forall_app. split.
  - apply Forall_rev. exact H2.
  - apply IH. exact H1.
Qed.

(* ---- C04 / C10: the filestore is frozen once the receive-data phase is left ---- *)
Lemma frozen_step1 (s : rstate) e : not_recv FS s ->
  r_fs (rstep1 s e) = r_fs s /\ not_recv FS (rstep1 s e).
Proof.
  intros H. unfold rstep1. destruct (live s).
  - destruct (rstep_frozen FS fs_write_file fs_exec resp_fail not_performed cksum resp_len req_len
                (fst e) (snd e) s H) as (A & B & _). auto.
  - unfold not_recv in *. cbn. auto.
Qed.

Theorem frozen_run ops (s : rstate) : not_recv FS s ->
  r_fs (rrun ops s) = r_fs s /\ not_recv FS (rrun ops s).
Proof.
  revert s. induction ops as [|e t IH]; intros s H; cbn [rrun fold_left]; [auto|].
  destruct (frozen_step1 s e H) as (A & B). destruct (IH _ B) as (C & D).
  fold (rrun t (rstep1 s e)). split; [congruence|exact D].
Qed.

(* ---- C13: the filestore responses are frozen with the filestore ---- *)
Theorem resps_frozen_run ops (s : rstate) : not_recv FS s -> r_resps (rrun ops s) = r_resps s.
Proof.
  revert s. induction ops as [|e t IH]; intros s H; cbn [rrun fold_left]; [auto|].
  destruct (frozen_step1 s e H) as (_ & B). fold (rrun t (rstep1 s e)). rewrite (IH _ B).
  unfold rstep1. destruct (live s); [|reflexivity].
  apply (rstep_resps_frozen FS fs_write_file fs_exec resp_fail not_performed cksum resp_len req_len). exact H.
Qed.

(* ---- C04: no file-integrity failure is reported after a successful delivery ---- *)
Lemma J4_step1 (s : rstate) e : J4 FS s -> J4 FS (rstep1 s e) /\ Forall (clean) (r_out (rstep1 s e)).
Proof.
  intros H. assert (H1 : J4 FS (rstep1 s e)).
  { unfold rstep1. destruct (live s).
    - apply J4_rstep. exact H.
    - destruct H as (A & B & C & D). unfold J4, fin_clean, not_recv in *. cbn. auto. }
  split; [exact H1|]. destruct H1 as (_ & _ & _ & D). exact D.
Qed.

Theorem clean_run ops (s : rstate) : J4 FS s -> Forall clean (routs ops s).
Proof. apply (routs_inv (J4 FS) clean). intros s0 e H. apply J4_step1. exact H. Qed.

End RecvRun.

Arguments rrun {FS}.
Arguments routs {FS}.
Arguments rstep1 {FS}.
Arguments live {FS}.
