(* C17: the fault handler dispatch of both machines, and "no limit fault before the limit". *)
From CFDP Require Import Base.Prelude Model.Segments Model.Timer Model.TxTypes Model.Recv Model.Send
  Proofs.Tac Proofs.TimerP.

Section FaultP.
Variable FS : Type.
Variable cksum : cktype -> bytes -> N.
Notation rstate := (rstate FS).

(* receiver: the action taken is the one configured for the condition (Cancel when none is) *)
Lemma r_dispatch now c (s : rstate) :
  let '(s', cont) := handle_fault now c s in
  In (OInd (IFault c (r_recvd s))) (r_out s') /\ r_cond s' = c /\
  match handler (r_cfg s) c with
  | AIgnore => cont = true /\ r_phase s' = r_phase s /\ r_state s' = r_state s /\ r_timer s' = r_timer s
  | ACancel => cont = false /\ r_phase s' = RCancelled
  | ASuspend => cont = false /\ r_state s' = TSuspended /\ r_phase s' = r_phase s
  | AAbandon => cont = false /\ r_state s' = TTerminated /\ r_status s' = STerminated /\
                In (OInd (IAbandon c (r_recvd s))) (r_out s')
  end.
Proof.
  unfold handle_fault. cbn [r_cfg set_r_cond emit_ind set_r_out].
  destruct (handler (r_cfg s) c); cbn.
  - unfold cancel_. destruct (cfg_mode _); [|destruct (closure _)]; cbn; auto 8.
  - auto 8.
  - auto 8.
  - auto 10.
Qed.

(* sender *)
Lemma s_dispatch now c (s : sstate) :
  let s' := s_handle_fault cksum now c s in
  In (OInd (IFault c (s_sent s))) (s_out s') /\ s_cond s' = c /\
  match handler (s_cfg s) c with
  | AIgnore => s_phase s' = s_phase s /\ s_state s' = s_state s /\ s_timer s' = s_timer s
  | ACancel => s_phase s' = SCancelled /\ exists e, s_eof s' = Some (e, true) /\ eof_cond e = c
  | ASuspend => s_state s' = TSuspended /\ s_phase s' = s_phase s
  | AAbandon => s_state s' = TTerminated /\ s_status s' = STerminated /\
                In (OInd (IAbandon c (s_sent s))) (s_out s')
  end.
Proof.
  cbn zeta. unfold s_handle_fault. cbn [s_cfg set_s_cond semit_ind set_s_out].
  destruct (handler (s_cfg s) c).
  - unfold s_cancel_, prepare_eof, get_checksum.
    repeat (destr_inner; cbn [fst snd]); cbn; splits; auto; eexists; split; reflexivity.
  - cbn. auto 8.
  - cbn. auto 8.
  - cbn. auto 10.
Qed.

(* no inactivity fault is declared before the limit is reached *)
Lemma r_no_inactivity_fault_before_limit now (s : rstate) :
  snd (c_limit_reached now (t_inact (r_timer s))) = false ->
  r_out (fst (ht_inactivity now s)) = r_out s /\ snd (ht_inactivity now s) = true.
Proof.
  intros H. unfold ht_inactivity. destruct (c_limit_reached now (t_inact (r_timer s))) as [ci lim].
  cbn [snd] in H. subst lim. cbn [fst snd]. destruct (c_occurred ci); cbn; auto.
Qed.

(* no positive-ACK-limit fault (Finished phase) / abandon (Cancelled phase) before the limit *)
Lemma ht_nak_quiet now (s : rstate) : r_out (ht_nak now s) = r_out s /\ r_phase (ht_nak now s) = r_phase s /\
  t_ack (r_timer (ht_nak now s)) = t_ack (r_timer s).
Proof. unfold ht_nak, c_timeout_occurred. repeat (destr_inner; cbn [fst snd]); auto. Qed.
Lemma r_no_ack_fault_before_limit now (s : rstate) : r_phase s <> RecvData ->
  snd (c_limit_reached now (t_ack (r_timer s))) = false -> r_out (ht_phase now s) = r_out s.
Proof.
  intros Hp H. unfold ht_phase. destruct (ht_nak_quiet now s) as (Q1 & Q2 & Q3).
  rewrite <- Q1. rewrite <- Q3 in H. rewrite <- Q2 in Hp. remember (ht_nak now s) as s1 eqn:E; clear E.
  unfold ht_ackphase. destruct (r_phase s1); [congruence| |];
    destruct (c_limit_reached now (t_ack (r_timer s1))) as [c lim]; cbn [snd] in H; subst lim;
    unfold set_fin_flag; repeat (destr_inner; cbn [fst snd]); reflexivity.
Qed.

End FaultP.
