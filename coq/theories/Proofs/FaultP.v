(* C17: the fault handler dispatch of both machines, and "no limit fault before the limit". *)
From CFDP Require Import Base.Prelude Model.Segments Model.Timer Model.TxTypes Model.Recv Model.Send
  Proofs.Tac Proofs.TimerP.

Section FaultP.
Variable FS : Type.
Variable cksum : cktype -> bytes -> N.
Variable resp_len : fsresp -> N.
Variable req_len : fsreq -> N.
Notation rstate := (rstate FS).

(* receiver: the action taken is the one configured for the condition (Cancel when none is) *)
Lemma r_dispatch now c (s : rstate) :
  let '(s', cont) := handle_fault now c s in
  In (OInd (IFault c (r_recvd s))) (r_out s') /\ r_cond s' = c /\
  match handler (r_cfg s) c with
  | AIgnore => cont = true /\ r_phase s' = r_phase s /\ r_state s' = r_state s /\ r_timer s' = r_timer s
  | ACancel => cont = false /\ r_phase s' = RCancelled
  | ASuspend => cont = false /\ r_state s' = TSuspended /\ r_phase s' = r_phase s
  | AAbandon => cont = false /\ r_state s' = TTerminated /\ r_status s' = STerminated /\
                In (OInd (IAbandon c (r_recvd s))) (r_out s')
  end.
Proof.
  unfold handle_fault. cbn [r_cfg set_r_cond emit_ind set_r_out].
  destruct (handler (r_cfg s) c); cbn.
  - unfold cancel_. destruct (cfg_mode _); [|destruct (closure _)]; cbn; auto 8.
  - auto 8.
  - auto 8.
  - auto 10.
Qed.

(* sender *)
Lemma s_dispatch now c (s : sstate) :
  let s' := s_handle_fault cksum now c s in
  In (OInd (IFault c (s_sent s))) (s_out s') /\ s_cond s' = c /\
  match handler (s_cfg s) c with
  | AIgnore => s_phase s' = s_phase s /\ s_state s' = s_state s /\ s_timer s' = s_timer s
  | ACancel => s_phase s' = SCancelled /\ exists e, s_eof s' = Some (e, true) /\ eof_cond e = c
  | ASuspend => s_state s' = TSuspended /\ s_phase s' = s_phase s
  | AAbandon => s_state s' = TTerminated /\ s_status s' = STerminated /\
                In (OInd (IAbandon c (s_sent s))) (s_out s')
  end.
Proof.
  cbn zeta. unfold s_handle_fault. cbn [s_cfg set_s_cond semit_ind set_s_out].
  destruct (handler (s_cfg s) c).
  - unfold s_cancel_, prepare_eof, get_checksum.
    repeat (destr_inner; cbn [fst snd]); cbn; splits; auto; eexists; split; reflexivity.
  - cbn. auto 8.
  - cbn. auto 8.
  - cbn. auto 10.
Qed.

(* no inactivity fault is declared before the limit is reached *)
Lemma r_no_inactivity_fault_before_limit now (s : rstate) :
  snd (c_limit_reached now (t_inact (r_timer s))) = false ->
  r_out (fst (ht_inactivity now s)) = r_out s /\ snd (ht_inactivity now s) = true.
Proof.
  intros H. unfold ht_inactivity. destruct (c_limit_reached now (t_inact (r_timer s))) as [ci lim].
  cbn [snd] in H. subst lim. cbn [fst snd]. destruct (c_occurred ci); cbn; auto.
Qed.

(* no positive-ACK-limit fault (Finished phase) / abandon (Cancelled phase) before the limit *)
Lemma ht_nak_quiet now (s : rstate) : r_out (ht_nak now s) = r_out s /\ r_phase (ht_nak now s) = r_phase s /\
  t_ack (r_timer (ht_nak now s)) = t_ack (r_timer s).
Proof. unfold ht_nak, c_timeout_occurred. repeat (destr_inner; cbn [fst snd]); auto. Qed.
Lemma r_no_ack_fault_before_limit now (s : rstate) : r_phase s <> RecvData ->
  snd (c_limit_reached now (t_ack (r_timer s))) = false -> r_out (ht_phase now s) = r_out s.
Proof.
  intros Hp H. unfold ht_phase. destruct (ht_nak_quiet now s) as (Q1 & Q2 & Q3).
  rewrite <- Q1. rewrite <- Q3 in H. rewrite <- Q2 in Hp. remember (ht_nak now s) as s1 eqn:E; clear E.
  unfold ht_ackphase. destruct (r_phase s1); [congruence| |];
    destruct (c_limit_reached now (t_ack (r_timer s1))) as [c lim]; cbn [snd] in H; subst lim;
    unfold set_fin_flag; repeat (destr_inner; cbn [fst snd]); reflexivity.
Qed.

(* ---- the retransmission schedule: one retransmission per expiration before the limit ---- *)
(* sender, SendEof / Cancelled: an ACK-timer expiration that is not the limit marks the EOF for ONE
   retransmission and declares nothing *)
Lemma s_ack_expiry_marks_eof now (s : sstate) :
  let ca := c_update now (t_ack (s_timer s)) in
  c_occurred ca = true -> c_count ca <> c_max ca ->
  ht_ack_eof cksum now s = set_eof_flag true (supd_ack (fun _ => ca) s).
Proof.
  cbn zeta. intros Ho Hc. unfold ht_ack_eof, c_timeout_occurred. cbn [fst snd]. rewrite Ho.
  cbn [s_timer supd_ack set_s_timer t_ack set_ack].
  destruct (N.eqb_spec (c_count (c_update now (t_ack (s_timer s)))) (c_max (c_update now (t_ack (s_timer s))))); [contradiction|reflexivity].
Qed.
(* ... and no expiration, nothing at all *)
Lemma s_no_ack_expiry_quiet now (s : sstate) :
  c_occurred (c_update now (t_ack (s_timer s))) = false ->
  ht_ack_eof cksum now s = supd_ack (fun _ => c_update now (t_ack (s_timer s))) s.
Proof. intros Ho. unfold ht_ack_eof, c_timeout_occurred. cbn [fst snd]. rewrite Ho. reflexivity. Qed.
(* the send arm then emits exactly one EOF PDU (the stored one), clears the mark and restarts the ACK
   timer; without the mark it emits nothing *)
Lemma s_send_eof_once now (s : sstate) e :
  s_eof s = Some (e, true) ->
  let s' := send_eof resp_len req_len now s in
  (exists p, s_out s' = OPdu p :: s_out s /\ o_payload p = PEof e) /\ s_eof s' = Some (e, false) /\
  t_ack (s_timer s') = c_restart now (t_ack (s_timer s)) /\ send_eof resp_len req_len now s' = s'.
Proof.
  intros He. cbn zeta.
  assert (E : send_eof resp_len req_len now s =
              set_s_eof (Some (e, false)) (semit_pdu resp_len req_len (PEof e) (supd_ack (c_restart now) s))).
  { unfold send_eof. rewrite He. unfold set_eof_flag.
    change (s_eof (semit_pdu resp_len req_len (PEof e) (supd_ack (c_restart now) s))) with (s_eof s).
    rewrite He. reflexivity. }
  rewrite E. cbn. splits; auto. eexists. split; reflexivity.
Qed.
Lemma s_send_eof_unmarked now (s : sstate) :
  eof_flag s = false -> send_eof resp_len req_len now s = s.
Proof. unfold eof_flag, send_eof. destruct (s_eof s) as [[e [|]]|]; intros H; [discriminate|reflexivity|reflexivity]. Qed.

(* receiver, Finished / Cancelled: an ACK-timer expiration that is not the limit marks the Finished
   PDU for ONE retransmission, restarts the ACK timer and declares nothing *)
Lemma r_ack_expiry_marks_finished now (s : rstate) :
  r_phase s <> RecvData ->
  let c := c_update now (t_ack (r_timer s)) in
  c_count c <> c_max c -> c_occurred c = true ->
  ht_ackphase now s = upd_ack (c_restart now) (set_fin_flag true (upd_ack (fun _ => c) s)).
Proof.
  intros Hp. cbn zeta. intros Hc Ho. unfold ht_ackphase, c_limit_reached. cbn [fst snd].
  destruct (N.eqb_spec (c_count (c_update now (t_ack (r_timer s)))) (c_max (c_update now (t_ack (r_timer s))))); [contradiction|].
  destruct (r_phase s); [congruence| |]; rewrite Ho; reflexivity.
Qed.
(* the send arm then emits exactly one Finished PDU (the prepared one) and clears the mark *)
Lemma r_send_finished_once now (s : rstate) f :
  r_fin s = Some (f, true) ->
  let s' := send_finished resp_len req_len now s in
  (exists p, r_out s' = OPdu p :: r_out s /\ o_payload p = PFinished f) /\ r_fin s' = Some (f, false).
Proof.
  intros He. cbn zeta.
  assert (E : send_finished resp_len req_len now s =
              set_r_fin (Some (f, false)) (emit_pdu resp_len req_len (PFinished f) (upd_ack (c_restart now) s))).
  { unfold send_finished. change (r_fin (upd_ack (c_restart now) s)) with (r_fin s). rewrite He.
    unfold set_fin_flag.
    change (r_fin (emit_pdu resp_len req_len (PFinished f) (upd_ack (c_restart now) s))) with (r_fin s).
    rewrite He. reflexivity. }
  rewrite E. cbn. split; [eexists; split; reflexivity|reflexivity].
Qed.

(* ---- the receiver's NAK rounds: progress resets the count, no fault before the limit ---- *)
Notation send_naks := (send_naks (FS:=FS) resp_len req_len).
(* progress since the last NAK round (received_file_size moved): the NAK timer is reset - count 0 -
   no fault is declared and one NAK PDU is emitted *)
Lemma r_nak_round_progress now (s : rstate) : r_nak_recvd s <> r_recvd s ->
  let s' := send_naks now s in
  t_nak (r_timer s') = c_reset now (t_nak (r_timer s)) /\ r_nak_recvd s' = r_recvd s /\
  r_cond s' = r_cond s /\ r_phase s' = r_phase s /\ r_state s' = r_state s /\
  exists p, r_out s' = OPdu p :: r_out s /\ (exists n, o_payload p = PNakP n).
Proof.
  intros Hne. cbn zeta. unfold Recv.send_naks.
  destruct (N.eqb_spec (r_nak_recvd s) (r_recvd s)) as [E|_]; [contradiction|].
  cbn. splits; auto. eexists. split; [reflexivity|]. eexists. reflexivity.
Qed.
(* no progress, limit not reached: the timer is restarted with its count kept, no fault, one NAK PDU *)
Lemma r_nak_round_repeat now (s : rstate) : r_nak_recvd s = r_recvd s ->
  snd (c_limit_reached now (t_nak (r_timer s))) = false ->
  let s' := send_naks now s in
  t_nak (r_timer s') = c_restart now (c_update now (t_nak (r_timer s))) /\
  r_cond s' = r_cond s /\ r_phase s' = r_phase s /\ r_state s' = r_state s /\
  exists p, r_out s' = OPdu p :: r_out s /\ (exists n, o_payload p = PNakP n).
Proof.
  intros He Hl. cbn zeta. unfold Recv.send_naks. rewrite He, N.eqb_refl.
  unfold c_limit_reached in *. cbn [fst snd] in *. rewrite Hl.
  cbn. splits; auto. eexists. split; [reflexivity|]. eexists. reflexivity.
Qed.
(* no progress and the limit reached: the NakLimitReached fault is declared (handler dispatch: above) *)
Lemma r_nak_round_limit now (s : rstate) : r_nak_recvd s = r_recvd s ->
  snd (c_limit_reached now (t_nak (r_timer s))) = true ->
  exists s1, s1 = upd_nak (fun _ => c_update now (t_nak (r_timer s))) s /\
  send_naks now s =
    (let '(s2, cont) := handle_fault now NakLimitReached s1 in
     if cont then
       let s3 := upd_nak (c_restart now) s2 in
       let n := N.to_nat (N.min (N.of_nat (length (r_naks s3))) (max_nak_num (r_cfg s3))) in
       emit_pdu resp_len req_len
         (PNakP (mkNak (min_list (map fst (firstn n (r_naks s3))) 0)
                       (max_list (map snd (firstn n (r_naks s3))) (end_or_0 (r_segs (set_r_naks (skipn n (r_naks s3)) s3))))
                       (firstn n (r_naks s3))))
         (set_r_naks (skipn n (r_naks s3)) s3)
     else s2).
Proof.
  intros He Hl. eexists. split; [reflexivity|]. unfold Recv.send_naks. rewrite He, N.eqb_refl.
  unfold c_limit_reached in *. cbn [fst snd] in *. rewrite Hl.
  destruct (handle_fault now NakLimitReached _) as [s2 cont]. destruct cont; reflexivity.
Qed.

(* sender: an ACK(EOF) stops the ACK timer with its count cleared; any PDU received while waiting
   resets the inactivity count *)
Lemma s_ack_eof_clears now a (s : sstate) : cfg_mode (s_cfg s) = Acked -> ack_dir a = DirEoF ->
  let s' := fst (s_process_pdu now (PAck a) s) in
  c_count (t_ack (s_timer s')) = 0 /\ c_paused (t_ack (s_timer s')) = true.
Proof.
  intros Hm Ha. cbn zeta. unfold s_process_pdu.
  destruct (sphase_eqb (s_phase s) SendEof && negb (ssuspended s));
    cbn [s_cfg supd_inact set_s_timer]; rewrite Hm, Ha; cbn [fst];
    unfold c_pause, c_reset, c_update; cbn; rewrite N.sub_diag;
    replace (0 / c_timeout (t_ack (s_timer s))) with 0 by (destruct (c_timeout (t_ack (s_timer s))); reflexivity);
    rewrite N.eqb_refl; cbn; auto.
Qed.
Lemma s_pdu_resets_inactivity now p (s : sstate) : s_phase s = SendEof -> s_state s <> TSuspended ->
  exists s0, t_inact (s_timer s0) = c_reset now (t_inact (s_timer s)) /\
  s_process_pdu now p s = s_process_pdu now p s0 /\ s0 = supd_inact (c_reset now) s.
Proof.
  intros Hp Hs. exists (supd_inact (c_reset now) s). splits; [reflexivity| |reflexivity].
  unfold s_process_pdu. rewrite Hp. unfold ssuspended.
  destruct (s_state s) eqn:Es; try congruence; cbn; rewrite ?Hp, ?Es; cbn; reflexivity.
Qed.

End FaultP.
