(* C17: the fault handler dispatch of both machines, and "no limit fault before the limit". *)
From CFDP Require Import Base.Prelude Model.Segments Model.Timer Model.TxTypes Model.Recv Model.Send
  Proofs.Tac Proofs.TimerP.

Section FaultP.
Variable FS : Type.
Variable cksum : cktype -> bytes -> N.
Notation rstate := (rstate FS).

(* receiver: the action taken is the one configured for the condition (Cancel when none is) *)
Lemma r_dispatch now c (s : rstate) :
  let '(s', cont) := handle_fault now c s in
  In (OInd (IFault c (r_recvd s))) (r_out s') /\ r_cond s' = c /\
  match handler (r_cfg s) c with
  | AIgnore => cont = true /\ r_phase s' = r_phase s /\ r_state s' = r_state s /\ r_timer s' = r_timer s
  | ACancel => cont = false /\ r_phase s' = RCancelled
  | ASuspend => cont = false /\ r_state s' = TSuspended /\ r_phase s' = r_phase s
  | AAbandon => cont = false /\ r_state s' = TTerminated /\ r_status s' = STerminated /\
                In (OInd (IAbandon c (r_recvd s))) (r_out s')
  end.
Proof.
  unfold handle_fault. cbn [r_cfg set_r_cond emit_ind set_r_out].
  destruct (handler (r_cfg s) c); cbn.
  - unfold cancel_. destruct (cfg_mode _); [|destruct (closure _)]; cbn; auto 8.
  - auto 8.
  - auto 8.
  - auto 10.
Qed.

(* sender *)
Lemma s_dispatch now c (s : sstate) :
  let s' := s_handle_fault cksum now c s in
  In (OInd (IFault c (s_sent s))) (s_out s') /\ s_cond s' = c /\
  match handler (s_cfg s) c with
  | AIgnore => s_phase s' = s_phase s /\ s_state s' = s_state s /\ s_timer s' = s_timer s
  | ACancel => s_phase s' = SCancelled /\ exists e, s_eof s' = Some (e, true) /\ eof_cond e = c
  | ASuspend => s_state s' = TSuspended /\ s_phase s' = s_phase s
  | AAbandon => s_state s' = TTerminated /\ s_status s' = STerminated /\
                In (OInd (IAbandon c (s_sent s))) (s_out s')
  end.
Proof.
  cbn zeta. unfold s_handle_fault. cbn [s_cfg set_s_cond semit_ind set_s_out].
  destruct (handler (s_cfg s) c).
  - unfold s_cancel_, prepare_eof, get_checksum.
    repeat (destr_inner; cbn [fst snd]); cbn; splits; auto; eexists; split; reflexivity.
  - cbn. auto 8.
  - cbn. auto 8.
  - cbn. auto 10.
Qed.

(* no inactivity fault is declared before the limit is reached *)
Lemma r_no_inactivity_fault_before_limit now (s : rstate) :
  snd (c_limit_reached now (t_inact (r_timer s))) = false ->
  r_out (fst (ht_inactivity now s)) = r_out s /\ snd (ht_inactivity now s) = true.
Proof.
  intros H. unfold ht_inactivity. destruct (c_limit_reached now (t_inact (r_timer s))) as [ci lim].
  cbn [snd] in H. subst lim. cbn [fst snd]. destruct (c_occurred ci); cbn; auto.
Qed.

(* no positive-ACK-limit fault (Finished phase) / abandon (Cancelled phase) before the limit *)
Lemma ht_nak_quiet now (s : rstate) : r_out (ht_nak now s) = r_out s /\ r_phase (ht_nak now s) = r_phase s /\
  t_ack (r_timer (ht_nak now s)) = t_ack (r_timer s).
Proof. unfold ht_nak, c_timeout_occurred. repeat (destr_inner; cbn [fst snd]); auto. Qed.
Lemma r_no_ack_fault_before_limit now (s : rstate) : r_phase s <> RecvData ->
  snd (c_limit_reached now (t_ack (r_timer s))) = false -> r_out (ht_phase now s) = r_out s.
Proof.
  intros Hp H. unfold ht_phase. destruct (ht_nak_quiet now s) as (Q1 & Q2 & Q3).
  rewrite <- Q1. rewrite <- Q3 in H. rewrite <- Q2 in Hp. remember (ht_nak now s) as s1 eqn:E; clear E.
  unfold ht_ackphase. destruct (r_phase s1); [congruence| |];
    destruct (c_limit_reached now (t_ack (r_timer s1))) as [c lim]; cbn [snd] in H; subst lim;
    unfold set_fin_flag; repeat (destr_inner; cbn [fst snd]); reflexivity.
Qed.

(* ---- the retransmission schedule: one retransmission per expiration before the limit ---- *)
(* sender, SendEof / Cancelled: an ACK-timer expiration that is not the limit marks the EOF for ONE
   retransmission and declares nothing *)
Lemma s_ack_expiry_marks_eof now (s : sstate) :
  let ca := c_update now (t_ack (s_timer s)) in
  c_occurred ca = true -> c_count ca <> c_max ca ->
  ht_ack_eof cksum now s = set_eof_flag true (supd_ack (fun _ => ca) s).
Proof.
  cbn zeta. intros Ho Hc. unfold ht_ack_eof, c_timeout_occurred. cbn [fst snd]. rewrite Ho.
  cbn [s_timer supd_ack set_s_timer t_ack set_ack].
  destruct (N.eqb_spec (c_count (c_update now (t_ack (s_timer s)))) (c_max (c_update now (t_ack (s_timer s))))); [contradiction|reflexivity].
Qed.
(* ... and no expiration, nothing at all *)
Lemma s_no_ack_expiry_quiet now (s : sstate) :
  c_occurred (c_update now (t_ack (s_timer s))) = false ->
  ht_ack_eof cksum now s = supd_ack (fun _ => c_update now (t_ack (s_timer s))) s.
Proof. intros Ho. unfold ht_ack_eof, c_timeout_occurred. cbn [fst snd]. rewrite Ho. reflexivity. Qed.
(* the send arm then emits exactly one EOF PDU (the stored one), clears the mark and restarts the ACK
   timer; without the mark it emits nothing *)
Lemma s_send_eof_once resp_len req_len now (s : sstate) e :
  s_eof s = Some (e, true) ->
  let s' := send_eof resp_len req_len now s in
  (exists p, s_out s' = OPdu p :: s_out s /\ o_payload p = PEof e) /\ s_eof s' = Some (e, false) /\
  t_ack (s_timer s') = c_restart now (t_ack (s_timer s)) /\ send_eof resp_len req_len now s' = s'.
Proof.
  intros He. cbn zeta.
  assert (E : send_eof resp_len req_len now s =
              set_s_eof (Some (e, false)) (semit_pdu resp_len req_len (PEof e) (supd_ack (c_restart now) s))).
  { unfold send_eof. rewrite He. unfold set_eof_flag.
    change (s_eof (semit_pdu resp_len req_len (PEof e) (supd_ack (c_restart now) s))) with (s_eof s).
    rewrite He. reflexivity. }
  rewrite E. cbn. splits; auto. eexists. split; reflexivity.
Qed.
Lemma s_send_eof_unmarked resp_len req_len now (s : sstate) :
  eof_flag s = false -> send_eof resp_len req_len now s = s.
Proof. unfold eof_flag, send_eof. destruct (s_eof s) as [[e [|]]|]; intros H; [discriminate|reflexivity|reflexivity]. Qed.

(* receiver, Finished / Cancelled: an ACK-timer expiration that is not the limit marks the Finished
   PDU for ONE retransmission, restarts the ACK timer and declares nothing *)
Lemma r_ack_expiry_marks_finished now (s : rstate) :
  r_phase s <> RecvData ->
  let c := c_update now (t_ack (r_timer s)) in
  c_count c <> c_max c -> c_occurred c = true ->
  ht_ackphase now s = upd_ack (c_restart now) (set_fin_flag true (upd_ack (fun _ => c) s)).
Proof.
  intros Hp. cbn zeta. intros Hc Ho. unfold ht_ackphase, c_limit_reached. cbn [fst snd].
  destruct (N.eqb_spec (c_count (c_update now (t_ack (r_timer s)))) (c_max (c_update now (t_ack (r_timer s))))); [contradiction|].
  destruct (r_phase s); [congruence| |]; rewrite Ho; reflexivity.
Qed.
(* the send arm then emits exactly one Finished PDU (the prepared one) and clears the mark *)
Lemma r_send_finished_once resp_len req_len now (s : rstate) f :
  r_fin s = Some (f, true) ->
  let s' := send_finished resp_len req_len now s in
  (exists p, r_out s' = OPdu p :: r_out s /\ o_payload p = PFinished f) /\ r_fin s' = Some (f, false).
Proof.
  intros He. cbn zeta.
  assert (E : send_finished resp_len req_len now s =
              set_r_fin (Some (f, false)) (emit_pdu resp_len req_len (PFinished f) (upd_ack (c_restart now) s))).
  { unfold send_finished. change (r_fin (upd_ack (c_restart now) s)) with (r_fin s). rewrite He.
    unfold set_fin_flag.
    change (r_fin (emit_pdu resp_len req_len (PFinished f) (upd_ack (c_restart now) s))) with (r_fin s).
    rewrite He. reflexivity. }
  rewrite E. cbn. split; [eexists; split; reflexivity|reflexivity].
Qed.

End FaultP.
