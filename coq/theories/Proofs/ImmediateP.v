(* C08, the immediate NAK procedure: a gap detected by newly arrived file data (it starts beyond the
   end of what was held) is queued for the very next send opportunity when the configured delay is
   zero, and put on the delayed list - with a timer of that delay - otherwise; nothing else is queued. *)
From CFDP Require Import Base.Prelude Model.Segments Model.Timer Model.TxTypes Model.Recv Proofs.Tac Proofs.TimerP.

Section ImmediateP.
Variable FS : Type.
Variable fs_write_file : FS -> bytes -> bytes -> option FS.
Variable fs_exec : FS -> fsreq -> FS * fsresp.
Variable resp_fail : fsresp -> bool.
Variable not_performed : fsreq -> fsresp.
Variable cksum : cktype -> bytes -> N.
Notation rstate := (rstate FS).
Notation pdu_filedata_acked := (pdu_filedata_acked FS fs_write_file fs_exec resp_fail not_performed cksum).
Notation check_finished := (check_finished FS fs_write_file fs_exec resp_fail not_performed cksum).

Lemma check_finished_before_eof now (s : rstate) : eof_received s = false -> check_finished now s = s.
Proof.
  intros He. unfold Recv.check_finished. rewrite He.
  destruct (rphase_eqb (r_phase s) RecvData); destruct (is_some (r_meta s)); reflexivity.
Qed.

Lemma store_fields off d (s : rstate) :
  let s' := store_file_data off d s in
  r_nakproc s' = r_nakproc s /\ r_fsize s' = r_fsize s /\ r_timer s' = r_timer s /\ r_naks s' = r_naks s /\
  r_delayed s' = r_delayed s /\ r_phase s' = r_phase s.
Proof.
  cbn zeta. unfold store_file_data. destruct (is_nil d); [splits; reflexivity|].
  destruct (ins _ _ _). cbn. splits; reflexivity.
Qed.

Theorem immediate_gap_requested now offset data delay (s : rstate) :
  r_phase s = RecvData -> r_nakproc s = Immediate delay -> eof_received s = false ->
  snd (c_timeout_occurred now (t_nak (r_timer s))) = false ->
  let prev_end := match seg_end (r_segs s) with Some e => e | None => 0 end in
  prev_end < offset ->
  let s' := pdu_filedata_acked now offset data s in
  if delay =? 0
  then r_naks s' = r_naks s ++ [(prev_end, offset)] /\ r_delayed s' = r_delayed s
  else r_naks s' = r_naks s /\ r_delayed s' = r_delayed s ++ [(new_delay_counter now delay, prev_end, offset)].
Proof.
  intros Hp Hn He Ht. cbn zeta. intros Hlt. unfold Recv.pdu_filedata_acked. rewrite Hp. cbn [rphase_eqb negb].
  destruct (store_fields offset data s) as (S1 & S2 & S3 & S4 & S5 & S6).
  set (s1 := store_file_data offset data s) in *. clearbody s1.
  set (s2 := emit_ind (IFileSegmentRecv offset (N.of_nat (length data))) s1).
  change (r_nakproc s2) with (r_nakproc s1). rewrite S1, Hn.
  change (eof_received s2) with (is_some (r_fsize s1)). rewrite S2. fold (eof_received s). rewrite He.
  change (r_timer s2) with (r_timer s1). rewrite S3.
  unfold c_timeout_occurred in *. cbn [fst snd] in *. rewrite Ht.
  apply N.ltb_lt in Hlt. rewrite Hlt.
  destruct (delay =? 0).
  - rewrite check_finished_before_eof.
    + cbn. rewrite S4, S5. auto.
    + change (eof_received (set_r_naks _ (upd_nak _ s2))) with (is_some (r_fsize s1)). rewrite S2. exact He.
  - rewrite check_finished_before_eof.
    + cbn. rewrite S4, S5. auto.
    + change (eof_received (set_r_delayed _ (upd_nak _ s2))) with (is_some (r_fsize s1)). rewrite S2. exact He.
Qed.

(* ... and when the NAK timer has expired at that instant, the whole list of what is missing after
   storing the new data is queued instead (and the timer restarted) *)
Theorem immediate_expired_requests_all now offset data delay (s : rstate) :
  r_phase s = RecvData -> r_nakproc s = Immediate delay -> eof_received s = false ->
  snd (c_timeout_occurred now (t_nak (r_timer s))) = true ->
  r_naks (pdu_filedata_acked now offset data s) = get_all_naks (store_file_data offset data s).
Proof.
  intros Hp Hn He Ht. unfold Recv.pdu_filedata_acked. rewrite Hp. cbn [rphase_eqb negb].
  destruct (store_fields offset data s) as (S1 & S2 & S3 & S4 & S5 & S6).
  set (s1 := store_file_data offset data s) in *. clearbody s1.
  set (s2 := emit_ind (IFileSegmentRecv offset (N.of_nat (length data))) s1).
  change (r_nakproc s2) with (r_nakproc s1). rewrite S1, Hn.
  change (eof_received s2) with (is_some (r_fsize s1)). rewrite S2. fold (eof_received s). rewrite He.
  change (r_timer s2) with (r_timer s1). rewrite S3.
  unfold c_timeout_occurred in *. cbn [fst snd] in *. rewrite Ht.
  rewrite check_finished_before_eof.
  - reflexivity.
  - change (eof_received (upd_nak _ (set_r_naks _ (upd_nak _ s2)))) with (is_some (r_fsize s1)). rewrite S2. exact He.
Qed.

(* the delayed check: when the delay of the first entry [a, b) has elapsed (and not yet that of the
   next one), exactly what is STILL missing inside [a, min b filesize) is queued - nothing if the gap
   has been filled meanwhile - plus the metadata marker while the metadata is missing; the entry is
   consumed *)
Theorem delayed_gap_requested_if_it_persists now c a b rest (s : rstate) :
  r_delayed s = (c, a, b) :: rest -> snd (c_timeout_occurred now c) = true ->
  match rest with [] => True | (c2, _, _) :: _ => snd (c_timeout_occurred now c2) = false end ->
  let clip e := match r_fsize s with Some f => N.min e f | None => e end in
  let s' := ht_delayed now s in
  r_naks s' = (r_naks s ++ (if is_some (r_meta s) then [] else [(0, 0)])) ++ (gaps (r_segs s) a (clip b) ++ []) /\
  length (r_delayed s') = length rest.
Proof.
  intros Hd Ho Hr. cbn zeta. unfold ht_delayed. rewrite Hd. cbn [expire_delayed].
  destruct (c_timeout_occurred now c) as [c' occ]. cbn [snd] in Ho. subst occ.
  destruct rest as [|[[c2 a2] b2] t].
  - cbn. auto.
  - cbn [expire_delayed]. destruct (c_timeout_occurred now c2) as [c2' occ2]. cbn [snd] in Hr. subst occ2.
    cbn. auto.
Qed.

End ImmediateP.
