(* Side conditions of the codec proofs about the generated discriminant tables (Gen/Enums.v).
   Every lemma is decided by computation over whatever tables the translator produced from the
   current Rust sources: injectivity of the codes (from_u8 (to_u8 x) = Some x for every constructor)
   and "fits its bit field" (to_u8 x < 2^width for the field the codec packs it into).
   A changed discriminant that collides with another one, or no longer fits its field, breaks
   exactly these lemmas. *)
From CFDP Require Import Base.Prelude Gen.Enums.

Ltac enum_case := let x := fresh "x" in intros x; destruct x; vm_compute; reflexivity.

(* generic: codes in a table are pairwise distinct, as a computed boolean *)
Fixpoint nodupb (l : list N) : bool :=
  match l with
  | [] => true
  | x :: r => negb (existsb (N.eqb x) r) && nodupb r
  end.

Lemma Condition_rt : forall x, Condition_from_u8 (Condition_to_u8 x) = Some x.
Proof. enum_case. Qed.
Lemma Condition_fits : forall x, Condition_to_u8 x < 16.
Proof. enum_case. Qed.
Lemma Condition_nodup : nodupb (map snd Condition_table) = true.
Proof. vm_compute; reflexivity. Qed.
Lemma Condition_complete : map fst Condition_table = Condition_all /\ forall x, In x Condition_all.
Proof. split; [reflexivity | intros x; destruct x; vm_compute; tauto]. Qed.

Lemma U3_rt : forall x, U3_from_u8 (U3_to_u8 x) = Some x.
Proof. enum_case. Qed.
Lemma U3_fits : forall x, U3_to_u8 x < 8.
Proof. enum_case. Qed.
Lemma U3_nodup : nodupb (map snd U3_table) = true.
Proof. vm_compute; reflexivity. Qed.
Lemma U3_complete : map fst U3_table = U3_all /\ forall x, In x U3_all.
Proof. split; [reflexivity | intros x; destruct x; vm_compute; tauto]. Qed.

Lemma PDUType_rt : forall x, PDUType_from_u8 (PDUType_to_u8 x) = Some x.
Proof. enum_case. Qed.
Lemma PDUType_fits : forall x, PDUType_to_u8 x < 2.
Proof. enum_case. Qed.
Lemma PDUType_nodup : nodupb (map snd PDUType_table) = true.
Proof. vm_compute; reflexivity. Qed.
Lemma PDUType_complete : map fst PDUType_table = PDUType_all /\ forall x, In x PDUType_all.
Proof. split; [reflexivity | intros x; destruct x; vm_compute; tauto]. Qed.

Lemma Direction_rt : forall x, Direction_from_u8 (Direction_to_u8 x) = Some x.
Proof. enum_case. Qed.
Lemma Direction_fits : forall x, Direction_to_u8 x < 2.
Proof. enum_case. Qed.
Lemma Direction_nodup : nodupb (map snd Direction_table) = true.
Proof. vm_compute; reflexivity. Qed.
Lemma Direction_complete : map fst Direction_table = Direction_all /\ forall x, In x Direction_all.
Proof. split; [reflexivity | intros x; destruct x; vm_compute; tauto]. Qed.

Lemma TransmissionMode_rt : forall x, TransmissionMode_from_u8 (TransmissionMode_to_u8 x) = Some x.
Proof. enum_case. Qed.
Lemma TransmissionMode_fits : forall x, TransmissionMode_to_u8 x < 2.
Proof. enum_case. Qed.
Lemma TransmissionMode_nodup : nodupb (map snd TransmissionMode_table) = true.
Proof. vm_compute; reflexivity. Qed.
Lemma TransmissionMode_complete : map fst TransmissionMode_table = TransmissionMode_all /\ forall x, In x TransmissionMode_all.
Proof. split; [reflexivity | intros x; destruct x; vm_compute; tauto]. Qed.

Lemma TraceControl_rt : forall x, TraceControl_from_u8 (TraceControl_to_u8 x) = Some x.
Proof. enum_case. Qed.
Lemma TraceControl_fits : forall x, TraceControl_to_u8 x < 4.
Proof. enum_case. Qed.
Lemma TraceControl_nodup : nodupb (map snd TraceControl_table) = true.
Proof. vm_compute; reflexivity. Qed.
Lemma TraceControl_complete : map fst TraceControl_table = TraceControl_all /\ forall x, In x TraceControl_all.
Proof. split; [reflexivity | intros x; destruct x; vm_compute; tauto]. Qed.

Lemma CRCFlag_rt : forall x, CRCFlag_from_u8 (CRCFlag_to_u8 x) = Some x.
Proof. enum_case. Qed.
Lemma CRCFlag_fits : forall x, CRCFlag_to_u8 x < 2.
Proof. enum_case. Qed.
Lemma CRCFlag_nodup : nodupb (map snd CRCFlag_table) = true.
Proof. vm_compute; reflexivity. Qed.
Lemma CRCFlag_complete : map fst CRCFlag_table = CRCFlag_all /\ forall x, In x CRCFlag_all.
Proof. split; [reflexivity | intros x; destruct x; vm_compute; tauto]. Qed.

Lemma FileSizeFlag_rt : forall x, FileSizeFlag_from_u8 (FileSizeFlag_to_u8 x) = Some x.
Proof. enum_case. Qed.
Lemma FileSizeFlag_fits : forall x, FileSizeFlag_to_u8 x < 2.
Proof. enum_case. Qed.
Lemma FileSizeFlag_nodup : nodupb (map snd FileSizeFlag_table) = true.
Proof. vm_compute; reflexivity. Qed.
Lemma FileSizeFlag_complete : map fst FileSizeFlag_table = FileSizeFlag_all /\ forall x, In x FileSizeFlag_all.
Proof. split; [reflexivity | intros x; destruct x; vm_compute; tauto]. Qed.

Lemma SegmentationControl_rt : forall x, SegmentationControl_from_u8 (SegmentationControl_to_u8 x) = Some x.
Proof. enum_case. Qed.
Lemma SegmentationControl_fits : forall x, SegmentationControl_to_u8 x < 2.
Proof. enum_case. Qed.
Lemma SegmentationControl_nodup : nodupb (map snd SegmentationControl_table) = true.
Proof. vm_compute; reflexivity. Qed.
Lemma SegmentationControl_complete : map fst SegmentationControl_table = SegmentationControl_all /\ forall x, In x SegmentationControl_all.
Proof. split; [reflexivity | intros x; destruct x; vm_compute; tauto]. Qed.

Lemma SegmentedData_rt : forall x, SegmentedData_from_u8 (SegmentedData_to_u8 x) = Some x.
Proof. enum_case. Qed.
Lemma SegmentedData_fits : forall x, SegmentedData_to_u8 x < 2.
Proof. enum_case. Qed.
Lemma SegmentedData_nodup : nodupb (map snd SegmentedData_table) = true.
Proof. vm_compute; reflexivity. Qed.
Lemma SegmentedData_complete : map fst SegmentedData_table = SegmentedData_all /\ forall x, In x SegmentedData_all.
Proof. split; [reflexivity | intros x; destruct x; vm_compute; tauto]. Qed.

Lemma NakOrKeepAlive_rt : forall x, NakOrKeepAlive_from_u8 (NakOrKeepAlive_to_u8 x) = Some x.
Proof. enum_case. Qed.
Lemma NakOrKeepAlive_fits : forall x, NakOrKeepAlive_to_u8 x < 2.
Proof. enum_case. Qed.
Lemma NakOrKeepAlive_nodup : nodupb (map snd NakOrKeepAlive_table) = true.
Proof. vm_compute; reflexivity. Qed.
Lemma NakOrKeepAlive_complete : map fst NakOrKeepAlive_table = NakOrKeepAlive_all /\ forall x, In x NakOrKeepAlive_all.
Proof. split; [reflexivity | intros x; destruct x; vm_compute; tauto]. Qed.

Lemma DeliveryCode_rt : forall x, DeliveryCode_from_u8 (DeliveryCode_to_u8 x) = Some x.
Proof. enum_case. Qed.
Lemma DeliveryCode_fits : forall x, DeliveryCode_to_u8 x < 2.
Proof. enum_case. Qed.
Lemma DeliveryCode_nodup : nodupb (map snd DeliveryCode_table) = true.
Proof. vm_compute; reflexivity. Qed.
Lemma DeliveryCode_complete : map fst DeliveryCode_table = DeliveryCode_all /\ forall x, In x DeliveryCode_all.
Proof. split; [reflexivity | intros x; destruct x; vm_compute; tauto]. Qed.

Lemma FileStatusCode_rt : forall x, FileStatusCode_from_u8 (FileStatusCode_to_u8 x) = Some x.
Proof. enum_case. Qed.
Lemma FileStatusCode_fits : forall x, FileStatusCode_to_u8 x < 4.
Proof. enum_case. Qed.
Lemma FileStatusCode_nodup : nodupb (map snd FileStatusCode_table) = true.
Proof. vm_compute; reflexivity. Qed.
Lemma FileStatusCode_complete : map fst FileStatusCode_table = FileStatusCode_all /\ forall x, In x FileStatusCode_all.
Proof. split; [reflexivity | intros x; destruct x; vm_compute; tauto]. Qed.

Lemma TransactionStatus_rt : forall x, TransactionStatus_from_u8 (TransactionStatus_to_u8 x) = Some x.
Proof. enum_case. Qed.
Lemma TransactionStatus_fits : forall x, TransactionStatus_to_u8 x < 4.
Proof. enum_case. Qed.
Lemma TransactionStatus_nodup : nodupb (map snd TransactionStatus_table) = true.
Proof. vm_compute; reflexivity. Qed.
Lemma TransactionStatus_complete : map fst TransactionStatus_table = TransactionStatus_all /\ forall x, In x TransactionStatus_all.
Proof. split; [reflexivity | intros x; destruct x; vm_compute; tauto]. Qed.

Lemma MessageType_rt : forall x, MessageType_from_u8 (MessageType_to_u8 x) = Some x.
Proof. enum_case. Qed.
Lemma MessageType_fits : forall x, MessageType_to_u8 x < 256.
Proof. enum_case. Qed.
Lemma MessageType_nodup : nodupb (map snd MessageType_table) = true.
Proof. vm_compute; reflexivity. Qed.
Lemma MessageType_complete : map fst MessageType_table = MessageType_all /\ forall x, In x MessageType_all.
Proof. split; [reflexivity | intros x; destruct x; vm_compute; tauto]. Qed.

Lemma MetadataTLVFieldCode_rt : forall x, MetadataTLVFieldCode_from_u8 (MetadataTLVFieldCode_to_u8 x) = Some x.
Proof. enum_case. Qed.
Lemma MetadataTLVFieldCode_fits : forall x, MetadataTLVFieldCode_to_u8 x < 256.
Proof. enum_case. Qed.
Lemma MetadataTLVFieldCode_nodup : nodupb (map snd MetadataTLVFieldCode_table) = true.
Proof. vm_compute; reflexivity. Qed.
Lemma MetadataTLVFieldCode_complete : map fst MetadataTLVFieldCode_table = MetadataTLVFieldCode_all /\ forall x, In x MetadataTLVFieldCode_all.
Proof. split; [reflexivity | intros x; destruct x; vm_compute; tauto]. Qed.

Lemma PDUDirective_rt : forall x, PDUDirective_from_u8 (PDUDirective_to_u8 x) = Some x.
Proof. enum_case. Qed.
Lemma PDUDirective_fits : forall x, PDUDirective_to_u8 x < 16.
Proof. enum_case. Qed.
Lemma PDUDirective_nodup : nodupb (map snd PDUDirective_table) = true.
Proof. vm_compute; reflexivity. Qed.
Lemma PDUDirective_complete : map fst PDUDirective_table = PDUDirective_all /\ forall x, In x PDUDirective_all.
Proof. split; [reflexivity | intros x; destruct x; vm_compute; tauto]. Qed.

Lemma ACKSubDirective_rt : forall x, ACKSubDirective_from_u8 (ACKSubDirective_to_u8 x) = Some x.
Proof. enum_case. Qed.
Lemma ACKSubDirective_fits : forall x, ACKSubDirective_to_u8 x < 16.
Proof. enum_case. Qed.
Lemma ACKSubDirective_nodup : nodupb (map snd ACKSubDirective_table) = true.
Proof. vm_compute; reflexivity. Qed.
Lemma ACKSubDirective_complete : map fst ACKSubDirective_table = ACKSubDirective_all /\ forall x, In x ACKSubDirective_all.
Proof. split; [reflexivity | intros x; destruct x; vm_compute; tauto]. Qed.

Lemma RecordContinuationState_rt : forall x, RecordContinuationState_from_u8 (RecordContinuationState_to_u8 x) = Some x.
Proof. enum_case. Qed.
Lemma RecordContinuationState_fits : forall x, RecordContinuationState_to_u8 x < 4.
Proof. enum_case. Qed.
Lemma RecordContinuationState_nodup : nodupb (map snd RecordContinuationState_table) = true.
Proof. vm_compute; reflexivity. Qed.
Lemma RecordContinuationState_complete : map fst RecordContinuationState_table = RecordContinuationState_all /\ forall x, In x RecordContinuationState_all.
Proof. split; [reflexivity | intros x; destruct x; vm_compute; tauto]. Qed.

Lemma FileStoreAction_rt : forall x, FileStoreAction_from_u8 (FileStoreAction_to_u8 x) = Some x.
Proof. enum_case. Qed.
Lemma FileStoreAction_fits : forall x, FileStoreAction_to_u8 x < 16.
Proof. enum_case. Qed.
Lemma FileStoreAction_nodup : nodupb (map snd FileStoreAction_table) = true.
Proof. vm_compute; reflexivity. Qed.
Lemma FileStoreAction_complete : map fst FileStoreAction_table = FileStoreAction_all /\ forall x, In x FileStoreAction_all.
Proof. split; [reflexivity | intros x; destruct x; vm_compute; tauto]. Qed.

Lemma CreateFileStatus_rt : forall x, CreateFileStatus_from_u8 (CreateFileStatus_to_u8 x) = Some x.
Proof. enum_case. Qed.
Lemma CreateFileStatus_fits : forall x, CreateFileStatus_to_u8 x < 16.
Proof. enum_case. Qed.
Lemma CreateFileStatus_nodup : nodupb (map snd CreateFileStatus_table) = true.
Proof. vm_compute; reflexivity. Qed.
Lemma CreateFileStatus_complete : map fst CreateFileStatus_table = CreateFileStatus_all /\ forall x, In x CreateFileStatus_all.
Proof. split; [reflexivity | intros x; destruct x; vm_compute; tauto]. Qed.

Lemma DeleteFileStatus_rt : forall x, DeleteFileStatus_from_u8 (DeleteFileStatus_to_u8 x) = Some x.
Proof. enum_case. Qed.
Lemma DeleteFileStatus_fits : forall x, DeleteFileStatus_to_u8 x < 16.
Proof. enum_case. Qed.
Lemma DeleteFileStatus_nodup : nodupb (map snd DeleteFileStatus_table) = true.
Proof. vm_compute; reflexivity. Qed.
Lemma DeleteFileStatus_complete : map fst DeleteFileStatus_table = DeleteFileStatus_all /\ forall x, In x DeleteFileStatus_all.
Proof. split; [reflexivity | intros x; destruct x; vm_compute; tauto]. Qed.

Lemma RenameStatus_rt : forall x, RenameStatus_from_u8 (RenameStatus_to_u8 x) = Some x.
Proof. enum_case. Qed.
Lemma RenameStatus_fits : forall x, RenameStatus_to_u8 x < 16.
Proof. enum_case. Qed.
Lemma RenameStatus_nodup : nodupb (map snd RenameStatus_table) = true.
Proof. vm_compute; reflexivity. Qed.
Lemma RenameStatus_complete : map fst RenameStatus_table = RenameStatus_all /\ forall x, In x RenameStatus_all.
Proof. split; [reflexivity | intros x; destruct x; vm_compute; tauto]. Qed.

Lemma AppendStatus_rt : forall x, AppendStatus_from_u8 (AppendStatus_to_u8 x) = Some x.
Proof. enum_case. Qed.
Lemma AppendStatus_fits : forall x, AppendStatus_to_u8 x < 16.
Proof. enum_case. Qed.
Lemma AppendStatus_nodup : nodupb (map snd AppendStatus_table) = true.
Proof. vm_compute; reflexivity. Qed.
Lemma AppendStatus_complete : map fst AppendStatus_table = AppendStatus_all /\ forall x, In x AppendStatus_all.
Proof. split; [reflexivity | intros x; destruct x; vm_compute; tauto]. Qed.

Lemma ReplaceStatus_rt : forall x, ReplaceStatus_from_u8 (ReplaceStatus_to_u8 x) = Some x.
Proof. enum_case. Qed.
Lemma ReplaceStatus_fits : forall x, ReplaceStatus_to_u8 x < 16.
Proof. enum_case. Qed.
Lemma ReplaceStatus_nodup : nodupb (map snd ReplaceStatus_table) = true.
Proof. vm_compute; reflexivity. Qed.
Lemma ReplaceStatus_complete : map fst ReplaceStatus_table = ReplaceStatus_all /\ forall x, In x ReplaceStatus_all.
Proof. split; [reflexivity | intros x; destruct x; vm_compute; tauto]. Qed.

Lemma CreateDirectoryStatus_rt : forall x, CreateDirectoryStatus_from_u8 (CreateDirectoryStatus_to_u8 x) = Some x.
Proof. enum_case. Qed.
Lemma CreateDirectoryStatus_fits : forall x, CreateDirectoryStatus_to_u8 x < 16.
Proof. enum_case. Qed.
Lemma CreateDirectoryStatus_nodup : nodupb (map snd CreateDirectoryStatus_table) = true.
Proof. vm_compute; reflexivity. Qed.
Lemma CreateDirectoryStatus_complete : map fst CreateDirectoryStatus_table = CreateDirectoryStatus_all /\ forall x, In x CreateDirectoryStatus_all.
Proof. split; [reflexivity | intros x; destruct x; vm_compute; tauto]. Qed.

Lemma RemoveDirectoryStatus_rt : forall x, RemoveDirectoryStatus_from_u8 (RemoveDirectoryStatus_to_u8 x) = Some x.
Proof. enum_case. Qed.
Lemma RemoveDirectoryStatus_fits : forall x, RemoveDirectoryStatus_to_u8 x < 16.
Proof. enum_case. Qed.
Lemma RemoveDirectoryStatus_nodup : nodupb (map snd RemoveDirectoryStatus_table) = true.
Proof. vm_compute; reflexivity. Qed.
Lemma RemoveDirectoryStatus_complete : map fst RemoveDirectoryStatus_table = RemoveDirectoryStatus_all /\ forall x, In x RemoveDirectoryStatus_all.
Proof. split; [reflexivity | intros x; destruct x; vm_compute; tauto]. Qed.

Lemma DenyStatus_rt : forall x, DenyStatus_from_u8 (DenyStatus_to_u8 x) = Some x.
Proof. enum_case. Qed.
Lemma DenyStatus_fits : forall x, DenyStatus_to_u8 x < 16.
Proof. enum_case. Qed.
Lemma DenyStatus_nodup : nodupb (map snd DenyStatus_table) = true.
Proof. vm_compute; reflexivity. Qed.
Lemma DenyStatus_complete : map fst DenyStatus_table = DenyStatus_all /\ forall x, In x DenyStatus_all.
Proof. split; [reflexivity | intros x; destruct x; vm_compute; tauto]. Qed.

Lemma FaultHandlerAction_rt : forall x, FaultHandlerAction_from_u8 (FaultHandlerAction_to_u8 x) = Some x.
Proof. enum_case. Qed.
Lemma FaultHandlerAction_fits : forall x, FaultHandlerAction_to_u8 x < 256.
Proof. enum_case. Qed.
Lemma FaultHandlerAction_nodup : nodupb (map snd FaultHandlerAction_table) = true.
Proof. vm_compute; reflexivity. Qed.
Lemma FaultHandlerAction_complete : map fst FaultHandlerAction_table = FaultHandlerAction_all /\ forall x, In x FaultHandlerAction_all.
Proof. split; [reflexivity | intros x; destruct x; vm_compute; tauto]. Qed.

Lemma HandlerCode_rt : forall x, HandlerCode_from_u8 (HandlerCode_to_u8 x) = Some x.
Proof. enum_case. Qed.
Lemma HandlerCode_fits : forall x, HandlerCode_to_u8 x < 256.
Proof. enum_case. Qed.
Lemma HandlerCode_nodup : nodupb (map snd HandlerCode_table) = true.
Proof. vm_compute; reflexivity. Qed.
Lemma HandlerCode_complete : map fst HandlerCode_table = HandlerCode_all /\ forall x, In x HandlerCode_all.
Proof. split; [reflexivity | intros x; destruct x; vm_compute; tauto]. Qed.

Lemma ListingResponseCode_rt : forall x, ListingResponseCode_from_u8 (ListingResponseCode_to_u8 x) = Some x.
Proof. enum_case. Qed.
Lemma ListingResponseCode_fits : forall x, ListingResponseCode_to_u8 x < 256.
Proof. enum_case. Qed.
Lemma ListingResponseCode_nodup : nodupb (map snd ListingResponseCode_table) = true.
Proof. vm_compute; reflexivity. Qed.
Lemma ListingResponseCode_complete : map fst ListingResponseCode_table = ListingResponseCode_all /\ forall x, In x ListingResponseCode_all.
Proof. split; [reflexivity | intros x; destruct x; vm_compute; tauto]. Qed.

Lemma ChecksumType_rt : forall x, ChecksumType_from_u8 (ChecksumType_to_u8 x) = Some x.
Proof. enum_case. Qed.
Lemma ChecksumType_fits : forall x, ChecksumType_to_u8 x < 16.
Proof. enum_case. Qed.
Lemma ChecksumType_nodup : nodupb (map snd ChecksumType_table) = true.
Proof. vm_compute; reflexivity. Qed.
Lemma ChecksumType_complete : map fst ChecksumType_table = ChecksumType_all /\ forall x, In x ChecksumType_all.
Proof. split; [reflexivity | intros x; destruct x; vm_compute; tauto]. Qed.

Lemma TransactionState_rt : forall x, TransactionState_from_u8 (TransactionState_to_u8 x) = Some x.
Proof. enum_case. Qed.
Lemma TransactionState_fits : forall x, TransactionState_to_u8 x < 256.
Proof. enum_case. Qed.
Lemma TransactionState_nodup : nodupb (map snd TransactionState_table) = true.
Proof. vm_compute; reflexivity. Qed.
Lemma TransactionState_complete : map fst TransactionState_table = TransactionState_all /\ forall x, In x TransactionState_all.
Proof. split; [reflexivity | intros x; destruct x; vm_compute; tauto]. Qed.
