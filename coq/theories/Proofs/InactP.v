(* C17, "progress resets the count" at the sender: any PDU received while the send transaction waits
   after its EOF (not suspended) clears the inactivity expirations counted so far. *)
From CFDP Require Import Base.Prelude Model.Timer Model.TxTypes Model.Recv Model.Send Proofs.Tac Proofs.TimerP.

Lemma zero_div t : 0 / t = 0.
Proof. destruct t; reflexivity. Qed.

Theorem sender_pdu_clears_inactivity now p (s : sstate) : s_phase s = SendEof -> s_state s <> TSuspended ->
  c_count (t_inact (s_timer (fst (s_process_pdu now p s)))) = 0.
Proof.
  intros Hp Hs. unfold s_process_pdu. rewrite Hp. unfold ssuspended.
  assert (E : tstate_eqb (s_state s) TSuspended = false) by (destruct (s_state s); try reflexivity; congruence).
  rewrite E. cbn [sphase_eqb negb andb].
  set (s0 := supd_inact (c_reset now) s).
  assert (H0 : c_count (t_inact (s_timer s0)) = 0 /\ c_start (t_inact (s_timer s0)) = now /\ c_paused (t_inact (s_timer s0)) = false)
    by (unfold s0; cbn; auto).
  destruct H0 as (H0 & H1 & H2).
  assert (Hc : cfg_mode (s_cfg s0) = cfg_mode (s_cfg s)) by reflexivity. clearbody s0.
  destruct (cfg_mode (s_cfg s0)); destruct p; cbn [fst]; try exact H0.
  - destruct (ack_dir a); cbn [fst]; exact H0.
  - destruct (md_closure (s_meta s0)); cbn [fst]; [|exact H0].
    unfold s_shutdown, c_pause, c_update. cbn. rewrite H2, H1, N.sub_diag, zero_div, N.eqb_refl. cbn. exact H0.
Qed.
