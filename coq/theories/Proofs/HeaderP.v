(* C07 / C11: every PDU a send transaction emits is directed to the receiver, handed to the
   transport of the configured destination entity, and announces the length of its own payload;
   the configuration never changes. Same skeleton as the progress invariant HS of SendP.v. *)
From CFDP Require Import Base.Prelude Model.Timer Model.TxTypes Model.Recv Model.Send Proofs.Tac Proofs.TimerP
  Proofs.SendP.

Section HeaderP.
Variable cksum : cktype -> bytes -> N.
Variable resp_len : fsresp -> N.
Variable req_len : fsreq -> N.

Notation sstep := (sstep cksum resp_len req_len).
Notation s_send_pdu := (s_send_pdu cksum resp_len req_len).
Notation s_handle_timeout := (s_handle_timeout cksum).
Notation s_handle_fault := (s_handle_fault cksum).
Notation s_cancel_ := (s_cancel_ cksum).
Notation s_cancel := (s_cancel cksum).
Notation prepare_eof := (prepare_eof cksum).
Notation send_file_segment := (send_file_segment resp_len req_len).
Notation send_missing_data := (send_missing_data resp_len req_len).
Notation send_metadata := (send_metadata resp_len req_len).
Notation send_eof := (send_eof resp_len req_len).
Notation send_prompt := (send_prompt resp_len req_len).
Notation send_ack := (send_ack resp_len req_len).
Notation semit_pdu := (semit_pdu resp_len req_len).

Definition hdr_ok (cfg : config) (o : out) : Prop :=
  match o with
  | OPdu p => o_to_receiver p = true /\ o_dest p = cfg_dst cfg /\
              o_len p = payload_len cfg resp_len req_len (o_payload p)
  | OInd _ => True
  end.
Definition HD (cfg : config) (s : sstate) : Prop := s_cfg s = cfg /\ Forall (hdr_ok cfg) (s_out s).

Lemma HD_ext cfg (s s' : sstate) : HD cfg s -> s_cfg s' = s_cfg s -> s_out s' = s_out s -> HD cfg s'.
Proof. unfold HD. intros (A & B) E1 E2. rewrite E1, E2. auto. Qed.
Lemma HD_out cfg o (s s' : sstate) : HD cfg s -> s_cfg s' = s_cfg s -> s_out s' = o :: s_out s ->
  hdr_ok (s_cfg s) o -> HD cfg s'.
Proof. unfold HD. intros (A & B) E1 E2 E3. rewrite E1, E2. rewrite A in E3. split; [exact A|constructor; assumption]. Qed.

Ltac hd_leaf cfg :=
  lazymatch goal with
  | |- HD cfg ?t =>
      let b := strip_s t in
      first [ eapply (HD_ext cfg b); [ | reflexivity | reflexivity ]
            | eapply (HD_out cfg _ b); [ | reflexivity | reflexivity | cbn; auto ] ]
  end.

Lemma HD_shutdown cfg now s : HD cfg s -> HD cfg (s_shutdown now s).
Proof. intros H. unfold s_shutdown. hd_leaf cfg. exact H. Qed.
Lemma HD_abandon cfg now s : HD cfg s -> HD cfg (s_abandon now s).
Proof. intros H. unfold s_abandon. apply HD_shutdown. hd_leaf cfg. exact H. Qed.
Lemma HD_suspend cfg now s : HD cfg s -> HD cfg (s_suspend now s).
Proof. intros H. unfold s_suspend. hd_leaf cfg. exact H. Qed.
Lemma HD_resume cfg now s : HD cfg s -> HD cfg (s_resume now s).
Proof. intros H. unfold s_resume. destruct (s_phase s); hd_leaf cfg; exact H. Qed.
Lemma HD_set_eof_flag cfg b s : HD cfg s -> HD cfg (set_eof_flag b s).
Proof. intros H. unfold set_eof_flag. destruct (s_eof s) as [[e f]|]; [hd_leaf cfg|]; exact H. Qed.
Lemma HD_prepare_eof cfg fl s : HD cfg s -> HD cfg (prepare_eof fl s).
Proof.
  intros H. unfold Send.prepare_eof, Send.get_checksum.
  destruct (s_cksum s); cbn [fst snd]; [hd_leaf cfg; exact H|].
  destruct (s_is_file_transfer s); cbn [fst snd]; [|hd_leaf cfg; exact H].
  destruct (md_ck (s_meta s)); hd_leaf cfg; exact H.
Qed.
Lemma HD_cancel_ cfg now c s : HD cfg s -> HD cfg (s_cancel_ now c s).
Proof. intros H. unfold Send.s_cancel_. apply HD_prepare_eof. hd_leaf cfg. exact H. Qed.
Lemma HD_handle_fault cfg now c s : HD cfg s -> HD cfg (s_handle_fault now c s).
Proof.
  intros H. unfold Send.s_handle_fault.
  assert (H1 : HD cfg (semit_ind (IFault c (s_sent (set_s_cond c s))) (set_s_cond c s))) by (hd_leaf cfg; exact H).
  destruct (handler _ c); [apply HD_cancel_ | apply HD_suspend | | apply HD_abandon]; exact H1.
Qed.
Lemma HD_ht_ack_eof cfg now s : HD cfg s -> HD cfg (ht_ack_eof cksum now s).
Proof.
  intros H. unfold ht_ack_eof, c_timeout_occurred. cbn [fst snd].
  set (s3 := supd_ack (fun _ => c_update now (t_ack (s_timer s))) s).
  assert (H3 : HD cfg s3) by (unfold s3; hd_leaf cfg; exact H). clearbody s3.
  destruct (c_occurred (c_update now (t_ack (s_timer s)))); [|exact H3].
  destruct (c_count (c_update now (t_ack (s_timer s))) =? c_max (c_update now (t_ack (s_timer s))));
    [apply HD_handle_fault | apply HD_set_eof_flag]; exact H3.
Qed.
Lemma HD_handle_timeout cfg now s : HD cfg s -> HD cfg (s_handle_timeout now s).
Proof.
  intros H. unfold Send.s_handle_timeout, c_limit_reached.
  destruct (s_phase s) eqn:Ep; try exact H; cbn [fst snd].
  - set (s1 := supd_inact (fun _ => c_update now (t_inact (s_timer s))) s).
    assert (H1 : HD cfg s1) by (unfold s1; hd_leaf cfg; exact H). clearbody s1.
    destruct (c_count (c_update now (t_inact (s_timer s))) =? c_max (c_update now (t_inact (s_timer s)))); cbn [andb].
    + pose proof (HD_handle_fault cfg now InactivityDetected s1 H1) as H2.
      destruct (negb (sphase_eqb (s_phase (s_handle_fault now InactivityDetected s1)) SendEof)
                || negb (tstate_eqb (s_state (s_handle_fault now InactivityDetected s1)) TActive));
        [exact H2|apply HD_ht_ack_eof; exact H2].
    + apply HD_ht_ack_eof; exact H1.
  - set (s1 := supd_inact (fun _ => c_update now (t_inact (s_timer s))) s).
    assert (H1 : HD cfg s1) by (unfold s1; hd_leaf cfg; exact H). clearbody s1.
    destruct (c_count (c_update now (t_inact (s_timer s))) =? c_max (c_update now (t_inact (s_timer s))));
      [apply HD_abandon; exact H1|].
    unfold c_timeout_occurred. cbn [fst snd].
    set (s3 := supd_ack (fun _ => c_update now (t_ack (s_timer s1))) s1).
    assert (H3 : HD cfg s3) by (unfold s3; hd_leaf cfg; exact H1). clearbody s3.
    destruct (c_occurred (c_update now (t_ack (s_timer s1)))); [|exact H3].
    destruct (c_count (c_update now (t_ack (s_timer s1))) =? c_max (c_update now (t_ack (s_timer s1))));
      [apply HD_abandon | apply HD_set_eof_flag]; exact H3.
Qed.
Lemma HD_process_pdu cfg now p s : HD cfg s -> HD cfg (fst (s_process_pdu now p s)).
Proof.
  intros H. unfold Send.s_process_pdu.
  set (s0 := if sphase_eqb (s_phase s) SendEof && negb (ssuspended s) then supd_inact (c_reset now) s else s).
  assert (H0 : HD cfg s0) by (unfold s0; destruct (_ && _); [hd_leaf cfg|]; exact H). clearbody s0. clear H.
  destruct (cfg_mode (s_cfg s0)); destruct p; cbn [fst]; try exact H0.
  - hd_leaf cfg. exact H0.
  - destruct (ack_dir a); cbn [fst]; exact H0.
  - destruct (md_closure (s_meta s0)); cbn [fst]; [|exact H0]. apply HD_shutdown. hd_leaf cfg. exact H0.
Qed.
Lemma HD_file_segment cfg off len s : HD cfg s -> HD cfg (send_file_segment off len s).
Proof. intros H. unfold Send.send_file_segment. hd_leaf cfg. exact H. Qed.
Lemma HD_send_metadata cfg s : HD cfg s -> HD cfg (send_metadata s).
Proof. intros H. unfold Send.send_metadata. hd_leaf cfg. exact H. Qed.
Lemma HD_send_missing_data cfg now s : HD cfg s -> HD cfg (fst (send_missing_data now s)).
Proof.
  intros H. unfold Send.send_missing_data. destruct (s_naks s) as [|[a b] t]; [exact H|].
  set (s1 := supd_inact (c_restart now) (set_s_naks t s)).
  assert (H1 : HD cfg s1) by (unfold s1; hd_leaf cfg; exact H). clearbody s1.
  destruct (65535 <? b - a); cbn [fst]; [exact H1|].
  destruct ((a =? 0) && (b - a =? 0)); cbn [fst]; [apply HD_send_metadata; exact H1|].
  eapply (HD_ext cfg (send_file_segment a (b - a) s1)); [apply HD_file_segment; exact H1|reflexivity|reflexivity].
Qed.
Lemma HD_send_eof cfg now s : HD cfg s -> HD cfg (send_eof now s).
Proof.
  intros H. unfold Send.send_eof. destruct (s_eof s) as [[e [|]]|]; try exact H.
  apply HD_set_eof_flag. hd_leaf cfg. exact H.
Qed.
Lemma HD_send_pdu cfg now s : HD cfg s -> HD cfg (fst (s_send_pdu now s)).
Proof.
  intros H. unfold Send.s_send_pdu.
  destruct (is_some (s_prompt s)); cbn [fst].
  { unfold Send.send_prompt. destruct (s_prompt s); [hd_leaf cfg|]; exact H. }
  destruct (s_phase s).
  - pose proof (HD_send_metadata cfg s H) as H1.
    destruct (_ && _); cbn [fst]; [hd_leaf cfg; exact H1|].
    eapply (HD_ext cfg (prepare_eof None (send_metadata s))); [apply HD_prepare_eof; exact H1|reflexivity|reflexivity].
  - assert (H1 : HD cfg (fst (if negb (is_nil (s_naks s)) then send_missing_data now s
                               else (send_file_segment (s_pos s) (cfg_seg (s_cfg s)) s, ROk)))).
    { destruct (negb _); [apply HD_send_missing_data|apply HD_file_segment]; exact H. }
    destruct (if negb (is_nil (s_naks s)) then _ else _) as [s1 r]. cbn [fst] in H1.
    destruct r; cbn [fst]; try exact H1.
    destruct (_ =? _); cbn [fst]; [|exact H1].
    eapply (HD_ext cfg (prepare_eof None s1)); [apply HD_prepare_eof; exact H1|reflexivity|reflexivity].
  - destruct (negb _); [apply HD_send_missing_data; exact H|].
    pose proof (HD_send_eof cfg now s H) as H1. set (s1 := send_eof now s) in *. clearbody s1.
    assert (H2 : HD cfg (if s_eof_ind s1 then set_s_eof_ind false (semit_ind IEoFSent s1) else s1)).
    { destruct (s_eof_ind s1); [hd_leaf cfg|]; exact H1. }
    remember (if s_eof_ind s1 then _ else s1) as s2 eqn:E2. clear E2 H1.
    destruct (cfg_mode (s_cfg s2)); cbn [fst]; [exact H2|].
    destruct (md_closure (s_meta s2)); cbn [fst]; [exact H2|].
    apply HD_shutdown. hd_leaf cfg. exact H2.
  - cbn [fst]. apply HD_send_eof; exact H.
  - cbn [fst]. unfold Send.send_ack. destruct (s_ack s); [apply HD_shutdown; hd_leaf cfg|]; exact H.
Qed.


(* the invariant holds initially and is kept by every operation: every PDU a step emits goes to
   the receiver side of the configured destination entity with a truthful length field *)
Lemma HD_init now cfg m file : HD cfg (s_new now cfg m file).
Proof. unfold HD, s_new. cbn. split; [reflexivity|repeat constructor]. Qed.
Theorem HD_sstep cfg now o s : HD cfg s -> HD cfg (fst (sstep now o s)).
Proof.
  intros H. unfold Send.sstep.
  assert (H0 : HD cfg (set_s_out [] s)) by (destruct H as (A & _); unfold HD; cbn; split; [exact A|constructor]).
  destruct o; cbn [fst].
  - apply HD_process_pdu; exact H0.
  - destruct (s_has_pdu_to_send _); [apply HD_send_pdu|]; exact H0.
  - destruct (s_until_timeout now _) as [[|?]|]; [apply HD_handle_timeout| |]; exact H0.
  - apply HD_cancel_; exact H0.
  - apply HD_suspend; exact H0.
  - apply HD_resume; exact H0.
  - unfold s_send_report. eapply (HD_out cfg _ (set_s_out [] s)); [exact H0|reflexivity|reflexivity|exact I].
  - apply HD_shutdown; exact H0.
  - eapply (HD_ext cfg (set_s_out [] s)); [exact H0|reflexivity|reflexivity].
Qed.

End HeaderP.
