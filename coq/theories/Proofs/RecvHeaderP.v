(* C11 / C08: every PDU a receive transaction emits is directed to the file sender, handed to the
   transport of the transaction's source entity, and announces the length of its own payload;
   the configuration never changes. (Sender: HeaderP.v.) *)
From CFDP Require Import Base.Prelude Model.Segments Model.Timer Model.TxTypes Model.Recv
  Proofs.SegmentsP Proofs.Tac Proofs.RecvP Proofs.RecvInv.

Section RecvHeaderP.
Variable FS : Type.
Variable fs_write_file : FS -> bytes -> bytes -> option FS.
Variable fs_exec : FS -> fsreq -> FS * fsresp.
Variable resp_fail : fsresp -> bool.
Variable not_performed : fsreq -> fsresp.
Variable cksum : cktype -> bytes -> N.
Variable resp_len : fsresp -> N.
Variable req_len : fsreq -> N.

Notation rstate := (rstate FS).
Notation rstep := (rstep FS fs_write_file fs_exec resp_fail not_performed cksum resp_len req_len).
Notation process_pdu := (process_pdu FS fs_write_file fs_exec resp_fail not_performed cksum).
Notation check_finished := (check_finished FS fs_write_file fs_exec resp_fail not_performed cksum).
Notation finalize_receive := (finalize_receive FS fs_write_file fs_exec resp_fail not_performed cksum).
Notation send_pdu := (send_pdu resp_len req_len).
Notation emit_pdu := (emit_pdu resp_len req_len).

Definition rhdr_ok (cfg : config) (o : out) : Prop :=
  match o with
  | OPdu p => o_to_receiver p = false /\ o_dest p = cfg_src cfg /\
              o_len p = payload_len cfg resp_len req_len (o_payload p)
  | OInd _ => True
  end.
Definition RH (cfg : config) (s : rstate) : Prop := r_cfg s = cfg /\ Forall (rhdr_ok cfg) (r_out s).

Lemma RH_ext cfg (s s' : rstate) : RH cfg s -> r_cfg s' = r_cfg s -> r_out s' = r_out s -> RH cfg s'.
Proof. unfold RH. intros (A & B) E1 E2. rewrite E1, E2. auto. Qed.
Lemma RH_ind cfg i (s : rstate) : RH cfg s -> RH cfg (emit_ind i s).
Proof. unfold RH. cbn. intros (A & B). split; [exact A|constructor; [exact I|exact B]]. Qed.
Lemma RH_pdu cfg p (s : rstate) : RH cfg s -> RH cfg (emit_pdu p s).
Proof.
  unfold RH, Recv.emit_pdu. cbn. intros (A & B). split; [exact A|constructor; [|exact B]].
  cbn. rewrite A. auto.
Qed.

Ltac rh_calls cfg _ :=
  lazymatch goal with
  | |- RH cfg (emit_ind _ _) => apply RH_ind
  | |- RH cfg (Recv.emit_pdu _ _ _ _) => apply RH_pdu
  end.
Ltac rh cfg := solve_st (RH cfg) (RH_ext cfg) ltac:(rh_calls cfg).
Ltac pass_rh cfg := repeat (first [destr_pair_keep | destr_inner]; cbn [fst snd]); try rh cfg.

Lemma RH_shutdown cfg now s : RH cfg s -> RH cfg (shutdown now s).
Proof. intros H. rh cfg. Qed.
Lemma RH_abandon cfg now s : RH cfg s -> RH cfg (abandon now s).
Proof. intros H. apply RH_shutdown. unfold abandon. rh cfg. Qed.
Lemma RH_suspend cfg now s : RH cfg s -> RH cfg (suspend now s).
Proof. intros H. unfold suspend. rh cfg. Qed.
Lemma RH_cancel_ cfg now s : RH cfg s -> RH cfg (cancel_ now s).
Proof.
  intros H. unfold cancel_. cbv zeta.
  destruct (cfg_mode _); [|destruct (closure _)]; rh cfg.
Qed.
Lemma RH_handle_fault cfg now c s : RH cfg s -> RH cfg (fst (handle_fault now c s)).
Proof.
  intros H. unfold handle_fault.
  assert (H1 : RH cfg (emit_ind (IFault c (r_recvd (set_r_cond c s))) (set_r_cond c s))) by rh cfg.
  destruct (handler _ c); cbn [fst];
    [apply RH_cancel_ | apply RH_suspend | | apply RH_abandon]; exact H1.
Qed.

Ltac rh2_calls cfg _ :=
  lazymatch goal with
  | |- RH cfg (shutdown _ _) => apply RH_shutdown
  | |- RH cfg (abandon _ _) => apply RH_abandon
  | |- RH cfg (suspend _ _) => apply RH_suspend
  | |- RH cfg (cancel_ _ _) => apply RH_cancel_
  | |- RH cfg (fst (handle_fault _ _ _)) => apply RH_handle_fault
  | _ => rh_calls cfg tt
  end.
Ltac rh2 cfg := solve_st (RH cfg) (RH_ext cfg) ltac:(rh2_calls cfg).
Ltac pass_rh2 cfg := repeat (first [destr_pair_keep | destr_inner]; cbn [fst snd]); try rh2 cfg.

Lemma RH_send_naks cfg now s : RH cfg s -> RH cfg (send_naks resp_len req_len now s).
Proof. intros H. unfold send_naks, c_limit_reached. pass_rh2 cfg. Qed.
Lemma RH_send_ack_eof cfg s : RH cfg s -> RH cfg (send_ack_eof resp_len req_len s).
Proof. intros H. unfold send_ack_eof. pass_rh2 cfg. Qed.
Lemma RH_set_fin_flag cfg b s : RH cfg s -> RH cfg (set_fin_flag b s).
Proof. intros H. unfold set_fin_flag. pass_rh2 cfg. Qed.
Lemma RH_send_finished cfg now s : RH cfg s -> RH cfg (send_finished resp_len req_len now s).
Proof.
  intros H. unfold send_finished. repeat (destr_inner; cbn [fst snd]); try rh2 cfg.
  apply RH_set_fin_flag. rh2 cfg.
Qed.
Lemma RH_answer_prompt cfg now s : RH cfg s -> RH cfg (answer_prompt resp_len req_len now s).
Proof.
  intros H. unfold answer_prompt. destruct (r_prompt s) as [[|]|]; try rh2 cfg.
  apply RH_send_naks. rh2 cfg.
Qed.
Lemma RH_send_pdu cfg now s : RH cfg s -> RH cfg (send_pdu now s).
Proof.
  intros H. unfold Recv.send_pdu.
  pose proof (RH_answer_prompt cfg now s H). pose proof (RH_send_ack_eof cfg s H).
  pose proof (RH_send_naks cfg now s H). pose proof (RH_send_finished cfg now s H).
  repeat destr_inner; auto.
Qed.
Lemma RH_resume cfg now s : RH cfg s -> RH cfg (resume now s).
Proof. intros H. unfold resume. pass_rh2 cfg. Qed.
Lemma RH_cancel cfg now s : RH cfg s -> RH cfg (cancel now s).
Proof. intros H. unfold cancel. apply RH_cancel_. rh2 cfg. Qed.
Lemma RH_send_report cfg s : RH cfg s -> RH cfg (send_report s).
Proof. intros H. unfold send_report. rh2 cfg. Qed.
Lemma RH_ht_delayed cfg now s : RH cfg s -> RH cfg (ht_delayed now s).
Proof.
  intros H. unfold ht_delayed. destruct (expire_delayed now (r_delayed s)) as [expired rest]. pass_rh2 cfg.
Qed.
Lemma RH_ht_inactivity cfg now s : RH cfg s -> RH cfg (fst (ht_inactivity now s)).
Proof. intros H. unfold ht_inactivity, c_limit_reached. pass_rh2 cfg. Qed.
Lemma RH_ht_nak cfg now s : RH cfg s -> RH cfg (ht_nak now s).
Proof.
  intros H. unfold ht_nak, c_timeout_occurred.
  repeat (first [destr_pair_keep | destr_inner]; cbn [fst snd]); try rh2 cfg.
Qed.
Lemma RH_ht_ackphase cfg now s : RH cfg s -> RH cfg (ht_ackphase now s).
Proof.
  intros H. unfold ht_ackphase, c_limit_reached, c_timeout_occurred.
  repeat (first [destr_pair_keep | destr_inner]; cbn [fst snd]);
    try (apply RH_set_fin_flag); try rh2 cfg.
  all: try (eapply (RH_ext cfg (set_fin_flag true _)); [apply RH_set_fin_flag; rh2 cfg | reflexivity ..]).
Qed.
Lemma RH_handle_timeout cfg now s : RH cfg s -> RH cfg (handle_timeout now s).
Proof.
  intros H. unfold handle_timeout.
  pose proof (RH_ht_inactivity cfg now _ (RH_ht_delayed cfg now s H)) as H1.
  destruct (ht_inactivity now (ht_delayed now s)) as [s1 go]. cbn [fst] in H1.
  destruct go; [unfold ht_phase; apply RH_ht_ackphase; apply RH_ht_nak|]; exact H1.
Qed.

Lemma RH_check_file_size cfg now size s : RH cfg s -> RH cfg (check_file_size now size s).
Proof. intros H. unfold check_file_size. pass_rh2 cfg. Qed.
Lemma RH_store cfg off d s : RH cfg s -> RH cfg (store_file_data off d s).
Proof.
  intros H. unfold store_file_data. destruct (is_nil d); [exact H|].
  destruct (ins _ _ _). rh2 cfg.
Qed.
Lemma RH_finalize cfg now s : RH cfg s -> RH cfg (finalize_receive now s).
Proof.
  intros H. unfold Recv.finalize_receive.
  set (s0 := set_r_dc _ s). assert (H0 : RH cfg s0) by (unfold s0; rh2 cfg). clearbody s0. clear H.
  assert (H1 : RH cfg (fst (if is_file_transfer s0
                        then let '(s1, go) := fr_verify FS cksum now s0 in
                             if go then (fr_store FS fs_write_file s1, true) else (s1, false)
                        else (set_r_fstat FUnreported s0, true)))).
  { destruct (is_file_transfer s0); cbn [fst]; [|rh2 cfg].
    assert (Hv : RH cfg (fst (fr_verify FS cksum now s0))) by (unfold fr_verify; pass_rh2 cfg).
    destruct (fr_verify FS cksum now s0) as [s1 go]. cbn [fst] in Hv.
    destruct go; cbn [fst]; [|exact Hv]. unfold fr_store. pass_rh2 cfg. }
  destruct (if is_file_transfer s0 then _ else _) as [s2 go2]. cbn [fst] in H1.
  destruct go2; [|exact H1].
  assert (H2 : RH cfg (fst (fr_rejection now s2))).
  { unfold fr_rejection. destruct (r_fstat s2); cbn [fst]; try exact H1. rh2 cfg. }
  destruct (fr_rejection now s2) as [s3 go3]. cbn [fst] in H2.
  destruct go3; [|exact H2]. unfold fr_requests. destruct (run_requests _ _ _ _ _ _ _). rh2 cfg.
Qed.
Lemma RH_check_finished cfg now s : RH cfg s -> RH cfg (check_finished now s).
Proof.
  intros H. unfold Recv.check_finished. destr_inner; [|exact H].
  eapply RH_ext; [apply (RH_finalize cfg now s H)|reflexivity|reflexivity].
Qed.

Ltac rh3_calls cfg _ :=
  lazymatch goal with
  | |- RH cfg (check_file_size _ _ _) => apply RH_check_file_size
  | |- RH cfg (store_file_data _ _ _) => apply RH_store
  | |- RH cfg (check_finished _ _) => apply RH_check_finished
  | |- RH cfg (finalize_receive _ _) => apply RH_finalize
  | _ => rh2_calls cfg tt
  end.
Ltac rh3 cfg := solve_st (RH cfg) (RH_ext cfg) ltac:(rh3_calls cfg).
Ltac pass_rh3 cfg := repeat (first [destr_pair_keep | destr_inner]; cbn [fst snd]); try rh3 cfg.

Lemma RH_process_pdu cfg now p s : RH cfg s -> RH cfg (fst (process_pdu now p s)).
Proof.
  intros H. unfold Recv.process_pdu.
  set (s0 := if suspended s then s else upd_inact (c_reset now) s).
  assert (H0 : RH cfg s0) by (unfold s0; destruct (suspended s); rh3 cfg). clearbody s0. clear H.
  destruct (cfg_mode (r_cfg s0)); destruct p; cbn [fst]; try exact H0;
    unfold pdu_filedata_acked, pdu_eof_acked, pdu_ack_acked, pdu_metadata_acked, pdu_filedata_unacked,
           pdu_eof_unacked, pdu_ack_unacked, pdu_metadata_unacked, set_metadata, c_timeout_occurred;
    pass_rh3 cfg.
Qed.

Lemma RH_init cfg now np fs : RH cfg (r_new now cfg np fs).
Proof. unfold RH, r_new. cbn. split; [reflexivity|repeat constructor]. Qed.

Theorem RH_rstep cfg now o s : RH cfg s -> RH cfg (fst (rstep now o s)).
Proof.
  intros H. unfold Recv.rstep.
  assert (H0 : RH cfg (set_r_out [] s)) by (destruct H as (A & _); unfold RH; cbn; split; [exact A|constructor]).
  destruct o; cbn [fst].
  - apply RH_process_pdu; exact H0.
  - destruct (has_pdu_to_send _); [apply RH_send_pdu|]; exact H0.
  - destruct (until_timeout now _) as [[|?]|]; try exact H0. apply RH_handle_timeout; exact H0.
  - apply RH_cancel; exact H0.
  - apply RH_suspend; exact H0.
  - apply RH_resume; exact H0.
  - apply RH_send_report; exact H0.
  - apply RH_shutdown; exact H0.
Qed.

End RecvHeaderP.
