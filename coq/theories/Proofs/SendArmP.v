(* C03, the send arm: whenever has_pdu_to_send says the send arm is enabled, one run of send_pdu
   makes progress - it emits at least one PDU or indication, or it consumes one queued
   retransmission request. An enabled send arm that does nothing would make the transaction
   task spin without ever waiting (lib.rs: the select! loop takes the send arm whenever it is
   enabled). *)
From CFDP Require Import Base.Prelude Model.Timer Model.TxTypes Model.Recv Model.Send Proofs.Tac Proofs.TimerP.

Section SendArmP.
Variable cksum : cktype -> bytes -> N.
Variable resp_len : fsresp -> N.
Variable req_len : fsreq -> N.
Notation s_send_pdu := (s_send_pdu cksum resp_len req_len).
Notation send_missing_data := (send_missing_data resp_len req_len).
Notation send_eof := (send_eof resp_len req_len).

Definition s_progress (s s' : sstate) : Prop :=
  (length (s_out s) < length (s_out s'))%nat \/ (length (s_naks s') < length (s_naks s))%nat.

Lemma smd_progress now s : s_naks s <> [] -> s_progress s (fst (send_missing_data now s)).
Proof.
  intros Hn. unfold Send.send_missing_data. destruct (s_naks s) as [|[a b] t] eqn:En; [contradiction|].
  destruct (65535 <? b - a); cbn [fst]; [right; cbn; rewrite En; cbn; lia|].
  destruct ((a =? 0) && (b - a =? 0)); cbn [fst]; left; cbn; lia.
Qed.

Lemma send_eof_progress now s : eof_flag s = true -> (length (s_out s) < length (s_out (send_eof now s)))%nat.
Proof.
  unfold eof_flag, Send.send_eof. destruct (s_eof s) as [[e [|]]|] eqn:Ee; intros H; try discriminate.
  unfold set_eof_flag.
  change (s_eof (semit_pdu resp_len req_len (PEof e) (supd_ack (c_restart now) s))) with (s_eof s).
  rewrite Ee. cbn. lia.
Qed.

Lemma prepare_eof_out fl s : s_out (prepare_eof cksum fl s) = s_out s /\ s_naks (prepare_eof cksum fl s) = s_naks s.
Proof.
  unfold prepare_eof, get_checksum. destruct (s_cksum s); cbn [fst snd]; [cbn; auto|].
  destruct (s_is_file_transfer s); cbn [fst snd]; [|cbn; auto].
  destruct (md_ck (s_meta s)); cbn; auto.
Qed.

Theorem s_send_arm_progress now s : s_has_pdu_to_send s = true -> s_progress s (fst (s_send_pdu now s)).
Proof.
  intros He. unfold s_has_pdu_to_send in He. destruct (ssuspended s); [discriminate|].
  unfold Send.s_send_pdu.
  destruct (s_prompt s) as [p|] eqn:Epr; cbn [is_some].
  { cbn [fst]. left. unfold send_prompt. rewrite Epr. cbn. lia. }
  cbn [orb] in He.
  destruct (s_phase s) eqn:Ep.
  - (* SendMetadata *)
    destruct (_ && _); cbn [fst]; [left; cbn; lia|].
    left. unfold enter_send_eof.
    change (s_out (supd_inact (c_pause now) (supd_inact (c_reset now)
              (set_s_phase SendEof (prepare_eof cksum None (send_metadata resp_len req_len s))))))
      with (s_out (prepare_eof cksum None (send_metadata resp_len req_len s))).
    destruct (prepare_eof_out None (send_metadata resp_len req_len s)) as (A & _). rewrite A. cbn. lia.
  - (* SendData *)
    destruct (s_naks s) as [|n0 t] eqn:En.
    + cbn [is_nil negb].
      set (s1 := send_file_segment resp_len req_len (s_pos s) (cfg_seg (s_cfg s)) s).
      assert (H1 : (length (s_out s) < length (s_out s1))%nat /\ s_naks s1 = s_naks s)
        by (unfold s1, send_file_segment; cbn; split; [lia|reflexivity]).
      destruct H1 as (H1 & H1n). clearbody s1.
      destruct (s_pos s1 =? _); cbn [fst]; [|left; exact H1].
      left. unfold enter_send_eof.
      change (s_out (supd_inact (c_pause now) (supd_inact (c_reset now) (set_s_phase SendEof (prepare_eof cksum None s1)))))
        with (s_out (prepare_eof cksum None s1)).
      destruct (prepare_eof_out None s1) as (A & _). rewrite A. exact H1.
    + cbn [is_nil negb].
      pose proof (smd_progress now s) as Hp. rewrite En in Hp. specialize (Hp ltac:(discriminate)).
      destruct (send_missing_data now s) as [s1 r]. cbn [fst] in Hp.
      destruct r; cbn [fst]; try exact Hp.
      destruct (s_pos s1 =? _); cbn [fst]; [|exact Hp].
      unfold s_progress in *. unfold enter_send_eof.
      change (s_out (supd_inact (c_pause now) (supd_inact (c_reset now) (set_s_phase SendEof (prepare_eof cksum None s1)))))
        with (s_out (prepare_eof cksum None s1)).
      change (s_naks (supd_inact (c_pause now) (supd_inact (c_reset now) (set_s_phase SendEof (prepare_eof cksum None s1)))))
        with (s_naks (prepare_eof cksum None s1)).
      destruct (prepare_eof_out None s1) as (A & B). rewrite A, B. exact Hp.
  - (* SendEof *)
    destruct (s_naks s) as [|n0 t] eqn:En; cbn [is_nil negb orb] in *.
    + pose proof (send_eof_progress now s He) as H1.
      set (s1 := send_eof now s) in *. clearbody s1.
      assert (H2 : (length (s_out s) < length (s_out (if s_eof_ind s1 then set_s_eof_ind false (semit_ind IEoFSent s1) else s1)))%nat).
      { destruct (s_eof_ind s1); cbn; lia. }
      remember (if s_eof_ind s1 then _ else s1) as s2 eqn:E2. clear E2.
      destruct (cfg_mode (s_cfg s2)); cbn [fst]; [left; exact H2|].
      destruct (md_closure (s_meta s2)); cbn [fst]; left; [exact H2|cbn; lia].
    + pose proof (smd_progress now s) as Hp. rewrite En in Hp. apply Hp. discriminate.
  - (* Cancelled *)
    cbn [fst]. left. apply send_eof_progress. exact He.
  - (* Finished *)
    cbn [fst]. left. unfold send_ack. destruct (s_ack s); [cbn; lia|discriminate].
Qed.

End SendArmP.
