(* C19: resume picks up where the transaction left off.
   Receiver, data phase, acknowledged mode, immediate procedure or EOF already received: the request
   queue is rebuilt as the complete list of what is missing NOW (whatever was lost while suspended
   is asked for again), the NAK and inactivity timers start afresh, the transaction is Active and the
   send arm is enabled whenever something is missing. Otherwise the queue is left as it was.
   Later phases: the ACK timer (Finished retransmission) starts afresh. Nothing already received is
   forgotten: segments, metadata, staged file, file size are untouched. *)
From CFDP Require Import Base.Prelude Model.Segments Model.Timer Model.TxTypes Model.Recv Proofs.Tac Proofs.TimerP.

Section ResumeP.
Variable FS : Type.
Notation rstate := (rstate FS).

Theorem resume_picks_up now (s : rstate) :
  let s' := resume now s in
  r_state s' = TActive /\
  r_segs s' = r_segs s /\ r_meta s' = r_meta s /\ r_staged s' = r_staged s /\ r_fsize s' = r_fsize s /\
  r_recvd s' = r_recvd s /\ r_phase s' = r_phase s /\ r_fs s' = r_fs s /\
  c_count (t_inact (r_timer s')) = 0 /\ c_paused (t_inact (r_timer s')) = false /\
  match r_phase s with
  | RecvData =>
      if match cfg_mode (r_cfg s) with Acked => true | Unacked => false end
         && (is_immediate (r_nakproc s) || eof_received s)
      then r_naks s' = get_all_naks s /\ c_count (t_nak (r_timer s')) = 0 /\ c_paused (t_nak (r_timer s')) = false /\
           (r_naks s' <> [] -> has_pdu_to_send s' = true)
      else r_naks s' = r_naks s
  | _ => c_count (t_ack (r_timer s')) = 0 /\ c_paused (t_ack (r_timer s')) = false /\ r_fin s' = r_fin s
  end.
Proof.
  cbn zeta. unfold resume.
  change (r_phase (upd_inact (c_reset now) s)) with (r_phase s).
  change (cfg_mode (r_cfg (upd_inact (c_reset now) s))) with (cfg_mode (r_cfg s)).
  change (r_nakproc (upd_inact (c_reset now) s)) with (r_nakproc s).
  change (eof_received (upd_inact (c_reset now) s)) with (eof_received s).
  destruct (r_phase s) eqn:Ep.
  - destruct (match cfg_mode (r_cfg s) with Acked => true | Unacked => false end
              && (is_immediate (r_nakproc s) || eof_received s)) eqn:Ec.
    + cbn. rewrite Ep. splits; auto.
      intros Hne. unfold has_pdu_to_send, suspended. cbn. rewrite ?Ep.
      match goal with |- context [is_nil ?l] => destruct l; [contradiction|] end.
      cbn. rewrite !orb_true_r. reflexivity.
    + cbn. rewrite Ep. splits; auto.
  - cbn. rewrite Ep. splits; auto.
  - cbn. rewrite Ep. splits; auto.
Qed.

End ResumeP.
