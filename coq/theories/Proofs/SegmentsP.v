(* Proofs about Model/Segments.v (property C09). *)
From CFDP Require Import Base.Prelude Model.Segments.

Definition covered (v : segs) (x : N) : Prop := exists s e, In (s, e) v /\ s <= x < e.

(* strictly sorted, non-empty, non-adjacent ranges *)
Fixpoint Inv (v : segs) : Prop :=
  match v with
  | [] => True
  | (s, e) :: t => s < e /\ match t with [] => True | (s', _) :: _ => e < s' end /\ Inv t
  end.
Definition lb (x : N) (v : segs) := match v with [] => True | (s, _) :: _ => x < s end.

Fixpoint total (v : segs) : N := match v with [] => 0 | (s, e) :: t => (e - s) + total t end.

Lemma Inv_cons s e t : Inv ((s, e) :: t) <-> s < e /\ lb e t /\ Inv t.
Proof. simpl. destruct t as [|[s' e'] t']; simpl; tauto. Qed.

Lemma covered_nil x : ~ covered [] x.
Proof. intros (s & e & H & _). inversion H. Qed.

Lemma covered_cons s e t x : covered ((s, e) :: t) x <-> (s <= x < e) \/ covered t x.
Proof.
  unfold covered; split.
  - intros (s' & e' & [H|H] & Hx); [inversion H; subst; left; lia | right; eauto].
  - intros [H | (s' & e' & H & Hx)];
      [exists s, e; split; [left; reflexivity|lia]
      | exists s', e'; split; [right; assumption|assumption]].
Qed.

Lemma lb_covered b v x : Inv v -> lb b v -> covered v x -> b < x.
Proof.
  revert b; induction v as [|[s e] t IH]; intros b Hi Hl Hc.
  - exfalso; eapply covered_nil; eauto.
  - apply Inv_cons in Hi as (Hse & Hlb & Hit). simpl in Hl.
    apply covered_cons in Hc as [Hc|Hc]; [lia|].
    specialize (IH e Hit Hlb Hc). lia.
Qed.

Lemma lb_weaken a b v : a <= b -> lb b v -> lb a v.
Proof. destruct v as [|[s e] t]; simpl; intros; [exact I|lia]. Qed.

Lemma absorb_ok b v : Inv v -> forall b' t' ov, absorb b v = (b', t', ov) ->
  b <= b' /\ Inv t' /\ lb b' t' /\
  (forall x, b <= x -> (covered t' x \/ x < b' <-> covered v x \/ x < b)) /\
  (forall x, x < b -> covered t' x -> False) /\
  total t' + (b' - b) + ov = total v /\ (forall x, covered t' x -> covered v x).
Proof.
  induction v as [|[s e] t IH]; intros Hi b' t' ov H; simpl in H.
  - inversion H; subst. splits; try lia; auto; try (intros; tauto).
    intros x _ Hc; eapply covered_nil; eauto.
  - apply Inv_cons in Hi as (Hse & Hlb & Hit).
    destruct (N.leb_spec s b) as [Hsb|Hsb].
    + destruct (N.ltb_spec b e) as [Hbe|Hbe].
      * inversion H; subst. splits; try lia; auto.
        -- intros x Hx. rewrite covered_cons. split.
           ++ intros [Hc|Hc]; [left; right; assumption | left; left; lia].
           ++ intros [[Hc|Hc]|Hc]; [right; lia | left; assumption | lia].
        -- intros x Hx Hc. pose proof (lb_covered _ _ _ Hit Hlb Hc). lia.
        -- simpl. lia.
        -- intros x Hc. apply covered_cons. right; assumption.
      * destruct (absorb b t) as [[b1 t1] ov1] eqn:E. inversion H; subst.
        destruct (IH Hit _ _ _ eq_refl) as (H1 & H2 & H3 & H4 & H5 & H6 & H7).
        splits; auto.
        -- intros x Hx. rewrite covered_cons. rewrite (H4 x Hx).
           split; intros [Hc|Hc]; auto. destruct Hc as [Hc|Hc]; auto. right; lia.
        -- cbn [total]. lia.
        -- intros x Hc. apply covered_cons. right; auto.
    + inversion H; subst. cbn [lb total]. splits; try lia; try tauto.
      * apply Inv_cons; auto.
      * intros x Hx Hc. apply covered_cons in Hc as [Hc|Hc]; [lia|].
        pose proof (lb_covered _ _ _ Hit Hlb Hc). lia.
Qed.

Lemma absorb_ov b v : forall e, Inv v -> lb e v -> e <= b ->
  forall b' t' ov, absorb b v = (b', t', ov) -> ov <= b - e.
Proof.
  induction v as [|[s' e'] t IH]; intros e Hi Hl Heb b' t' ov H; simpl in H.
  - inversion H; subst; lia.
  - apply Inv_cons in Hi as (Hse & Hlb & Hit). simpl in Hl.
    destruct (N.leb_spec s' b) as [Hsb|Hsb].
    + destruct (N.ltb_spec b e') as [Hbe|Hbe].
      * inversion H; subst. lia.
      * destruct (absorb b t) as [[b2 t2] ov2] eqn:E2. inversion H; subst.
        pose proof (IH e' Hit Hlb Hbe _ _ _ eq_refl). lia.
    + inversion H; subst; lia.
Qed.

(* The central lemma: one insertion. *)
Lemma ins_ok a b v : a < b -> Inv v -> forall v' n, ins a b v = (v', n) ->
  Inv v' /\
  (forall x, covered v' x <-> covered v x \/ a <= x < b) /\
  total v' = total v + n /\
  (forall c, c < a -> lb c v -> lb c v').
Proof.
  intros Hab. induction v as [|[s e] t IH]; intros Hi v' n H; cbn [ins] in H.
  - inversion H; subst. splits.
    + simpl; auto.
    + intros x. rewrite covered_cons. split; [intros [Hc|Hc]; [right; lia|left; assumption]|].
      intros [Hc|Hc]; [exfalso; eapply covered_nil; eauto|left; lia].
    + cbn [total]. lia.
    + intros c Hc _. simpl. lia.
  - apply Inv_cons in Hi as (Hse & Hlb & Hit).
    destruct (N.ltb_spec e a) as [Hea|Hea].
    + (* strictly after (s,e) *)
      destruct (ins a b t) as [t1 n1] eqn:E. inversion H; subst.
      destruct (IH Hit _ _ eq_refl) as (H1 & H2 & H3 & H4).
      splits.
      * apply Inv_cons. splits; auto.
      * intros x. rewrite !covered_cons, H2. tauto.
      * cbn [total]. lia.
      * intros c Hc Hl. simpl in *. lia.
    + destruct (N.ltb_spec b s) as [Hbs|Hbs].
      * (* strictly before (s,e) *)
        inversion H; subst. splits.
        -- apply Inv_cons. splits; auto. apply Inv_cons; auto.
        -- intros x. rewrite !covered_cons. tauto.
        -- cbn [total]. lia.
        -- intros c Hc _. simpl. lia.
      * (* touches or overlaps (s,e) *)
        destruct (N.leb_spec b e) as [Hbe|Hbe].
        -- inversion H; subst. splits.
           ++ apply Inv_cons. splits; auto. lia.
           ++ intros x. rewrite !covered_cons. split.
              ** intros [Hc|Hc]; [|tauto]. destruct (N.lt_ge_cases x s); [right; lia|left; left; lia].
              ** intros [[Hc|Hc]|Hc]; [left; lia|right; assumption|left; lia].
           ++ cbn [total]. lia.
           ++ intros c Hc Hl. simpl in *. lia.
        -- destruct (absorb b t) as [[b1 t1] ov1] eqn:E. inversion H; subst.
           destruct (absorb_ok b t Hit _ _ _ E) as (A1 & A2 & A3 & A4 & A5 & A6 & A7).
           splits.
           ++ apply Inv_cons. splits; auto. lia.
           ++ intros x. rewrite !covered_cons. split.
              ** intros [Hc|Hc].
                 --- destruct (N.lt_ge_cases x s); [right; lia|].
                     destruct (N.lt_ge_cases x e); [left; left; lia|].
                     destruct (N.lt_ge_cases x b); [right; lia|].
                     assert (Hx : covered t1 x \/ x < b1) by (right; lia).
                     apply (A4 x) in Hx; [|lia]. destruct Hx; [tauto|lia].
                 --- left; right; auto.
              ** intros [[Hc|Hc]|Hc].
                 --- left; lia.
                 --- destruct (N.lt_ge_cases x b) as [Hxb|Hxb].
                     +++ pose proof (lb_covered _ _ _ Hit Hlb Hc). left; lia.
                     +++ assert (Hx : covered t x \/ x < b) by (left; assumption).
                         apply (A4 x Hxb) in Hx. destruct Hx; [right; assumption|left; lia].
                 --- left; lia.
           ++ cbn [total].
              pose proof (absorb_ov b t e Hit Hlb (N.lt_le_incl _ _ Hbe) _ _ _ E).
              lia.
           ++ intros c Hc Hl. simpl in *. lia.
Qed.

Lemma merge_seg_some v a b : a < b -> merge_seg v (a, b) = Some (ins a b v).
Proof. intros H. unfold merge_seg. destruct (N.ltb_spec a b); [reflexivity|lia]. Qed.

Lemma merge_seg_none v a b : b <= a -> merge_seg v (a, b) = None.
Proof. intros H. unfold merge_seg. destruct (N.ltb_spec a b); [lia|reflexivity]. Qed.

(* ---- histories: every reachable list ---- *)

(* the receiver's loop: merge every (non-empty) segment, add up what merge returns *)
Definition step (st : segs * N) (sg : seg) : segs * N :=
  match merge_seg (fst st) sg with
  | Some (v', n) => (v', snd st + n)
  | None => st
  end.
Definition run (ops : list seg) : segs * N := fold_left step ops ([], 0).

Definition covered_by_ops (ops : list seg) (x : N) : Prop :=
  exists a b, In (a, b) ops /\ a <= x < b.

Lemma step_ok st sg : Inv (fst st) -> snd st = total (fst st) ->
  Inv (fst (step st sg)) /\ snd (step st sg) = total (fst (step st sg)) /\
  (forall x, covered (fst (step st sg)) x <->
             covered (fst st) x \/ (fst sg <= x < snd sg)).
Proof.
  destruct st as [v c], sg as [a b]; cbn [fst snd]. intros Hi Hc. unfold step; cbn [fst snd].
  destruct (N.lt_ge_cases a b) as [Hab|Hab].
  - rewrite merge_seg_some by assumption. destruct (ins a b v) as [v' n] eqn:E. cbn [fst snd].
    destruct (ins_ok a b v Hab Hi _ _ E) as (H1 & H2 & H3 & _). splits; auto. lia.
  - rewrite merge_seg_none by assumption. cbn [fst snd]. splits; auto.
    intros x; split; [tauto|]. intros [H|H]; [assumption|lia].
Qed.

Lemma run_from_ok ops : forall st, Inv (fst st) -> snd st = total (fst st) ->
  let st' := fold_left step ops st in
  Inv (fst st') /\ snd st' = total (fst st') /\
  (forall x, covered (fst st') x <-> covered (fst st) x \/ covered_by_ops ops x).
Proof.
  induction ops as [|sg ops IH]; intros st Hi Hc; cbn [fold_left].
  - splits; auto. intros x; split; [tauto|]. intros [H|(a & b & [] & _)]; assumption.
  - destruct (step_ok st sg Hi Hc) as (S1 & S2 & S3).
    destruct (IH (step st sg) S1 S2) as (R1 & R2 & R3). splits; auto.
    intros x. rewrite R3, S3. unfold covered_by_ops. split.
    + intros [[H|H]|(a & b & Hin & Hx)].
      * tauto.
      * right. exists (fst sg), (snd sg). split; [left; destruct sg; reflexivity|assumption].
      * right. exists a, b. split; [right; assumption|assumption].
    + intros [H|(a & b & [Hin|Hin] & Hx)].
      * tauto.
      * subst sg. left; right; assumption.
      * right. exists a, b. tauto.
Qed.

Theorem run_ok ops :
  Inv (fst (run ops)) /\ snd (run ops) = total (fst (run ops)) /\
  (forall x, covered (fst (run ops)) x <-> covered_by_ops ops x).
Proof.
  destruct (run_from_ok ops ([], 0) I eq_refl) as (H1 & H2 & H3). splits; auto.
  intros x. unfold run. rewrite H3. split; [|tauto].
  intros [H|H]; [exfalso; eapply covered_nil; exact H|assumption].
Qed.

(* ---- total is the number of covered positions ---- *)
Definition coveredb (v : segs) (x : N) : bool :=
  existsb (fun sg => (fst sg <=? x) && (x <? snd sg)) v.

Lemma coveredb_spec v x : coveredb v x = true <-> covered v x.
Proof.
  unfold coveredb, covered. rewrite existsb_exists. split.
  - intros ([s e] & Hin & Hb). cbn [fst snd] in Hb. apply andb_prop in Hb as [H1 H2].
    apply N.leb_le in H1. apply N.ltb_lt in H2. exists s, e. auto.
  - intros (s & e & Hin & H1 & H2). exists (s, e). split; [assumption|]. cbn [fst snd].
    apply andb_true_intro. split; [apply N.leb_le|apply N.ltb_lt]; assumption.
Qed.

(* number of covered positions below n, by recursion on n *)
Definition count_below (v : segs) (n : N) : N :=
  N.peano_rect (fun _ => N) 0 (fun x acc => if coveredb v x then acc + 1 else acc) n.

Lemma count_below_0 v : count_below v 0 = 0.
Proof. reflexivity. Qed.
Lemma count_below_succ v n :
  count_below v (N.succ n) = if coveredb v n then count_below v n + 1 else count_below v n.
Proof. unfold count_below. rewrite N.peano_rect_succ. reflexivity. Qed.

(* bytes of v below n, as a closed formula *)
Fixpoint total_below (v : segs) (n : N) : N :=
  match v with [] => 0 | (s, e) :: t => (N.min e n - N.min s n) + total_below t n end.

Lemma total_below_succ v n : Inv v ->
  total_below v (N.succ n) = if coveredb v n then total_below v n + 1 else total_below v n.
Proof.
  induction v as [|[s e] t IH]; intros Hi.
  - reflexivity.
  - apply Inv_cons in Hi as (Hse & Hlb & Hit). cbn [total_below].
    rewrite (IH Hit). unfold coveredb. cbn [existsb fst snd]. fold (coveredb t n).
    destruct (N.leb_spec s n) as [H1|H1]; destruct (N.ltb_spec n e) as [H2|H2]; cbn [andb orb].
    + (* inside (s,e): t does not cover n *)
      assert (Hn : coveredb t n = false).
      { destruct (coveredb t n) eqn:Hc; [|reflexivity]. apply coveredb_spec in Hc.
        pose proof (lb_covered _ _ _ Hit Hlb Hc). lia. }
      rewrite Hn. lia.
    + destruct (coveredb t n); lia.
    + assert (Hn : coveredb t n = false).
      { destruct (coveredb t n) eqn:Hc; [|reflexivity]. apply coveredb_spec in Hc.
        pose proof (lb_covered _ _ _ Hit Hlb Hc). lia. }
      rewrite Hn. lia.
    + lia.
Qed.

Lemma count_below_total v n : Inv v -> count_below v n = total_below v n.
Proof.
  intros Hi. induction n as [|n IH] using N.peano_ind.
  - rewrite count_below_0. induction v as [|[s e] t IHv]; [reflexivity|].
    apply Inv_cons in Hi as (_ & _ & Hit). cbn [total_below]. rewrite <- (IHv Hit). lia.
  - rewrite count_below_succ, total_below_succ, IH by assumption. reflexivity.
Qed.

Lemma total_below_all v n : Inv v -> (forall x, covered v x -> x < n) -> total_below v n = total v.
Proof.
  induction v as [|[s e] t IH]; intros Hi Hb; [reflexivity|].
  apply Inv_cons in Hi as (Hse & Hlb & Hit). cbn [total_below total].
  rewrite IH; auto.
  - assert (e - 1 < n). { apply Hb. apply covered_cons. left. lia. } lia.
  - intros x Hc. apply Hb. apply covered_cons. right; assumption.
Qed.

(* ---- is_complete ---- *)
Lemma complete_iff v n : Inv v ->
  (is_complete v n = true <-> forall x, x < n -> covered v x).
Proof.
  intros Hi. unfold is_complete. split.
  - intros H x Hx. apply orb_prop in H as [H|H].
    + apply N.eqb_eq in H. lia.
    + destruct v as [|[s e] t]; [discriminate|]. apply andb_prop in H as [H1 H2].
      apply N.eqb_eq in H1. apply N.leb_le in H2. apply covered_cons. left. lia.
  - intros H. destruct (N.eqb_spec n 0) as [Hn|Hn]; [reflexivity|]. cbn [orb].
    destruct v as [|[s e] t].
    + exfalso. apply (covered_nil 0). apply H. lia.
    + apply Inv_cons in Hi as (Hse & Hlb & Hit).
      assert (H0 : covered ((s, e) :: t) 0) by (apply H; lia).
      apply covered_cons in H0 as [H0|H0].
      * assert (Hs : s = 0) by lia. subst s. rewrite N.eqb_refl. cbn [andb].
        apply N.leb_le. destruct (N.le_gt_cases n e) as [Hne|Hne]; [assumption|].
        (* byte e would have to be covered, but it is in the gap after (0,e) *)
        assert (He : covered ((0, e) :: t) e) by (apply H; assumption).
        apply covered_cons in He as [He|He]; [lia|].
        pose proof (lb_covered _ _ _ Hit Hlb He). lia.
      * pose proof (lb_covered _ _ _ Hit Hlb H0). lia.
Qed.

(* ---- gaps ---- *)
Definition in_gaps (g : segs) (x : N) : Prop := covered g x.

Lemma gloop_spec v : forall p e, Inv v -> lb p v ->
  let g := gloop v p e in
  Inv g /\ (forall s t, In (s, t) g -> p <= s /\ t <= e) /\
  (forall x, covered g x <-> (p <= x < e /\ ~ covered v x)).
Proof.
  induction v as [|[s t] r IH]; intros p e Hi Hl; cbn [gloop].
  - destruct (N.ltb_spec p e) as [Hpe|Hpe].
    + splits.
      * simpl; auto.
      * intros s t [H|[]]. inversion H; subst. lia.
      * intros x. rewrite covered_cons. split.
        -- intros [H|H]; [split; [lia|apply covered_nil]|exfalso; eapply covered_nil; eauto].
        -- intros [H _]. left; lia.
    + splits.
      * exact I.
      * intros s t [].
      * intros x. split; [intros H; exfalso; eapply covered_nil; eauto|intros [H _]; lia].
  - apply Inv_cons in Hi as (Hst & Hlb & Hir). simpl in Hl.
    destruct (N.leb_spec e s) as [Hes|Hes].
    + (* window ends before this segment *)
      destruct (N.ltb_spec p e) as [Hpe|Hpe].
      * splits.
        -- simpl; auto.
        -- intros s0 t0 [H|[]]. inversion H; subst. lia.
        -- intros x. rewrite !covered_cons. split.
           ++ intros [H|H]; [|exfalso; eapply covered_nil; eauto]. split; [lia|].
              intros [Hc|Hc]; [lia|]. pose proof (lb_covered _ _ _ Hir Hlb Hc). lia.
           ++ intros [H _]. left; lia.
      * splits.
        -- exact I.
        -- intros s0 t0 [].
        -- intros x. split; [intros H; exfalso; eapply covered_nil; eauto|intros [H _]; lia].
    + (* gap (p,s), then continue after t *)
      destruct (N.ltb_spec e t) as [Het|Het].
      * splits.
        -- simpl; auto.
        -- intros s0 t0 [H|[]]. inversion H; subst. lia.
        -- intros x. rewrite !covered_cons. split.
           ++ intros [H|H]; [|exfalso; eapply covered_nil; eauto]. split; [lia|].
              intros [Hc|Hc]; [lia|]. pose proof (lb_covered _ _ _ Hir Hlb Hc). lia.
           ++ intros [H Hn]. left. split; [lia|].
              destruct (N.lt_ge_cases x s); [assumption|]. exfalso. apply Hn. left. lia.
      * destruct (IH t e Hir Hlb) as (G1 & G2 & G3).
        splits.
        -- apply Inv_cons. splits; auto.
           destruct (gloop r t e) as [|[s1 t1] g1] eqn:Eg; [exact I|]. simpl.
           destruct (G2 s1 t1 (or_introl eq_refl)). lia.
        -- intros s0 t0 [H|H]; [inversion H; subst; lia|].
           destruct (G2 _ _ H). lia.
        -- intros x. rewrite !covered_cons, G3. split.
           ++ intros [H|[H Hn]].
              ** split; [lia|]. intros [Hc|Hc]; [lia|].
                 pose proof (lb_covered _ _ _ Hir Hlb Hc). lia.
              ** split; [lia|]. intros [Hc|Hc]; [lia|tauto].
           ++ intros [H Hn]. destruct (N.lt_ge_cases x s); [left; lia|].
              right. split; [|tauto]. destruct (N.lt_ge_cases x t); [|lia].
              exfalso. apply Hn. left. lia.
Qed.

Definition first_end_ok (start p : N) (v : segs) : Prop :=
  match v with [] => True | (_, t) :: _ => p <= N.max t start end.
Definition first_start_ok (start p : N) (v : segs) : Prop :=
  match v with [] => True | (s, _) :: _ => start < s -> p < s end.

Lemma gskip_spec v : forall start p r q, Inv v -> start <= p ->
  first_end_ok start p v -> first_start_ok start p v ->
  gskip v start p = (r, q) ->
  Inv r /\ lb q r /\ p <= q /\
  (forall x, covered r x -> covered v x) /\
  (forall x, covered v x -> covered r x \/ x < q) /\
  (forall x, p <= x < q -> covered v x).
Proof.
  induction v as [|[s t] r0 IH]; intros start p r q Hi Hsp Hfe Hfs H; cbn [gskip] in H.
  - inversion H; subst. splits; try exact I; auto; try lia; intros x Hx; lia.
  - apply Inv_cons in Hi as (Hst & Hlb & Hir). cbn [first_end_ok first_start_ok] in Hfe, Hfs.
    destruct (N.leb_spec s start) as [Hss|Hss].
    + assert (Hmax : start <= N.max t start) by lia.
      assert (Hfe' : first_end_ok start (N.max t start) r0).
      { destruct r0 as [|[s1 t1] r1]; [exact I|]. cbn [first_end_ok]. simpl in Hlb.
        apply Inv_cons in Hir as (? & _ & _). lia. }
      assert (Hfs' : first_start_ok start (N.max t start) r0).
      { destruct r0 as [|[s1 t1] r1]; [exact I|]. cbn [first_start_ok]. simpl in Hlb. lia. }
      destruct (IH start (N.max t start) r q Hir Hmax Hfe' Hfs' H)
        as (G1 & G2 & G3 & G4 & G5 & G6).
      splits; auto.
      * lia.
      * intros x Hc. apply covered_cons. right; auto.
      * intros x Hc. apply covered_cons in Hc as [Hc|Hc]; [right; lia|auto].
      * intros x Hx. apply covered_cons.
        destruct (N.lt_ge_cases x (N.max t start)) as [Hx'|Hx'].
        -- left. lia.
        -- right. apply G6. lia.
    + inversion H; subst. splits; auto.
      * apply Inv_cons; auto.
      * simpl. auto.
      * lia.
      * intros x Hx; lia.
Qed.

Theorem gaps_spec v start e : Inv v ->
  let g := gaps v start e in
  Inv g /\ (forall s t, In (s, t) g -> start <= s /\ t <= e) /\
  (forall x, covered g x <-> (start <= x < e /\ ~ covered v x)).
Proof.
  intros Hi. unfold gaps. destruct (gskip v start start) as [r q] eqn:E. cbn zeta.
  assert (Hfe : first_end_ok start start v) by (destruct v as [|[s t] ?]; simpl; [exact I|lia]).
  assert (Hfs : first_start_ok start start v) by (destruct v as [|[s t] ?]; simpl; auto).
  destruct (gskip_spec v start start r q Hi (N.le_refl _) Hfe Hfs E) as (G1 & G2 & G3 & G4 & G5 & G6).
  destruct (gloop_spec r q e G1 G2) as (L1 & L2 & L3). splits.
  - exact L1.
  - intros s t Hin. destruct (L2 s t Hin). lia.
  - intros x. rewrite L3. split.
    + intros [Hx Hn]. split; [lia|]. intros Hc. destruct (G5 x Hc); [tauto|lia].
    + intros [Hx Hn]. split.
      * destruct (N.lt_ge_cases x q) as [Hq|Hq]; [|lia]. exfalso. apply Hn, G6. lia.
      * intros Hc. apply Hn, G4, Hc.
Qed.

(* ---- the pinned code's three defects, as executable witnesses ---- *)
Example pinned_is_complete_refuted :
  Pinned.is_complete [(5, 10)] 10 = true /\ Pinned.is_complete [] 0 = false /\
  is_complete [(5, 10)] 10 = false /\ is_complete [] 0 = true.
Proof. vm_compute. auto. Qed.

Example pinned_count_refuted :
  snd (Pinned.ins_first 0 25 [(5, 10); (12, 20)]) = 20 /\ snd (ins 0 25 [(5, 10); (12, 20)]) = 12.
Proof. vm_compute. auto. Qed.

Example pinned_gaps_refuted :
  Pinned.gaps [(0, 10); (20, 30)] 0 5 = [(10, 5)] /\ gaps [(0, 10); (20, 30)] 0 5 = [].
Proof. vm_compute. auto. Qed.
