(* C07, first pass: before a send transaction puts an EOF that says "no error" on the link it
   has transmitted EVERY byte of the source file in file data PDUs (send.rs: the cursor of the
   first pass survives retransmissions that are interleaved with it; the EOF is prepared only
   when the cursor reaches the end of the file).  Invariant over histories: [h] is everything
   emitted by earlier steps, [s_out s] what the current step has emitted so far. *)
From CFDP Require Import Base.Prelude Model.Timer Model.TxTypes Model.Recv Model.Send Proofs.Tac Proofs.TimerP
  Proofs.SendP.

Definition fd_covers (x : N) (o : out) : Prop :=
  match o with
  | OPdu p => match o_payload p with
              | PFileData off d => off <= x < off + N.of_nat (length d)
              | _ => False
              end
  | OInd _ => False
  end.
(* every offset below [p] lies inside a file data PDU of the log [H] *)
Definition cov (H : list out) (p : N) : Prop := forall x, x < p -> Exists (fd_covers x) H.
Definition eof_noerr (o : out) : Prop :=
  match o with
  | OPdu p => match o_payload p with PEof e => eof_cond e = NoError | _ => False end
  | OInd _ => False
  end.
Definition early (p : sphase) : Prop := p = SendMetadata \/ p = SendData.

Lemma cov_cons o H p : cov H p -> cov (o :: H) p.
Proof. intros C x Hx. apply Exists_cons_tl. auto. Qed.
Lemma cov_le H p q : cov H q -> p <= q -> cov H p.
Proof. intros C Hle x Hx. apply C. lia. Qed.
Lemma cov_0 H : cov H 0.
Proof. intros x Hx. lia. Qed.
Lemma cov_app_r H1 H2 p : cov H2 p -> cov (H1 ++ H2) p.
Proof. intros C x Hx. apply Exists_app. right. auto. Qed.

Section FirstPass.
Variable cksum : cktype -> bytes -> N.
Variable resp_len : fsresp -> N.
Variable req_len : fsreq -> N.

Notation sstep := (sstep cksum resp_len req_len).
Notation s_send_pdu := (s_send_pdu cksum resp_len req_len).
Notation s_handle_timeout := (s_handle_timeout cksum).
Notation s_handle_fault := (s_handle_fault cksum).
Notation s_cancel_ := (s_cancel_ cksum).
Notation prepare_eof := (prepare_eof cksum).
Notation send_file_segment := (send_file_segment resp_len req_len).
Notation send_missing_data := (send_missing_data resp_len req_len).
Notation send_metadata := (send_metadata resp_len req_len).
Notation send_eof := (send_eof resp_len req_len).
Notation send_prompt := (send_prompt resp_len req_len).
Notation send_ack := (send_ack resp_len req_len).
Notation semit_pdu := (semit_pdu resp_len req_len).

Definition FT (s : sstate) : Prop := s_is_file_transfer s = true \/ flen s = 0.

Definition FP (h : list out) (s : sstate) : Prop :=
  (early (s_phase s) -> cov (s_out s ++ h) (s_pos s)) /\
  (forall e b, s_eof s = Some (e, b) -> eof_cond e = NoError -> cov (s_out s ++ h) (flen s)) /\
  (Exists eof_noerr (s_out s ++ h) -> cov (s_out s ++ h) (flen s)) /\
  FT s.

Lemma FP_ext h (s s' : sstate) : FP h s -> (early (s_phase s') -> early (s_phase s)) -> s_pos s' = s_pos s ->
  s_eof s' = s_eof s -> s_out s' = s_out s -> s_meta s' = s_meta s -> s_file s' = s_file s -> FP h s'.
Proof.
  unfold FP, FT, flen, s_is_file_transfer. intros (A & B & C & D) E1 E2 E3 E4 E5 E6.
  rewrite E2, E3, E4, E5, E6. splits; auto.
Qed.
(* one more output that is not an EOF saying "no error" *)
Lemma FP_out h o (s s' : sstate) : FP h s -> (early (s_phase s') -> early (s_phase s)) -> s_pos s' = s_pos s ->
  s_eof s' = s_eof s -> s_out s' = o :: s_out s -> s_meta s' = s_meta s -> s_file s' = s_file s ->
  ~ eof_noerr o -> FP h s'.
Proof.
  unfold FP, FT, flen, s_is_file_transfer. intros (A & B & C & D) E1 E2 E3 E4 E5 E6 Ho.
  rewrite E2, E3, E4, E5, E6. cbn [app]. splits; auto.
  - intros He. apply cov_cons. auto.
  - intros e b He Hc. apply cov_cons. eauto.
  - intros Hx. apply cov_cons. apply C. inversion Hx; subst; [contradiction|assumption].
Qed.
(* a move to SendEof / Cancelled / Finished: the cursor no longer matters *)
Lemma FP_late h (s s' : sstate) : FP h s -> late_phase (s_phase s') ->
  s_eof s' = s_eof s -> s_out s' = s_out s -> s_meta s' = s_meta s -> s_file s' = s_file s -> FP h s'.
Proof.
  unfold FP, FT, flen, s_is_file_transfer, late_phase, early. intros (A & B & C & D) (L1 & L2) E3 E4 E5 E6.
  rewrite E3, E4, E5, E6. splits; auto. intros [F|F]; contradiction.
Qed.
(* a new pending EOF in a late phase *)
Lemma FP_seteof h (s s' : sstate) : FP h s -> late_phase (s_phase s') ->
  s_out s' = s_out s -> s_meta s' = s_meta s -> s_file s' = s_file s ->
  (forall e b, s_eof s' = Some (e, b) -> eof_cond e = NoError -> cov (s_out s ++ h) (flen s)) -> FP h s'.
Proof.
  unfold FP, FT, flen, s_is_file_transfer, late_phase, early. intros (A & B & C & D) (L1 & L2) E4 E5 E6 N.
  rewrite E4, E5, E6. splits; auto. intros [F|F]; contradiction.
Qed.
(* with the whole file on the link everything holds *)
Lemma FP_full h (s' : sstate) : cov (s_out s' ++ h) (flen s') -> FT s' ->
  (early (s_phase s') -> s_pos s' <= flen s') -> FP h s'.
Proof.
  unfold FP. intros C F P. splits; auto. intros He. eapply cov_le; [exact C|auto].
Qed.

Ltac fp_side := cbn; tauto.
Ltac fp_leaf h :=
  lazymatch goal with
  | |- FP h ?t =>
      let b := strip_s t in
      first [ eapply (FP_ext h b); [ | intros Q; exact Q | reflexivity | reflexivity | reflexivity | reflexivity | reflexivity ]
            | eapply (FP_out h _ b); [ | intros Q; exact Q | reflexivity | reflexivity | reflexivity | reflexivity
                                     | reflexivity | fp_side ] ]
  end.
Ltac late_side := cbn; unfold late_phase; split; discriminate.

Lemma FP_shutdown h now s : FP h s -> FP h (s_shutdown now s).
Proof. intros H. unfold s_shutdown. fp_leaf h. exact H. Qed.
Lemma FP_abandon h now s : FP h s -> FP h (s_abandon now s).
Proof. intros H. unfold s_abandon. apply FP_shutdown. fp_leaf h. exact H. Qed.
Lemma FP_suspend h now s : FP h s -> FP h (s_suspend now s).
Proof. intros H. unfold s_suspend. fp_leaf h. exact H. Qed.
Lemma FP_resume h now s : FP h s -> FP h (s_resume now s).
Proof. intros H. unfold s_resume. destruct (s_phase s) eqn:E; fp_leaf h; exact H. Qed.
Lemma FP_set_eof_flag h b s : FP h s -> FP h (set_eof_flag b s).
Proof.
  intros H. unfold set_eof_flag. destruct (s_eof s) as [[e f]|] eqn:Ee; [|exact H].
  destruct H as (A & B & C & D). unfold FP, FT, flen, s_is_file_transfer in *. cbn. splits; auto.
  intros e' b' Heq Hc. inversion Heq; subst. eapply B; [exact Ee|exact Hc].
Qed.

Lemma FP_prepare_eof h fl s : FP h s -> late_phase (s_phase s) ->
  (s_cond s = NoError -> cov (s_out s ++ h) (flen s)) -> FP h (prepare_eof fl s).
Proof.
  intros H Hl Hc. unfold Send.prepare_eof, Send.get_checksum.
  destruct (s_cksum s); cbn [fst snd].
  { eapply (FP_seteof h s); [exact H|exact Hl|reflexivity|reflexivity|reflexivity|].
    cbn. intros e b Heq Hn. inversion Heq; subst. cbn in Hn. auto. }
  destruct (s_is_file_transfer s); cbn [fst snd].
  2:{ eapply (FP_seteof h s); [exact H|exact Hl|reflexivity|reflexivity|reflexivity|].
      cbn. intros e b Heq Hn. inversion Heq; subst. cbn in Hn. auto. }
  destruct (md_ck (s_meta s)).
  - eapply (FP_seteof h s); [exact H|exact Hl|reflexivity|reflexivity|reflexivity|].
    cbn. intros e b Heq Hn. inversion Heq; subst. cbn in Hn. auto.
  - eapply (FP_seteof h s); [exact H|exact Hl|reflexivity|reflexivity|reflexivity|].
    cbn. intros e b Heq Hn. inversion Heq; subst. cbn in Hn. auto.
Qed.

Lemma FP_cancel_ h now c s : FP h s -> c <> NoError -> FP h (s_cancel_ now c s).
Proof.
  intros H Hc. unfold Send.s_cancel_. apply FP_prepare_eof.
  - eapply (FP_late h s); [exact H | late_side | reflexivity | reflexivity | reflexivity | reflexivity].
  - late_side.
  - cbn. intros E. contradiction.
Qed.

Lemma FP_handle_fault h now c s : FP h s -> c <> NoError -> FP h (s_handle_fault now c s).
Proof.
  intros H Hc. unfold Send.s_handle_fault.
  assert (H1 : FP h (semit_ind (IFault c (s_sent (set_s_cond c s))) (set_s_cond c s))) by (fp_leaf h; exact H).
  destruct (handler _ c); [apply FP_cancel_ | apply FP_suspend | | apply FP_abandon]; assumption.
Qed.

Lemma FP_ht_ack_eof h now s : FP h s -> FP h (ht_ack_eof cksum now s).
Proof.
  intros H. unfold ht_ack_eof, c_timeout_occurred. cbn [fst snd].
  set (s3 := supd_ack (fun _ => c_update now (t_ack (s_timer s))) s).
  assert (H3 : FP h s3) by (unfold s3; fp_leaf h; exact H). clearbody s3.
  destruct (c_occurred (c_update now (t_ack (s_timer s)))); [|exact H3].
  destruct (c_count (c_update now (t_ack (s_timer s))) =? c_max (c_update now (t_ack (s_timer s))));
    [apply FP_handle_fault; [exact H3|discriminate] | apply FP_set_eof_flag; exact H3].
Qed.
Lemma FP_handle_timeout h now s : FP h s -> FP h (s_handle_timeout now s).
Proof.
  intros H. unfold Send.s_handle_timeout, c_limit_reached.
  destruct (s_phase s) eqn:Ep; try exact H; cbn [fst snd].
  - set (s1 := supd_inact (fun _ => c_update now (t_inact (s_timer s))) s).
    assert (H1 : FP h s1) by (unfold s1; fp_leaf h; exact H). clearbody s1.
    destruct (c_count (c_update now (t_inact (s_timer s))) =? c_max (c_update now (t_inact (s_timer s)))); cbn [andb].
    + assert (H2 : FP h (s_handle_fault now InactivityDetected s1)) by (apply FP_handle_fault; [exact H1|discriminate]).
      destruct (negb (sphase_eqb (s_phase (s_handle_fault now InactivityDetected s1)) SendEof)
                || negb (tstate_eqb (s_state (s_handle_fault now InactivityDetected s1)) TActive));
        [exact H2|apply FP_ht_ack_eof; exact H2].
    + apply FP_ht_ack_eof; exact H1.
  - set (s1 := supd_inact (fun _ => c_update now (t_inact (s_timer s))) s).
    assert (H1 : FP h s1) by (unfold s1; fp_leaf h; exact H). clearbody s1.
    destruct (c_count (c_update now (t_inact (s_timer s))) =? c_max (c_update now (t_inact (s_timer s))));
      [apply FP_abandon; exact H1|].
    unfold c_timeout_occurred. cbn [fst snd].
    set (s3 := supd_ack (fun _ => c_update now (t_ack (s_timer s1))) s1).
    assert (H3 : FP h s3) by (unfold s3; fp_leaf h; exact H1). clearbody s3.
    destruct (c_occurred (c_update now (t_ack (s_timer s1)))); [|exact H3].
    destruct (c_count (c_update now (t_ack (s_timer s1))) =? c_max (c_update now (t_ack (s_timer s1))));
      [apply FP_abandon | apply FP_set_eof_flag]; exact H3.
Qed.

Lemma FP_process_pdu h now p s : FP h s -> FP h (fst (s_process_pdu now p s)).
Proof.
  intros H. unfold Send.s_process_pdu.
  set (s0 := if sphase_eqb (s_phase s) SendEof && negb (ssuspended s) then supd_inact (c_reset now) s else s).
  assert (H0 : FP h s0) by (unfold s0; destruct (_ && _); [fp_leaf h|]; exact H). clearbody s0. clear H.
  destruct (cfg_mode (s_cfg s0)); destruct p; cbn [fst]; try exact H0.
  - (* Finished, acknowledged *)
    eapply (FP_out h _ (set_s_phase SFinished (prepare_ack (set_s_fstat (fin_fs f) (set_s_dc (fin_dc f) s0)))));
      [ | intros Q; exact Q | reflexivity | reflexivity | reflexivity | reflexivity | reflexivity | fp_side ].
    eapply (FP_late h s0); [exact H0 | late_side | reflexivity | reflexivity | reflexivity | reflexivity].
  - destruct (ack_dir a); cbn [fst]; exact H0.
  - destruct (md_closure (s_meta s0)); cbn [fst]; [|exact H0].
    apply FP_shutdown. fp_leaf h. exact H0.
Qed.

Lemma FP_send_metadata h s : FP h s -> FP h (send_metadata s).
Proof. intros H. unfold Send.send_metadata. fp_leaf h. exact H. Qed.

(* a retransmission: the cursor of the first pass is restored *)
Lemma FP_send_missing_data h now s : FP h s -> FP h (fst (send_missing_data now s)).
Proof.
  intros H. unfold Send.send_missing_data. destruct (s_naks s) as [|[a b] t] eqn:En; [exact H|].
  set (s1 := supd_inact (c_restart now) (set_s_naks t s)).
  assert (H1 : FP h s1) by (unfold s1; fp_leaf h; exact H). clearbody s1.
  destruct (65535 <? b - a); cbn [fst]; [exact H1|].
  destruct ((a =? 0) && (b - a =? 0)); cbn [fst]; [apply FP_send_metadata; exact H1|].
  unfold Send.send_file_segment.
  eapply (FP_out h _ s1); [exact H1 | intros Q; exact Q | reflexivity | reflexivity | reflexivity | reflexivity
                          | reflexivity | fp_side].
Qed.

Lemma smd_fields now s :
  s_pos (fst (send_missing_data now s)) = s_pos s /\ s_file (fst (send_missing_data now s)) = s_file s.
Proof.
  unfold Send.send_missing_data. destruct (s_naks s) as [|[a b] t]; [auto|].
  destruct (65535 <? b - a); cbn [fst]; [cbn; auto|].
  destruct ((a =? 0) && (b - a =? 0)); cbn [fst]; cbn; auto.
Qed.

Lemma FP_send_eof h now s : FP h s -> FP h (send_eof now s).
Proof.
  intros H. unfold Send.send_eof. destruct (s_eof s) as [[e [|]]|] eqn:Ee; try exact H.
  apply FP_set_eof_flag.
  destruct H as (A & B & C & D). unfold FP, FT, flen, s_is_file_transfer in *. cbn. splits; auto.
  - intros He. apply cov_cons. auto.
  - intros e' b' Heq Hc. apply cov_cons. eauto.
  - intros Hx. apply cov_cons. inversion Hx as [? ? Hh|? ? Hh]; subst.
    + cbn in Hh. eapply B; [exact Ee|exact Hh].
    + auto.
Qed.
Lemma FP_send_prompt h now s : FP h s -> FP h (send_prompt now s).
Proof. intros H. unfold Send.send_prompt. destruct (s_prompt s); [fp_leaf h|]; exact H. Qed.
Lemma FP_send_ack h now s : FP h s -> FP h (send_ack now s).
Proof. intros H. unfold Send.send_ack. destruct (s_ack s); [apply FP_shutdown; fp_leaf h|]; exact H. Qed.

(* the EOF of the first pass is prepared with the whole file on the link *)
Lemma FP_to_eof h now fl (s : sstate) : FP h s -> cov (s_out s ++ h) (flen s) ->
  FP h (enter_send_eof now (prepare_eof fl s)).
Proof.
  intros H C. destruct (prepare_eof_fields cksum fl s) as (A & B & Cf & D & E & F & G).
  set (X := prepare_eof fl s) in *. clearbody X.
  apply FP_full.
  - change (s_out (enter_send_eof now X)) with (s_out X). unfold flen in *.
    change (s_file (enter_send_eof now X)) with (s_file X). rewrite F, Cf. exact C.
  - destruct H as (_ & _ & _ & T). unfold FT, flen, s_is_file_transfer in *.
    change (s_meta (enter_send_eof now X)) with (s_meta X).
    change (s_file (enter_send_eof now X)) with (s_file X). rewrite A, Cf. exact T.
  - change (s_phase (enter_send_eof now X)) with SendEof. unfold early. intros [Q|Q]; discriminate.
Qed.

Lemma FP_send_pdu h now s : S7 s -> FP h s -> FP h (fst (s_send_pdu now s)).
Proof.
  intros H7 H. unfold Send.s_send_pdu.
  destruct (is_some (s_prompt s)); cbn [fst]; [apply FP_send_prompt; exact H|].
  destruct (s_phase s) eqn:Ep.
  - (* SendMetadata *)
    pose proof (FP_send_metadata h s H) as H1.
    destruct (s_is_file_transfer (send_metadata s) && (0 <? md_size (s_meta (send_metadata s)))) eqn:Ef; cbn [fst].
    + eapply (FP_ext h (send_metadata s)); [exact H1 | | reflexivity | reflexivity | reflexivity | reflexivity | reflexivity].
      intros _. cbn. rewrite Ep. left. reflexivity.
    + apply FP_to_eof; [exact H1|].
      assert (Hz : flen s = 0).
      { destruct H as (_ & _ & _ & [T|T]); [|exact T].
        destruct H7 as (A & _). cbn in Ef. unfold s_is_file_transfer in T, Ef. cbn in Ef. rewrite T in Ef.
        cbn [andb] in Ef. apply N.ltb_ge in Ef. lia. }
      unfold flen in *. cbn. rewrite Hz. apply cov_0.
  - (* SendData *)
    destruct (negb (is_nil (s_naks s))).
    + pose proof (FP_send_missing_data h now s H) as H1.
      destruct (send_missing_data now s) as [s1 r] eqn:Es1. cbn [fst] in H1.
      destruct r; cbn [fst]; try exact H1.
      destruct (N.eqb_spec (s_pos s1) (N.of_nat (length (s_file s1)))) as [He|He]; cbn [fst]; [|exact H1].
      (* the cursor is still that of the first pass, which has not reached the end *)
      exfalso. destruct (smd_fields now s) as (F1 & F2). rewrite Es1 in F1, F2. cbn [fst] in F1, F2.
      destruct H7 as (_ & _ & _ & _ & E & _). specialize (E Ep). unfold flen in E. rewrite F1, F2 in He. lia.
    + (* first pass: one segment at the cursor *)
      cbn [fst].
      set (s1 := send_file_segment (s_pos s) (cfg_seg (s_cfg s)) s).
      assert (H1 : FP h s1).
      { destruct H as (A & B & C & D). unfold s1, Send.send_file_segment.
        unfold FP, FT, flen, s_is_file_transfer in *. cbn. splits; auto.
        - intros _ x Hx. destruct (N.lt_ge_cases x (s_pos s)) as [Hlt|Hge].
          + apply Exists_cons_tl. apply A; [right; exact Ep|exact Hlt].
          + apply Exists_cons_hd. cbn. lia.
        - intros e b He Hc. apply cov_cons. eauto.
        - intros Hx. apply cov_cons. apply C. inversion Hx as [? ? Hh|? ? Hh]; subst; [cbn in Hh; contradiction|exact Hh]. }
      destruct (N.eqb_spec (s_pos s1) (N.of_nat (length (s_file s1)))) as [He|He]; cbn [fst]; [|exact H1].
      apply FP_to_eof; [exact H1|].
      destruct H1 as (A1 & _). unfold flen. rewrite <- He. apply A1. right. unfold s1. cbn. exact Ep.
  - (* SendEof *)
    destruct (negb (is_nil (s_naks s))); [apply FP_send_missing_data; exact H|].
    pose proof (FP_send_eof h now s H) as H1.
    set (s1 := send_eof now s) in *. clearbody s1.
    assert (H2 : FP h (if s_eof_ind s1 then set_s_eof_ind false (semit_ind IEoFSent s1) else s1)).
    { destruct (s_eof_ind s1); [fp_leaf h|]; exact H1. }
    remember (if s_eof_ind s1 then _ else s1) as s2 eqn:E2. clear E2 H1.
    destruct (cfg_mode (s_cfg s2)); cbn [fst]; [exact H2|].
    destruct (md_closure (s_meta s2)); cbn [fst]; [exact H2|].
    apply FP_shutdown. fp_leaf h. exact H2.
  - cbn [fst]. apply FP_send_eof; exact H.
  - cbn [fst]. apply FP_send_ack; exact H.
Qed.

(* one step: the history grows by what the previous step emitted *)
Theorem FP_sstep h now o s : S7 s -> FP h s -> FP (s_out s ++ h) (fst (sstep now o s)).
Proof.
  intros H7 H. unfold Send.sstep.
  assert (H0 : FP (s_out s ++ h) (set_s_out [] s)).
  { destruct H as (A & B & C & D). unfold FP, FT, flen, s_is_file_transfer in *. cbn. splits; auto. }
  assert (H70 : S7 (set_s_out [] s)).
  { destruct H7 as (A & B & C & D & E & E' & _). unfold S7, flen. cbn. splits; auto. }
  set (h' := s_out s ++ h) in *. clearbody h'.
  destruct o; cbn [fst].
  - apply FP_process_pdu; exact H0.
  - destruct (s_has_pdu_to_send _); [apply FP_send_pdu|]; assumption.
  - destruct (s_until_timeout now _) as [[|?]|]; [apply FP_handle_timeout| |]; exact H0.
  - apply FP_cancel_; [exact H0|discriminate].
  - apply FP_suspend; exact H0.
  - apply FP_resume; exact H0.
  - unfold s_send_report.
    eapply (FP_out h' _ (set_s_out [] s)); [exact H0 | intros Q; exact Q | reflexivity | reflexivity | reflexivity
                                           | reflexivity | reflexivity | cbn; tauto].
  - apply FP_shutdown; exact H0.
  - exact H0.
Qed.

Lemma FP_init now cfg m file : (md_src m <> [] \/ file = []) -> FP [] (s_new now cfg m file).
Proof.
  intros Hf. unfold FP, FT, flen, s_is_file_transfer, s_new. cbn. splits.
  - intros _. apply cov_0.
  - intros e b He. discriminate.
  - intros Hx. inversion Hx as [? ? Hh|? ? Hh]; subst; [cbn in Hh; contradiction|inversion Hh].
  - destruct Hf as [Hf|Hf]; [left|right; subst; reflexivity].
    destruct (md_src m); [contradiction|reflexivity].
Qed.

(* ---- histories: any sequence of (time, operation) ---- *)
Definition sstep1 (s : sstate) (e : N * sop) : sstate := fst (sstep (fst e) (snd e) s).
(* the state after the operations, and everything emitted before its last step (newest first) *)
Fixpoint srun (ops : list (N * sop)) (s : sstate) (h : list out) : sstate * list out :=
  match ops with
  | [] => (s, h)
  | e :: t => srun t (sstep1 s e) (s_out s ++ h)
  end.

Lemma srun_inv file m ops : forall s h, S7 s -> FP h s -> SE file m s ->
  S7 (fst (srun ops s h)) /\ FP (snd (srun ops s h)) (fst (srun ops s h)) /\ SE file m (fst (srun ops s h)).
Proof.
  induction ops as [|e t IH]; intros s h H7 H HE; cbn [srun fst snd]; [auto|].
  apply IH; [apply S7_sstep; exact H7 | apply FP_sstep; assumption | apply SE_sstep; exact HE].
Qed.

(* C07, first pass: whatever the operations (NAKs of any shape interleaved with the first pass,
   timeouts, suspensions, ...), if the transaction has ever emitted an EOF PDU saying "no
   error", then every byte of the source file has been emitted in a file data PDU - and, by S7,
   each of those carries exactly the file's bytes at its offset *)
Theorem first_pass_covers now cfg m file ops : md_size m = N.of_nat (length file) -> 0 < cfg_seg cfg ->
  (md_src m <> [] \/ file = []) ->
  let '(s, h) := srun ops (s_new now cfg m file) [] in
  let log := s_out s ++ h in
  forall p e, In (OPdu p) log -> o_payload p = PEof e -> eof_cond e = NoError ->
  forall x, x < N.of_nat (length file) ->
  exists q off d, In (OPdu q) log /\ o_payload q = PFileData off d /\ off <= x < off + N.of_nat (length d).
Proof.
  intros Hm Hs Hf.
  pose proof (srun_inv file m ops (s_new now cfg m file) [] (S7_init now cfg m file Hm Hs)
                (FP_init now cfg m file Hf) (SE_init file now cfg m)) as (H7 & H & HE).
  assert (Hfile : s_file (fst (srun ops (s_new now cfg m file) [])) = file) by (destruct HE as (_ & _ & _ & D); exact D).
  destruct (srun ops (s_new now cfg m file) []) as [s h]. cbn [fst snd] in *. cbn zeta.
  intros p e Hin Hp Hc x Hx.
  destruct H as (_ & _ & C & _).
  assert (Hex : Exists eof_noerr (s_out s ++ h)).
  { apply Exists_exists. exists (OPdu p). split; [exact Hin|]. cbn. rewrite Hp. exact Hc. }
  specialize (C Hex x). unfold flen in C. rewrite Hfile in C. specialize (C Hx).
  apply Exists_exists in C as (o & Ho & Hcov). destruct o as [q|i]; [|contradiction].
  cbn in Hcov. destruct (o_payload q) as [off d| | | | | | |] eqn:Eq; try contradiction.
  exists q, off, d. auto.
Qed.

End FirstPass.
