(* C01, receiver half as an invariant of the receive-transaction model: if every file data,
   Metadata and EOF PDU delivered to it is truthful for the source file f and the sender's
   metadata m, then whenever the transaction reports (Finished indication) or announces
   (Finished PDU) file status Retained with delivery code Complete, the filestore holds exactly
   f under the destination name - no appeal to the checksum. *)
From CFDP Require Import Base.Prelude Model.Segments Model.Timer Model.TxTypes Model.Recv Model.Send
  Proofs.SegmentsP Proofs.TimerP Proofs.Tac Proofs.RecvP Proofs.StageP.

(* peel record updates, stopping at what touches the output list or the prepared Finished PDU *)
Ltac strip_f t :=
  lazymatch t with
  | set_r_cfg _ ?y => strip_f y | set_r_nakproc _ ?y => strip_f y | set_r_status _ ?y => strip_f y
  | set_r_state _ ?y => strip_f y | set_r_phase _ ?y => strip_f y | set_r_meta _ ?y => strip_f y
  | set_r_segs _ ?y => strip_f y | set_r_recvd _ ?y => strip_f y | set_r_staged _ ?y => strip_f y
  | set_r_cond _ ?y => strip_f y | set_r_dc _ ?y => strip_f y | set_r_fstat _ ?y => strip_f y
  | set_r_resps _ ?y => strip_f y | set_r_timer _ ?y => strip_f y | set_r_cksum _ ?y => strip_f y
  | set_r_fsize _ ?y => strip_f y | set_r_ack _ ?y => strip_f y | set_r_fin _ ?y => strip_f y
  | set_r_prompt _ ?y => strip_f y | set_r_naks _ ?y => strip_f y | set_r_nak_recvd _ ?y => strip_f y
  | set_r_delayed _ ?y => strip_f y | set_r_fs _ ?y => strip_f y | set_r_out _ ?y => strip_f y
  | upd_inact _ ?y => strip_f y | upd_ack _ ?y => strip_f y | upd_nak _ ?y => strip_f y
  | prepare_ack_eof ?y => strip_f y
  | shutdown _ ?y => strip_f y
  | _ => t
  end.
Ltac solve_f J ext calls :=
  lazymatch goal with
  | |- J ?t =>
      first [ assumption
            | calls tt; solve_f J ext calls
            | let b := strip_f t in
              tryif constr_eq b t then fail
              else (eapply (ext b); [ solve_f J ext calls | reflexivity .. ]) ]
  end.

Section DeliverP.
Variable FS : Type.
Variable fs_write_file : FS -> bytes -> bytes -> option FS.
Variable fs_exec : FS -> fsreq -> FS * fsresp.
Variable resp_fail : fsresp -> bool.
Variable not_performed : fsreq -> fsresp.
Variable cksum : cktype -> bytes -> N.
Variable resp_len : fsresp -> N.
Variable req_len : fsreq -> N.
(* reading a file back from the filestore; a successful write is visible *)
Variable lookup : FS -> bytes -> option bytes.
Hypothesis write_lookup : forall fs name content fs',
  fs_write_file fs name content = Some fs' -> lookup fs' name = Some content.

Notation rstate := (rstate FS).
Notation rstep := (rstep FS fs_write_file fs_exec resp_fail not_performed cksum resp_len req_len).
Notation process_pdu := (process_pdu FS fs_write_file fs_exec resp_fail not_performed cksum).
Notation check_finished := (check_finished FS fs_write_file fs_exec resp_fail not_performed cksum).
Notation finalize_receive := (finalize_receive FS fs_write_file fs_exec resp_fail not_performed cksum).

(* the source file and the sender's metadata (no filestore requests: they could legitimately
   remove or rename the delivered file afterwards) *)
Variable f : bytes.
Variable m : metadata.
Hypothesis no_requests : md_reqs m = [].
Let flen := N.of_nat (length f).

(* an output that claims the file was retained and the delivery complete *)
Definition success_out (o : out) : Prop :=
  match o with
  | OInd (IFinished _ FRetained DComplete _) => True
  | OPdu p => match o_payload p with
              | PFinished fn => fin_fs fn = FRetained /\ fin_dc fn = DComplete
              | _ => False
              end
  | _ => False
  end.

Definition okout (s : rstate) (o : out) : Prop :=
  success_out o -> r_fstat s = FRetained /\ r_dc s = DComplete.

(* ---- the part of the invariant that does not depend on the phase ---- *)
Definition FI (s : rstate) : Prop :=
  (r_meta s = None \/ r_meta s = Some m) /\
  (forall z, r_fsize s = Some z -> z = flen) /\
  (r_fstat s = FRetained -> r_dc s = DComplete -> lookup (r_fs s) (md_dst m) = Some f) /\
  (forall fn b, r_fin s = Some (fn, b) -> fin_fs fn = FRetained -> fin_dc fn = DComplete ->
                r_fstat s = FRetained /\ r_dc s = DComplete) /\
  Forall (okout s) (r_out s).

Lemma FI_ext (s s' : rstate) : FI s -> r_meta s' = r_meta s -> r_fsize s' = r_fsize s ->
  r_fstat s' = r_fstat s -> r_dc s' = r_dc s -> r_fs s' = r_fs s -> r_fin s' = r_fin s ->
  r_out s' = r_out s -> FI s'.
Proof.
  unfold FI, okout. intros (A & B & C & D & E) E1 E2 E3 E4 E5 E6 E7.
  rewrite E1, E2, E3, E4, E5, E6, E7. splits; auto.
Qed.

Lemma FI_out o (s s' : rstate) : FI s -> r_meta s' = r_meta s -> r_fsize s' = r_fsize s ->
  r_fstat s' = r_fstat s -> r_dc s' = r_dc s -> r_fs s' = r_fs s -> r_fin s' = r_fin s ->
  r_out s' = o :: r_out s -> okout s o -> FI s'.
Proof.
  unfold FI, okout. intros (A & B & C & D & E) E1 E2 E3 E4 E5 E6 E7 Ho.
  rewrite E1, E2, E3, E4, E5, E6, E7. splits; auto.
Qed.

Lemma FI_ind i s : ~ success_out (OInd i) -> FI s -> FI (emit_ind i s).
Proof.
  intros Hn H. eapply (FI_out (OInd i) s); [exact H | reflexivity .. |]. intros Hs. contradiction.
Qed.
Lemma FI_fin_ind rep resps s : FI s -> FI (emit_ind (IFinished rep (r_fstat s) (r_dc s) resps) s).
Proof.
  intros H. eapply (FI_out _ s); [exact H | reflexivity .. |].
  unfold okout, success_out. destruct (r_fstat s); try contradiction. destruct (r_dc s); try contradiction. auto.
Qed.
Lemma FI_pdu p s : ~ success_out (OPdu (mkOpdu false (payload_len (r_cfg s) resp_len req_len p) (cfg_src (r_cfg s)) p)) ->
  FI s -> FI (emit_pdu resp_len req_len p s).
Proof.
  intros Hn H. unfold emit_pdu. eapply (FI_out _ s); [exact H | reflexivity .. |]. intros Hs. contradiction.
Qed.
Lemma FI_prepare_finished fl s : FI s -> FI (prepare_finished fl s).
Proof.
  intros (A & B & C & D & E). unfold prepare_finished, FI, okout in *. cbn. splits; auto.
  intros fn b Hfn Hf Hd. inversion Hfn; subst fn b. cbn in Hf, Hd. auto.
Qed.

Ltac fi_side := cbn; tauto.
Ltac fi_calls0 _ :=
  lazymatch goal with
  | |- FI (emit_ind ?i _) => apply FI_ind; [fi_side|]
  | |- FI (emit_pdu _ _ ?p _) => apply FI_pdu; [fi_side|]
  | |- FI (prepare_finished _ _) => apply FI_prepare_finished
  end.
Ltac fi0 := solve_f FI FI_ext fi_calls0.

Lemma FI_cancel_ now s : FI s -> FI (cancel_ now s).
Proof.
  intros H. unfold cancel_.
  destruct (cfg_mode _); [|destruct (closure _)];
    match goal with |- FI (emit_ind (IFinished ?rep (r_fstat ?x) (r_dc ?x) ?resps) ?x) =>
      apply FI_fin_ind end; fi0.
Qed.
Lemma FI_suspend now s : FI s -> FI (suspend now s).
Proof. intros H. unfold suspend. fi0. Qed.
Lemma FI_abandon now s : FI s -> FI (abandon now s).
Proof. intros H. unfold abandon. fi0. Qed.
Lemma FI_handle_fault now c s : FI s -> FI (fst (handle_fault now c s)).
Proof.
  intros H. unfold handle_fault.
  assert (H1 : FI (emit_ind (IFault c (r_recvd (set_r_cond c s))) (set_r_cond c s))) by fi0.
  destruct (handler _ c); cbn [fst]; [apply FI_cancel_ | apply FI_suspend | | apply FI_abandon]; exact H1.
Qed.
Ltac fi_calls _ :=
  lazymatch goal with
  | |- FI (cancel_ _ _) => apply FI_cancel_
  | |- FI (suspend _ _) => apply FI_suspend
  | |- FI (abandon _ _) => apply FI_abandon
  | |- FI (fst (handle_fault _ _ _)) => apply FI_handle_fault
  | |- _ => fi_calls0 tt
  end.
Ltac fi := solve_f FI FI_ext fi_calls.
Ltac pass_fi := repeat (first [destr_pair_keep | destr_inner]; cbn [fst snd]); try fi.

Lemma FI_set_fin_flag b s : FI s -> FI (set_fin_flag b s).
Proof.
  intros H. unfold set_fin_flag. destruct (r_fin s) as [[fn b0]|] eqn:Ef; [|exact H].
  destruct H as (A & B & C & D & E). unfold FI, okout in *. cbn. splits; auto.
  intros fn' b' Hfn. inversion Hfn; subst fn' b'. apply (D fn b0). exact Ef.
Qed.

Lemma FI_send_finished now s : FI s -> FI (send_finished resp_len req_len now s).
Proof.
  intros H. unfold send_finished.
  change (r_fin (upd_ack (c_restart now) s)) with (r_fin s).
  destruct (r_fin s) as [[fn [|]]|] eqn:Ef; try fi.
  apply FI_set_fin_flag. unfold emit_pdu.
  eapply (FI_out _ (upd_ack (c_restart now) s)); [fi | reflexivity .. |].
  destruct H as (A & B & C & D & E). unfold okout, success_out. cbn. intros (Hf & Hd). apply (D fn true Ef Hf Hd).
Qed.

Lemma FI_send_naks now s : FI s -> FI (send_naks resp_len req_len now s).
Proof. intros H. unfold send_naks, c_limit_reached. pass_fi. Qed.
Lemma FI_send_ack_eof s : FI s -> FI (send_ack_eof resp_len req_len s).
Proof. intros H. unfold send_ack_eof. pass_fi. Qed.
Lemma FI_answer_prompt now s : FI s -> FI (answer_prompt resp_len req_len now s).
Proof.
  intros H. unfold answer_prompt. destruct (r_prompt s) as [[|]|]; try fi.
  apply FI_send_naks. fi.
Qed.
Lemma FI_send_pdu now s : FI s -> FI (send_pdu resp_len req_len now s).
Proof.
  intros H. unfold Recv.send_pdu.
  pose proof (FI_answer_prompt now s H). pose proof (FI_send_ack_eof s H).
  pose proof (FI_send_naks now s H). pose proof (FI_send_finished now s H).
  repeat destr_inner; auto.
Qed.
Lemma FI_resume now s : FI s -> FI (resume now s).
Proof. intros H. unfold resume. pass_fi. Qed.
Lemma FI_handle_timeout now s : FI s -> FI (handle_timeout now s).
Proof.
  intros H. unfold handle_timeout.
  assert (H1 : FI (ht_delayed now s)).
  { unfold ht_delayed. destruct (expire_delayed now (r_delayed s)). pass_fi. }
  assert (H2 : FI (fst (ht_inactivity now (ht_delayed now s)))).
  { remember (ht_delayed now s) as s1 eqn:E; clear E. unfold ht_inactivity, c_limit_reached. pass_fi. }
  destruct (ht_inactivity now (ht_delayed now s)) as [s2 go]. cbn [fst] in H2.
  destruct go; [|exact H2].
  assert (H3 : FI (ht_nak now s2)) by (unfold ht_nak, c_timeout_occurred; pass_fi).
  unfold ht_phase. remember (ht_nak now s2) as s3 eqn:E3; clear E3.
  unfold ht_ackphase, c_limit_reached, c_timeout_occurred.
  repeat (first [destr_pair_keep | destr_inner]; cbn [fst snd]); try fi.
  all: match goal with |- FI (upd_ack _ (set_fin_flag ?b ?x)) =>
         eapply (FI_ext (set_fin_flag b x)); [apply FI_set_fin_flag; fi | reflexivity ..] end.
Qed.

(* ---- the phase-dependent part: while data is being received the staged file agrees with f,
   nothing has been stored yet and no Finished PDU has been prepared ---- *)
Definition PH (s : rstate) : Prop :=
  (r_phase s = RecvData -> agrees f (staged_content s, r_segs s)) /\
  (r_phase s = RecvData -> r_fstat s <> FRetained) /\
  (r_phase s = RecvData -> r_fin s = None).

Lemma PH_ext (s s' : rstate) : PH s -> r_phase s' = r_phase s -> r_staged s' = r_staged s ->
  r_segs s' = r_segs s -> r_fstat s' = r_fstat s -> r_fin s' = r_fin s -> PH s'.
Proof.
  unfold PH, staged_content. intros (A & B & C) E1 E2 E3 E4 E5. rewrite E1, E2, E3, E4, E5. auto.
Qed.
Lemma PH_fin (s' : rstate) : r_phase s' = RFinished -> PH s'.
Proof. unfold PH. intros E. rewrite E. splits; intros; discriminate. Qed.
Lemma PH_canc (s' : rstate) : r_phase s' = RCancelled -> PH s'.
Proof. unfold PH. intros E. rewrite E. splits; intros; discriminate. Qed.
Lemma PH_ind i s : PH s -> PH (emit_ind i s).
Proof. intros H. eapply (PH_ext s); [exact H | reflexivity ..]. Qed.
Lemma PH_pdu p s : PH s -> PH (emit_pdu resp_len req_len p s).
Proof. intros H. eapply (PH_ext s); [exact H | reflexivity ..]. Qed.

Lemma PH_cancel_ now s : PH (cancel_ now s).
Proof. apply PH_canc. unfold cancel_. destruct (cfg_mode _); [|destruct (closure _)]; reflexivity. Qed.
Lemma PH_suspend now s : PH s -> PH (suspend now s).
Proof. intros H. unfold suspend. eapply (PH_ext s); [exact H | reflexivity ..]. Qed.
Lemma PH_abandon now s : PH s -> PH (abandon now s).
Proof. intros H. unfold abandon. eapply (PH_ext s); [exact H | reflexivity ..]. Qed.
Lemma PH_handle_fault now c s : PH s -> PH (fst (handle_fault now c s)).
Proof.
  intros H. unfold handle_fault.
  assert (H1 : PH (emit_ind (IFault c (r_recvd (set_r_cond c s))) (set_r_cond c s))) by (eapply (PH_ext s); [exact H | reflexivity ..]).
  destruct (handler _ c); cbn [fst]; [apply PH_cancel_ | apply PH_suspend | | apply PH_abandon]; exact H1.
Qed.
Ltac ph_calls _ :=
  lazymatch goal with
  | |- PH (cancel_ _ _) => apply PH_cancel_
  | |- PH (suspend _ _) => apply PH_suspend
  | |- PH (abandon _ _) => apply PH_abandon
  | |- PH (fst (handle_fault _ _ _)) => apply PH_handle_fault
  | |- PH (emit_ind _ _) => apply PH_ind
  | |- PH (emit_pdu _ _ _ _) => apply PH_pdu
  end.
Ltac ph := solve_f PH PH_ext ph_calls.
Ltac pass_ph := repeat (first [destr_pair_keep | destr_inner]; cbn [fst snd]); try ph.

Lemma PH_set_fin_flag b s : PH s -> PH (set_fin_flag b s).
Proof.
  intros H. unfold set_fin_flag. destruct (r_fin s) as [[fn b0]|] eqn:Ef; [|exact H].
  destruct H as (A & B & C). unfold PH, staged_content in *. cbn. splits; auto.
  intros Hp. specialize (C Hp). congruence.
Qed.
Lemma PH_send_finished now s : PH s -> PH (send_finished resp_len req_len now s).
Proof.
  intros H. unfold send_finished.
  change (r_fin (upd_ack (c_restart now) s)) with (r_fin s).
  destruct (r_fin s) as [[fn [|]]|] eqn:Ef; try ph.
  apply PH_set_fin_flag. ph.
Qed.
Lemma PH_send_naks now s : PH s -> PH (send_naks resp_len req_len now s).
Proof. intros H. unfold send_naks, c_limit_reached. pass_ph. Qed.
Lemma PH_send_ack_eof s : PH s -> PH (send_ack_eof resp_len req_len s).
Proof. intros H. unfold send_ack_eof. pass_ph. Qed.
Lemma PH_answer_prompt now s : PH s -> PH (answer_prompt resp_len req_len now s).
Proof.
  intros H. unfold answer_prompt. destruct (r_prompt s) as [[|]|]; try ph.
  apply PH_send_naks. ph.
Qed.
Lemma PH_send_pdu now s : PH s -> PH (send_pdu resp_len req_len now s).
Proof.
  intros H. unfold Recv.send_pdu.
  pose proof (PH_answer_prompt now s H). pose proof (PH_send_ack_eof s H).
  pose proof (PH_send_naks now s H). pose proof (PH_send_finished now s H).
  repeat destr_inner; auto.
Qed.
Lemma PH_resume now s : PH s -> PH (resume now s).
Proof. intros H. unfold resume. pass_ph. Qed.
Lemma PH_handle_timeout now s : PH s -> PH (handle_timeout now s).
Proof.
  intros H. unfold handle_timeout.
  assert (H1 : PH (ht_delayed now s)).
  { unfold ht_delayed. destruct (expire_delayed now (r_delayed s)). pass_ph. }
  assert (H2 : PH (fst (ht_inactivity now (ht_delayed now s)))).
  { remember (ht_delayed now s) as s1 eqn:E; clear E. unfold ht_inactivity, c_limit_reached. pass_ph. }
  destruct (ht_inactivity now (ht_delayed now s)) as [s2 go]. cbn [fst] in H2.
  destruct go; [|exact H2].
  assert (H3 : PH (ht_nak now s2)) by (unfold ht_nak, c_timeout_occurred; pass_ph).
  unfold ht_phase. remember (ht_nak now s2) as s3 eqn:E3; clear E3.
  unfold ht_ackphase, c_limit_reached, c_timeout_occurred.
  repeat (first [destr_pair_keep | destr_inner]; cbn [fst snd]); try ph.
  all: match goal with |- PH (upd_ack _ (set_fin_flag ?b ?x)) =>
         eapply (PH_ext (set_fin_flag b x)); [apply PH_set_fin_flag; ph | reflexivity ..] end.
Qed.

End DeliverP.
