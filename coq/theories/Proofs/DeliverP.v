(* C01, receiver half as an invariant of the receive-transaction model: if every file data,
   Metadata and EOF PDU delivered to it is truthful for the source file f and the sender's
   metadata m, then whenever the transaction reports (Finished indication) or announces
   (Finished PDU) file status Retained with delivery code Complete, the filestore holds exactly
   f under the destination name - no appeal to the checksum. *)
From CFDP Require Import Base.Prelude Model.Segments Model.Timer Model.TxTypes Model.Recv Model.Send
  Proofs.SegmentsP Proofs.TimerP Proofs.Tac Proofs.RecvP Proofs.RecvP4 Proofs.RecvRun Proofs.StageP.

(* peel record updates, stopping at what touches the output list or the prepared Finished PDU *)
Ltac strip_f t :=
  lazymatch t with
  | set_r_cfg _ ?y => strip_f y | set_r_nakproc _ ?y => strip_f y | set_r_status _ ?y => strip_f y
  | set_r_state _ ?y => strip_f y | set_r_phase _ ?y => strip_f y | set_r_meta _ ?y => strip_f y
  | set_r_segs _ ?y => strip_f y | set_r_recvd _ ?y => strip_f y | set_r_staged _ ?y => strip_f y
  | set_r_cond _ ?y => strip_f y | set_r_dc _ ?y => strip_f y | set_r_fstat _ ?y => strip_f y
  | set_r_resps _ ?y => strip_f y | set_r_timer _ ?y => strip_f y | set_r_cksum _ ?y => strip_f y
  | set_r_fsize _ ?y => strip_f y | set_r_ack _ ?y => strip_f y | set_r_fin _ ?y => strip_f y
  | set_r_prompt _ ?y => strip_f y | set_r_naks _ ?y => strip_f y | set_r_nak_recvd _ ?y => strip_f y
  | set_r_delayed _ ?y => strip_f y | set_r_fs _ ?y => strip_f y | set_r_out _ ?y => strip_f y
  | upd_inact _ ?y => strip_f y | upd_ack _ ?y => strip_f y | upd_nak _ ?y => strip_f y
  | prepare_ack_eof ?y => strip_f y
  | shutdown _ ?y => strip_f y
  | _ => t
  end.
Ltac solve_f J ext calls :=
  lazymatch goal with
  | |- J ?t =>
      first [ assumption
            | calls tt; solve_f J ext calls
            | let b := strip_f t in
              tryif constr_eq b t then fail
              else (eapply (ext b); [ solve_f J ext calls | reflexivity .. ]) ]
  end.

Section DeliverP.
Variable FS : Type.
Variable fs_write_file : FS -> bytes -> bytes -> option FS.
Variable fs_exec : FS -> fsreq -> FS * fsresp.
Variable resp_fail : fsresp -> bool.
Variable not_performed : fsreq -> fsresp.
Variable cksum : cktype -> bytes -> N.
Variable resp_len : fsresp -> N.
Variable req_len : fsreq -> N.
(* reading a file back from the filestore; a successful write is visible *)
Variable lookup : FS -> bytes -> option bytes.
Hypothesis write_lookup : forall fs name content fs',
  fs_write_file fs name content = Some fs' -> lookup fs' name = Some content.

Notation rstate := (rstate FS).
Notation rstep := (rstep FS fs_write_file fs_exec resp_fail not_performed cksum resp_len req_len).
Notation process_pdu := (process_pdu FS fs_write_file fs_exec resp_fail not_performed cksum).
Notation check_finished := (check_finished FS fs_write_file fs_exec resp_fail not_performed cksum).
Notation finalize_receive := (finalize_receive FS fs_write_file fs_exec resp_fail not_performed cksum).

(* the source file and the sender's metadata (no filestore requests: they could legitimately
   remove or rename the delivered file afterwards) *)
Variable f : bytes.
Variable m : metadata.
Hypothesis no_requests : md_reqs m = [].
Let flen := N.of_nat (length f).

(* an output that claims the file was retained and the delivery complete *)
Definition success_out (o : out) : Prop :=
  match o with
  | OInd (IFinished _ FRetained DComplete _) => True
  | OPdu p => match o_payload p with
              | PFinished fn => fin_fs fn = FRetained /\ fin_dc fn = DComplete
              | _ => False
              end
  | _ => False
  end.

Definition okout (s : rstate) (o : out) : Prop :=
  success_out o -> r_fstat s = FRetained /\ r_dc s = DComplete.

(* ---- the part of the invariant that does not depend on the phase ---- *)
Definition FI (s : rstate) : Prop :=
  (r_meta s = None \/ r_meta s = Some m) /\
  (forall z, r_fsize s = Some z -> z = flen) /\
  (r_fstat s = FRetained -> r_dc s = DComplete -> lookup (r_fs s) (md_dst m) = Some f) /\
  (forall fn b, r_fin s = Some (fn, b) -> fin_fs fn = FRetained -> fin_dc fn = DComplete ->
                r_fstat s = FRetained /\ r_dc s = DComplete) /\
  Forall (okout s) (r_out s).

Lemma FI_ext (s s' : rstate) : FI s -> r_meta s' = r_meta s -> r_fsize s' = r_fsize s ->
  r_fstat s' = r_fstat s -> r_dc s' = r_dc s -> r_fs s' = r_fs s -> r_fin s' = r_fin s ->
  r_out s' = r_out s -> FI s'.
Proof.
  unfold FI, okout. intros (A & B & C & D & E) E1 E2 E3 E4 E5 E6 E7.
  rewrite E1, E2, E3, E4, E5, E6, E7. splits; auto.
Qed.

Lemma FI_out o (s s' : rstate) : FI s -> r_meta s' = r_meta s -> r_fsize s' = r_fsize s ->
  r_fstat s' = r_fstat s -> r_dc s' = r_dc s -> r_fs s' = r_fs s -> r_fin s' = r_fin s ->
  r_out s' = o :: r_out s -> okout s o -> FI s'.
Proof.
  unfold FI, okout. intros (A & B & C & D & E) E1 E2 E3 E4 E5 E6 E7 Ho.
  rewrite E1, E2, E3, E4, E5, E6, E7. splits; auto.
Qed.

Lemma FI_ind i s : ~ success_out (OInd i) -> FI s -> FI (emit_ind i s).
Proof.
  intros Hn H. eapply (FI_out (OInd i) s); [exact H | reflexivity .. |]. intros Hs. contradiction.
Qed.
Lemma FI_fin_ind rep resps s : FI s -> FI (emit_ind (IFinished rep (r_fstat s) (r_dc s) resps) s).
Proof.
  intros H. eapply (FI_out _ s); [exact H | reflexivity .. |].
  unfold okout, success_out. destruct (r_fstat s); try contradiction. destruct (r_dc s); try contradiction. auto.
Qed.
Lemma FI_pdu p s : ~ success_out (OPdu (mkOpdu false (payload_len (r_cfg s) resp_len req_len p) (cfg_src (r_cfg s)) p)) ->
  FI s -> FI (emit_pdu resp_len req_len p s).
Proof.
  intros Hn H. unfold emit_pdu. eapply (FI_out _ s); [exact H | reflexivity .. |]. intros Hs. contradiction.
Qed.
Lemma FI_prepare_finished fl s : FI s -> FI (prepare_finished fl s).
Proof.
  intros (A & B & C & D & E). unfold prepare_finished, FI, okout in *. cbn. splits; auto.
  intros fn b Hfn Hf Hd. inversion Hfn; subst fn b. cbn in Hf, Hd. auto.
Qed.

Ltac fi_side := cbn; tauto.
Ltac fi_calls0 _ :=
  lazymatch goal with
  | |- FI (emit_ind ?i _) => apply FI_ind; [fi_side|]
  | |- FI (emit_pdu _ _ ?p _) => apply FI_pdu; [fi_side|]
  | |- FI (prepare_finished _ _) => apply FI_prepare_finished
  end.
Ltac fi0 := solve_f FI FI_ext fi_calls0.

Lemma FI_cancel_ now s : FI s -> FI (cancel_ now s).
Proof.
  intros H. unfold cancel_.
  destruct (cfg_mode _); [|destruct (closure _)];
    match goal with |- FI (emit_ind (IFinished ?rep (r_fstat ?x) (r_dc ?x) ?resps) ?x) =>
      apply FI_fin_ind end; fi0.
Qed.
Lemma FI_suspend now s : FI s -> FI (suspend now s).
Proof. intros H. unfold suspend. fi0. Qed.
Lemma FI_abandon now s : FI s -> FI (abandon now s).
Proof. intros H. unfold abandon. fi0. Qed.
Lemma FI_handle_fault now c s : FI s -> FI (fst (handle_fault now c s)).
Proof.
  intros H. unfold handle_fault.
  assert (H1 : FI (emit_ind (IFault c (r_recvd (set_r_cond c s))) (set_r_cond c s))) by fi0.
  destruct (handler _ c); cbn [fst]; [apply FI_cancel_ | apply FI_suspend | | apply FI_abandon]; exact H1.
Qed.
Ltac fi_calls _ :=
  lazymatch goal with
  | |- FI (cancel_ _ _) => apply FI_cancel_
  | |- FI (suspend _ _) => apply FI_suspend
  | |- FI (abandon _ _) => apply FI_abandon
  | |- FI (fst (handle_fault _ _ _)) => apply FI_handle_fault
  | |- _ => fi_calls0 tt
  end.
Ltac fi := solve_f FI FI_ext fi_calls.
Ltac pass_fi := repeat (first [destr_pair_keep | destr_inner]; cbn [fst snd]); try fi.

Lemma FI_set_fin_flag b s : FI s -> FI (set_fin_flag b s).
Proof.
  intros H. unfold set_fin_flag. destruct (r_fin s) as [[fn b0]|] eqn:Ef; [|exact H].
  destruct H as (A & B & C & D & E). unfold FI, okout in *. cbn. splits; auto.
  intros fn' b' Hfn. inversion Hfn; subst fn' b'. apply (D fn b0). exact Ef.
Qed.

Lemma FI_send_finished now s : FI s -> FI (send_finished resp_len req_len now s).
Proof.
  intros H. unfold send_finished.
  change (r_fin (upd_ack (c_restart now) s)) with (r_fin s).
  destruct (r_fin s) as [[fn [|]]|] eqn:Ef; try fi.
  apply FI_set_fin_flag. unfold emit_pdu.
  eapply (FI_out _ (upd_ack (c_restart now) s)); [fi | reflexivity .. |].
  destruct H as (A & B & C & D & E). unfold okout, success_out. cbn. intros (Hf & Hd). apply (D fn true Ef Hf Hd).
Qed.

Lemma FI_send_naks now s : FI s -> FI (send_naks resp_len req_len now s).
Proof. intros H. unfold send_naks, c_limit_reached. pass_fi. Qed.
Lemma FI_send_ack_eof s : FI s -> FI (send_ack_eof resp_len req_len s).
Proof. intros H. unfold send_ack_eof. pass_fi. Qed.
Lemma FI_answer_prompt now s : FI s -> FI (answer_prompt resp_len req_len now s).
Proof.
  intros H. unfold answer_prompt. destruct (r_prompt s) as [[|]|]; try fi.
  apply FI_send_naks. fi.
Qed.
Lemma FI_send_pdu now s : FI s -> FI (send_pdu resp_len req_len now s).
Proof.
  intros H. unfold Recv.send_pdu.
  pose proof (FI_answer_prompt now s H). pose proof (FI_send_ack_eof s H).
  pose proof (FI_send_naks now s H). pose proof (FI_send_finished now s H).
  repeat destr_inner; auto.
Qed.
Lemma FI_resume now s : FI s -> FI (resume now s).
Proof. intros H. unfold resume. pass_fi. Qed.
Lemma FI_handle_timeout now s : FI s -> FI (handle_timeout now s).
Proof.
  intros H. unfold handle_timeout.
  assert (H1 : FI (ht_delayed now s)).
  { unfold ht_delayed. destruct (expire_delayed now (r_delayed s)). pass_fi. }
  assert (H2 : FI (fst (ht_inactivity now (ht_delayed now s)))).
  { remember (ht_delayed now s) as s1 eqn:E; clear E. unfold ht_inactivity, c_limit_reached. pass_fi. }
  destruct (ht_inactivity now (ht_delayed now s)) as [s2 go]. cbn [fst] in H2.
  destruct go; [|exact H2].
  assert (H3 : FI (ht_nak now s2)) by (unfold ht_nak, c_timeout_occurred; pass_fi).
  unfold ht_phase. remember (ht_nak now s2) as s3 eqn:E3; clear E3.
  unfold ht_ackphase, c_limit_reached, c_timeout_occurred.
  repeat (first [destr_pair_keep | destr_inner]; cbn [fst snd]); try fi.
  all: match goal with |- FI (upd_ack _ (set_fin_flag ?b ?x)) =>
         eapply (FI_ext (set_fin_flag b x)); [apply FI_set_fin_flag; fi | reflexivity ..] end.
Qed.

(* ---- the phase-dependent part: while data is being received the staged file agrees with f,
   nothing has been stored yet and no Finished PDU has been prepared ---- *)
Definition PH (s : rstate) : Prop :=
  (r_phase s = RecvData -> agrees f (staged_content s, r_segs s)) /\
  (r_phase s = RecvData -> r_fstat s <> FRetained) /\
  (r_phase s = RecvData -> r_fin s = None).

Lemma PH_ext (s s' : rstate) : PH s -> r_phase s' = r_phase s -> r_staged s' = r_staged s ->
  r_segs s' = r_segs s -> r_fstat s' = r_fstat s -> r_fin s' = r_fin s -> PH s'.
Proof.
  unfold PH, staged_content. intros (A & B & C) E1 E2 E3 E4 E5. rewrite E1, E2, E3, E4, E5. auto.
Qed.
Lemma PH_fin (s' : rstate) : r_phase s' = RFinished -> PH s'.
Proof. unfold PH. intros E. rewrite E. splits; intros; discriminate. Qed.
Lemma PH_canc (s' : rstate) : r_phase s' = RCancelled -> PH s'.
Proof. unfold PH. intros E. rewrite E. splits; intros; discriminate. Qed.
Lemma PH_ind i s : PH s -> PH (emit_ind i s).
Proof. intros H. eapply (PH_ext s); [exact H | reflexivity ..]. Qed.
Lemma PH_pdu p s : PH s -> PH (emit_pdu resp_len req_len p s).
Proof. intros H. eapply (PH_ext s); [exact H | reflexivity ..]. Qed.

Lemma PH_cancel_ now s : PH (cancel_ now s).
Proof. apply PH_canc. unfold cancel_. destruct (cfg_mode _); [|destruct (closure _)]; reflexivity. Qed.
Lemma PH_suspend now s : PH s -> PH (suspend now s).
Proof. intros H. unfold suspend. eapply (PH_ext s); [exact H | reflexivity ..]. Qed.
Lemma PH_abandon now s : PH s -> PH (abandon now s).
Proof. intros H. unfold abandon. eapply (PH_ext s); [exact H | reflexivity ..]. Qed.
Lemma PH_handle_fault now c s : PH s -> PH (fst (handle_fault now c s)).
Proof.
  intros H. unfold handle_fault.
  assert (H1 : PH (emit_ind (IFault c (r_recvd (set_r_cond c s))) (set_r_cond c s))) by (eapply (PH_ext s); [exact H | reflexivity ..]).
  destruct (handler _ c); cbn [fst]; [apply PH_cancel_ | apply PH_suspend | | apply PH_abandon]; exact H1.
Qed.
Ltac ph_calls _ :=
  lazymatch goal with
  | |- PH (cancel_ _ _) => apply PH_cancel_
  | |- PH (suspend _ _) => apply PH_suspend
  | |- PH (abandon _ _) => apply PH_abandon
  | |- PH (fst (handle_fault _ _ _)) => apply PH_handle_fault
  | |- PH (emit_ind _ _) => apply PH_ind
  | |- PH (emit_pdu _ _ _ _) => apply PH_pdu
  end.
Ltac ph := solve_f PH PH_ext ph_calls.
Ltac pass_ph := repeat (first [destr_pair_keep | destr_inner]; cbn [fst snd]); try ph.

Lemma PH_set_fin_flag b s : PH s -> PH (set_fin_flag b s).
Proof.
  intros H. unfold set_fin_flag. destruct (r_fin s) as [[fn b0]|] eqn:Ef; [|exact H].
  destruct H as (A & B & C). unfold PH, staged_content in *. cbn. splits; auto.
  intros Hp. specialize (C Hp). congruence.
Qed.
Lemma PH_send_finished now s : PH s -> PH (send_finished resp_len req_len now s).
Proof.
  intros H. unfold send_finished.
  change (r_fin (upd_ack (c_restart now) s)) with (r_fin s).
  destruct (r_fin s) as [[fn [|]]|] eqn:Ef; try ph.
  apply PH_set_fin_flag. ph.
Qed.
Lemma PH_send_naks now s : PH s -> PH (send_naks resp_len req_len now s).
Proof. intros H. unfold send_naks, c_limit_reached. pass_ph. Qed.
Lemma PH_send_ack_eof s : PH s -> PH (send_ack_eof resp_len req_len s).
Proof. intros H. unfold send_ack_eof. pass_ph. Qed.
Lemma PH_answer_prompt now s : PH s -> PH (answer_prompt resp_len req_len now s).
Proof.
  intros H. unfold answer_prompt. destruct (r_prompt s) as [[|]|]; try ph.
  apply PH_send_naks. ph.
Qed.
Lemma PH_send_pdu now s : PH s -> PH (send_pdu resp_len req_len now s).
Proof.
  intros H. unfold Recv.send_pdu.
  pose proof (PH_answer_prompt now s H). pose proof (PH_send_ack_eof s H).
  pose proof (PH_send_naks now s H). pose proof (PH_send_finished now s H).
  repeat destr_inner; auto.
Qed.
Lemma PH_resume now s : PH s -> PH (resume now s).
Proof. intros H. unfold resume. pass_ph. Qed.
Lemma PH_handle_timeout now s : PH s -> PH (handle_timeout now s).
Proof.
  intros H. unfold handle_timeout.
  assert (H1 : PH (ht_delayed now s)).
  { unfold ht_delayed. destruct (expire_delayed now (r_delayed s)). pass_ph. }
  assert (H2 : PH (fst (ht_inactivity now (ht_delayed now s)))).
  { remember (ht_delayed now s) as s1 eqn:E; clear E. unfold ht_inactivity, c_limit_reached. pass_ph. }
  destruct (ht_inactivity now (ht_delayed now s)) as [s2 go]. cbn [fst] in H2.
  destruct go; [|exact H2].
  assert (H3 : PH (ht_nak now s2)) by (unfold ht_nak, c_timeout_occurred; pass_ph).
  unfold ht_phase. remember (ht_nak now s2) as s3 eqn:E3; clear E3.
  unfold ht_ackphase, c_limit_reached, c_timeout_occurred.
  repeat (first [destr_pair_keep | destr_inner]; cbn [fst snd]); try ph.
  all: match goal with |- PH (upd_ack _ (set_fin_flag ?b ?x)) =>
         eapply (PH_ext (set_fin_flag b x)); [apply PH_set_fin_flag; ph | reflexivity ..] end.
Qed.

(* ---- finalisation ---- *)
Lemma cond_eqb_eq a b : cond_eqb a b = true -> a = b.
Proof. unfold cond_eqb. intros H. apply N.eqb_eq in H. destruct a, b; cbn in H; try reflexivity; discriminate. Qed.

Lemma no_success_outs (s : rstate) : FI s -> r_fstat s <> FRetained -> Forall (fun o => ~ success_out o) (r_out s).
Proof.
  intros (_ & _ & _ & _ & E) Hn. eapply Forall_impl; [|exact E]. intros o Ho Hs. destruct (Ho Hs) as (A & _). contradiction.
Qed.

(* a state in which nothing has been stored and no Finished PDU prepared: FI whatever dc is *)
Lemma FI_fresh (s s' : rstate) : FI s -> r_fstat s <> FRetained -> r_fin s = None ->
  r_meta s' = r_meta s -> r_fsize s' = r_fsize s -> r_fstat s' <> FRetained -> r_fin s' = None ->
  r_out s' = r_out s -> FI s'.
Proof.
  intros H Hn Hf E1 E2 Hn' Hf' E3. pose proof (no_success_outs s H Hn) as Hno.
  destruct H as (A & B & C & D & E). unfold FI. rewrite E1, E2, Hf', E3. splits; auto.
  - intros Hr. contradiction.
  - intros fn b Hx. discriminate.
  - eapply Forall_impl; [|exact Hno]. intros o Ho Hs. contradiction.
Qed.

Lemma meta_dst_of (s : rstate) : FI s -> is_some (r_meta s) = true -> meta_dst s = md_dst m /\ meta_reqs s = [].
Proof.
  intros (A & _) Hm. unfold meta_dst, meta_reqs. destruct A as [A|A]; rewrite A in *; [discriminate|].
  split; [reflexivity|exact no_requests].
Qed.
Lemma meta_reqs_nil (s : rstate) : FI s -> meta_reqs s = [].
Proof. intros (A & _). unfold meta_reqs. destruct A as [A|A]; rewrite A; [reflexivity|exact no_requests]. Qed.

Lemma FI_fr_requests s : FI s -> FI (fr_requests FS fs_exec resp_fail not_performed s).
Proof.
  intros H. unfold fr_requests. rewrite (meta_reqs_nil s H). cbn [run_requests].
  match goal with |- FI (emit_ind (IFinished ?rep ?a ?b ?resps) ?x) =>
    change a with (r_fstat x); change b with (r_dc x); apply FI_fin_ind end.
  eapply (FI_ext s); [exact H | reflexivity ..].
Qed.

Lemma FI_fr_rejection now s : FI s -> FI (fst (fr_rejection now s)).
Proof. intros H. unfold fr_rejection. destruct (r_fstat s); cbn [fst]; try exact H. apply FI_handle_fault. exact H. Qed.

Lemma FI_finalize now s : FI s -> PH s -> r_phase s = RecvData -> FI (finalize_receive now s).
Proof.
  intros H (P1 & P2 & P3) Hp. specialize (P1 Hp). specialize (P2 Hp). specialize (P3 Hp).
  unfold Recv.finalize_receive.
  set (dc := if delivery_complete s then DComplete else DIncomplete).
  assert (H0 : FI (set_r_dc dc s)) by (eapply (FI_fresh s); try eassumption; reflexivity).
  assert (Hrest : forall s2 : rstate, FI s2 ->
            FI (let '(s3, go) := fr_rejection now s2 in if go then fr_requests FS fs_exec resp_fail not_performed s3 else s3)).
  { intros s2 H2. pose proof (FI_fr_rejection now s2 H2) as H3.
    destruct (fr_rejection now s2) as [s3 go]. cbn [fst] in H3. destruct go; [apply FI_fr_requests|]; exact H3. }
  destruct (is_file_transfer (set_r_dc dc s)) eqn:Eft.
  2: { apply Hrest. eapply (FI_fresh s); try eassumption; try reflexivity. cbn. discriminate. }
  (* file transfer: verify, store *)
  unfold fr_verify.
  set (s1 := set_r_staged (Some (staged_content (set_r_dc dc s))) (set_r_dc dc s)).
  assert (H1 : FI s1) by (eapply (FI_ext (set_r_dc dc s)); [exact H0 | reflexivity ..]).
  assert (Hst : forall s2 : rstate, FI s2 -> r_meta s2 = r_meta s -> r_fsize s2 = r_fsize s -> r_fstat s2 <> FRetained ->
            r_fin s2 = None -> r_dc s2 = dc -> r_segs s2 = r_segs s -> staged_content s2 = staged_content s ->
            FI (fr_store FS fs_write_file s2)).
  { intros s2 H2 E1 E2 Hn2 Hf2 Ed Es Ec. unfold fr_store.
    destruct (fs_write_file (r_fs s2) (meta_dst s2) (staged_content s2)) as [fs'|] eqn:Ew.
    - pose proof (no_success_outs s2 H2 Hn2) as Hno.
      destruct H2 as (A & B & C & D & E). unfold FI. cbn. rewrite Hf2. splits; auto.
      + intros _ Hdc. rewrite Ed in Hdc. unfold dc in Hdc. destruct (delivery_complete s) eqn:Edc; [|discriminate].
        unfold delivery_complete in Edc. apply andb_prop in Edc as [Em Ec2].
        assert (Hft : is_file_transfer s = true) by exact Eft. rewrite Hft in Ec2. cbn in Ec2.
        destruct (r_fsize s) as [z|] eqn:Ez; [|discriminate].
        assert (Hz : z = flen) by (destruct H as (_ & B' & _); apply B'; exact Ez). subst z.
        pose proof (agrees_complete f _ P1 Ec2) as Hcontent. cbn [fst] in Hcontent.
        assert (Hd : meta_dst s2 = md_dst m).
        { unfold meta_dst. rewrite E1. destruct H as ([A'|A'] & _); rewrite A' in *; [discriminate|reflexivity]. }
        rewrite Hd, Ec, Hcontent in Ew. apply (write_lookup _ _ _ _ Ew).
      + intros fn b Hx. discriminate.
      + eapply Forall_impl; [|exact Hno]. intros o Ho Hs. contradiction.
    - eapply (FI_fresh s2); try eassumption; try reflexivity. cbn. discriminate. }
  destruct (cksum (meta_ck s1) (staged_content (set_r_dc dc s)) =? expected_cksum s1).
  - apply Hrest. apply Hst; try reflexivity; assumption.
  - (* checksum mismatch: the fault handler decides *)
    unfold handle_fault.
    set (s2 := emit_ind (IFault FileChecksumFailure (r_recvd (set_r_cond FileChecksumFailure s1))) (set_r_cond FileChecksumFailure s1)).
    assert (H2 : FI s2) by (unfold s2; fi).
    destruct (handler (r_cfg s2) FileChecksumFailure).
    + apply FI_cancel_. exact H2.
    + apply FI_suspend. exact H2.
    + apply Hrest. apply Hst; try reflexivity; try assumption.
    + apply FI_abandon. exact H2.
Qed.

(* ---- the whole invariant; after an unacknowledged transfer without closure only the
   phase-independent part survives, in a terminated transaction ---- *)
Definition DU (s : rstate) : Prop := FI s /\ PH s.
Definition DG (s : rstate) : Prop := DU s \/ (r_state s = TTerminated /\ FI s).

Lemma DU_check_finished now s : DU s -> DU (check_finished now s).
Proof.
  intros (H & P). unfold Recv.check_finished.
  destruct (rphase_eqb (r_phase s) RecvData) eqn:Ep; cbn [andb]; [|split; assumption].
  destruct (is_some (r_meta s) && eof_received s && negb (is_file_transfer s && has_naks s)); [|split; assumption].
  assert (Hp : r_phase s = RecvData) by (destruct (r_phase s); try discriminate; reflexivity).
  pose proof (FI_finalize now s H P Hp) as H1.
  remember (finalize_receive now s) as s1 eqn:E1; clear E1. split.
  - eapply (FI_ext (prepare_finished None (set_r_phase RFinished s1))); [|reflexivity ..].
    apply FI_prepare_finished. eapply (FI_ext s1); [exact H1 | reflexivity ..].
  - apply PH_fin. reflexivity.
Qed.

Lemma DU_store off d s : DU s -> truthful_fd f (off, d) -> DU (store_file_data off d s).
Proof.
  intros (H & (P1 & P2 & P3)) Ht. split.
  - unfold store_file_data. destruct (is_nil d); [exact H|]. destruct (ins _ _ _). fi.
  - unfold PH. pose proof (store_is_stage1 FS off d s) as Est.
    assert (E1 : r_phase (store_file_data off d s) = r_phase s /\ r_fstat (store_file_data off d s) = r_fstat s /\
                 r_fin (store_file_data off d s) = r_fin s).
    { unfold store_file_data. destruct (is_nil d); [auto|]. destruct (ins _ _ _). cbn. auto. }
    destruct E1 as (E1 & E2 & E3). rewrite E1, E2, E3. splits; auto.
    intros Hp. rewrite Est. apply stage1_agrees; [exact Ht|apply P1; exact Hp].
Qed.

(* inputs that are truthful for (f, m) *)
Definition truthful_in (o : rop) : Prop :=
  match o with
  | RPdu (PFileData off d) => truthful_fd f (off, d)
  | RPdu (PMetadata m') => m' = m
  | RPdu (PEof e) => eof_cond e = NoError -> eof_size e = flen
  | _ => True
  end.

Lemma DU_simple (s s' : rstate) : DU s -> r_meta s' = r_meta s -> r_fsize s' = r_fsize s ->
  r_fstat s' = r_fstat s -> r_dc s' = r_dc s -> r_fs s' = r_fs s -> r_fin s' = r_fin s ->
  r_out s' = r_out s -> r_phase s' = r_phase s -> r_staged s' = r_staged s -> r_segs s' = r_segs s -> DU s'.
Proof.
  intros (H & P) E1 E2 E3 E4 E5 E6 E7 E8 E9 E10. split.
  - eapply (FI_ext s); eassumption.
  - eapply (PH_ext s); eassumption.
Qed.
Lemma DU_ind i s : ~ success_out (OInd i) -> DU s -> DU (emit_ind i s).
Proof. intros Hn (H & P). split; [apply FI_ind; assumption|apply PH_ind; exact P]. Qed.
Lemma DU_handle_fault now c s : DU s -> DU (fst (handle_fault now c s)).
Proof. intros (H & P). split; [apply FI_handle_fault|apply PH_handle_fault]; assumption. Qed.
Lemma DU_cancel_ now s : DU s -> DU (cancel_ now s).
Proof. intros (H & P). split; [apply FI_cancel_; exact H|apply PH_cancel_]. Qed.
Lemma DU_check_file_size now size s : DU s -> DU (check_file_size now size s).
Proof. intros H. unfold check_file_size. destr_inner; [apply DU_handle_fault|]; exact H. Qed.

Lemma DU_set_fsize z s : DU s -> z = flen -> DU (set_r_fsize (Some z) s).
Proof.
  intros ((A & B & C & D & E) & P) Hz. split.
  - unfold FI, okout in *. cbn. splits; auto. intros z' Hz'. inversion Hz'. subst. reflexivity.
  - eapply (PH_ext s); [exact P | reflexivity ..].
Qed.
Lemma DU_set_metadata s : DU s -> r_meta s = None -> DU (set_metadata m s).
Proof.
  intros (H & P) Hm. unfold set_metadata. split.
  - assert (H1 : FI (emit_ind (IMetadataRecv (md_src m) (md_dst m) (md_size m) (md_msgs m)) s)) by fi.
    destruct H1 as (A & B & C & D & E). unfold FI, okout in *. cbn in *. splits; auto.
  - eapply (PH_ext s); [exact P | reflexivity ..].
Qed.

(* truthful data never lies beyond the end of the file, so a truthful EOF passes the size check *)
Lemma end_le_flen (s : rstate) : agrees f (staged_content s, r_segs s) -> end_or_0 (r_segs s) <= flen.
Proof.
  intros (Hi & Hlen & Hag). cbn [fst snd] in *. unfold end_or_0, seg_end.
  destruct (rev (r_segs s)) as [|[a e] t] eqn:Er; [lia|].
  assert (Hin : In (a, e) (r_segs s)) by (apply in_rev; unfold segs, seg in *; rewrite Er; left; reflexivity).
  assert (Hae : a < e).
  { clear - Hi Hin. induction (r_segs s) as [|[x y] v IH]; [destruct Hin|].
    apply Inv_cons in Hi as (Hxy & _ & Hv). destruct Hin as [Heq|Hin]; [inversion Heq; subst; exact Hxy|auto]. }
  assert (Hc : covered (r_segs s) (e - 1)) by (exists a, e; split; [exact Hin|lia]).
  destruct (Hag _ Hc) as (A & _). unfold flen. lia.
Qed.
Lemma check_file_size_truthful now (s : rstate) : PH s -> r_phase s = RecvData -> check_file_size now flen s = s.
Proof.
  intros (P1 & _) Hp. unfold check_file_size. pose proof (end_le_flen s (P1 Hp)) as Hle.
  destruct (N.ltb_spec flen (end_or_0 (r_segs s))); [lia|reflexivity].
Qed.

Lemma cfs_go_truthful now (s : rstate) : PH s -> r_phase s = RecvData -> cfs_go now flen s = true.
Proof.
  intros (P1 & _) Hp. unfold cfs_go. pose proof (end_le_flen s (P1 Hp)) as Hle.
  destruct (N.ltb_spec flen (end_or_0 (r_segs s))); [lia|reflexivity].
Qed.

Lemma DG_process_pdu now p s : DU s -> truthful_in (RPdu p) -> DG (fst (process_pdu now p s)).
Proof.
  intros H Ht. unfold Recv.process_pdu.
  set (s0 := if suspended s then s else upd_inact (c_reset now) s).
  assert (H0 : DU s0) by (unfold s0; destruct (suspended s); [exact H|eapply (DU_simple s); [exact H | reflexivity ..]]).
  clearbody s0. clear H.
  destruct (cfg_mode (r_cfg s0)); destruct p; cbn [fst]; try (left; exact H0).
  - (* file data, acknowledged *)
    left. unfold pdu_filedata_acked. destr_inner; [exact H0|].
    pose proof (DU_store offset data s0 H0 Ht) as H1.
    remember (store_file_data offset data s0) as s1 eqn:E1; clear E1.
    apply DU_check_finished.
    assert (H2 : DU (emit_ind (IFileSegmentRecv offset (N.of_nat (length data))) s1)) by (apply DU_ind; [cbn; tauto|exact H1]).
    remember (emit_ind (IFileSegmentRecv offset (N.of_nat (length data))) s1) as s2 eqn:E2; clear E2.
    unfold c_timeout_occurred.
    repeat (destr_inner; cbn [fst snd]); try exact H2; (eapply (DU_simple s2); [exact H2 | reflexivity ..]).
  - (* EOF, acknowledged *)
    left. unfold pdu_eof_acked. destr_inner; [eapply (DU_simple s0); [exact H0 | reflexivity ..]|].
    set (s1 := emit_ind IEoFRecv (set_r_cksum (Some (eof_ck e)) (prepare_ack_eof (set_r_cond (eof_cond e) s0)))).
    assert (H1 : DU s1).
    { unfold s1. apply DU_ind; [cbn; tauto|]. eapply (DU_simple s0); [exact H0 | reflexivity ..]. }
    assert (Ec : r_cond s1 = eof_cond e) by reflexivity. clearbody s1.
    destruct (cond_eqb (r_cond s1) NoError) eqn:Ece; [|apply DU_cancel_; exact H1].
    apply cond_eqb_eq in Ece. rewrite Ec in Ece. cbn in Ht. specialize (Ht Ece).
    pose proof (DU_check_file_size now (eof_size e) s1 H1) as H2.
    remember (check_file_size now (eof_size e) s1) as s2 eqn:E2; clear E2.
    pose proof (DU_set_fsize (eof_size e) s2 H2 Ht) as H3.
    pose proof (DU_check_finished now _ H3) as H4.
    remember (check_finished now (set_r_fsize (Some (eof_size e)) s2)) as s4 eqn:E4; clear E4.
    repeat destr_inner; try exact H4; (eapply (DU_simple s4); [exact H4 | reflexivity ..]).
  - (* ACK, acknowledged *)
    left. unfold pdu_ack_acked. repeat (destr_inner; cbn [fst snd]); try exact H0;
      (eapply (DU_simple s0); [exact H0 | reflexivity ..]).
  - (* Metadata, acknowledged *)
    left. unfold pdu_metadata_acked. destruct (is_some (r_meta s0)) eqn:Em; [exact H0|].
    cbn in Ht. subst m0. apply DU_check_finished.
    assert (Hm : r_meta s0 = None) by (destruct (r_meta s0); [discriminate|reflexivity]).
    pose proof (DU_set_metadata s0 H0 Hm) as H1.
    eapply (DU_simple (set_metadata m s0)); [exact H1 | reflexivity ..].
  - (* file data, unacknowledged *)
    left. unfold pdu_filedata_unacked. destr_inner; [exact H0|].
    apply DU_ind; [cbn; tauto|]. apply DU_store; assumption.
  - (* EOF, unacknowledged *)
    unfold pdu_eof_unacked. destr_inner; [left; exact H0|].
    assert (Hp : r_phase s0 = RecvData) by (destruct (r_phase s0); try discriminate; reflexivity).
    set (s1 := emit_ind IEoFRecv (set_r_cksum (Some (eof_ck e)) (set_r_cond (eof_cond e) s0))).
    assert (H1 : DU s1).
    { unfold s1. apply DU_ind; [cbn; tauto|]. eapply (DU_simple s0); [exact H0 | reflexivity ..]. }
    assert (Ec : r_cond s1 = eof_cond e) by reflexivity.
    assert (Hp1 : r_phase s1 = RecvData) by exact Hp. clearbody s1.
    destruct (cond_eqb (r_cond s1) NoError) eqn:Ece; [|left; apply DU_cancel_; exact H1].
    apply cond_eqb_eq in Ece. rewrite Ec in Ece. cbn in Ht. specialize (Ht Ece).
    rewrite Ht. destruct H1 as (F1 & P1). rewrite (check_file_size_truthful now s1 P1 Hp1).
    rewrite (cfs_go_truthful now s1 P1 Hp1).
    assert (H3 : DU (set_r_fsize (Some flen) s1)) by (apply DU_set_fsize; [split; assumption|reflexivity]).
    destruct H3 as (F3 & P3).
    pose proof (FI_finalize now _ F3 P3 Hp1) as H4.
    remember (finalize_receive now (set_r_fsize (Some flen) s1)) as s4 eqn:E4; clear E4.
    destruct (closure s4).
    + left. split; [apply FI_prepare_finished; eapply (FI_ext s4); [exact H4 | reflexivity ..]|apply PH_fin; reflexivity].
    + right. split; [reflexivity|eapply (FI_ext s4); [exact H4 | reflexivity ..]].
  - (* ACK, unacknowledged *)
    left. unfold pdu_ack_unacked. repeat (destr_inner; cbn [fst snd]); try exact H0;
      (eapply (DU_simple s0); [exact H0 | reflexivity ..]).
  - (* Metadata, unacknowledged *)
    left. unfold pdu_metadata_unacked. destruct (is_some (r_meta s0)) eqn:Em; [exact H0|].
    cbn in Ht. subst m0.
    assert (Hm : r_meta s0 = None) by (destruct (r_meta s0); [discriminate|reflexivity]).
    apply DU_set_metadata; assumption.
Qed.

Lemma DU_clear_out s : DU s -> DU (set_r_out [] s).
Proof.
  intros ((A & B & C & D & E) & P). split.
  - unfold FI in *. cbn. splits; auto.
  - eapply (PH_ext s); [exact P | reflexivity ..].
Qed.

(* every operation, on truthful input, keeps the invariant *)
Theorem DG_rstep now o s : DU s -> truthful_in o -> DG (fst (rstep now o s)).
Proof.
  intros H Ht. unfold Recv.rstep. pose proof (DU_clear_out s H) as H0.
  destruct o; cbn [fst].
  - apply DG_process_pdu; assumption.
  - left. destruct (has_pdu_to_send _); [|exact H0]. destruct H0 as (F0 & P0).
    split; [apply FI_send_pdu|apply PH_send_pdu]; assumption.
  - left. destruct (until_timeout now _) as [[|?]|]; try exact H0. destruct H0 as (F0 & P0).
    split; [apply FI_handle_timeout|apply PH_handle_timeout]; assumption.
  - left. unfold cancel. apply DU_cancel_. exact H0.
  - left. destruct H0 as (F0 & P0). split; [apply FI_suspend|apply PH_suspend]; assumption.
  - left. destruct H0 as (F0 & P0). split; [apply FI_resume|apply PH_resume]; assumption.
  - left. unfold send_report. apply DU_ind; [cbn; tauto|exact H0].
  - left. exact H0.
Qed.

Lemma DU_init now cfg np fs : DU (r_new now cfg np fs).
Proof.
  split.
  - unfold FI, r_new. cbn. splits; auto; try discriminate.
  - unfold PH, r_new, staged_content, agrees. cbn. splits; auto; try discriminate.
    + intros _. splits; [exact I|lia|]. intros x Hx. exfalso. eapply covered_nil; eauto.
Qed.

(* what the invariant says about the outputs of a step: a success claim is backed by the file *)
Lemma DG_outputs s : DG s -> Forall (fun o => success_out o -> lookup (r_fs s) (md_dst m) = Some f) (r_out s).
Proof.
  intros H. assert (HF : FI s) by (destruct H as [(HF & _)|(_ & HF)]; exact HF).
  destruct HF as (_ & _ & C & _ & E). eapply Forall_impl; [|exact E].
  intros o Ho Hs. destruct (Ho Hs) as (A & B). auto.
Qed.
Lemma DG_frozen s : DG s -> (exists o, In o (r_out s) /\ success_out o) -> r_state s = TTerminated \/ not_recv FS s.
Proof.
  intros [((_ & _ & _ & _ & E) & (_ & P2 & _))|(Ht & _)] (o & Hin & Hs); [right|left; exact Ht].
  rewrite Forall_forall in E. destruct (E o Hin Hs) as (A & _). unfold not_recv. intros Hp. apply (P2 Hp A).
Qed.

(* ---- histories ---- *)
Definition truthful_ops (ops : list (N * rop)) : Prop := Forall (fun e => truthful_in (snd e)) ops.

Lemma DG_step1 (s : rstate) e : DG s -> truthful_in (snd e) ->
  DG (rstep1 fs_write_file fs_exec resp_fail not_performed cksum resp_len req_len s e).
Proof.
  intros H Ht. unfold rstep1, live. destruct H as [H|(Hterm & HF)].
  - destruct (negb _); [apply DG_rstep; assumption|left; apply DU_clear_out; exact H].
  - rewrite Hterm. cbn. right. split; [exact Hterm|].
    destruct HF as (A & B & C & D & E). unfold FI in *. cbn. splits; auto.
Qed.

Lemma rstep1_terminated (s : rstate) e : r_state s = TTerminated ->
  rstep1 fs_write_file fs_exec resp_fail not_performed cksum resp_len req_len s e = set_r_out [] s.
Proof. intros Ht. unfold rstep1, live. rewrite Ht. reflexivity. Qed.
Lemma terminated_run ops : forall (s : rstate), r_state s = TTerminated ->
  r_fs (rrun fs_write_file fs_exec resp_fail not_performed cksum resp_len req_len ops s) = r_fs s.
Proof.
  induction ops as [|e t IH]; intros s Ht; [reflexivity|].
  change (rrun fs_write_file fs_exec resp_fail not_performed cksum resp_len req_len (e :: t) s)
    with (rrun fs_write_file fs_exec resp_fail not_performed cksum resp_len req_len t
            (rstep1 fs_write_file fs_exec resp_fail not_performed cksum resp_len req_len s e)).
  rewrite (rstep1_terminated s e Ht). rewrite IH; [reflexivity|exact Ht].
Qed.

(* C01, receiver half: in every history of truthful inputs - any order, duplication, loss,
   user requests and timeouts interleaved at will - if the transaction ever emits a Finished
   indication or Finished PDU saying Retained / Complete, then at the end of the history the
   filestore holds exactly f under the destination name *)
Theorem delivered_is_source ops : forall (s : rstate), DG s -> truthful_ops ops ->
  forall o, In o (routs fs_write_file fs_exec resp_fail not_performed cksum resp_len req_len ops s) -> success_out o ->
  lookup (r_fs (rrun fs_write_file fs_exec resp_fail not_performed cksum resp_len req_len ops s)) (md_dst m) = Some f.
Proof.
  induction ops as [|e t IH]; intros s H Ht o Hin Hs; cbn [routs] in Hin; [destruct Hin|].
  inversion Ht as [|? ? Hte Htt]; subst.
  pose proof (DG_step1 s e H Hte) as H1.
  change (rrun fs_write_file fs_exec resp_fail not_performed cksum resp_len req_len (e :: t) s)
    with (rrun fs_write_file fs_exec resp_fail not_performed cksum resp_len req_len t
            (rstep1 fs_write_file fs_exec resp_fail not_performed cksum resp_len req_len s e)).
  apply in_app_or in Hin as [Hin|Hin]; [|apply (IH _ H1 Htt o Hin Hs)].
  apply in_rev in Hin.
  pose proof (DG_outputs _ H1) as Ho. rewrite Forall_forall in Ho. specialize (Ho o Hin Hs).
  destruct (DG_frozen _ H1 (ex_intro _ o (conj Hin Hs))) as [Hterm|Hnr].
  - rewrite terminated_run; assumption.
  - destruct (frozen_run FS fs_write_file fs_exec resp_fail not_performed cksum resp_len req_len t _ Hnr) as (A & _).
    rewrite A. exact Ho.
Qed.

End DeliverP.
