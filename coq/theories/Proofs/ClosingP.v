(* C02 / C03: the closing steps of an acknowledged exchange, on the transaction models.
   (a) a receiver that holds the metadata, the EOF and every byte finalises at once: it enters the
       Finished phase with a Finished PDU ready to send;
   (b) a sender handed that Finished PDU reports it, answers with ACK(Finished) at its next send
       opportunity and is then Terminated;
   (c) a receiver in the Finished (or Cancelled) phase that gets the ACK(Finished) is Terminated. *)
From CFDP Require Import Base.Prelude Model.Segments Model.Timer Model.TxTypes Model.Recv Model.Send Proofs.Tac Proofs.TimerP.

Section ClosingP.
Variable FS : Type.
Variable fs_write_file : FS -> bytes -> bytes -> option FS.
Variable fs_exec : FS -> fsreq -> FS * fsresp.
Variable resp_fail : fsresp -> bool.
Variable not_performed : fsreq -> fsresp.
Variable cksum : cktype -> bytes -> N.
Variable resp_len : fsresp -> N.
Variable req_len : fsreq -> N.
Notation rstate := (rstate FS).
Notation check_finished := (check_finished FS fs_write_file fs_exec resp_fail not_performed cksum).

Theorem receiver_completes_when_nothing_missing now (s : rstate) :
  r_phase s = RecvData -> is_some (r_meta s) = true -> eof_received s = true ->
  (is_file_transfer s && has_naks s) = false ->
  let s' := check_finished now s in
  r_phase s' = RFinished /\ fin_flag s' = true /\ c_paused (t_nak (r_timer s')) = true.
Proof.
  intros Hp Hm He Hn. cbn zeta. unfold Recv.check_finished. rewrite Hp, Hm, He, Hn. cbn [rphase_eqb andb negb].
  unfold fin_flag, prepare_finished. cbn. unfold c_pause. cbn. auto.
Qed.

Theorem sender_acks_finished_and_ends now now' f (s : sstate) :
  cfg_mode (s_cfg s) = Acked -> s_state s <> TSuspended ->
  let s1 := fst (s_process_pdu now (PFinished f) s) in
  s_phase s1 = SFinished /\ s_has_pdu_to_send s1 = true /\
  (exists rep, In (OInd (IFinished rep (fin_fs f) (fin_dc f) (fin_resps f))) (s_out s1)) /\
  let s2 := fst (s_send_pdu cksum resp_len req_len now' (set_s_prompt None s1)) in
  s_state s2 = TTerminated /\
  exists p a, In (OPdu p) (s_out s2) /\ o_payload p = PAck a /\ ack_dir a = DirFinished /\ ack_sub a = SubFinished.
Proof.
  intros Hm Hs. cbn zeta. unfold s_process_pdu.
  set (s0 := if sphase_eqb (s_phase s) SendEof && negb (ssuspended s) then supd_inact (c_reset now) s else s).
  assert (E : cfg_mode (s_cfg s0) = Acked /\ s_state s0 = s_state s) by (unfold s0; destruct (_ && _); cbn; auto).
  destruct E as (E1 & E2). clearbody s0. rewrite E1. cbn [fst].
  splits.
  - reflexivity.
  - unfold s_has_pdu_to_send, ssuspended. cbn. rewrite E2.
    destruct (s_state s); try congruence; cbn; apply orb_true_r.
  - eexists. cbn. left. reflexivity.
  - unfold s_send_pdu. cbn. reflexivity.
  - unfold s_send_pdu. cbn. eexists. eexists. split; [left; reflexivity|]. cbn. splits; reflexivity.
Qed.

Theorem receiver_ends_on_ack_finished now a (s : rstate) :
  cfg_mode (r_cfg s) = Acked -> r_phase s = RFinished \/ r_phase s = RCancelled ->
  ack_dir a = DirFinished -> ack_sub a = SubFinished ->
  r_state (fst (process_pdu FS fs_write_file fs_exec resp_fail not_performed cksum now (PAck a) s)) = TTerminated.
Proof.
  intros Hm Hp Hd Hsub. unfold process_pdu.
  set (s0 := if suspended s then s else upd_inact (c_reset now) s).
  assert (E : cfg_mode (r_cfg s0) = Acked /\ r_phase s0 = r_phase s) by (unfold s0; destruct (suspended s); cbn; auto).
  destruct E as (E1 & E2). clearbody s0. rewrite E1. cbn [fst]. unfold pdu_ack_acked. rewrite E2, Hd, Hsub.
  destruct Hp as [Hp|Hp]; rewrite Hp; reflexivity.
Qed.

(* lost Metadata: the receiver's 0-0 request survives the sender's request splitting as the marker,
   and the marker at the head of the sender's queue is answered with the Metadata PDU itself *)
Theorem metadata_marker_kept seg fsize : split_request seg fsize (0, 0) = [(0, 0)].
Proof. reflexivity. Qed.
Theorem metadata_retransmitted_on_marker now t (s : sstate) : s_naks s = (0, 0) :: t ->
  let s' := fst (send_missing_data resp_len req_len now s) in
  (exists p, s_out s' = OPdu p :: s_out s /\ o_payload p = PMetadata (s_meta s)) /\ s_naks s' = t.
Proof.
  intros Hn. cbn zeta. unfold send_missing_data. rewrite Hn. cbn. split; [eexists; split; reflexivity|reflexivity].
Qed.

(* a queued retransmission request [a, b) (not the marker, at most 65535 long) is answered with
   exactly one file data PDU carrying the file's bytes of that range, and leaves the queue and the
   first-pass cursor otherwise alone *)
Theorem request_answered now a b t (s : sstate) : s_naks s = (a, b) :: t ->
  (a =? 0) && (b - a =? 0) = false -> (65535 <? b - a) = false ->
  let s' := fst (send_missing_data resp_len req_len now s) in
  (exists p, s_out s' = OPdu p :: s_out s /\ o_payload p = PFileData a (slice (s_file s) a (b - a))) /\
  s_naks s' = t /\ s_pos s' = s_pos s.
Proof.
  intros Hn Hm Hl. cbn zeta. unfold send_missing_data. rewrite Hn, Hl, Hm. cbn.
  splits; auto. eexists. split; reflexivity.
Qed.

End ClosingP.
