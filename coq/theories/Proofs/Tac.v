(* Tactics shared by the proofs about the transaction models. *)
From CFDP Require Import Base.Prelude Model.Segments Model.Timer Model.TxTypes Model.Recv.

(* keep the timer arithmetic folded: the transaction proofs never look inside it *)
Global Arguments c_update : simpl never.
Global Arguments c_restart : simpl never.
Global Arguments c_reset : simpl never.
Global Arguments c_pause : simpl never.
Global Arguments c_startc : simpl never.
Global Arguments c_new : simpl never.
Global Arguments c_until : simpl never.
Global Arguments t_until : simpl never.
Global Arguments gaps : simpl never.
Global Arguments Segments.ins : simpl never.
Global Arguments Segments.is_complete : simpl never.
Global Arguments handler : simpl never.

Ltac destr_goal :=
  match goal with
  | |- context [match ?x with _ => _ end] => destruct x eqn:?
  end.
(* destruct an innermost scrutinee (one that contains no further match) *)
Ltac destr_inner :=
  match goal with
  | |- context [match ?x with _ => _ end] =>
      lazymatch x with
      | context [match _ with _ => _ end] => fail
      | _ => destruct x eqn:?
      end
  end.
Ltac nomatch x := lazymatch x with context [match _ with _ => _ end] => fail | _ => idtac end.

(* Generic machinery for an invariant [J] preserved by every function:
   at a call [g a x] whose argument is match-free, prove J x with the [leaf] tactic,
   apply the callee's lemma and name the result (its defining equation is dropped:
   normalising nested record updates makes proof terms explode). *)
Ltac call1 J g lem leaf :=
  match goal with
  | |- context [g ?x] => nomatch x;
      let Hx := fresh "Hx" in assert (Hx : J x) by leaf;
      let K := fresh "K" in pose proof (lem x Hx) as K;
      let r := fresh "r" in let E := fresh "E" in remember (g x) as r eqn:E; clear Hx E
  end.
Ltac call2 J g lem leaf :=
  match goal with
  | |- context [g ?a ?x] => nomatch x;
      let Hx := fresh "Hx" in assert (Hx : J x) by leaf;
      let K := fresh "K" in pose proof (lem a x Hx) as K;
      let r := fresh "r" in let E := fresh "E" in remember (g a x) as r eqn:E; clear Hx E
  end.
(* handle_fault returns a pair *)
Ltac callhf J lem side leaf :=
  match goal with
  | |- context [handle_fault ?now ?c ?x] => nomatch x;
      let Hx := fresh "Hx" in assert (Hx : J x) by leaf;
      let K := fresh "K" in pose proof (lem now c x ltac:(side) Hx) as K;
      let r := fresh "r" in let b := fresh "b" in
      destruct (handle_fault now c x) as [r b]; cbn [fst snd] in K; clear Hx
  end.
