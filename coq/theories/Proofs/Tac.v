(* Tactics shared by the proofs about the transaction models. *)
From CFDP Require Import Base.Prelude Model.Segments Model.Timer Model.TxTypes Model.Recv.

(* keep the timer arithmetic folded: the transaction proofs never look inside it *)
Global Arguments c_update : simpl never.
Global Arguments c_restart : simpl never.
Global Arguments c_reset : simpl never.
Global Arguments c_pause : simpl never.
Global Arguments c_startc : simpl never.
Global Arguments c_new : simpl never.
Global Arguments c_until : simpl never.
Global Arguments t_until : simpl never.
Global Arguments gaps : simpl never.
Global Arguments Segments.ins : simpl never.
Global Arguments Segments.is_complete : simpl never.
Global Arguments handler : simpl never.

Ltac destr_goal :=
  match goal with
  | |- context [match ?x with _ => _ end] => destruct x eqn:?
  end.
(* destruct an innermost scrutinee (one that contains no further match) *)
Ltac destr_inner :=
  match goal with
  | |- context [match ?x with _ => _ end] =>
      lazymatch x with
      | context [match _ with _ => _ end] => fail
      | _ => destruct x eqn:?
      end
  end.
Ltac nomatch x := lazymatch x with context [match _ with _ => _ end] => fail | _ => idtac end.

(* Generic machinery for an invariant [J] preserved by every function:
   at a call [g a x] whose argument is match-free, prove J x with the [leaf] tactic,
   apply the callee's lemma and name the result (its defining equation is dropped:
   normalising nested record updates makes proof terms explode). *)
Ltac call1 J g lem leaf :=
  match goal with
  | |- context [g ?x] => nomatch x;
      let Hx := fresh "Hx" in assert (Hx : J x) by leaf;
      let K := fresh "K" in pose proof (lem x Hx) as K;
      let r := fresh "r" in let E := fresh "E" in remember (g x) as r eqn:E; clear Hx E
  end.
Ltac call2 J g lem leaf :=
  match goal with
  | |- context [g ?a ?x] => nomatch x;
      let Hx := fresh "Hx" in assert (Hx : J x) by leaf;
      let K := fresh "K" in pose proof (lem a x Hx) as K;
      let r := fresh "r" in let E := fresh "E" in remember (g a x) as r eqn:E; clear Hx E
  end.
(* handle_fault returns a pair *)
Ltac callhf J lem side leaf :=
  match goal with
  | |- context [handle_fault ?now ?c ?x] => nomatch x;
      let Hx := fresh "Hx" in assert (Hx : J x) by leaf;
      let K := fresh "K" in pose proof (lem now c x ltac:(side) Hx) as K;
      let r := fresh "r" in let b := fresh "b" in
      destruct (handle_fault now c x) as [r b]; cbn [fst snd] in K; clear Hx
  end.

(* ------------------------------------------------------------------ *)
(* Second-generation machinery: [strip] peels record updates off a state
   expression to find the state they are applied to. *)
Ltac strip_r t :=
  lazymatch t with
  | set_r_cfg _ ?y => strip_r y | set_r_nakproc _ ?y => strip_r y | set_r_status _ ?y => strip_r y
  | set_r_state _ ?y => strip_r y | set_r_phase _ ?y => strip_r y | set_r_meta _ ?y => strip_r y
  | set_r_segs _ ?y => strip_r y | set_r_recvd _ ?y => strip_r y | set_r_staged _ ?y => strip_r y
  | set_r_cond _ ?y => strip_r y | set_r_dc _ ?y => strip_r y | set_r_fstat _ ?y => strip_r y
  | set_r_resps _ ?y => strip_r y | set_r_timer _ ?y => strip_r y | set_r_cksum _ ?y => strip_r y
  | set_r_fsize _ ?y => strip_r y | set_r_ack _ ?y => strip_r y | set_r_fin _ ?y => strip_r y
  | set_r_prompt _ ?y => strip_r y | set_r_naks _ ?y => strip_r y | set_r_nak_recvd _ ?y => strip_r y
  | set_r_delayed _ ?y => strip_r y | set_r_fs _ ?y => strip_r y | set_r_out _ ?y => strip_r y
  | upd_inact _ ?y => strip_r y | upd_ack _ ?y => strip_r y | upd_nak _ ?y => strip_r y
  | emit_ind _ ?y => strip_r y | emit_pdu _ _ _ ?y => strip_r y
  | prepare_ack_eof ?y => strip_r y | prepare_finished _ ?y => strip_r y
  | shutdown _ ?y => strip_r y
  | _ => t
  end.

Ltac strip_r_ne t :=
  lazymatch t with
  | set_r_cfg _ ?y => strip_r_ne y | set_r_nakproc _ ?y => strip_r_ne y | set_r_status _ ?y => strip_r_ne y
  | set_r_state _ ?y => strip_r_ne y | set_r_phase _ ?y => strip_r_ne y | set_r_meta _ ?y => strip_r_ne y
  | set_r_segs _ ?y => strip_r_ne y | set_r_recvd _ ?y => strip_r_ne y | set_r_staged _ ?y => strip_r_ne y
  | set_r_cond _ ?y => strip_r_ne y | set_r_dc _ ?y => strip_r_ne y | set_r_fstat _ ?y => strip_r_ne y
  | set_r_resps _ ?y => strip_r_ne y | set_r_timer _ ?y => strip_r_ne y | set_r_cksum _ ?y => strip_r_ne y
  | set_r_fsize _ ?y => strip_r_ne y | set_r_ack _ ?y => strip_r_ne y | set_r_fin _ ?y => strip_r_ne y
  | set_r_prompt _ ?y => strip_r_ne y | set_r_naks _ ?y => strip_r_ne y | set_r_nak_recvd _ ?y => strip_r_ne y
  | set_r_delayed _ ?y => strip_r_ne y | set_r_fs _ ?y => strip_r_ne y | set_r_out _ ?y => strip_r_ne y
  | upd_inact _ ?y => strip_r_ne y | upd_ack _ ?y => strip_r_ne y | upd_nak _ ?y => strip_r_ne y
  | prepare_ack_eof ?y => strip_r_ne y | prepare_finished _ ?y => strip_r_ne y
  | shutdown _ ?y => strip_r_ne y
  | _ => t
  end.

(* destruct the pair returned by a call, keeping the first component as [fst call] *)
Ltac destr_pair_keep :=
  match goal with
  | |- context [match ?E with (_, _) => _ end] =>
      nomatch E;
      let r := fresh "r" in let b := fresh "b" in let Eq := fresh "Eq" in
      destruct E as [r b] eqn:Eq; apply (f_equal fst) in Eq; cbn [fst] in Eq; subst r
  end.

From CFDP Require Import Model.Send.
Ltac strip_s t :=
  lazymatch t with
  | set_s_cfg _ ?y => strip_s y | set_s_status _ ?y => strip_s y | set_s_state _ ?y => strip_s y
  | set_s_phase _ ?y => strip_s y | set_s_meta _ ?y => strip_s y | set_s_file _ ?y => strip_s y
  | set_s_pos _ ?y => strip_s y | set_s_naks _ ?y => strip_s y | set_s_sent _ ?y => strip_s y
  | set_s_recvd _ ?y => strip_s y | set_s_cond _ ?y => strip_s y | set_s_dc _ ?y => strip_s y
  | set_s_fstat _ ?y => strip_s y | set_s_timer _ ?y => strip_s y | set_s_cksum _ ?y => strip_s y
  | set_s_eof _ ?y => strip_s y | set_s_ack _ ?y => strip_s y | set_s_prompt _ ?y => strip_s y
  | set_s_eof_ind _ ?y => strip_s y | set_s_out _ ?y => strip_s y
  | supd_inact _ ?y => strip_s y | supd_ack _ ?y => strip_s y
  | semit_ind _ ?y => strip_s y | semit_pdu _ _ _ ?y => strip_s y
  | prepare_ack ?y => strip_s y
  | _ => t
  end.
Ltac solve_ss J ext calls :=
  lazymatch goal with
  | |- J ?t =>
      first [ assumption
            | calls tt; solve_ss J ext calls
            | let b := strip_s t in
              tryif constr_eq b t then fail
              else (eapply (ext b); [ solve_ss J ext calls | reflexivity .. ]) ]
  end.
