(* C13, transaction clause: the Finished PDU a receive transaction holds ready (and therefore the
   one its send arm emits) carries exactly the filestore responses recorded by the finalisation,
   and none is held ready while the transaction is still receiving data. Invariant RQ, kept by
   every operation. It needs the repaired unacknowledged EOF handler (fix 860603f): with the old
   one a fault handler could prepare a Finished PDU and the same call then ran the requests. *)
From CFDP Require Import Base.Prelude Model.Segments Model.Timer Model.TxTypes Model.Recv
  Proofs.SegmentsP Proofs.Tac Proofs.RecvP Proofs.RecvInv.

(* peel record updates, stopping at the two functions that write the Finished PDU *)
Ltac strip_q t :=
  lazymatch t with
  | set_r_cfg _ ?y => strip_q y | set_r_nakproc _ ?y => strip_q y | set_r_status _ ?y => strip_q y
  | set_r_state _ ?y => strip_q y | set_r_phase _ ?y => strip_q y | set_r_meta _ ?y => strip_q y
  | set_r_segs _ ?y => strip_q y | set_r_recvd _ ?y => strip_q y | set_r_staged _ ?y => strip_q y
  | set_r_cond _ ?y => strip_q y | set_r_dc _ ?y => strip_q y | set_r_fstat _ ?y => strip_q y
  | set_r_timer _ ?y => strip_q y | set_r_cksum _ ?y => strip_q y
  | set_r_fsize _ ?y => strip_q y | set_r_ack _ ?y => strip_q y
  | set_r_prompt _ ?y => strip_q y | set_r_naks _ ?y => strip_q y | set_r_nak_recvd _ ?y => strip_q y
  | set_r_delayed _ ?y => strip_q y | set_r_fs _ ?y => strip_q y | set_r_out _ ?y => strip_q y
  | upd_inact _ ?y => strip_q y | upd_ack _ ?y => strip_q y | upd_nak _ ?y => strip_q y
  | emit_ind _ ?y => strip_q y | emit_pdu _ _ _ ?y => strip_q y
  | prepare_ack_eof ?y => strip_q y
  | shutdown _ ?y => strip_q y
  | _ => t
  end.

Section RespP.
Variable FS : Type.
Variable fs_write_file : FS -> bytes -> bytes -> option FS.
Variable fs_exec : FS -> fsreq -> FS * fsresp.
Variable resp_fail : fsresp -> bool.
Variable not_performed : fsreq -> fsresp.
Variable cksum : cktype -> bytes -> N.
Variable resp_len : fsresp -> N.
Variable req_len : fsreq -> N.

Notation rstate := (rstate FS).
Notation rstep := (rstep FS fs_write_file fs_exec resp_fail not_performed cksum resp_len req_len).
Notation process_pdu := (process_pdu FS fs_write_file fs_exec resp_fail not_performed cksum).
Notation check_finished := (check_finished FS fs_write_file fs_exec resp_fail not_performed cksum).
Notation finalize_receive := (finalize_receive FS fs_write_file fs_exec resp_fail not_performed cksum).
Notation send_pdu := (send_pdu resp_len req_len).

Definition RQ (s : rstate) : Prop :=
  (r_phase s = RecvData -> r_fin s = None) /\
  (forall f b, r_fin s = Some (f, b) -> fin_resps f = r_resps s).

Lemma RQ_ext (s s' : rstate) : RQ s -> r_phase s' = r_phase s -> r_fin s' = r_fin s ->
  r_resps s' = r_resps s -> RQ s'.
Proof. unfold RQ. intros (A & B) E1 E2 E3. rewrite E1, E2, E3. auto. Qed.
(* leaving the data phase *)
Lemma RQ_late (s s' : rstate) : RQ s -> r_phase s' <> RecvData -> r_fin s' = r_fin s ->
  r_resps s' = r_resps s -> RQ s'.
Proof. unfold RQ. intros (A & B) E1 E2 E3. rewrite E2, E3. split; [intros; contradiction|auto]. Qed.
(* a Finished PDU prepared outside the data phase is built from the recorded responses *)
Lemma RQ_prep fl (s : rstate) : r_phase s <> RecvData -> RQ (prepare_finished fl s).
Proof.
  unfold RQ, prepare_finished. cbn. intros Hp. split; [intros; contradiction|].
  intros f b Heq. inversion Heq; subst. reflexivity.
Qed.
(* nothing held ready: the invariant holds whatever the responses are *)
Lemma RQ_none (s : rstate) : r_fin s = None -> RQ s.
Proof. unfold RQ. intros E. rewrite E. split; [auto|intros f b Hx; discriminate]. Qed.
Lemma RQ_set_fin_flag b s : RQ s -> RQ (set_fin_flag b s).
Proof.
  unfold RQ, set_fin_flag. intros (A & B). destruct (r_fin s) as [[f b0]|] eqn:Ef; [|rewrite Ef; auto].
  cbn. split.
  - intros Hp. specialize (A Hp). discriminate.
  - intros f' b' Heq. inversion Heq; subst. eapply B. reflexivity.
Qed.

Ltac rq_calls _ :=
  lazymatch goal with
  | |- RQ (prepare_finished _ _) => apply RQ_prep; cbn; discriminate
  | |- RQ (set_fin_flag _ _) => apply RQ_set_fin_flag
  end.
Ltac rq :=
  lazymatch goal with
  | |- RQ ?t =>
      first [ assumption
            | rq_calls tt; try rq
            | let b := strip_q t in
              tryif constr_eq b t then fail
              else first [ eapply (RQ_ext b); [ rq | reflexivity .. ]
                         | eapply (RQ_late b); [ rq | cbn; discriminate | reflexivity .. ] ] ]
  end.

Lemma RQ_shutdown now s : RQ s -> RQ (shutdown now s).
Proof. intros H. rq. Qed.
Lemma RQ_abandon now s : RQ s -> RQ (abandon now s).
Proof. intros H. apply RQ_shutdown. unfold abandon. rq. Qed.
Lemma RQ_suspend now s : RQ s -> RQ (suspend now s).
Proof. intros H. unfold suspend. rq. Qed.
Lemma RQ_cancel_ now s : RQ s -> RQ (cancel_ now s).
Proof.
  intros H. unfold cancel_. cbv zeta.
  destruct (cfg_mode _); [|destruct (closure _)]; rq.
Qed.
Lemma RQ_handle_fault now c s : RQ s -> RQ (fst (handle_fault now c s)).
Proof.
  intros H. unfold handle_fault.
  assert (H1 : RQ (emit_ind (IFault c (r_recvd (set_r_cond c s))) (set_r_cond c s))) by rq.
  destruct (handler _ c); cbn [fst];
    [apply RQ_cancel_ | apply RQ_suspend | | apply RQ_abandon]; exact H1.
Qed.
(* a fault handler that lets the caller continue changed neither phase, nor Finished PDU, nor responses *)
Lemma hf_go now c (s : rstate) : snd (handle_fault now c s) = true ->
  r_phase (fst (handle_fault now c s)) = r_phase s /\ r_fin (fst (handle_fault now c s)) = r_fin s /\
  r_resps (fst (handle_fault now c s)) = r_resps s.
Proof.
  unfold handle_fault. destruct (handler _ c); cbn [fst snd]; intros Hx; try discriminate. cbn. auto.
Qed.

Ltac rq2_calls _ :=
  lazymatch goal with
  | |- RQ (shutdown _ _) => apply RQ_shutdown
  | |- RQ (abandon _ _) => apply RQ_abandon
  | |- RQ (suspend _ _) => apply RQ_suspend
  | |- RQ (cancel_ _ _) => apply RQ_cancel_
  | |- RQ (fst (handle_fault _ _ _)) => apply RQ_handle_fault
  | |- RQ (prepare_finished _ _) => apply RQ_prep; cbn; discriminate
  | |- RQ (set_fin_flag _ _) => apply RQ_set_fin_flag
  end.
Ltac rq2 :=
  lazymatch goal with
  | |- RQ ?t =>
      first [ assumption
            | rq2_calls tt; try rq2
            | let b := strip_q t in
              tryif constr_eq b t then fail
              else first [ eapply (RQ_ext b); [ rq2 | reflexivity .. ]
                         | eapply (RQ_late b); [ rq2 | cbn; discriminate | reflexivity .. ] ] ]
  end.
Ltac pass_rq2 := repeat (first [destr_pair_keep | destr_inner]; cbn [fst snd]); try rq2.

Lemma RQ_send_naks now s : RQ s -> RQ (send_naks resp_len req_len now s).
Proof. intros H. unfold send_naks, c_limit_reached. pass_rq2. Qed.
Lemma RQ_send_ack_eof s : RQ s -> RQ (send_ack_eof resp_len req_len s).
Proof. intros H. unfold send_ack_eof. pass_rq2. Qed.
Lemma RQ_send_finished now s : RQ s -> RQ (send_finished resp_len req_len now s).
Proof.
  intros H. unfold send_finished. repeat (destr_inner; cbn [fst snd]); try rq2.
Qed.
Lemma RQ_answer_prompt now s : RQ s -> RQ (answer_prompt resp_len req_len now s).
Proof.
  intros H. unfold answer_prompt. destruct (r_prompt s) as [[|]|]; try rq2.
  apply RQ_send_naks. rq2.
Qed.
Lemma RQ_send_pdu now s : RQ s -> RQ (send_pdu now s).
Proof.
  intros H. unfold Recv.send_pdu.
  pose proof (RQ_answer_prompt now s H). pose proof (RQ_send_ack_eof s H).
  pose proof (RQ_send_naks now s H). pose proof (RQ_send_finished now s H).
  repeat destr_inner; auto.
Qed.
Lemma RQ_resume now s : RQ s -> RQ (resume now s).
Proof. intros H. unfold resume. pass_rq2. Qed.
Lemma RQ_cancel now s : RQ s -> RQ (cancel now s).
Proof. intros H. unfold cancel. apply RQ_cancel_. rq2. Qed.
Lemma RQ_send_report s : RQ s -> RQ (send_report s).
Proof. intros H. unfold send_report. rq2. Qed.
Lemma RQ_ht_delayed now s : RQ s -> RQ (ht_delayed now s).
Proof.
  intros H. unfold ht_delayed. destruct (expire_delayed now (r_delayed s)) as [expired rest]. pass_rq2.
Qed.
Lemma RQ_ht_inactivity now s : RQ s -> RQ (fst (ht_inactivity now s)).
Proof. intros H. unfold ht_inactivity, c_limit_reached. pass_rq2. Qed.
Lemma RQ_ht_nak now s : RQ s -> RQ (ht_nak now s).
Proof.
  intros H. unfold ht_nak, c_timeout_occurred.
  repeat (first [destr_pair_keep | destr_inner]; cbn [fst snd]); try rq2.
Qed.
Lemma RQ_ht_ackphase now s : RQ s -> RQ (ht_ackphase now s).
Proof.
  intros H. unfold ht_ackphase, c_limit_reached, c_timeout_occurred.
  repeat (first [destr_pair_keep | destr_inner]; cbn [fst snd]); try rq2.
  all: try (eapply (RQ_ext (set_fin_flag true _)); [apply RQ_set_fin_flag; rq2 | reflexivity ..]).
Qed.
Lemma RQ_handle_timeout now s : RQ s -> RQ (handle_timeout now s).
Proof.
  intros H. unfold handle_timeout.
  pose proof (RQ_ht_inactivity now _ (RQ_ht_delayed now s H)) as H1.
  destruct (ht_inactivity now (ht_delayed now s)) as [s1 go]. cbn [fst] in H1.
  destruct go; [unfold ht_phase; apply RQ_ht_ackphase; apply RQ_ht_nak|]; exact H1.
Qed.

Lemma RQ_check_file_size now size s : RQ s -> RQ (check_file_size now size s).
Proof. intros H. unfold check_file_size. pass_rq2. Qed.
Lemma RQ_store off d s : RQ s -> RQ (store_file_data off d s).
Proof.
  intros H. unfold store_file_data. destruct (is_nil d); [exact H|].
  destruct (ins _ _ _). rq2.
Qed.

(* the finalisation: entered in the data phase with no Finished PDU held ready; the requests run
   only if no fault handler intervened, i.e. still with none held ready *)
Definition DP (s : rstate) : Prop := r_fin s = None.
Lemma DP_ext (s s' : rstate) : DP s -> r_fin s' = r_fin s -> DP s'.
Proof. unfold DP. intros H E. rewrite E. exact H. Qed.

Lemma RQ_finalize now s : r_fin s = None -> RQ (finalize_receive now s).
Proof.
  intros H. unfold Recv.finalize_receive.
  set (s0 := set_r_dc _ s). assert (H0 : DP s0) by exact H. clearbody s0. clear H.
  (* verify + store *)
  assert (H1 : let r := (if is_file_transfer s0
                        then let '(s1, go) := fr_verify FS cksum now s0 in
                             if go then (fr_store FS fs_write_file s1, true) else (s1, false)
                        else (set_r_fstat FUnreported s0, true)) in
               if snd r then DP (fst r) else RQ (fst r)).
  { cbn zeta. destruct (is_file_transfer s0); cbn [fst snd]; [|exact H0].
    unfold fr_verify. destruct (_ =? _).
    - cbn [fst snd]. unfold fr_store. destruct (fs_write_file _ _ _); exact H0.
    - set (sv := set_r_staged _ s0). assert (Hv : DP sv) by exact H0. clearbody sv.
      destruct (handle_fault now FileChecksumFailure sv) as [s1 go] eqn:Ehf.
      destruct go; cbn [fst snd].
      + pose proof (hf_go now FileChecksumFailure sv) as G. rewrite Ehf in G. cbn [fst snd] in G.
        destruct (G eq_refl) as (_ & G2 & _). unfold fr_store.
        destruct (fs_write_file _ _ _); unfold DP in *; cbn; rewrite G2; exact Hv.
      + pose proof (RQ_handle_fault now FileChecksumFailure sv (RQ_none sv Hv)) as G. rewrite Ehf in G. exact G. }
  cbn zeta in H1.
  destruct (if is_file_transfer s0 then _ else _) as [s2 go2]. cbn [fst snd] in H1.
  destruct go2; [|exact H1].
  (* rejection *)
  assert (H2 : if snd (fr_rejection now s2) then DP (fst (fr_rejection now s2)) else RQ (fst (fr_rejection now s2))).
  { unfold fr_rejection. destruct (r_fstat s2); cbn [fst snd]; try exact H1.
    destruct (handle_fault now FileStoreRejectionC s2) as [s3 go] eqn:Ehf. destruct go; cbn [fst snd].
    - pose proof (hf_go now FileStoreRejectionC s2) as G. rewrite Ehf in G. cbn [fst snd] in G.
      destruct (G eq_refl) as (_ & G2 & _). unfold DP in *. rewrite G2. exact H1.
    - pose proof (RQ_handle_fault now FileStoreRejectionC s2 (RQ_none s2 H1)) as G. rewrite Ehf in G. exact G. }
  destruct (fr_rejection now s2) as [s3 go3]. cbn [fst snd] in H2.
  destruct go3; [|exact H2].
  (* the requests: still nothing held ready *)
  unfold fr_requests. destruct (run_requests _ _ _ _ _ _ _) as [fs' resps].
  apply RQ_none. exact H2.
Qed.

Lemma RQ_check_finished now s : RQ s -> RQ (check_finished now s).
Proof.
  intros H. unfold Recv.check_finished. destr_inner; [|exact H].
  rq2.
Qed.

Ltac rq3_calls _ :=
  lazymatch goal with
  | |- RQ (check_file_size _ _ _) => apply RQ_check_file_size
  | |- RQ (store_file_data _ _ _) => apply RQ_store
  | |- RQ (check_finished _ _) => apply RQ_check_finished
  | _ => rq2_calls tt
  end.
Ltac rq3 :=
  lazymatch goal with
  | |- RQ ?t =>
      first [ assumption
            | rq3_calls tt; try rq3
            | let b := strip_q t in
              tryif constr_eq b t then fail
              else first [ eapply (RQ_ext b); [ rq3 | reflexivity .. ]
                         | eapply (RQ_late b); [ rq3 | cbn; discriminate | reflexivity .. ] ] ]
  end.
Ltac pass_rq3 := repeat (first [destr_pair_keep | destr_inner]; cbn [fst snd]); try rq3.

(* the unacknowledged EOF: the finalisation is entered only if check_file_size said "continue",
   i.e. with phase, Finished PDU and responses as before *)
Lemma cfs_go_fields now size (s : rstate) : cfs_go now size s = true ->
  r_phase (check_file_size now size s) = r_phase s /\ r_fin (check_file_size now size s) = r_fin s.
Proof.
  unfold cfs_go, check_file_size. destruct (size <? _); [|auto].
  intros Hg. destruct (hf_go now FilesizeError s Hg) as (A & B & _). auto.
Qed.

Lemma RQ_eof_unacked now e s : RQ s ->
  RQ (pdu_eof_unacked FS fs_write_file fs_exec resp_fail not_performed cksum now e s).
Proof.
  intros H. unfold pdu_eof_unacked. destruct (negb (rphase_eqb (r_phase s) RecvData)) eqn:Ep; [exact H|].
  assert (Hp : r_phase s = RecvData) by (destruct (r_phase s); try discriminate; reflexivity).
  set (s1 := emit_ind IEoFRecv (set_r_cksum (Some (eof_ck e)) (set_r_cond (eof_cond e) s))).
  assert (H1 : RQ s1) by (unfold s1; rq3).
  assert (Hp1 : r_phase s1 = RecvData) by exact Hp.
  assert (Hf1 : r_fin s1 = None) by (destruct H as (A & _); exact (A Hp)).
  clearbody s1.
  destruct (cond_eqb (r_cond s1) NoError); [|apply RQ_cancel_; exact H1].
  pose proof (RQ_check_file_size now (eof_size e) s1 H1) as H2.
  destruct (cfs_go now (eof_size e) s1) eqn:Eg; [|exact H2].
  destruct (cfs_go_fields now (eof_size e) s1 Eg) as (G1 & G2).
  remember (check_file_size now (eof_size e) s1) as s2 eqn:E2. clear E2.
  assert (H4 : RQ (finalize_receive now (set_r_fsize (Some (eof_size e)) s2))).
  { apply RQ_finalize. cbn. rewrite G2. exact Hf1. }
  remember (finalize_receive now (set_r_fsize (Some (eof_size e)) s2)) as s4 eqn:E4. clear E4.
  destruct (closure s4); [rq3|apply RQ_shutdown; exact H4].
Qed.

Lemma RQ_process_pdu now p s : RQ s -> RQ (fst (process_pdu now p s)).
Proof.
  intros H. unfold Recv.process_pdu.
  set (s0 := if suspended s then s else upd_inact (c_reset now) s).
  assert (H0 : RQ s0) by (unfold s0; destruct (suspended s); rq3). clearbody s0. clear H.
  destruct (cfg_mode (r_cfg s0)); destruct p; cbn [fst]; try exact H0;
    try (apply RQ_eof_unacked; exact H0);
    unfold pdu_filedata_acked, pdu_eof_acked, pdu_ack_acked, pdu_metadata_acked, pdu_filedata_unacked,
           pdu_ack_unacked, pdu_metadata_unacked, set_metadata, c_timeout_occurred;
    pass_rq3.
Qed.

Lemma RQ_init now cfg np fs : RQ (r_new now cfg np fs).
Proof. apply RQ_none. reflexivity. Qed.

Theorem RQ_rstep now o s : RQ s -> RQ (fst (rstep now o s)).
Proof.
  intros H. unfold Recv.rstep.
  assert (H0 : RQ (set_r_out [] s)) by rq3.
  destruct o; cbn [fst].
  - apply RQ_process_pdu; exact H0.
  - destruct (has_pdu_to_send _); [apply RQ_send_pdu|]; exact H0.
  - destruct (until_timeout now _) as [[|?]|]; try exact H0. apply RQ_handle_timeout; exact H0.
  - apply RQ_cancel; exact H0.
  - apply RQ_suspend; exact H0.
  - apply RQ_resume; exact H0.
  - apply RQ_send_report; exact H0.
  - apply RQ_shutdown; exact H0.
Qed.

(* what the send arm puts on the link: the Finished PDU carries the recorded responses *)
Theorem finished_pdu_carries_responses now s p f : RQ s ->
  In (OPdu p) (r_out (send_finished resp_len req_len now s)) -> ~ In (OPdu p) (r_out s) ->
  o_payload p = PFinished f -> fin_resps f = r_resps s.
Proof.
  intros (_ & B) Hin Hnot Hp. unfold send_finished in Hin.
  change (r_fin (upd_ack (c_restart now) s)) with (r_fin s) in Hin.
  destruct (r_fin s) as [[f0 [|]]|] eqn:Ef; try (cbn in Hin; contradiction).
  unfold set_fin_flag in Hin.
  change (r_fin (emit_pdu resp_len req_len (PFinished f0) (upd_ack (c_restart now) s))) with (r_fin s) in Hin.
  rewrite Ef in Hin. cbn in Hin. destruct Hin as [Heq|Hin]; [|contradiction].
  inversion Heq; subst p. cbn in Hp. inversion Hp; subst f0. eapply B. reflexivity.
Qed.

End RespP.
