(* C01, receiver half, data level: the staged (temporary) file built from truthful file data
   PDUs equals the source file once the segment list says [0, |f|) is complete. *)
From CFDP Require Import Base.Prelude Model.Segments Model.Timer Model.TxTypes Model.Recv Model.Send
  Proofs.SegmentsP.

(* what store_file_data does to (staged content, segment list) for one non-empty PDU *)
Definition stage1 (st : bytes * segs) (pdu : N * bytes) : bytes * segs :=
  let '(off, d) := pdu in
  if is_nil d then st
  else (write_at (fst st) off d, fst (ins off (off + N.of_nat (length d)) (snd st))).
Definition stage (pdus : list (N * bytes)) : bytes * segs := fold_left stage1 pdus ([], []).

(* a file data PDU is truthful for the source file f *)
Definition truthful_fd (f : bytes) (pdu : N * bytes) : Prop :=
  snd pdu = slice f (fst pdu) (N.of_nat (length (snd pdu))) /\
  fst pdu + N.of_nat (length (snd pdu)) <= N.of_nat (length f).

Definition byte_at (b : bytes) (x : N) : N := nth (N.to_nat x) b 0.

(* invariant: lengths and contents agree with f wherever data is held *)
Definition agrees (f : bytes) (st : bytes * segs) : Prop :=
  Inv (snd st) /\ N.of_nat (length (fst st)) <= N.of_nat (length f) /\
  (forall x, covered (snd st) x -> x < N.of_nat (length (fst st)) /\ byte_at (fst st) x = byte_at f x).

Lemma nth_skipn' {A} n i (l : list A) d : nth i (skipn n l) d = nth (n + i) l d.
Proof.
  revert l. induction n as [|n IH]; intros l; [reflexivity|]. destruct l as [|a l]; [destruct i; reflexivity|].
  cbn [skipn plus nth]. apply IH.
Qed.
Lemma nth_firstn' {A} n i (l : list A) d : nth i (firstn n l) d = if (i <? n)%nat then nth i l d else d.
Proof.
  revert i l. induction n as [|n IH]; intros i l; [destruct i; reflexivity|].
  destruct l as [|a l]; [cbn [firstn]; destruct i; cbn [nth]; destruct (_ <? _)%nat; reflexivity|].
  destruct i as [|i]; [reflexivity|]. cbn [firstn nth]. rewrite IH. reflexivity.
Qed.

Lemma write_at_length b off d : d <> [] ->
  length (write_at b off d) = Nat.max (length b) (N.to_nat off + length d).
Proof.
  intros Hd. unfold write_at.
  rewrite !app_length, firstn_length, skipn_length, app_length, repeat_length. lia.
Qed.

Lemma nth_write_at b off d x :
  nth x (write_at b off d) 0 =
  if (N.to_nat off <=? x)%nat && (x <? N.to_nat off + length d)%nat then nth (x - N.to_nat off) d 0
  else nth x b 0.
Proof.
  unfold write_at. set (n := N.to_nat off). set (b' := b ++ repeat 0 (n - length b)).
  assert (Hb' : forall i, nth i b' 0 = nth i b 0).
  { intros i. unfold b'. destruct (Nat.lt_ge_cases i (length b)).
    - rewrite app_nth1 by assumption. reflexivity.
    - rewrite app_nth2 by assumption. rewrite (nth_overflow b) by assumption.
      destruct (Nat.lt_ge_cases (i - length b) (n - length b)).
      + apply nth_repeat.
      + apply nth_overflow. rewrite repeat_length. assumption. }
  assert (Hl : (n <= length b')%nat) by (unfold b'; rewrite app_length, repeat_length; lia).
  destruct (Nat.leb_spec n x) as [H1|H1]; cbn [andb].
  - rewrite app_nth2 by (rewrite firstn_length; lia). rewrite firstn_length, Nat.min_l by exact Hl.
    destruct (Nat.ltb_spec x (n + length d)) as [H2|H2].
    + rewrite app_nth1 by lia. reflexivity.
    + rewrite app_nth2 by lia. rewrite nth_skipn'. rewrite <- Hb'. f_equal. lia.
  - rewrite app_nth1 by (rewrite firstn_length; lia). rewrite nth_firstn'.
    destruct (Nat.ltb_spec x n); [apply Hb'|lia].
Qed.

Lemma slice_nth f off len i : (i < length (slice f off len))%nat ->
  nth i (slice f off len) 0 = nth (N.to_nat off + i) f 0.
Proof.
  unfold slice. intros Hi. rewrite firstn_length in Hi. rewrite nth_firstn'.
  destruct (Nat.ltb_spec i (N.to_nat len)); [|lia]. rewrite nth_skipn'. reflexivity.
Qed.

Lemma stage1_agrees f st pdu : truthful_fd f pdu -> agrees f st -> agrees f (stage1 st pdu).
Proof.
  destruct st as [b v], pdu as [off d]. intros (Ht1 & Ht2) (Hi & Hlen & Hag). cbn [fst snd] in *.
  unfold stage1. destruct (is_nil d) eqn:En; [unfold agrees; cbn; auto|]. cbn [fst snd].
  assert (Hd : d <> []) by (destruct d; [discriminate|discriminate]).
  assert (Hlt : off < off + N.of_nat (length d)) by (destruct d; [congruence|cbn [length]; lia]).
  destruct (ins off (off + N.of_nat (length d)) v) as [v' n] eqn:E. cbn [fst].
  destruct (ins_ok _ _ _ Hlt Hi _ _ E) as (H1 & H2 & _).
  unfold agrees. cbn [fst snd]. splits.
  - exact H1.
  - rewrite write_at_length by exact Hd. lia.
  - intros x Hx. apply H2 in Hx. rewrite write_at_length by exact Hd. unfold byte_at. rewrite nth_write_at.
    destruct Hx as [Hx|Hx].
    + destruct (Hag x Hx) as (A & B). split; [lia|].
      destruct ((N.to_nat off <=? N.to_nat x)%nat && (N.to_nat x <? N.to_nat off + length d)%nat) eqn:Ec; [|exact B].
      apply andb_prop in Ec as [E1 E2]. apply Nat.leb_le in E1. apply Nat.ltb_lt in E2.
      rewrite Ht1. rewrite slice_nth by (rewrite <- Ht1; lia). unfold byte_at. f_equal. lia.
    + split; [lia|].
      destruct (Nat.leb_spec (N.to_nat off) (N.to_nat x)); [|lia].
      destruct (Nat.ltb_spec (N.to_nat x) (N.to_nat off + length d)); [|lia]. cbn [andb].
      rewrite Ht1. rewrite slice_nth by (rewrite <- Ht1; lia). unfold byte_at. f_equal. lia.
Qed.

Lemma stage_agrees f pdus : Forall (truthful_fd f) pdus -> agrees f (stage pdus).
Proof.
  intros H. unfold stage.
  assert (G : forall st, agrees f st -> agrees f (fold_left stage1 pdus st)).
  { induction H as [|p t Hp Ht IH]; intros st Hs; cbn [fold_left]; [exact Hs|].
    apply IH. apply stage1_agrees; assumption. }
  apply G. unfold agrees. cbn. splits; auto; try lia. intros x Hx. exfalso. eapply covered_nil; eauto.
Qed.

(* the staged file is the source file as soon as [0, |f|) is complete *)
Lemma agrees_complete f st : agrees f st ->
  is_complete (snd st) (N.of_nat (length f)) = true -> fst st = f.
Proof.
  intros (Hi & Hlen & Hag) Hc.
  rewrite (complete_iff _ _ Hi) in Hc.
  assert (Hl : length (fst st) = length f).
  { destruct f as [|f0 ft] eqn:Ef; [cbn in Hlen; destruct (fst st); [reflexivity|cbn in Hlen; lia]|].
    rewrite <- Ef in *. assert (Hlast : N.of_nat (length f) - 1 < N.of_nat (length f)) by (rewrite Ef; cbn [length]; lia).
    destruct (Hag _ (Hc _ Hlast)) as (A & _). lia. }
  apply nth_ext with (d := 0) (d' := 0); [exact Hl|].
  intros i Hi'. assert (Hx : N.of_nat i < N.of_nat (length f)) by lia.
  destruct (Hag _ (Hc _ Hx)) as (_ & B). unfold byte_at in B. rewrite Nat2N.id in B. exact B.
Qed.
Theorem staged_equals_source f pdus : Forall (truthful_fd f) pdus ->
  is_complete (snd (stage pdus)) (N.of_nat (length f)) = true -> fst (stage pdus) = f.
Proof. intros Ht Hc. apply agrees_complete; [apply stage_agrees; exact Ht|exact Hc]. Qed.

(* ---- glue with the receive-transaction model ---- *)
Section Glue.
Variable FS : Type.
Variable fs_write_file : FS -> bytes -> bytes -> option FS.
Notation rstate := (rstate FS).

(* store_file_data is exactly one [stage1] step on (staged file, segment list) *)
Lemma store_is_stage1 off d (s : rstate) :
  (staged_content (store_file_data off d s), r_segs (store_file_data off d s)) =
  stage1 (staged_content s, r_segs s) (off, d).
Proof.
  unfold store_file_data, stage1, staged_content. cbn [fst snd]. destruct (is_nil d); [reflexivity|].
  cbn [r_segs set_r_staged]. destruct (ins off (off + N.of_nat (length d)) (r_segs s)) as [v n]. reflexivity.
Qed.

(* the file a finalisation stores under the destination name is the staged content *)
Lemma fr_store_writes_staged (s : rstate) fs' :
  fs_write_file (r_fs s) (meta_dst s) (staged_content s) = Some fs' ->
  r_fs (fr_store FS fs_write_file s) = fs' /\ r_fstat (fr_store FS fs_write_file s) = FRetained.
Proof. intros H. unfold fr_store. rewrite H. cbn. auto. Qed.
Lemma fr_store_retained_only_if_written (s : rstate) :
  r_fstat (fr_store FS fs_write_file s) = FRetained -> r_fstat s <> FRetained ->
  exists fs', fs_write_file (r_fs s) (meta_dst s) (staged_content s) = Some fs' /\ r_fs (fr_store FS fs_write_file s) = fs'.
Proof.
  unfold fr_store. destruct (fs_write_file _ _ _) as [fs'|]; cbn; intros H Hn; [eauto|congruence].
Qed.
End Glue.
