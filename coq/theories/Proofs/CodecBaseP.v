(* Lemmas about the reader primitives of Model/CodecBase.v and the proof automation used by
   Proofs/CodecP.v.  Three facts are proved about every reader [d]:
     round trip   d (enc a ++ r) = Ok (a, r)                       (for well-formed a)
     inversion    d b = Ok (a, r) -> wf a /\ is_bytes r /\ len a + blen r <= blen b
     totality     is_bytes b -> d b <> Panic *)
From CFDP Require Import Base.Prelude Model.Pdu Model.CodecBase.

(* ------------------------------------------------------------------ lengths, byte lists *)

Lemma blen_nil : blen [] = 0.
Proof. reflexivity. Qed.
Lemma blen_cons x l : blen (x :: l) = 1 + blen l.
Proof. unfold blen. cbn [length]. lia. Qed.
Lemma blen_app a b : blen (a ++ b) = blen a + blen b.
Proof. unfold blen. rewrite app_length. lia. Qed.
Lemma blen_length a : blen a = N.of_nat (length a).
Proof. reflexivity. Qed.
Global Opaque blen.

Lemma is_bytes_nil : is_bytes [].
Proof. constructor. Qed.
Lemma is_bytes_cons x l : is_bytes (x :: l) <-> x < 256 /\ is_bytes l.
Proof. unfold is_bytes, is_byte. split; [intros H; inversion H; auto | intros [H1 H2]; constructor; auto]. Qed.
Lemma is_bytes_app a b : is_bytes (a ++ b) <-> is_bytes a /\ is_bytes b.
Proof. unfold is_bytes. apply Forall_app. Qed.

(* finite sweep: a decidable property checked on 0..n-1 holds below n *)
Fixpoint below (n : nat) : list N :=
  match n with O => [] | S k => N.of_nat k :: below k end.
Lemma sweep (P : N -> bool) (n : nat) :
  forallb P (below n) = true -> forall x, x < N.of_nat n -> P x = true.
Proof.
  induction n as [|k IH]; intros H x Hx; [lia|].
  cbn [below forallb] in H. apply andb_true_iff in H as [H1 H2].
  destruct (N.eq_dec x (N.of_nat k)) as [->|Hne]; [exact H1|]. apply IH; [exact H2|lia].
Qed.
Lemma byte_sweep (P : N -> bool) :
  forallb P (below 256) = true -> forall x, x < 256 -> P x = true.
Proof. intros H x Hx. apply (sweep P 256 H). exact Hx. Qed.

(* ------------------------------------------------------------------ big-endian integers *)

Lemma fold_be c : forall acc,
  fold_left (fun a x => a * 256 + x) c acc = acc * 256 ^ blen c + be_decode c.
Proof.
  unfold be_decode. induction c as [|x c IH]; intros acc.
  - rewrite blen_nil. cbn [fold_left]. rewrite N.pow_0_r. lia.
  - cbn [fold_left]. rewrite IH. rewrite (IH (0 * 256 + x)). rewrite blen_cons.
    rewrite N.add_1_l, N.pow_succ_r'. lia.
Qed.

Lemma be_decode_nil : be_decode [] = 0.
Proof. reflexivity. Qed.
Lemma be_decode_cons x c : be_decode (x :: c) = x * 256 ^ blen c + be_decode c.
Proof. unfold be_decode at 1. cbn [fold_left]. rewrite fold_be. lia. Qed.

Lemma be_encode_length k v : length (be_encode k v) = k.
Proof. induction k as [|k IH]; cbn [be_encode length]; [reflexivity | rewrite IH; reflexivity]. Qed.
Lemma be_encode_blen k v : blen (be_encode k v) = N.of_nat k.
Proof. rewrite blen_length, be_encode_length. reflexivity. Qed.

Lemma be_encode_bytes k v : is_bytes (be_encode k v).
Proof.
  induction k as [|k IH]; cbn [be_encode]; [constructor|].
  apply is_bytes_cons. split; [apply N.mod_lt; lia | exact IH].
Qed.

Lemma be_decode_encode_mod k v : be_decode (be_encode k v) = v mod 256 ^ N.of_nat k.
Proof.
  induction k as [|k IH].
  - cbn [be_encode]. rewrite be_decode_nil. cbn [N.of_nat]. rewrite N.pow_0_r, N.mod_1_r. reflexivity.
  - cbn [be_encode]. rewrite be_decode_cons, be_encode_blen, IH.
    rewrite Nat2N.inj_succ, N.pow_succ_r'.
    assert (Hp : 256 ^ N.of_nat k <> 0) by (apply N.pow_nonzero; lia).
    rewrite (N.mul_comm 256 (256 ^ N.of_nat k)).
    rewrite (N.mod_mul_r v (256 ^ N.of_nat k) 256) by lia. lia.
Qed.

Lemma be_decode_encode k v : v < 256 ^ N.of_nat k -> be_decode (be_encode k v) = v.
Proof. intros H. rewrite be_decode_encode_mod. apply N.mod_small. exact H. Qed.

Lemma be_decode_bound c : is_bytes c -> be_decode c < 256 ^ blen c.
Proof.
  induction c as [|x c IH]; intros Hb.
  - rewrite be_decode_nil, blen_nil, N.pow_0_r. lia.
  - apply is_bytes_cons in Hb as [Hx Hc]. specialize (IH Hc).
    rewrite be_decode_cons, blen_cons, N.add_1_l, N.pow_succ_r'. nia.
Qed.

(* ------------------------------------------------------------------ firstn / skipn *)

Lemma firstn_blen_app c r : firstn (N.to_nat (blen c)) (c ++ r) = c.
Proof.
  rewrite blen_length, Nat2N.id. rewrite firstn_app, Nat.sub_diag, firstn_all. cbn [firstn].
  apply app_nil_r.
Qed.
Lemma skipn_blen_app c r : skipn (N.to_nat (blen c)) (c ++ r) = r.
Proof.
  rewrite blen_length, Nat2N.id. rewrite skipn_app, Nat.sub_diag, skipn_all. reflexivity.
Qed.

(* ------------------------------------------------------------------ read_exact *)

Lemma read_exact_app n c r :
  blen c = n -> n <= 65535 -> read_exact n (c ++ r) = Ok (c, r).
Proof.
  intros <- Hn. unfold read_exact, max_alloc.
  destruct (N.ltb_spec 65535 (blen c)) as [H|_]; [lia|].
  destruct (N.leb_spec (blen c) (blen (c ++ r))) as [_|H]; [|rewrite blen_app in H; lia].
  rewrite firstn_blen_app, skipn_blen_app. reflexivity.
Qed.

Lemma read_exact_inv n b c r :
  read_exact n b = Ok (c, r) -> b = c ++ r /\ blen c = n /\ n <= 65535.
Proof.
  unfold read_exact, max_alloc. intros H.
  destruct (N.ltb_spec 65535 n) as [|Hn]; [discriminate|].
  destruct (N.leb_spec n (blen b)) as [Hl|]; [|discriminate].
  inversion H; subst; clear H. splits.
  - symmetry. apply firstn_skipn.
  - rewrite blen_length, firstn_length. rewrite blen_length in Hl. lia.
  - exact Hn.
Qed.

Lemma read_exact_nopanic n b : n <= 65535 -> read_exact n b <> Panic.
Proof.
  intros Hn. unfold read_exact, max_alloc.
  destruct (N.ltb_spec 65535 n); [lia|]. destruct (n <=? blen b); discriminate.
Qed.

(* the instrumented primitive reports every request above 65535 bytes *)
Lemma read_exact_oversize n b : 65535 < n -> read_exact n b = Panic.
Proof. intros Hn. unfold read_exact, max_alloc. destruct (N.ltb_spec 65535 n); [reflexivity|lia]. Qed.

Lemma read_exact_ok n b c r :
  is_bytes b -> read_exact n b = Ok (c, r) ->
  is_bytes c /\ is_bytes r /\ blen c = n /\ n + blen r = blen b.
Proof.
  intros Hb H. apply read_exact_inv in H as (-> & Hc & _).
  apply is_bytes_app in Hb as [H1 H2]. rewrite blen_app. splits; auto. lia.
Qed.

(* ------------------------------------------------------------------ read_u8 *)

Lemma read_u8_cons x r : read_u8 (x :: r) = Ok (x, r).
Proof. reflexivity. Qed.
Lemma read_u8_inv b x r : read_u8 b = Ok (x, r) -> b = x :: r.
Proof. destruct b; cbn [read_u8]; intros H; [discriminate | inversion H; reflexivity]. Qed.
Lemma read_u8_ok b x r :
  is_bytes b -> read_u8 b = Ok (x, r) -> x < 256 /\ is_bytes r /\ 1 + blen r = blen b.
Proof.
  intros Hb H. apply read_u8_inv in H as ->. apply is_bytes_cons in Hb as [H1 H2].
  rewrite blen_cons. auto.
Qed.
Lemma read_u8_nopanic b : read_u8 b <> Panic.
Proof. destruct b; discriminate. Qed.

(* ------------------------------------------------------------------ bind *)

Lemma bind_ok {A B} (m : outcome A) (f : A -> outcome B) y :
  bind m f = Ok y -> exists x, m = Ok x /\ f x = Ok y.
Proof. destruct m; cbn [bind]; intros H; [eauto | discriminate | discriminate]. Qed.

Lemma bind_nopanic {A B} (m : outcome A) (f : A -> outcome B) :
  m <> Panic -> (forall x, m = Ok x -> f x <> Panic) -> bind m f <> Panic.
Proof. destruct m; cbn [bind]; intros H1 H2; [apply H2; reflexivity | discriminate | congruence]. Qed.

Lemma of_option_nopanic {A} (o : option A) : of_option o <> Panic.
Proof. destruct o; discriminate. Qed.
Lemma of_option_ok {A} (o : option A) a : of_option o = Ok a -> o = Some a.
Proof. destruct o; cbn; intros H; [inversion H; reflexivity | discriminate]. Qed.
Lemma of_option_some {A} (a : A) : of_option (Some a) = Ok a.
Proof. reflexivity. Qed.

(* ------------------------------------------------------------------ read_be *)

Lemma read_be_app k v r :
  v < 256 ^ N.of_nat k -> N.of_nat k <= 65535 -> read_be k (be_encode k v ++ r) = Ok (v, r).
Proof.
  intros Hv Hk. unfold read_be. rewrite read_exact_app by (auto using be_encode_blen).
  cbn [bind]. rewrite be_decode_encode by exact Hv. reflexivity.
Qed.

Lemma read_be_ok k b v r :
  is_bytes b -> read_be k b = Ok (v, r) ->
  v < 256 ^ N.of_nat k /\ is_bytes r /\ N.of_nat k + blen r = blen b.
Proof.
  intros Hb H. unfold read_be in H. apply bind_ok in H as ([c r'] & E & H).
  inversion H; subst; clear H. apply (read_exact_ok _ _ _ _ Hb) in E as (Hc & Hr & Hl & Hs).
  splits; auto. rewrite <- Hl. apply be_decode_bound. exact Hc.
Qed.

Lemma read_be_nopanic k b : N.of_nat k <= 65535 -> read_be k b <> Panic.
Proof.
  intros Hk. unfold read_be. apply bind_nopanic; [apply read_exact_nopanic; exact Hk|].
  intros [c r] _. discriminate.
Qed.

(* ------------------------------------------------------------------ LV, names *)

Lemma as_u8_small x : x <= 255 -> as_u8 x = x.
Proof. intros H. unfold as_u8. apply N.mod_small. lia. Qed.

Lemma read_lv_app v r : blen v <= 255 -> read_lv (lv_encode v ++ r) = Ok (v, r).
Proof.
  intros Hv. unfold read_lv, lv_encode. rewrite as_u8_small by exact Hv.
  cbn [app]. rewrite read_u8_cons. cbn [bind]. apply read_exact_app; [reflexivity | lia].
Qed.

Lemma read_lv_ok b v r :
  is_bytes b -> read_lv b = Ok (v, r) ->
  is_bytes v /\ blen v <= 255 /\ is_bytes r /\ 1 + blen v + blen r = blen b.
Proof.
  intros Hb H. unfold read_lv in H. apply bind_ok in H as ([n r'] & E & H).
  apply (read_u8_ok _ _ _ Hb) in E as (Hn & Hr' & Hl).
  apply (read_exact_ok _ _ _ _ Hr') in H as (Hv & Hr & Hlv & Hs). splits; auto; lia.
Qed.

Lemma read_lv_nopanic b : is_bytes b -> read_lv b <> Panic.
Proof.
  intros Hb. unfold read_lv. apply bind_nopanic; [apply read_u8_nopanic|].
  intros [n r] E. apply (read_u8_ok _ _ _ Hb) in E as (Hn & _ & _).
  apply read_exact_nopanic. lia.
Qed.

Lemma lv_encode_blen v : blen (lv_encode v) = 1 + blen v.
Proof. unfold lv_encode. apply blen_cons. Qed.

Lemma read_name_app v r :
  blen v <= 255 -> utf8_valid v = true -> read_name (lv_encode v ++ r) = Ok (v, r).
Proof.
  intros Hv Hu. unfold read_name. rewrite read_lv_app by exact Hv. cbn [bind].
  unfold utf8_name. rewrite Hu. reflexivity.
Qed.

Lemma read_name_ok b v r :
  is_bytes b -> read_name b = Ok (v, r) ->
  is_bytes v /\ blen v <= 255 /\ utf8_valid v = true /\ is_bytes r /\ 1 + blen v + blen r = blen b.
Proof.
  intros Hb H. unfold read_name in H. apply bind_ok in H as ([v' r'] & E & H).
  apply (read_lv_ok _ _ _ Hb) in E as (H1 & H2 & H3 & H4).
  unfold utf8_name in H. destruct (utf8_valid v') eqn:Eu; cbn [bind] in H; [|discriminate].
  inversion H; subst; clear H. splits; auto.
Qed.

Lemma read_name_nopanic b : is_bytes b -> read_name b <> Panic.
Proof.
  intros Hb. unfold read_name. apply bind_nopanic; [apply read_lv_nopanic; exact Hb|].
  intros [v r] _. unfold utf8_name. destruct (utf8_valid v); discriminate.
Qed.

(* ------------------------------------------------------------------ repeat until empty *)

Section Repeat.
  Context {A : Type} (d : rd A) (enc : A -> bytes) (wf : A -> Prop) (len : A -> N).

  (* more fuel than bytes never changes the result, when each iteration consumes >= 1 byte:
     the fuel of [repeat_dec] is not observable, the loop stops because the buffer is empty *)
  Hypothesis d_progress : forall b a r, is_bytes b -> d b = Ok (a, r) -> is_bytes r /\ blen r < blen b.

  Lemma repeat_dec_fuel2 : forall f1 f2 b, is_bytes b -> (length b <= f1)%nat -> (length b <= f2)%nat ->
    repeat_dec f1 d b = repeat_dec f2 d b.
  Proof.
    induction f1 as [|f1 IH]; intros f2 b Hb H1 H2.
    - destruct b; [destruct f2; reflexivity | cbn [length] in H1; lia].
    - destruct b as [|x b']; [destruct f2; reflexivity|].
      cbn [length] in H1, H2. destruct f2 as [|f2]; [lia|].
      cbn [repeat_dec]. destruct (d (x :: b')) as [[a r]| |] eqn:E; cbn [bind]; try reflexivity.
      apply (d_progress _ _ _ Hb) in E as [Hr E]. rewrite !blen_length in E. cbn [length] in E.
      rewrite (IH f2 r) by (auto; lia). reflexivity.
  Qed.

  Lemma repeat_dec_fuel : forall fuel b, is_bytes b -> (length b <= fuel)%nat ->
    repeat_dec fuel d b = repeat_until_empty d b.
  Proof. intros fuel b Hb H. unfold repeat_until_empty. apply repeat_dec_fuel2; [exact Hb | exact H | lia]. Qed.

  Hypothesis d_rt : forall a r, wf a -> d (enc a ++ r) = Ok (a, r).
  Hypothesis enc_nonempty : forall a, wf a -> enc a <> [].

  Lemma repeat_dec_rt : forall l fuel, Forall wf l -> (length (flat_map enc l) <= fuel)%nat ->
    repeat_dec fuel d (flat_map enc l) = Ok l.
  Proof.
    induction l as [|a l IH]; intros fuel Hw Hf.
    - cbn [flat_map]. destruct fuel; reflexivity.
    - inversion Hw as [|? ? Ha Hl]; subst. cbn [flat_map] in *.
      destruct (enc a ++ flat_map enc l) as [|x t] eqn:Ex.
      + apply app_eq_nil in Ex as [Ex _]. apply enc_nonempty in Ha. contradiction.
      + destruct fuel as [|f]; [cbn [length] in Hf; lia|].
        cbn [repeat_dec]. rewrite <- Ex. rewrite d_rt by exact Ha. cbn [bind].
        rewrite IH; [reflexivity | exact Hl |].
        assert (Hne : enc a <> []) by (apply enc_nonempty; exact Ha).
        assert (Hlen : length (x :: t) = (length (enc a) + length (flat_map enc l))%nat)
          by (rewrite <- Ex; apply app_length).
        destruct (enc a); [contradiction|]. cbn [length] in *. lia.
  Qed.

  Lemma repeat_until_empty_rt l : Forall wf l ->
    repeat_until_empty d (flat_map enc l) = Ok l.
  Proof. intros H. unfold repeat_until_empty. apply repeat_dec_rt; [exact H | lia]. Qed.

  Hypothesis d_ok : forall b a r, is_bytes b -> d b = Ok (a, r) ->
    wf a /\ is_bytes r /\ len a + blen r <= blen b.

  Lemma repeat_dec_ok : forall fuel b l, is_bytes b -> repeat_dec fuel d b = Ok l ->
    Forall wf l /\ fold_left (fun acc a => acc + len a) l 0 <= blen b.
  Proof.
    assert (Hfold : forall l acc, fold_left (fun acc a => acc + len a) l acc
                                  = acc + fold_left (fun acc a => acc + len a) l 0).
    { induction l as [|a l IHl]; intros acc; cbn [fold_left]; [lia|].
      rewrite IHl. rewrite (IHl (0 + len a)). lia. }
    induction fuel as [|f IH]; intros b l Hb H.
    - destruct b; cbn [repeat_dec] in H; [|discriminate]. inversion H; subst. split; [constructor|].
      cbn [fold_left]. lia.
    - destruct b as [|x b']; cbn [repeat_dec] in H.
      + inversion H; subst. split; [constructor|]. cbn [fold_left]. lia.
      + apply bind_ok in H as ([a r] & E & H). apply bind_ok in H as (xs & E2 & H).
        inversion H; subst; clear H.
        destruct (d_ok _ _ _ Hb E) as (Hwa & Hr & Hlen).
        destruct (IH _ _ Hr E2) as (Hwl & Hsum). split; [constructor; auto|].
        cbn [fold_left]. rewrite Hfold. lia.
  Qed.

  Hypothesis d_total : forall b, is_bytes b -> d b <> Panic.

  Lemma repeat_dec_nopanic : forall fuel b, is_bytes b -> repeat_dec fuel d b <> Panic.
  Proof.
    induction fuel as [|f IH]; intros b Hb.
    - destruct b; discriminate.
    - destruct b as [|x b']; [discriminate|]. cbn [repeat_dec].
      apply bind_nopanic; [apply d_total; exact Hb|]. intros [a r] E.
      destruct (d_ok _ _ _ Hb E) as (_ & Hr & _).
      apply bind_nopanic; [apply IH; exact Hr|]. intros; discriminate.
  Qed.
End Repeat.

(* sums computed by `iter().fold(0, |acc, x| acc + f(x))` *)
Lemma fold_sum_shift {A} (g : A -> N) : forall l acc,
  fold_left (fun acc a => acc + g a) l acc = acc + fold_left (fun acc a => acc + g a) l 0.
Proof.
  induction l as [|a l IH]; intros acc; cbn [fold_left]; [lia|].
  rewrite IH. rewrite (IH (0 + g a)). lia.
Qed.

Lemma flat_map_blen {A} (enc : A -> bytes) (g : A -> N) (P : A -> Prop) :
  (forall a, P a -> blen (enc a) = g a) ->
  forall l, Forall P l -> blen (flat_map enc l) = fold_left (fun acc a => acc + g a) l 0.
Proof.
  intros Hg. induction l as [|a l IH]; intros Hl; [reflexivity|].
  inversion Hl; subst. cbn [flat_map fold_left]. rewrite blen_app, fold_sum_shift, IH, Hg by assumption. lia.
Qed.

(* ------------------------------------------------------------------ automation *)

(* one inversion step on a hypothesis  [H : <monadic expression> = Ok _] *)
Ltac inv_ok H :=
  repeat match type of H with
  | bind ?m ?f = Ok _ =>
      let E := fresh "E" in
      let x := fresh "x" in
      destruct m as [x| |] eqn:E; cbn [bind] in H; [ | discriminate H | discriminate H ]
  | (let '(_, _) := ?p in _) = Ok _ => destruct p
  | Ok _ = Ok _ => inversion H; subst; clear H
  end.
