(* Encodings of well-formed values are byte strings (every element < 256), so the theorems about
   decoding byte strings (Props/C06.v) apply to what the encoder produces, and error patterns
   can be applied octet-wise to encodings (C15). *)
From CFDP Require Import Base.Prelude Model.PduUser Model.CodecBase Model.Codec Model.CodecUser Model.Crc
  Proofs.EnumsP Proofs.CodecBaseP Proofs.CodecP Proofs.CodecUserP.

Lemma is_bytes_one x : x < 256 -> is_bytes [x].
Proof. intros H. apply is_bytes_cons. split; [exact H | constructor]. Qed.

Lemma is_bytes_cons_intro x l : x < 256 -> is_bytes l -> is_bytes (x :: l).
Proof. intros. apply is_bytes_cons. auto. Qed.

Lemma is_bytes_app_intro a b : is_bytes a -> is_bytes b -> is_bytes (a ++ b).
Proof. intros. apply is_bytes_app. auto. Qed.

Lemma is_bytes_flat_map {A} (enc : A -> bytes) (P : A -> Prop) :
  (forall a, P a -> is_bytes (enc a)) -> forall l, Forall P l -> is_bytes (flat_map enc l).
Proof.
  intros H. induction l as [|a l IH]; intros Hl; [constructor|].
  inversion Hl; subst. cbn [flat_map]. apply is_bytes_app_intro; auto.
Qed.

Lemma as_u8_lt x : as_u8 x < 256.
Proof. unfold as_u8. apply N.mod_lt. lia. Qed.

Lemma lv_encode_bytes v : is_bytes v -> is_bytes (lv_encode v).
Proof. intros H. unfold lv_encode. apply is_bytes_cons_intro; [apply as_u8_lt | exact H]. Qed.

Lemma wf_name_bytes v : wf_name v -> is_bytes v.
Proof. intros [[H _] _]. exact H. Qed.
Lemma wf_lv_bytes v : wf_lv v -> is_bytes v.
Proof. intros [H _]. exact H. Qed.

Lemma varid_be_bytes i : is_bytes (varid_be i).
Proof. destruct i; cbn [varid_be]; apply be_encode_bytes. Qed.

Lemma varid_encode_bytes i : is_bytes (varid_encode i).
Proof.
  unfold varid_encode. apply is_bytes_cons_intro; [|apply varid_be_bytes].
  destruct i; cbn [varid_len]; lia.
Qed.

Lemma fss_encode_bytes f v : is_bytes (fss_encode f v).
Proof. unfold fss_encode. apply be_encode_bytes. Qed.

Ltac byte_cases := repeat match goal with x : _ |- _ => destruct x end; vm_compute; reflexivity.

(* ------------------------------------------------------------------ header *)

Lemma header_first_byte_lt h : header_first_byte h < 256.
Proof. destruct h as [v t d m c l ? ? ? ? ? ?]. destruct v, t, d, m, c, l; vm_compute; reflexivity. Qed.

Lemma header_fourth_byte_lt h : header_fourth_byte h < 256.
Proof. destruct h as [? ? ? ? ? ? ? sc sm src seq ?]. destruct sc, sm, src, seq; vm_compute; reflexivity. Qed.

Lemma header_encode_bytes h : is_bytes (header_encode h).
Proof.
  unfold header_encode. apply is_bytes_cons_intro; [apply header_first_byte_lt|].
  apply is_bytes_app_intro; [apply be_encode_bytes|].
  apply is_bytes_cons_intro; [apply header_fourth_byte_lt|].
  repeat apply is_bytes_app_intro; apply varid_be_bytes.
Qed.

(* ------------------------------------------------------------------ filestore, TLVs *)

Lemma fs_request_encode_bytes q : wf_fs_request q -> is_bytes (fs_request_encode q).
Proof.
  intros [H1 H2]. unfold fs_request_encode. apply is_bytes_cons_intro.
  - destruct (fq_action q); vm_compute; reflexivity.
  - apply is_bytes_app_intro; apply lv_encode_bytes; apply wf_name_bytes; assumption.
Qed.

Lemma fs_status_u8_lt s : fs_status_u8 s < 256.
Proof. destruct s as [v|v|v|v|v|v|v|v|v]; destruct v; vm_compute; reflexivity. Qed.

Lemma fs_response_encode_bytes p : wf_fs_response p -> is_bytes (fs_response_encode p).
Proof.
  intros (H1 & H2 & H3). unfold fs_response_encode.
  apply is_bytes_cons_intro; [apply fs_status_u8_lt|].
  repeat apply is_bytes_app_intro; apply lv_encode_bytes;
    first [apply wf_name_bytes; assumption | apply wf_lv_bytes; assumption].
Qed.

Lemma tlv_encode_bytes t : wf_tlv t -> is_bytes (tlv_encode t).
Proof.
  intros Hw. unfold tlv_encode. apply is_bytes_cons_intro; [apply MetadataTLVFieldCode_fits|].
  destruct t; cbn [wf_tlv] in Hw.
  - apply fs_request_encode_bytes; exact Hw.
  - apply fs_response_encode_bytes; exact Hw.
  - apply lv_encode_bytes, wf_lv_bytes; exact Hw.
  - apply is_bytes_one. apply HandlerCode_fits.
  - apply lv_encode_bytes, wf_lv_bytes; exact Hw.
  - apply varid_encode_bytes.
Qed.

Lemma fault_encode_bytes fl : is_bytes (fault_encode fl).
Proof.
  destruct fl as [i|]; cbn [fault_encode]; [|constructor].
  apply is_bytes_cons_intro; [apply MetadataTLVFieldCode_fits | apply varid_encode_bytes].
Qed.

(* ------------------------------------------------------------------ directives *)

Lemma cond_shift_lt c : N.shiftl (Condition_to_u8 c) 4 < 256.
Proof. destruct c; vm_compute; reflexivity. Qed.

Lemma eof_encode_bytes f e : is_bytes (eof_encode f e).
Proof.
  unfold eof_encode. apply is_bytes_cons_intro; [apply cond_shift_lt|].
  repeat apply is_bytes_app_intro;
    [apply be_encode_bytes | apply fss_encode_bytes | apply fault_encode_bytes].
Qed.

Lemma finished_first_byte_lt p : finished_first_byte p < 256.
Proof. destruct p as [c d s ? ?]. destruct c, d, s; vm_compute; reflexivity. Qed.

Lemma finished_encode_bytes p : wf_finished p -> is_bytes (finished_encode p).
Proof.
  intros (Hq & _ & _). unfold finished_encode.
  apply is_bytes_cons_intro; [apply finished_first_byte_lt|].
  apply is_bytes_app_intro; [|apply fault_encode_bytes].
  apply (is_bytes_flat_map fin_response_encode wf_fin_resp); [|exact Hq].
  intros q [Hw _]. unfold fin_response_encode.
  apply is_bytes_cons_intro; [apply MetadataTLVFieldCode_fits|].
  apply lv_encode_bytes, fs_response_encode_bytes. exact Hw.
Qed.

Lemma ack_encode_bytes a : wf_ack a -> is_bytes (ack_encode a).
Proof.
  destruct a as [d s c t]. unfold wf_ack, ack_encode.
  cbn [ack_directive ack_subtype ack_condition ack_status]. intros Hw.
  apply is_bytes_cons_intro; [destruct Hw as [[-> ->]|[-> ->]]; vm_compute; reflexivity|].
  apply is_bytes_one. destruct c, t; vm_compute; reflexivity.
Qed.

Lemma metadata_encode_bytes f m : wf_metadata f m -> is_bytes (metadata_encode f m).
Proof.
  intros (_ & H1 & H2 & Ho). unfold metadata_encode. apply is_bytes_cons_intro.
  - destruct (md_closure_requested m), (md_checksum_type m); vm_compute; reflexivity.
  - repeat apply is_bytes_app_intro;
      [ apply fss_encode_bytes | apply lv_encode_bytes, wf_name_bytes; exact H1
      | apply lv_encode_bytes, wf_name_bytes; exact H2
      | apply (is_bytes_flat_map tlv_encode wf_tlv); [exact tlv_encode_bytes | exact Ho] ].
Qed.

Lemma nak_encode_bytes f n : is_bytes (nak_encode f n).
Proof.
  unfold nak_encode. repeat apply is_bytes_app_intro; try apply fss_encode_bytes.
  apply (is_bytes_flat_map (segment_encode f) (fun _ => True)); [|apply Forall_forall; auto].
  intros s _. unfold segment_encode. apply is_bytes_app_intro; apply fss_encode_bytes.
Qed.

Lemma operations_encode_bytes f o : wf_operations f o -> is_bytes (operations_encode f o).
Proof.
  intros Hw. unfold operations_encode. apply is_bytes_cons_intro.
  - apply N.lt_trans with (m := 16); [apply PDUDirective_fits | reflexivity].
  - destruct o; cbn [wf_operations] in Hw.
    + apply eof_encode_bytes.
    + apply finished_encode_bytes; exact Hw.
    + apply ack_encode_bytes; exact Hw.
    + apply metadata_encode_bytes; exact Hw.
    + apply nak_encode_bytes.
    + unfold prompt_encode. apply is_bytes_one. destruct p; vm_compute; reflexivity.
    + unfold keepalive_encode. apply fss_encode_bytes.
Qed.

(* ------------------------------------------------------------------ file data, payload *)

Lemma pack_2_6_lt c n : c < 4 -> n < 64 -> N.lor (N.shiftl c 6) n < 256.
Proof.
  intros Hc Hn.
  assert (S : forallb (fun c => forallb (fun n => N.lor (N.shiftl c 6) n <? 256) (below 64)) (below 4) = true)
    by (vm_compute; reflexivity).
  pose proof (sweep _ 4 S c Hc) as S1. cbv beta in S1.
  pose proof (sweep _ 64 S1 n Hn) as S2. cbv beta in S2. apply N.ltb_lt in S2. exact S2.
Qed.

Lemma file_data_encode_bytes f d : wf_file_data f d -> is_bytes (file_data_encode f d).
Proof.
  destruct d; cbn [wf_file_data file_data_encode]; intros Hw.
  - destruct Hw as [_ Hd]. apply is_bytes_app_intro; [apply fss_encode_bytes | exact Hd].
  - destruct Hw as (Hm & Hl & _ & Hd). apply is_bytes_cons_intro.
    + rewrite as_u8_small by lia. apply pack_2_6_lt; [apply RecordContinuationState_fits | lia].
    + repeat apply is_bytes_app_intro; auto using fss_encode_bytes.
Qed.

Lemma payload_encode_bytes f p : wf_payload f p -> is_bytes (payload_encode f p).
Proof.
  destruct p; cbn [wf_payload payload_encode];
    [apply operations_encode_bytes | apply file_data_encode_bytes].
Qed.

(* ------------------------------------------------------------------ CRC-16 is a 16-bit value *)

Lemma lxor_lt16 a b : a < 65536 -> b < 65536 -> N.lxor a b < 65536.
Proof.
  intros Ha Hb.
  destruct (N.eq_dec a 0) as [->|Ha0]; [rewrite N.lxor_0_l; exact Hb|].
  destruct (N.eq_dec b 0) as [->|Hb0]; [rewrite N.lxor_0_r; exact Ha|].
  destruct (N.eq_dec (N.lxor a b) 0) as [->|Hne]; [lia|].
  change 65536 with (2 ^ 16) in *. apply N.log2_lt_pow2; [lia|].
  pose proof (N.log2_lxor a b) as Hl.
  assert (La : N.log2 a < 16) by (apply N.log2_lt_pow2; lia).
  assert (Lb : N.log2 b < 16) by (apply N.log2_lt_pow2; lia).
  lia.
Qed.

Lemma land_mask16_lt x : N.land x mask16 < 65536.
Proof. unfold mask16. change 65535 with (N.ones 16). rewrite N.land_ones. apply N.mod_lt. discriminate. Qed.

Lemma crc_shift_lt c : crc_shift c < 65536.
Proof.
  unfold crc_shift. destruct (N.testbit c 15); [|apply land_mask16_lt].
  apply lxor_lt16; [apply land_mask16_lt | unfold crc_poly; lia].
Qed.

Lemma crc_byte_lt c x : crc_byte c x < 65536.
Proof. unfold crc_byte. apply crc_shift_lt. Qed.

Lemma crc16_lt16 m : crc16 m < 65536.
Proof.
  unfold crc16. assert (H : forall l acc, acc < 65536 -> fold_left crc_byte l acc < 65536).
  { induction l as [|x l IH]; intros acc Ha; cbn [fold_left]; [exact Ha|]. apply IH. apply crc_byte_lt. }
  apply H. unfold mask16. lia.
Qed.

Lemma crc_bytes_bytes m : is_bytes (crc_bytes m).
Proof.
  unfold crc_bytes. pose proof (crc16_lt16 m) as H.
  apply is_bytes_cons_intro; [|apply is_bytes_one].
  - rewrite N.shiftr_div_pow2. change (2 ^ 8) with 256. apply N.div_lt_upper_bound; lia.
  - change 255 with (N.ones 8). rewrite N.land_ones. apply N.mod_lt. discriminate.
Qed.

(* ------------------------------------------------------------------ whole PDU, user operations, Report *)

Lemma pdu_encode_bytes_holds p : wf_pdu p -> is_bytes (pdu_encode p).
Proof.
  intros (_ & Hp & _ & _). unfold pdu_encode.
  assert (Hb : is_bytes (header_encode (pdu_hdr p) ++ payload_encode (h_large (pdu_hdr p)) (pdu_pl p)))
    by (apply is_bytes_app_intro; [apply header_encode_bytes | apply payload_encode_bytes; exact Hp]).
  destruct (h_crc (pdu_hdr p)); [exact Hb|].
  apply is_bytes_app_intro; [exact Hb | apply crc_bytes_bytes].
Qed.

Lemma id_pair_encode_bytes s q : is_bytes (id_pair_encode s q).
Proof.
  unfold id_pair_encode. apply is_bytes_cons_intro.
  - destruct s, q; vm_compute; reflexivity.
  - apply is_bytes_app_intro; apply varid_be_bytes.
Qed.

Lemma lv_id_encode_bytes i : is_bytes (lv_id_encode i).
Proof.
  unfold lv_id_encode. apply is_bytes_cons_intro; [destruct i; cbn [varid_len]; lia | apply varid_be_bytes].
Qed.

Lemma with_len_byte_bytes m : is_bytes m -> is_bytes (with_len_byte m).
Proof. intros H. unfold with_len_byte. apply is_bytes_cons_intro; [apply as_u8_lt | exact H]. Qed.

Lemma uo_body_encode_bytes u : wf_uo u -> is_bytes (uo_body_encode u).
Proof.
  intros Hw. destruct u as [s q|p|p|p|q|m|v|c|q|p|p]; cbn [wf_uo uo_body_encode] in *.
  - apply id_pair_encode_bytes.
  - destruct p as [d s t|m|q|c|m|v|c|]; cbn [wf_proxy proxy_encode] in *.
    + destruct Hw as (_ & H1 & H2).
      repeat apply is_bytes_app_intro;
        [apply lv_id_encode_bytes | apply lv_encode_bytes, wf_name_bytes; exact H1
         | apply lv_encode_bytes, wf_name_bytes; exact H2].
    + apply lv_encode_bytes, wf_lv_bytes; exact Hw.
    + apply with_len_byte_bytes, fs_request_encode_bytes; exact Hw.
    + apply is_bytes_one, HandlerCode_fits.
    + apply is_bytes_one. destruct m; vm_compute; reflexivity.
    + apply lv_encode_bytes, wf_lv_bytes; exact Hw.
    + apply is_bytes_one. destruct c; vm_compute; reflexivity.
    + constructor.
  - destruct p as [c d s|p|c d f|st code s q|ind st s q|ind st s q]; cbn [wf_response response_encode] in *.
    + apply is_bytes_one. destruct c, d, s; vm_compute; reflexivity.
    + apply with_len_byte_bytes, fs_response_encode_bytes; exact Hw.
    + destruct Hw as [H1 H2]. apply is_bytes_cons_intro; [apply ListingResponseCode_fits|].
      apply is_bytes_app_intro; apply lv_encode_bytes, wf_name_bytes; assumption.
    + apply is_bytes_cons_intro; [destruct st, code; vm_compute; reflexivity | apply id_pair_encode_bytes].
    + apply is_bytes_cons_intro; [destruct ind, st; vm_compute; reflexivity | apply id_pair_encode_bytes].
    + apply is_bytes_cons_intro; [destruct ind, st; vm_compute; reflexivity | apply id_pair_encode_bytes].
  - destruct p as [d f|s q f|s q|s q]; cbn [wf_request request_encode] in *.
    + destruct Hw as [H1 H2]. apply is_bytes_app_intro; apply lv_encode_bytes, wf_name_bytes; assumption.
    + destruct Hw as (_ & _ & H1). apply is_bytes_app_intro;
        [apply id_pair_encode_bytes | apply lv_encode_bytes, wf_name_bytes; exact H1].
    + apply id_pair_encode_bytes.
    + apply id_pair_encode_bytes.
  - destruct Hw as (Hp & Hl & _ & _ & H1 & H2). unfold sfo_request_encode.
    apply is_bytes_cons_intro;
      [destruct q as [t m s c ? ? ? ? ? ?]; destruct t, m, s, c; vm_compute; reflexivity|].
    apply is_bytes_cons_intro; [exact Hp|].
    repeat apply is_bytes_app_intro;
      first [ apply lv_id_encode_bytes | apply lv_encode_bytes, wf_lv_bytes; assumption
            | apply lv_encode_bytes, wf_name_bytes; assumption ].
  - apply lv_encode_bytes, wf_lv_bytes; exact Hw.
  - apply lv_encode_bytes, wf_lv_bytes; exact Hw.
  - apply is_bytes_one, HandlerCode_fits.
  - apply with_len_byte_bytes, fs_request_encode_bytes; exact Hw.
  - apply with_len_byte_bytes, fs_response_encode_bytes; exact Hw.
  - destruct Hw as (Hl & _ & _ & _ & Hp & Hc). unfold sfo_report_encode.
    repeat apply is_bytes_app_intro;
      first [ apply lv_id_encode_bytes | apply lv_encode_bytes, wf_lv_bytes; assumption | idtac ].
    apply is_bytes_cons_intro; [exact Hp|]. apply is_bytes_cons_intro; [exact Hc|].
    apply is_bytes_one. destruct p as [? ? ? ? ? ? c d dc fs]; destruct c, d, dc, fs; vm_compute; reflexivity.
Qed.

Lemma uo_encode_bytes_holds u : wf_uo u -> is_bytes (uo_encode u).
Proof.
  intros Hw. unfold uo_encode. apply is_bytes_app_intro.
  - unfold user_ops_identifier. repeat (apply is_bytes_cons_intro; [reflexivity|]). constructor.
  - apply is_bytes_cons_intro; [apply MessageType_fits | apply uo_body_encode_bytes; exact Hw].
Qed.

Lemma report_encode_bytes_holds p : is_bytes (report_encode p).
Proof.
  unfold report_encode. repeat apply is_bytes_app_intro; try apply varid_encode_bytes.
  apply is_bytes_cons_intro; [apply TransactionState_fits|].
  apply is_bytes_cons_intro; [apply N.lt_trans with (m := 4); [apply TransactionStatus_fits | reflexivity]|].
  apply is_bytes_one. apply N.lt_trans with (m := 16); [apply Condition_fits | reflexivity].
Qed.
