(* C02, data level: one loss-free round of NAK / retransmission completes the file, whatever was
   lost before. *)
From CFDP Require Import Base.Prelude Model.Segments Model.Timer Model.TxTypes Model.Recv Model.Send
  Proofs.SegmentsP Proofs.TimerP Proofs.SendP.

(* the receiver's bookkeeping after the file data PDUs for the given pieces [p, q) have arrived *)
Definition ins_piece (v : segs) (pc : N * N) : segs :=
  if fst pc <? snd pc then fst (ins (fst pc) (snd pc) v) else v.
Definition ins_all (pcs : list (N * N)) (v : segs) : segs := fold_left ins_piece pcs v.

Lemma ins_piece_ok v pc : Inv v ->
  Inv (ins_piece v pc) /\ (forall x, covered (ins_piece v pc) x <-> covered v x \/ fst pc <= x < snd pc).
Proof.
  intros Hi. unfold ins_piece. destruct (N.ltb_spec (fst pc) (snd pc)) as [Hlt|Hge].
  - destruct (ins (fst pc) (snd pc) v) as [v' n] eqn:E.
    destruct (ins_ok _ _ _ Hlt Hi _ _ E) as (A & B & _). cbn [fst]. split; [exact A|exact B].
  - split; [exact Hi|]. intros x. split; [auto|]. intros [H|H]; [exact H|lia].
Qed.

Lemma ins_all_ok pcs : forall v, Inv v ->
  Inv (ins_all pcs v) /\
  (forall x, covered (ins_all pcs v) x <-> covered v x \/ exists pc, In pc pcs /\ fst pc <= x < snd pc).
Proof.
  induction pcs as [|pc t IH]; intros v Hi; cbn [ins_all fold_left].
  - split; [exact Hi|]. intros x. split; [auto|]. intros [H|(pc & [] & _)]. exact H.
  - destruct (ins_piece_ok v pc Hi) as (A & B). destruct (IH _ A) as (C & D). split; [exact C|].
    intros x. unfold ins_all in D. rewrite D, B. split.
    + intros [[H|H]|(pc' & Hin & H)]; [left; exact H | right; exists pc; split; [left; reflexivity|exact H]
                                      | right; exists pc'; split; [right; exact Hin|exact H]].
    + intros [H|(pc' & [Heq|Hin] & H)]; [left; left; exact H | subst pc'; left; right; exact H
                                        | right; exists pc'; split; assumption].
Qed.

(* the pieces into which the sender cuts one request cover the part of the request inside the file *)
Lemma split_covers seg fsize a e0 x : 0 < seg -> a <= x < N.min e0 fsize ->
  exists pc, In pc (split_request seg fsize (a, e0)) /\ fst pc <= x < snd pc.
Proof.
  intros Hseg Hx. unfold split_request.
  destruct ((a =? 0) && (e0 =? 0)) eqn:E0.
  { apply andb_prop in E0 as [A B]. apply N.eqb_eq in A. apply N.eqb_eq in B. subst. lia. }
  set (e := N.min e0 fsize) in *.
  destruct (N.leb_spec e a) as [Hle|Hlt]; [lia|].
  set (count := N.to_nat ((e - a + seg - 1) / seg)).
  set (k := (x - a) / seg).
  assert (Hk : k * seg <= x - a < (k + 1) * seg).
  { unfold k. apply div_bounds. exact Hseg. }
  assert (Hkc : k + 1 <= (e - a + seg - 1) / seg).
  { apply N.div_le_lower_bound; [lia|]. nia. }
  exists (let num := a + k * seg in if num <? e - seg then (num, num + seg) else (num, e)). split.
  - apply in_map_iff. exists k. split; [reflexivity|]. apply nseq_spec.
    unfold count. rewrite N2Nat.id. lia.
  - cbv zeta. destruct (N.ltb_spec (a + k * seg) (e - seg)); cbn [fst snd]; nia.
Qed.

(* C02, L2: whatever the receiver holds (any reachable bookkeeping v) and whatever the file size,
   if the requests it computes - gaps v 0 fsize, which is exactly what get_all_naks puts in its
   NAKs (C08) - are answered by the sender with the pieces it cuts them into (split_request,
   C07: each piece is sent as one truthful file data PDU), and those PDUs arrive, then the
   bookkeeping says the file is complete. One clean round suffices, however many were lost. *)
Theorem recovery_round v fsize seg : Inv v -> 0 < seg ->
  let pieces := flat_map (split_request seg fsize) (gaps v 0 fsize) in
  is_complete (ins_all pieces v) fsize = true.
Proof.
  intros Hi Hseg pieces.
  destruct (ins_all_ok pieces v Hi) as (A & B).
  apply (complete_iff _ _ A). intros x Hx. apply B.
  destruct (coveredb v x) eqn:Ec; [left; apply coveredb_spec; exact Ec|right].
  assert (Hnc : ~ covered v x) by (intros H; apply coveredb_spec in H; congruence).
  destruct (gaps_spec v 0 fsize Hi) as (_ & G2 & G3).
  assert (Hg : covered (gaps v 0 fsize) x) by (apply G3; split; [lia|exact Hnc]).
  destruct Hg as (a & e0 & Hin & Hax).
  destruct (G2 a e0 Hin) as (_ & He).
  destruct (split_covers seg fsize a e0 x Hseg) as (pc & Hpc & Hpx); [lia|].
  exists pc. split; [|exact Hpx]. unfold pieces. apply in_flat_map. exists (a, e0). split; assumption.
Qed.

(* and duplicates, reordering and extra (older) pieces do not matter: any super-multiset of the
   pieces, in any order, still completes the file *)
Theorem recovery_round_any_order v fsize seg pcs : Inv v -> 0 < seg ->
  (forall pc, In pc (flat_map (split_request seg fsize) (gaps v 0 fsize)) -> In pc pcs) ->
  (forall pc, In pc pcs -> snd pc <= fsize) ->
  is_complete (ins_all pcs v) fsize = true.
Proof.
  intros Hi Hseg Hsub _.
  destruct (ins_all_ok pcs v Hi) as (A & B).
  destruct (ins_all_ok (flat_map (split_request seg fsize) (gaps v 0 fsize)) v Hi) as (A' & B').
  pose proof (recovery_round v fsize seg Hi Hseg) as R. cbv zeta in R.
  pose proof (proj1 (complete_iff _ fsize A') R) as R'. apply (complete_iff _ _ A). intros x Hx. clear R. rename R' into R.
  apply B. specialize (R x Hx). apply B' in R. destruct R as [R|(pc & Hin & Hp)]; [left; exact R|].
  right. exists pc. split; [apply Hsub; exact Hin|exact Hp].
Qed.
