(* C03, the receiver's send arm: whenever has_pdu_to_send says it is enabled, one run of send_pdu
   emits at least one PDU or indication (an ACK(EOF), a Keep Alive, a NAK, the Finished PDU - or the
   NAK-limit fault). An enabled send arm that does nothing would make the task spin. *)
From CFDP Require Import Base.Prelude Model.Segments Model.Timer Model.TxTypes Model.Recv Proofs.Tac Proofs.TimerP.

Section RecvArmP.
Variable FS : Type.
Variable resp_len : fsresp -> N.
Variable req_len : fsreq -> N.
Notation rstate := (rstate FS).
Notation send_pdu := (send_pdu (FS:=FS) resp_len req_len).
Notation send_naks := (send_naks (FS:=FS) resp_len req_len).

Definition grows (s s' : rstate) : Prop := (length (r_out s) < length (r_out s'))%nat.

Lemma cancel_grows now (s : rstate) : grows s (cancel_ now s).
Proof. unfold grows, cancel_. cbv zeta. destruct (cfg_mode _); [|destruct (closure _)]; cbn; lia. Qed.
Lemma handle_fault_grows now c (s : rstate) : grows s (fst (handle_fault now c s)).
Proof.
  unfold handle_fault. set (s1 := emit_ind _ (set_r_cond c s)).
  assert (H1 : grows s s1) by (unfold grows, s1; cbn; lia). clearbody s1.
  destruct (handler _ c); cbn [fst].
  - pose proof (cancel_grows now s1). unfold grows in *. lia.
  - unfold grows in *. unfold suspend. cbn. cbn in H1. lia.
  - exact H1.
  - unfold grows in *. unfold abandon, shutdown. cbn. cbn in H1. lia.
Qed.

Lemma send_naks_grows now (s : rstate) : grows s (send_naks now s).
Proof.
  unfold Recv.send_naks.
  destruct (r_nak_recvd s =? r_recvd s).
  - unfold c_limit_reached. cbn [fst snd].
    set (s1 := upd_nak (fun _ => c_update now (t_nak (r_timer s))) s).
    assert (E1 : r_out s1 = r_out s) by reflexivity. clearbody s1.
    destruct (c_count _ =? c_max _).
    + pose proof (handle_fault_grows now NakLimitReached s1) as G.
      destruct (handle_fault now NakLimitReached s1) as [s2 cont]. cbn [fst] in G.
      unfold grows in *. rewrite E1 in G. destruct cont; [cbn; lia|exact G].
    + unfold grows. cbn. rewrite E1. lia.
  - unfold grows. cbn. lia.
Qed.

Theorem r_send_arm_progress now (s : rstate) : has_pdu_to_send s = true -> grows s (send_pdu now s).
Proof.
  intros He. unfold has_pdu_to_send in He. destruct (suspended s); [discriminate|].
  unfold Recv.send_pdu.
  destruct (r_prompt s) as [p|] eqn:Epr; cbn [is_some].
  { unfold answer_prompt. rewrite Epr. destruct p.
    - pose proof (send_naks_grows now (set_r_naks (get_all_naks (set_r_prompt None s)) (set_r_prompt None s))) as G.
      unfold grows in *. exact G.
    - unfold grows. cbn. lia. }
  destruct (r_phase s).
  - destruct (r_ack s) as [a|] eqn:Ea; cbn [is_some].
    + unfold send_ack_eof, grows. rewrite Ea. cbn. lia.
    + cbn [is_some orb] in He. rewrite He. apply send_naks_grows.
  - destruct (r_ack s) as [a|] eqn:Ea; cbn [is_some].
    + unfold send_ack_eof, grows. rewrite Ea. cbn. lia.
    + rewrite He. unfold fin_flag in He. unfold send_finished, grows.
      change (r_fin (upd_ack (c_restart now) s)) with (r_fin s).
      destruct (r_fin s) as [[f [|]]|] eqn:Ef; try discriminate.
      unfold set_fin_flag.
      change (r_fin (emit_pdu resp_len req_len (PFinished f) (upd_ack (c_restart now) s))) with (r_fin s).
      rewrite Ef. cbn. lia.
  - destruct (r_ack s) as [a|] eqn:Ea; cbn [is_some].
    + unfold send_ack_eof, grows. rewrite Ea. cbn. lia.
    + rewrite He. unfold fin_flag in He. unfold send_finished, grows.
      change (r_fin (upd_ack (c_restart now) s)) with (r_fin s).
      destruct (r_fin s) as [[f [|]]|] eqn:Ef; try discriminate.
      unfold set_fin_flag.
      change (r_fin (emit_pdu resp_len req_len (PFinished f) (upd_ack (c_restart now) s))) with (r_fin s).
      rewrite Ef. cbn. lia.
Qed.

End RecvArmP.
